package main

// throwaway spike: numeric single-field schemas -> real generator -> batch compile -> run docs;
// same cases as lines for the Lean driver.
import (
	"bufio"
	"encoding/json"
	"fmt"
	"os"
	"os/exec"
	"path/filepath"
	"strings"
	"time"

	"github.com/atombender/go-jsonschema/pkg/generator"
)

type Case struct {
	ID     int            `json:"id"`
	Pos    string         `json:"pos"` // required | optional | nullable
	Prop   map[string]any `json:"prop"`
	Docs   []string       `json:"docs"`
	Schema map[string]any `json:"-"`
}

func must(err error) {
	if err != nil {
		panic(err)
	}
}

func main() {
	work := os.Args[1]
	t0 := time.Now()
	var cases []Case
	id := 0
	xs := []any{nil, true, false, 2.0, 1.0, 3.0}
	ys := []any{nil, true, 8.0, 9.0, 7.0}
	for _, ty := range []string{"integer", "number"} {
		for _, pos := range []string{"required", "optional", "nullable"} {
			for _, mn := range []any{nil, 2.0} {
				for _, mx := range []any{nil, 8.0} {
					for _, xmn := range xs {
						for _, xmx := range ys {
							prop := map[string]any{}
							if pos == "nullable" {
								prop["type"] = []any{ty, "null"}
							} else {
								prop["type"] = ty
							}
							if mn != nil {
								prop["minimum"] = mn
							}
							if mx != nil {
								prop["maximum"] = mx
							}
							if xmn != nil {
								prop["exclusiveMinimum"] = xmn
							}
							if xmx != nil {
								prop["exclusiveMaximum"] = xmx
							}
							sch := map[string]any{"$id": fmt.Sprintf("urn:c%d", id), "type": "object", "properties": map[string]any{"v": prop}}
							if pos == "required" {
								sch["required"] = []any{"v"}
							}
							docs := []string{`{}`, `{"v":null}`}
							for _, v := range []string{"0", "1", "2", "3", "5", "7", "8", "9", "10"} {
								docs = append(docs, `{"v":`+v+`}`)
							}
							if ty == "number" {
								docs = append(docs, `{"v":2.5}`, `{"v":8.5}`, `{"v":1.5}`)
							} else {
								docs = append(docs, `{"v":2.5}`)
							}
							cases = append(cases, Case{ID: id, Pos: pos, Prop: prop, Docs: docs, Schema: sch})
							id++
						}
					}
				}
			}
		}
	}
	// 1. real generator, in-process
	must(os.MkdirAll(filepath.Join(work, "schemas"), 0o755))
	var reg strings.Builder
	var skipped []int
	var kept []Case
	reg.WriteString("package main\nimport (\n")
	for _, c := range cases {
		fn := filepath.Join(work, "schemas", fmt.Sprintf("c%d.json", c.ID))
		b, _ := json.Marshal(c.Schema)
		must(os.WriteFile(fn, b, 0o644))
		cfg := generator.Config{
			SchemaMappings: []generator.SchemaMapping{{SchemaID: fmt.Sprintf("urn:c%d", c.ID), PackageName: fmt.Sprintf("p%d", c.ID), RootType: "Root", OutputName: "-"}},
			DefaultPackageName: "x", DefaultOutputName: "-", Warner: func(string) {}, Tags: []string{"json"},
		}
		g, err := generator.New(cfg)
		must(err)
		must(g.DoFile(fn))
		src := g.Sources()["-"]
		if strings.Contains(string(src), "import \"fmt\"") && !strings.Contains(string(src), "fmt.") {
			skipped = append(skipped, c.ID)
			continue
		}
		kept = append(kept, c)
		dir := filepath.Join(work, "run", fmt.Sprintf("p%d", c.ID))
		must(os.MkdirAll(dir, 0o755))
		must(os.WriteFile(filepath.Join(dir, "out.go"), src, 0o644))
		fmt.Fprintf(&reg, "\t\"run/p%d\"\n", c.ID)
	}
	reg.WriteString(")\nvar reg = map[int]func() any{\n")
	cases = kept
	fmt.Printf("skipped (emitted file does not compile: fmt imported and not used): %d cases, e.g. %v\n", len(skipped), skipped[:min(5, len(skipped))])
	for _, c := range cases {
		fmt.Fprintf(&reg, "\t%d: func() any { return new(p%d.Root) },\n", c.ID, c.ID)
	}
	reg.WriteString("}\n")
	must(os.WriteFile(filepath.Join(work, "run", "reg.go"), []byte(reg.String()), 0o644))
	must(os.WriteFile(filepath.Join(work, "run", "main.go"), []byte(`package main
import ("bufio";"encoding/json";"fmt";"os";"strconv";"strings")
func main(){ sc:=bufio.NewScanner(os.Stdin); w:=bufio.NewWriter(os.Stdout); defer w.Flush()
 for sc.Scan(){ parts:=strings.SplitN(sc.Text(),"\t",2); id,_:=strconv.Atoi(parts[0])
  func(){ defer func(){ if r:=recover(); r!=nil { fmt.Fprintf(w,"%d\tpanic\n",id) } }()
   v:=reg[id](); if err:=json.Unmarshal([]byte(parts[1]),v); err!=nil { fmt.Fprintf(w,"%d\treject\n",id) } else { o,_:=json.Marshal(v); fmt.Fprintf(w,"%d\tok\t%s\n",id,o) } }()
 } }
`), 0o644))
	must(os.WriteFile(filepath.Join(work, "run", "go.mod"), []byte("module run\n\ngo 1.23.0\n"), 0o644))
	tGen := time.Since(t0)
	t1 := time.Now()
	cmd := exec.Command("go", "build", "-o", "runner", ".")
	cmd.Dir = filepath.Join(work, "run")
	cmd.Env = append(os.Environ(), "GOFLAGS=-mod=mod", "GOWORK=off")
	out, err := cmd.CombinedOutput()
	if err != nil {
		fmt.Println(string(out))
		panic(err)
	}
	tBuild := time.Since(t1)
	// 2. run docs through the real code
	t2 := time.Now()
	var in strings.Builder
	n := 0
	for _, c := range cases {
		for _, d := range c.Docs {
			fmt.Fprintf(&in, "%d\t%s\n", c.ID, d)
			n++
		}
	}
	run := exec.Command(filepath.Join(work, "run", "runner"))
	run.Stdin = strings.NewReader(in.String())
	implOut, err := run.Output()
	must(err)
	tRun := time.Since(t2)
	must(os.WriteFile(filepath.Join(work, "impl.txt"), implOut, 0o644))
	// 3. the same cases for the Lean driver
	f, _ := os.Create(filepath.Join(work, "cases.txt"))
	w := bufio.NewWriter(f)
	for _, c := range cases {
		b, _ := json.Marshal(c)
		fmt.Fprintf(w, "%s\n", b)
	}
	w.Flush()
	f.Close()
	fmt.Printf("cases=%d docs=%d gen=%v build=%v run=%v\n", len(cases), n, tGen, tBuild, tRun)
}

import Lean.Data.Json
open Lean

/-! throwaway spike driver: model of (generator decision + emitted numeric check) for a single field `v` -/

inductive XB where | absent | flag (b : Bool) | num (q : Rat)

def jnumToRat (n : JsonNumber) : Rat := (n.mantissa : Rat) / ((10 : Rat) ^ n.exponent)

def getXB (o : Json) (k : String) : XB :=
  match o.getObjVal? k with
  | .ok (.bool b) => .flag b
  | .ok (.num n) => .num (jnumToRat n)
  | _ => .absent

def getNum (o : Json) (k : String) : Option Rat :=
  match o.getObjVal? k with
  | .ok (.num n) => some (jnumToRat n)
  | _ => none

/-- mathutils.NormalizeBounds, lower side, AS THE CODE STANDS (strict comparison) -/
def normLo (minimum : Option Rat) (x : XB) : Option Rat × Bool :=
  match x with
  | .absent => (minimum, false)
  | .flag b => (minimum, b)
  | .num v => match minimum with
    | none => (some v, true)
    | some m => if v > m then (some v, true) else (some m, false)
def normHi (maximum : Option Rat) (x : XB) : Option Rat × Bool :=
  match x with
  | .absent => (maximum, false)
  | .flag b => (maximum, b)
  | .num v => match maximum with
    | none => (some v, true)
    | some m => if v < m then (some v, true) else (some m, false)

/-- the emitted checks: `if b > x` / `if b >= x` etc. return an error -/
def boundsOK (lo hi : Option Rat × Bool) (x : Rat) : Bool :=
  (match lo with | (some b, true) => !(b ≥ x) | (some b, false) => !(b > x) | (none, _) => true) &&
  (match hi with | (some b, true) => !(b ≤ x) | (some b, false) => !(b < x) | (none, _) => true)

def showRat (q : Rat) : String :=
  if q.den = 1 then toString q.num else
    -- documents of the spike have at most one decimal
    let t := q * 10
    let n := t.num / t.den
    let s := toString (n / 10) ++ "." ++ toString (n % 10).natAbs
    s

def runDoc (isInt : Bool) (pos : String) (lo hi : Option Rat × Bool) (doc : Json) : String :=
  match doc.getObjVal? "v" with
  | .error _ => if pos == "required" then "reject" else "ok\t{}"
  | .ok .null =>
      if pos == "required" then (if boundsOK lo hi 0 then "ok\t{\"v\":0}" else "reject")   -- zero value is validated
      else "ok\t{}"
  | .ok (.num n) =>
      let q := jnumToRat n
      if isInt && (n.exponent != 0) then "reject"                                   -- G2: lexeme must be an integer literal
      else if boundsOK lo hi q then s!"ok\t\{\"v\":{showRat q}}" else "reject"
  | .ok _ => "reject"

def handle (line : String) : IO Unit := do
  match Json.parse line with
  | .error e => IO.println s!"ERR {e}"
  | .ok c =>
    let id := (c.getObjValAs? Nat "id").toOption.getD 0
    let pos := (c.getObjValAs? String "pos").toOption.getD ""
    let prop := (c.getObjVal? "prop").toOption.getD Json.null
    let isInt := match prop.getObjVal? "type" with
      | .ok (.str s) => s == "integer"
      | .ok (.arr a) => a.any (fun x => x == Json.str "integer")
      | _ => false
    let lo := normLo (getNum prop "minimum") (getXB prop "exclusiveMinimum")
    let hi := normHi (getNum prop "maximum") (getXB prop "exclusiveMaximum")
    let docs := match c.getObjVal? "docs" with | .ok (.arr a) => a.toList | _ => []
    for d in docs do
      match d with
      | .str s => match Json.parse s with
        | .ok dj => IO.println s!"{id}\t{runDoc isInt pos lo hi dj}"
        | .error e => IO.println s!"{id}\tERR {e}"
      | _ => pure ()

partial def loop (h : IO.FS.Stream) : IO Unit := do
  let line ← h.getLine
  if line.isEmpty then return ()
  handle line
  loop h

def main : IO Unit := do loop (← IO.getStdin)

import Lean.Data.Json
open Lean

/-! Prototype of the generator model for the TREE fragment (objects, arrays, primitives, enums,
    nullable types, required, defaults; no $ref / allOf / anyOf / additionalProperties / formats).
    Output: a canonical structural summary, to be diffed with the go/ast summary of the real output. -/

-- ---------- identifiers (ASCII prototype of internal/x/text) ----------
inductive Cls where | lower | upper | number | delim | nocase
deriving DecidableEq

def cls (c : Char) : Cls :=
  if c.isLower then .lower else if c.isUpper then .upper else if c.isDigit then .number
  else if c.isAlpha then .nocase else .delim

structure SplitSt where
  cur : Option Cls := none
  part : List Char := []
  done : List (List Char) := []

def emitPart (a : List (List Char)) (p : List Char) : List (List Char) := if p.isEmpty then a else a ++ [p]

def splitStep (s : SplitSt) (r : Char) : SplitSt :=
  let n := cls r
  if s.cur = some n then
    if n = .delim then s else { s with part := s.part ++ [r] }
  else if s.cur = some .delim then { s with cur := some n, part := [r] }
  else if s.cur = some .upper ∧ n = .lower then { s with cur := some n, part := s.part ++ [r] }
  else { cur := some n, part := if n = .delim then [] else [r], done := emitPart s.done s.part }

def splitIdent (s : String) : List String :=
  let st := s.toList.foldl splitStep {}
  (emitPart st.done st.part).map String.ofList

def capitalize (caps : List String) (s : String) : String :=
  match caps.find? (fun c => c.toLower == s.toLower) with
  | some c => c
  | none => match s.toList with
    | [] => ""
    | c :: rest => String.ofList (c.toUpper :: rest)

def identifierize (caps : List String) (s : String) : String :=
  if s == "" then "Blank" else if s == "*" then "Wildcard" else
  let ident := String.join ((splitIdent s).map (capitalize caps))
  let ident := match ident.toList with
    | c :: _ => if !c.isAlpha then "A" ++ ident else ident     -- ASCII: every letter has case
    | [] => ident
  if ident == "" then "Undefined" else ident

-- ---------- Go types ----------
inductive GoTy where
  | prim (n : String) | iface | ptr (t : GoTy) | slice (t : GoTy) | map (v : GoTy) | named (n : String)
  | strct (fs : List (String × GoTy × String))      -- name, type, tags
deriving Inhabited

partial def GoTy.render : GoTy → String
  | .prim n => n | .iface => "interface{}" | .ptr t => "*" ++ t.render | .slice t => "[]" ++ t.render
  | .map v => "map[string]" ++ v.render | .named n => n
  | .strct fs => "struct{" ++ String.join (fs.map fun (n, t, tg) => s!"{n} {t.render} `{tg}`;") ++ "}"

structure Decl where
  name : String
  ty : GoTy
  hasMethod : Bool := false
  consts : List (String × String) := []
  isEnum : Bool := false

structure St where
  decls : List Decl := []            -- in declaration order
  names : List String := []          -- declsByName keys (including in-progress)

abbrev M := StateT St (Except String)

def isNillable (st : St) : GoTy → Bool
  | .ptr _ | .slice _ | .map _ | .iface => true
  | .named n => match st.decls.find? (·.name == n) with
    | some d => (match d.ty with | .ptr _ | .slice _ | .map _ | .iface => true | _ => false)
    | none => false
  | _ => false

def uniqueTypeName (name : String) : M String := do
  let st ← get
  if !st.names.contains name then return name
  let rec go (fuel k : Nat) : String :=
    match fuel with
    | 0 => name
    | f + 1 => let s := s!"{name}_{k}"; if st.names.contains s then go f (k + 1) else s
  return go 1000 1

def typeList (t : Json) : List String :=
  match t.getObjVal? "type" with
  | .ok (.str s) => if s == "" then [] else [s]
  | .ok (.arr a) => a.toList.filterMap (fun x => match x with | .str s => some s | _ => none)
  | _ => []

def hasKey (t : Json) (k : String) : Bool := (t.getObjVal? k).isOk
def nonzeroNat (t : Json) (k : String) : Bool :=
  match t.getObjVal? k with | .ok (.num n) => n.mantissa != 0 | _ => false
def nonEmptyStr (t : Json) (k : String) : Bool :=
  match t.getObjVal? k with | .ok (.str s) => s != "" | _ => false

def primOf (js : String) (ptr : Bool) : Except String GoTy :=
  let w (t : GoTy) := if ptr then GoTy.ptr t else t
  match js with
  | "string" => .ok (w (.prim "string")) | "number" => .ok (w (.prim "float64")) | "integer" => .ok (w (.prim "int"))
  | "boolean" => .ok (w (.prim "bool")) | "null" => .ok .iface
  | other => .error s!"unknown type {other}"

/-- does structFieldValidators produce at least one validator for a field of this Go type and schema? -/
partial def fieldHasValidator (ty : GoTy) (sch : Json) (isNull : Bool) : Bool :=
  match ty with
  | .ptr t => fieldHasValidator t sch isNull
  | .iface => isNull                                                    -- NullType
  | .prim "string" => nonzeroNat sch "minLength" || nonzeroNat sch "maxLength" || nonEmptyStr sch "pattern"
  | .prim "bool" => false
  | .prim _ => hasKey sch "multipleOf" || hasKey sch "maximum" || hasKey sch "minimum" ||
               hasKey sch "exclusiveMaximum" || hasKey sch "exclusiveMinimum"
  | .slice _ => nonzeroNat sch "minItems" || nonzeroNat sch "maxItems" || sliceEndsInNull ty sch
  | _ => false
where
  sliceEndsInNull : GoTy → Json → Bool
    | .slice t, s => (match s.getObjVal? "items" with
        | .ok it => (typeList it == ["null"] && !(hasKey it "enum")) || sliceEndsInNull t it
        | _ => false)
    | _, _ => false

mutual
  partial def generateDeclaredType (caps tags : List String) (t : Json) (scope : String) : M GoTy := do
    if hasKey t "enum" then return ← generateEnumType caps t scope
    let name ← uniqueTypeName scope
    modify fun st => { st with names := st.names ++ [name] }
    let ty ← generateType caps tags t scope
    -- validators decide whether an unmarshaler is emitted
    let hasM ← (match ty with
      | .strct fs => do
          let props := (t.getObjVal? "properties").toOption.getD (Json.mkObj [])
          let req := match t.getObjVal? "required" with | .ok (.arr a) => a.toList.filterMap (fun (x : Json) => x.getStr?.toOption) | _ => []
          let mut any := false
          for (k, p) in (props.getObj?.toOption.map (·.toArray.toList)).getD [] do
            let isReq := req.contains k
            let hasDefault := match p.getObjVal? "default" with | .ok .null => false | .ok _ => true | _ => false
            if hasDefault then any := true
            else if isReq then any := true
          -- field validators
          let keys := (props.getObj?.toOption.map (·.toArray.toList)).getD []
          for ((_, fty, _), (_, p)) in fs.zip keys do
            let isNull := typeList p == ["null"] && !(hasKey p "enum")
            if fieldHasValidator fty p isNull then any := true
          pure any
      | .prim _ => pure (fieldHasValidator ty t false)
      | _ => pure false)
    modify fun st => { st with decls := st.decls ++ [{ name := name, ty := ty, hasMethod := hasM }] }
    return .named name

  /-- generateType: used for DECLARED types (root) -/
  partial def generateType (caps tags : List String) (t : Json) (scope : String) : M GoTy := do
    let tl := typeList t
    let (tn, isPtr) := match tl with
      | [] => ("null", false)
      | [a] => (a, false)
      | [a, b] => if a == "null" then (b, true) else if b == "null" then (a, true) else (b, false)
      | _ => ("null", false)
    match tn with
    | "array" =>
      match t.getObjVal? "items" with
      | .ok it => return .slice (← generateType caps tags it (scope ++ "Elem"))
      | _ => throw "array property must have items"
    | "object" => generateStructType caps tags t scope
    | "null" => return .iface
    | other => match primOf other isPtr with | .ok g => return g | .error e => throw e

  partial def generateStructType (caps tags : List String) (t : Json) (scope : String) : M GoTy := do
    let props := match t.getObjVal? "properties" with | .ok (.obj kvs) => kvs.toArray.toList | _ => []
    if props.isEmpty then return .map .iface
    let req := match t.getObjVal? "required" with | .ok (.arr a) => a.toList.filterMap (fun (x : Json) => x.getStr?.toOption) | _ => []
    let mut fields : List (String × GoTy × String) := []
    let mut seen : List (String × Nat) := []
    for (name, prop) in props do          -- RBNode order = sorted keys
      let base := identifierize caps name
      let (fname, seen') := (match seen.lookup base with
        | some c => (s!"{base}_{c + 1}", (base, c + 1) :: seen.filter (·.1 != base))
        | none => (base, (base, 1) :: seen))
      seen := seen'
      let isReq := req.contains name
      let tagStr := " ".intercalate (tags.map fun tg => if isReq then s!"{tg}:\"{name}\"" else s!"{tg}:\"{name},omitempty\"")
      let fty ← generateTypeInline caps tags prop (scope ++ fname)
      let hasDefault := match prop.getObjVal? "default" with | .ok .null => false | .ok _ => true | _ => false
      let st ← get
      let fty := if hasDefault then fty else if isReq then fty else if isNillable st fty then fty else .ptr fty
      fields := fields ++ [(fname, fty, tagStr)]
    return .strct fields

  partial def generateTypeInline (caps tags : List String) (t : Json) (scope : String) : M GoTy := do
    if !(hasKey t "enum") then
      let tl := typeList t
      let (idx, ptr) : (Nat × Bool) := match tl with
        | [a, _] => if a == "null" then (1, true) else (match tl with | [_, b] => if b == "null" then (0, true) else (1, false) | _ => (0, false))
        | _ => (0, false)
      if tl.length > 1 && !ptr then return .iface
      if tl.isEmpty then return .iface
      let ty := tl[idx]!
      if ["string", "number", "integer", "boolean", "null"].contains ty then
        match primOf ty ptr with | .ok g => return g | .error e => throw e
      if ty == "array" then
        match t.getObjVal? "items" with
        | .ok it => return .slice (← generateTypeInline caps tags it (scope ++ "Elem"))
        | _ => return .slice .iface
    generateDeclaredType caps tags t scope

  partial def generateEnumType (caps : List String) (t : Json) (scope : String) : M GoTy := do
    let vals := match t.getObjVal? "enum" with | .ok (.arr a) => a.toList | _ => []
    if vals.isEmpty then throw "enum array cannot be empty"
    let tl := typeList t
    let kindOf (v : Json) : String := match v with
      | .null => "interface{}" | .str _ => "string" | .num _ => "float64" | .bool _ => "bool" | _ => "?"
    let (carrier, wrap) ← (match tl with
      | [a] => do
          let g ← (match primOf a false with | .ok g => pure g | .error e => throw e)
          pure (g, a == "null")
      | _ => do
          let ks := vals.map kindOf
          if ks.contains "?" then throw "enum has non-primitive value"
          -- the Go loop: first kind, then interface{} at the first differing kind
          let first := ks.head!
          let mixed := ks.any (· != first)
          let p := if mixed then "interface{}" else first
          pure ((if p == "interface{}" then GoTy.iface else GoTy.prim p), p == "interface{}"))
    let ty := if wrap then GoTy.strct [("Value", carrier, "")] else carrier
    let name ← uniqueTypeName scope
    let consts := match ty with
      | .prim "string" => vals.filterMap fun v => match v with
          | .str s =>
            let idv := identifierize caps s
            let last := name.toList.getLast?.getD 'x'
            some ((if last.isDigit then name ++ "_" ++ idv else name ++ idv), s)
          | _ => none
      | _ => []
    modify fun st => { st with names := st.names ++ [name],
                               decls := st.decls ++ [{ name := name, ty := ty, hasMethod := true, consts := consts, isEnum := true }] }
    return .named name
end

def summarize (st : St) : List String :=
  let lines := st.decls.foldl (fun acc d =>
    acc ++ [s!"type {d.name} {d.ty.render}"] ++ (if d.hasMethod then [s!"method {d.name}.UnmarshalJSON"] else [])
        ++ d.consts.map (fun (n, v) => s!"const {n} = {(Json.str v).compress}")) []
  lines.toArray.qsort (· < ·) |>.toList

def handle (line : String) : IO Unit := do
  match Json.parse line with
  | .error e => IO.println s!"ERR {e}"
  | .ok c =>
    let id := (c.getObjValAs? Nat "id").toOption.getD 0
    let sch := (c.getObjVal? "schema").toOption.getD Json.null
    let tags := ["json", "yaml", "mapstructure"]
    match (generateDeclaredType [] tags sch "Root").run {} with
    | .error e => IO.println s!"{id}\tERROR\t{e}"
    | .ok (_, st) => IO.println s!"{id}\tOK\t{" | ".intercalate (summarize st)}"

partial def loop (h : IO.FS.Stream) : IO Unit := do
  let line ← h.getLine
  if line.isEmpty then return ()
  handle line
  loop h

def main : IO Unit := do loop (← IO.getStdin)

import Lean.Data.Json
open Lean

/-! Prototype of the generator model for the TREE fragment (objects, arrays, primitives, enums,
    nullable types, required, defaults; no $ref / allOf / anyOf / additionalProperties / formats).
    Output: a canonical structural summary, to be diffed with the go/ast summary of the real output. -/

-- ---------- identifiers (ASCII prototype of internal/x/text) ----------
inductive Cls where | lower | upper | number | delim | nocase
deriving DecidableEq

def cls (c : Char) : Cls :=
  if c.isLower then .lower else if c.isUpper then .upper else if c.isDigit then .number
  else if c.isAlpha then .nocase else .delim

structure SplitSt where
  cur : Option Cls := none
  part : List Char := []
  done : List (List Char) := []

def emitPart (a : List (List Char)) (p : List Char) : List (List Char) := if p.isEmpty then a else a ++ [p]

def splitStep (s : SplitSt) (r : Char) : SplitSt :=
  let n := cls r
  if s.cur = some n then
    if n = .delim then s else { s with part := s.part ++ [r] }
  else if s.cur = some .delim then { s with cur := some n, part := [r] }
  else if s.cur = some .upper ∧ n = .lower then { s with cur := some n, part := s.part ++ [r] }
  else { cur := some n, part := if n = .delim then [] else [r], done := emitPart s.done s.part }

def splitIdent (s : String) : List String :=
  let st := s.toList.foldl splitStep {}
  (emitPart st.done st.part).map String.ofList

def capitalize (caps : List String) (s : String) : String :=
  match caps.find? (fun c => c.toLower == s.toLower) with
  | some c => c
  | none => match s.toList with
    | [] => ""
    | c :: rest => String.ofList (c.toUpper :: rest)

def identifierize (caps : List String) (s : String) : String :=
  if s == "" then "Blank" else if s == "*" then "Wildcard" else
  let ident := String.join ((splitIdent s).map (capitalize caps))
  let ident := match ident.toList with
    | c :: _ => if !c.isAlpha then "A" ++ ident else ident     -- ASCII: every letter has case
    | [] => ident
  if ident == "" then "Undefined" else ident

-- ---------- Go types ----------
inductive GoTy where
  | prim (n : String) | iface | nullIface | ptr (t : GoTy) | slice (t : GoTy) | map (v : GoTy) | named (n : String)
  | strct (fs : List (String × GoTy × String))      -- name, type, tags
deriving Inhabited

partial def GoTy.render : GoTy → String
  | .prim n => n | .iface => "interface{}" | .nullIface => "interface{}" | .ptr t => "*" ++ t.render | .slice t => "[]" ++ t.render
  | .map v => "map[string]" ++ v.render | .named n => n
  | .strct fs => "struct{" ++ String.join (fs.map fun (n, t, tg) => s!"{n} {t.render} `{tg}`;") ++ "}"

inductive XB where | absent | flag (b : Bool) | num (q : Rat)

inductive Validator where
  | required (json : String)
  | dflt (field json : String) (v : Json)
  | nullType (field : String) (depth : Nat)
  | array (field : String) (depth minItems maxItems : Nat)
  | string (field : String) (minLen maxLen : Nat) (pattern : String) (nillable : Bool)
  | numeric (field : String) (nillable : Bool) (mult lo hi : Option Rat) (xlo xhi : XB) (roundToInt : Bool)
  | anyOf (branches : List String)

structure Decl where
  name : String
  ty : GoTy
  hasMethod : Bool := false
  consts : List (String × String) := []
  isEnum : Bool := false
  validators : List Validator := []
  enumVals : List Json := []
  enumWrapped : Bool := false
  enumInt : Bool := false

structure St where
  decls : List Decl := []            -- in declaration order
  names : List String := []          -- declsByName keys (including in-progress)
  defs : List (String × Json) := []  -- schema.Definitions
  byDef : List (String × String) := []   -- declsBySchema for definition nodes: def name ↦ decl name
  imports : List String := []            -- Package.AddImport (de-duplicated)

abbrev M := StateT St (Except String)

def addImport (p : String) : M Unit := modify fun st => if st.imports.contains p then st else { st with imports := st.imports ++ [p] }

def isNillable (st : St) : GoTy → Bool
  | .ptr _ | .slice _ | .map _ | .iface | .nullIface => true
  | .named n => match st.decls.find? (·.name == n) with
    | some d => (match d.ty with | .ptr _ | .slice _ | .map _ | .iface | .nullIface => true | _ => false)
    | none => false
  | _ => false

def uniqueTypeName (name : String) : M String := do
  let st ← get
  if !st.names.contains name then return name
  let rec go (fuel k : Nat) : String :=
    match fuel with
    | 0 => name
    | f + 1 => let s := s!"{name}_{k}"; if st.names.contains s then go f (k + 1) else s
  return go 1000 1

def typeList (t : Json) : List String :=
  match t.getObjVal? "type" with
  | .ok (.str s) => if s == "" then [] else [s]
  | .ok (.arr a) => a.toList.filterMap (fun x => match x with | .str s => some s | _ => none)
  | _ => []

def hasKey (t : Json) (k : String) : Bool := (t.getObjVal? k).isOk
def nonzeroNat (t : Json) (k : String) : Bool :=
  match t.getObjVal? k with | .ok (.num n) => n.mantissa != 0 | _ => false
def nonEmptyStr (t : Json) (k : String) : Bool :=
  match t.getObjVal? k with | .ok (.str s) => s != "" | _ => false

def primOf (js : String) (ptr : Bool) : Except String GoTy :=
  let w (t : GoTy) := if ptr then GoTy.ptr t else t
  match js with
  | "string" => .ok (w (.prim "string")) | "number" => .ok (w (.prim "float64")) | "integer" => .ok (w (.prim "int"))
  | "boolean" => .ok (w (.prim "bool")) | "null" => .ok .nullIface
  | other => .error s!"unknown type {other}"

def jnumToRat (n : JsonNumber) : Rat := (n.mantissa : Rat) / ((10 : Rat) ^ n.exponent)
def getNat (t : Json) (k : String) : Nat :=
  match t.getObjVal? k with | .ok (.num n) => if n.exponent == 0 then n.mantissa.toNat else 0 | _ => 0
def getStrD (t : Json) (k : String) : String := match t.getObjVal? k with | .ok (.str s) => s | _ => ""
def getRat (t : Json) (k : String) : Option Rat := match t.getObjVal? k with | .ok (.num n) => some (jnumToRat n) | _ => none
def getXB (t : Json) (k : String) : XB :=
  match t.getObjVal? k with | .ok (.bool b) => .flag b | .ok (.num n) => .num (jnumToRat n) | _ => .absent

/-- structFieldValidators -/
partial def fieldValidators (field : String) (ty : GoTy) (sch : Json) (nillable : Bool) : List Validator :=
  match ty with
  | .nullIface => [.nullType field 0]
  | .ptr t => fieldValidators field t sch true
  | .prim "string" =>
      if getNat sch "minLength" != 0 || getNat sch "maxLength" != 0 || getStrD sch "pattern" != "" then
        [.string field (getNat sch "minLength") (getNat sch "maxLength") (getStrD sch "pattern") nillable] else []
  | .prim "bool" => []
  | .prim p =>
      if hasKey sch "multipleOf" || hasKey sch "maximum" || hasKey sch "minimum" ||
         hasKey sch "exclusiveMaximum" || hasKey sch "exclusiveMinimum" then
        [.numeric field nillable (getRat sch "multipleOf") (getRat sch "minimum") (getRat sch "maximum")
           (getXB sch "exclusiveMinimum") (getXB sch "exclusiveMaximum") (p != "float64")] else []
  | .slice _ => go ty 0
  | _ => []
where
  go : GoTy → Nat → List Validator
    | .slice elem, d =>
        match elem with
        | .nullIface => [.nullType field (d + 1)]
        | _ => (if getNat sch "minItems" != 0 || getNat sch "maxItems" != 0
                then [Validator.array field (d + 1) (getNat sch "minItems") (getNat sch "maxItems")] else []) ++ go elem (d + 1)
    | _, _ => []

/-- schemas.MergeTypes via mergo, as used (first non-empty scalar wins, slices append, maps merge key-wise) -/
partial def mergo (dst src : Json) : Json :=
  match dst, src with
  | .obj d, .obj sKvs =>
    let listKeys := ["required", "enum", "allOf", "anyOf", "oneOf"]
    let merged := sKvs.toArray.toList.foldl (fun (acc : List (String × Json)) (k, sv) =>
      match acc.lookup k with
      | none =>
          -- TypeList is stored as a list; a single string counts as a one-element list
          acc ++ [(k, if k == "type" then (match sv with | .str x => Json.arr #[.str x] | o => o) else sv)]
      | some dv =>
          let nv : Json :=
            if k == "type" then dv                                   -- transformer: keep
            else if listKeys.contains k then
              (match dv, sv with | .arr a, .arr b => Json.arr (a ++ b) | _, _ => dv)
            else if k == "properties" || k == "$defs" || k == "definitions" then
              (match dv, sv with
               | .obj dk, .obj sk => Json.mkObj (sk.toArray.toList.foldl (fun (a : List (String × Json)) (pk, pv) =>
                   match a.lookup pk with
                   | none => a ++ [(pk, pv)]
                   | some old => a.map (fun (x : String × Json) => if x.1 == pk then (pk, mergo old pv) else x)) dk.toArray.toList)
               | _, _ => dv)
            else if k == "items" || k == "additionalProperties" then mergo dv sv
            else match dv with
              | .num n => if n.mantissa == 0 then (match sv with | .num m => if m.mantissa != 0 then sv else dv | _ => dv) else dv
              | .str x => if x == "" then sv else dv
              | .bool b => if !b then sv else dv
              | _ => dv
          acc.map (fun (x : String × Json) => if x.1 == k then (k, nv) else x)) d.toArray.toList
    Json.mkObj merged
  | _, _ => dst

def isPrimitiveTypeList (bs : List Json) : Bool :=
  bs.all fun b => match typeList b with
    | [] => true
    | t :: _ => ["string", "number", "integer", "boolean", "null"].contains t

def mergeTypes (bs : List Json) : Json :=
  if isPrimitiveTypeList bs then Json.mkObj [] else bs.foldl mergo (Json.mkObj [])

def getArr (t : Json) (k : String) : List Json := match t.getObjVal? k with | .ok (.arr a) => a.toList | _ => []

mutual
  partial def generateDeclaredType (caps tags : List String) (t : Json) (scope : String) (defName : Option String := none)
      (subElem : Bool := false) (anyOfBranches : Option (List String) := none) : M GoTy := do
    if let some dn := defName then
      if let some decl := (← get).byDef.lookup dn then return .named decl
    if hasKey t "enum" then
      let g ← generateEnumType caps t scope
      if let some dn := defName then
        match g with
        | .named n => modify fun st => { st with byDef := (dn, n) :: st.byDef }
        | _ => pure ()
      return g
    if let some r := (t.getObjVal? "$ref").toOption.bind (·.getStr?.toOption) then
      let name ← uniqueTypeName scope
      let ty ← generateReferencedType caps tags r
      match ty with
      | .named _ | .ptr (.named _) => return ty            -- "don't declare named types under a new name"
      | _ =>
        modify fun st => { st with names := st.names ++ [name], decls := st.decls ++ [{ name := name, ty := ty }] }
        return .named name
    let name ← uniqueTypeName scope
    modify fun st => { st with names := st.names ++ [name] }
    if let some dn := defName then modify fun st => { st with byDef := (dn, name) :: st.byDef }
    let ty ← generateType caps tags t scope
    match ty with
    | .named _ | .ptr (.named _) =>
        modify fun st => { st with names := st.names.filter (· != name) }
        return ty
    | _ => pure ()
    -- validators (generateDeclaredType): required first, then per field default + field validators
    let vs : List Validator := (match ty with
      | .strct fs =>
          let keys := match t.getObjVal? "properties" with | .ok (.obj kvs) => kvs.toArray.toList | _ => []
          let req := match t.getObjVal? "required" with | .ok (.arr a) => a.toList.filterMap (fun (x : Json) => x.getStr?.toOption) | _ => []
          let hasDefault (p : Json) : Bool := match p.getObjVal? "default" with | .ok .null => false | .ok _ => true | _ => false
          let reqVs := keys.filterMap fun (k, p) => if req.contains k && !(hasDefault p) then some (Validator.required k) else none
          let fvs := (fs.zip keys).flatMap fun ((fname, fty, _), (k, p)) =>
            (if hasDefault p then [Validator.dflt fname k ((p.getObjVal? "default").toOption.getD Json.null)] else []) ++
            fieldValidators fname fty p false
          reqVs ++ fvs
      | .prim _ => fieldValidators "" ty t false
      | _ => [])
    let vs := match anyOfBranches, ty with | some bs, .strct _ => [Validator.anyOf bs] | _, _ => vs
    let hasM := !vs.isEmpty || (subElem && (match ty with | .strct _ | .prim _ | .map _ => true | _ => false))
    -- structFieldValidators side effects (run whenever the validators are computed, i.e. not only-models)
    for v in vs do
      match v with
      | .string _ _ _ p _ => if p != "" then addImport "regexp"
      | .numeric _ _ m _ _ _ _ r => if m.isSome && !r then addImport "math"
      | _ => pure ()
    -- generateUnmarshaler
    if hasM then
      if vs.any (fun v => match v with | .anyOf _ => true | _ => false) then addImport "errors"
      if vs.any (fun v => match v with | .dflt .. => false | _ => true) then addImport "fmt"
      addImport "encoding/json"
    modify fun st => { st with decls := st.decls ++ [{ name := name, ty := ty, hasMethod := hasM, validators := vs }] }
    return .named name

  /-- generateType: used for DECLARED types (root) -/
  partial def generateType (caps tags : List String) (t : Json) (scope : String) : M GoTy := do
    if hasKey t "enum" then return ← generateEnumType caps t scope
    if let some r := (t.getObjVal? "$ref").toOption.bind (·.getStr?.toOption) then
      return ← generateReferencedType caps tags r
    let tl := typeList t
    let (tn, isPtr) := match tl with
      | [] => ("null", false)
      | [a] => (a, false)
      | [a, b] => if a == "null" then (b, true) else if b == "null" then (a, true) else (b, false)
      | _ => ("null", false)
    match tn with
    | "array" =>
      match t.getObjVal? "items" with
      | .ok it => return .slice (← generateType caps tags it (scope ++ "Elem"))
      | _ => throw "array property must have items"
    | "object" => generateStructType caps tags t scope
    | "null" => return .iface
    | other => match primOf other isPtr with | .ok g => return g | .error e => throw e

  partial def generateStructType (caps tags : List String) (t : Json) (scope : String) : M GoTy := do
    let props := match t.getObjVal? "properties" with | .ok (.obj kvs) => kvs.toArray.toList | _ => []
    if props.isEmpty && (getArr t "allOf").isEmpty && (getArr t "anyOf").isEmpty then return .map .iface
    let req := match t.getObjVal? "required" with | .ok (.arr a) => a.toList.filterMap (fun (x : Json) => x.getStr?.toOption) | _ => []
    let mut fields : List (String × GoTy × String) := []
    let mut seen : List (String × Nat) := []
    for (name, prop) in props do          -- RBNode order = sorted keys
      let base := identifierize caps name
      let (fname, seen') := (match seen.lookup base with
        | some c => (s!"{base}_{c + 1}", (base, c + 1) :: seen.filter (·.1 != base))
        | none => (base, (base, 1) :: seen))
      seen := seen'
      let isReq := req.contains name
      let tagStr := " ".intercalate (tags.map fun tg => if isReq then s!"{tg}:\"{name}\"" else s!"{tg}:\"{name},omitempty\"")
      let fty ← generateTypeInline caps tags prop (scope ++ fname)
      let hasDefault := match prop.getObjVal? "default" with | .ok .null => false | .ok _ => true | _ => false
      let st ← get
      let fty := if hasDefault then fty else if isReq then fty else if isNillable st fty then fty else .ptr fty
      fields := fields ++ [(fname, fty, tagStr)]
    if !(getArr t "anyOf").isEmpty then return ← generateAnyOfType caps tags (getArr t "anyOf") scope
    if !(getArr t "allOf").isEmpty then return ← generateAllOfType caps tags (getArr t "allOf") scope
    return .strct fields

  partial def generateReferencedType (caps tags : List String) (ref : String) : M GoTy := do
    let defName : String := if ref.startsWith "#/$defs/" then (ref.drop 8).toString else if ref.startsWith "#/definitions/" then (ref.drop 14).toString else ""
    if defName == "" then throw s!"cannot generate referenced type {ref}"
    let st ← get
    match st.defs.lookup defName with
    | none => throw s!"definition does not exist: {defName}"
    | some d =>
      if (typeList d).isEmpty && !(match d.getObjVal? "properties" with | .ok (.obj kvs) => !kvs.isEmpty | _ => false) then
        return .iface
      generateDeclaredType caps tags d (identifierize caps defName) (some defName)

  partial def generateTypeInline (caps tags : List String) (t : Json) (scope : String) : M GoTy := do
    if !(hasKey t "enum") && !(hasKey t "$ref") then
      if !(getArr t "anyOf").isEmpty then return ← generateAnyOfType caps tags (getArr t "anyOf") scope
      if !(getArr t "allOf").isEmpty then return ← generateAllOfType caps tags (getArr t "allOf") scope
      let tl := typeList t
      let (idx, ptr) : (Nat × Bool) := match tl with
        | [a, _] => if a == "null" then (1, true) else (match tl with | [_, b] => if b == "null" then (0, true) else (1, false) | _ => (0, false))
        | _ => (0, false)
      if tl.length > 1 && !ptr then return .iface
      if tl.isEmpty then return .iface
      let ty := tl[idx]!
      if ["string", "number", "integer", "boolean", "null"].contains ty then
        match primOf ty ptr with | .ok g => return g | .error e => throw e
      if ty == "array" then
        match t.getObjVal? "items" with
        | .ok it => return .slice (← generateTypeInline caps tags it (scope ++ "Elem"))
        | _ => return .slice .iface
    generateDeclaredType caps tags t scope

  partial def generateAnyOfType (caps tags : List String) (bs : List Json) (scope : String) : M GoTy := do
    let mut names : List String := []
    let mut i := 0
    for b in bs do
      -- generateTypeInline(typ, scope_i) with the branch marked as sub-schema element
      let tl := typeList b
      let prim := match tl with | [a] => ["string", "number", "integer", "boolean", "null"].contains a | _ => false
      if !prim || hasKey b "enum" then
        let g ← (if (hasKey b "enum") || tl == ["object"] || tl.isEmpty then generateDeclaredType caps tags b s!"{scope}_{i}" none true
                 else generateTypeInline caps tags b s!"{scope}_{i}")
        match g with | .named n => names := names ++ [n] | _ => pure ()
      i := i + 1
    let merged := mergeTypes bs
    let branchNames := (List.range bs.length).map fun k => s!"{scope}_{k}"
    -- generateTypeInline(merged, scope): an object → declared struct with the anyOf validator
    if typeList merged == ["object"] then generateDeclaredType caps tags merged scope none false (some branchNames)
    else generateTypeInline caps tags merged scope

  partial def generateAllOfType (caps tags : List String) (bs : List Json) (scope : String) : M GoTy := do
    generateTypeInline caps tags (mergeTypes bs) scope

  partial def generateEnumType (caps : List String) (t : Json) (scope : String) : M GoTy := do
    let vals := match t.getObjVal? "enum" with | .ok (.arr a) => a.toList | _ => []
    if vals.isEmpty then throw "enum array cannot be empty"
    let tl := typeList t
    let kindOf (v : Json) : String := match v with
      | .null => "interface{}" | .str _ => "string" | .num _ => "float64" | .bool _ => "bool" | _ => "?"
    let (carrier, wrap) ← (match tl with
      | [a] => do
          let g ← (match primOf a false with | .ok g => pure g | .error e => throw e)
          pure (g, a == "null")
      | _ => do
          let ks := vals.map kindOf
          if ks.contains "?" then throw "enum has non-primitive value"
          -- the Go loop: first kind, then interface{} at the first differing kind
          let first := ks.head!
          let mixed := ks.any (· != first)
          let p := if mixed then "interface{}" else first
          pure ((if p == "interface{}" then GoTy.iface else GoTy.prim p), p == "interface{}"))
    let carrier := match carrier with | .nullIface => GoTy.iface | c => c
    let ty := if wrap then GoTy.strct [("Value", carrier, "")] else carrier
    let name ← uniqueTypeName scope
    let consts := match ty with
      | .prim "string" => vals.filterMap fun v => match v with
          | .str s =>
            let idv := identifierize caps s
            let last := name.toList.getLast?.getD 'x'
            some ((if last.isDigit then name ++ "_" ++ idv else name ++ idv), s)
          | _ => none
      | _ => []
    addImport "fmt"
    addImport "reflect"
    addImport "encoding/json"
    modify fun st => { st with names := st.names ++ [name],
                               decls := st.decls ++ [{ name := name, ty := ty, hasMethod := true, consts := consts, isEnum := true,
                                                       enumVals := vals, enumWrapped := wrap,
                                                       enumInt := (tl == ["integer"]) }] }
    return .named name
end


-- =====================  run-time model (rules G1–G12)  =====================
inductive GoVal where
  | int (i : Int) | float (q : Rat) | str (s : String) | bool (b : Bool)
  | nil | iface (j : Json) | ptrTo (v : GoVal) | slice (vs : List GoVal) | map (kvs : List (String × GoVal))
  | strct (fs : List (String × GoVal))
deriving Inhabited

abbrev Env := List Decl
def Env.find (env : Env) (n : String) : Option Decl := List.find? (fun (d : Decl) => d.name == n) env

partial def zeroOf (env : Env) : GoTy → GoVal
  | .prim "string" => .str "" | .prim "bool" => .bool false | .prim "float64" => .float 0 | .prim _ => .int 0
  | .iface | .nullIface | .ptr _ | .slice _ | .map _ => .nil
  | .named n => match env.find n with | some d => zeroOf env d.ty | none => .nil
  | .strct fs => .strct (fs.map fun (n, t, _) => (n, zeroOf env t))

def intRange : String → Int × Int
  | "int8" => (-128, 127) | "int16" => (-32768, 32767) | "int32" => (-2147483648, 2147483647)
  | "uint8" => (0, 255) | "uint16" => (0, 65535) | "uint32" => (0, 4294967295) | "uint64" => (0, 18446744073709551615)
  | _ => (-9223372036854775808, 9223372036854775807)

def tagName (tags : String) (field : String) : String :=
  -- json:"name,omitempty" ...  (G8: without a json tag the Go field name)
  match tags.splitOn "json:\"" with
  | _ :: rest :: _ => ((rest.splitOn "\"").head!.splitOn ",").head!
  | _ => field
def tagOmitEmpty (tags : String) : Bool :=
  match tags.splitOn "json:\"" with
  | _ :: rest :: _ => ((rest.splitOn "\"").head!.splitOn ",").contains "omitempty"
  | _ => false

def utf8Len (s : String) : Nat := s.utf8ByteSize

/-- the closed pattern family of DESIGN §1.2 -/
def matchPat (p s : String) : Bool :=
  if p == "^[a-z]*$" then s.all (fun c => 'a' ≤ c && c ≤ 'z')
  else if p == "^[0-9]+$" then !s.isEmpty && s.all Char.isDigit
  else if p.startsWith "^" && p.endsWith "$" then s == ((p.drop 1).dropEnd 1).toString
  else if p.startsWith "^" then s.startsWith (p.drop 1).toString
  else if p.endsWith "$" then s.endsWith (p.dropEnd 1).toString
  else (s.splitOn p).length > 1

/-- mathutils.NormalizeBounds as the code stands -/
def normLo (minimum : Option Rat) (x : XB) : Option Rat × Bool :=
  match x with
  | .absent => (minimum, false) | .flag b => (minimum, b)
  | .num v => match minimum with | none => (some v, true) | some m => if v > m then (some v, true) else (some m, false)
def normHi (maximum : Option Rat) (x : XB) : Option Rat × Bool :=
  match x with
  | .absent => (maximum, false) | .flag b => (maximum, b)
  | .num v => match maximum with | none => (some v, true) | some m => if v < m then (some v, true) else (some m, false)

def truncToInt (q : Rat) : Int := Int.tdiv q.num q.den     -- int64(float64) truncates toward zero

/-- value of a field path inside the decoded struct (`plain.F`, or `plain` itself when field = "") -/
def fieldOf (plain : GoVal) (field : String) : GoVal :=
  if field == "" then plain else
  match plain with
  | .strct fs => (fs.lookup field).getD .nil
  | _ => .nil

def numOf : GoVal → Option Rat
  | .int i => some i | .float q => some q | _ => none

def checkNumeric (v : GoVal) (nillable : Bool) (mult lo hi : Option Rat) (xlo xhi : XB) (roundToInt : Bool) : Bool :=
  let target : Option GoVal := if nillable then (match v with | .ptrTo x => some x | _ => none) else some v
  match target.bind numOf with
  | none => true                                   -- nil pointer: every check is guarded
  | some x =>
    let valueOf (b : Rat) : Rat := if roundToInt then (truncToInt b : Rat) else b
    let (l, lx) := normLo lo xlo
    let (h, hx) := normHi hi xhi
    (match mult with
     | none => true
     | some m =>
        if roundToInt then (let mi := truncToInt m; mi != 0 && Int.tmod x.num mi == 0)
        else (let r := x - m * (truncToInt (x / m) : Rat); (if r < 0 then -r else r) ≤ (1 : Rat) / 10000000000)) &&
    (match h with | some b => if hx then !(valueOf b ≤ x) else !(valueOf b < x) | none => true) &&
    (match l with | some b => if lx then !(valueOf b ≥ x) else !(valueOf b > x) | none => true)

def checkString (v : GoVal) (minLen maxLen : Nat) (pattern : String) (nillable : Bool) : Bool :=
  let target : Option GoVal := if nillable then (match v with | .ptrTo x => some x | _ => none) else some v
  match target with
  | some (.str s) =>
      (pattern == "" || matchPat pattern s) && (minLen == 0 || !(utf8Len s < minLen)) && (maxLen == 0 || !(utf8Len s > maxLen))
  | _ => true

/-- arrayValidator: loops over depth-1 levels, then checks length of what it finds -/
partial def checkArray (v : GoVal) (depth minItems maxItems : Nat) : Bool :=
  if depth ≤ 1 then
    match v with
    | .slice xs => (minItems == 0 || !(xs.length < minItems)) && (maxItems == 0 || !(xs.length > maxItems))
    | _ => true            -- nil: len 0; min guarded by != nil, max 0 > max false
  else match v with
    | .slice xs => xs.all (fun x => checkArray x (depth - 1) minItems maxItems)
    | _ => true
partial def checkNull (v : GoVal) (depth : Nat) : Bool :=
  if depth == 0 then (match v with | .nil => true | _ => false)
  else match v with | .slice xs => xs.all (fun x => checkNull x (depth - 1)) | _ => true

def jsonToGoIface (j : Json) : GoVal := match j with | .null => .nil | _ => .iface j

def ratToJson (q : Rat) : Json :=
  -- exact decimal when one exists within 12 places (all documents of the survey)
  let rec go (fuel : Nat) (e : Nat) (x : Rat) : Json :=
    match fuel with
    | 0 => Json.num ⟨x.num / x.den, e⟩
    | f + 1 => if x.den == 1 then Json.num ⟨x.num, e⟩ else go f (e + 1) (x * 10)
  go 12 0 q

mutual
  partial def decode (env : Env) (ty : GoTy) (j : Json) : Except String GoVal := do
    match ty, j with
    | .named n, _ =>
        match env.find n with
        | none => throw s!"no decl {n}"
        | some d => if d.hasMethod then runMethod env d j else decode env d.ty j
    | .ptr _, .null => pure .nil                                   -- G3
    | .ptr t, _ => return .ptrTo (← decode env t j)                -- G4
    | .iface, _ | .nullIface, _ => pure (jsonToGoIface j)          -- G5
    | _, .null => pure (zeroOf env ty)                             -- G3: no-op
    | .prim "string", .str s => pure (.str s)
    | .prim "bool", .bool b => pure (.bool b)
    | .prim "float64", .num n => pure (.float (jnumToRat n))
    | .prim p, .num n =>
        if p == "string" || p == "bool" then throw "type" else
        if n.exponent != 0 then throw "type"                       -- G2 (documents are canonical)
        else let (lo, hi) := intRange p; if lo ≤ n.mantissa && n.mantissa ≤ hi then pure (.int n.mantissa) else throw "range"
    | .slice t, .arr xs => return .slice (← xs.toList.mapM (decode env t))
    | .map t, .obj kvs => return .map (← kvs.toArray.toList.mapM fun (k, v) => do pure (k, ← decode env t v))
    | .strct fs, .obj kvs =>
        return .strct (← fs.mapM fun (fname, fty, tags) => do
          match kvs.toArray.toList.lookup (tagName tags fname) with      -- G7, exact match (keys of D)
          | some v => pure (fname, ← decode env fty v)
          | none => pure (fname, zeroOf env fty))
    | _, _ => throw "type"                                          -- G1

  /-- the emitted UnmarshalJSON of a declaration -/
  partial def runMethod (env : Env) (d : Decl) (j : Json) : Except String GoVal := do
    if d.isEnum then
      let carrier : GoTy := match d.ty with | .strct [(_, c, _)] => c | c => c
      let v ← decode env carrier j
      let eq (e : Json) : Bool := match v, e with
        | .str a, .str b => a == b
        | .float a, .num b => !d.enumInt && a == jnumToRat b
        | .int a, .num b => d.enumInt && (a : Rat) == (truncToInt (jnumToRat b) : Rat)      -- t.Enum[i] = int(v)
        | .bool a, .bool b => a == b
        | .nil, .null => true
        | .iface (.str a), .str b => a == b
        | .iface (.num a), .num b => jnumToRat a == jnumToRat b
        | .iface (.bool a), .bool b => a == b
        | _, _ => false
      if d.enumVals.any eq then pure (if d.enumWrapped then .strct [("Value", v)] else v) else throw "enum"
    else
      let needRaw := d.validators.any fun v => match v with | .required _ | .dflt .. | .nullType .. | .anyOf _ => true | _ => false
      let raw : Option (List (String × Json)) ← (if needRaw then
          (match j with
           | .obj kvs => pure (some kvs.toArray.toList)
           | .null => pure none
           | _ => throw "type") else pure none)
      for v in d.validators do
        if let .required k := v then
          if let some kvs := raw then
            if (kvs.lookup k).isNone then throw "required"
      for v in d.validators do
        if let .anyOf bs := v then
          let oks := bs.filter fun b => match env.find b with
            | some bd => (match runMethod env bd j with | .ok _ => true | .error _ => false)
            | none => false
          if oks.isEmpty then throw "anyOf"
      let mut plain ← decode env d.ty j
      for v in d.validators do
        match v with
        | .required _ => pure ()
        | .anyOf _ => pure ()
        | .dflt field k dv =>
            let absent := match raw with | some kvs => (match kvs.lookup k with | none => true | some .null => true | _ => false) | none => true
            if absent then
              match plain with
              | .strct fs =>
                  let fty : GoTy := (match d.ty with | .strct tfs => (tfs.lookup field).map (fun (p : GoTy × String) => p.1) | _ => none).getD .iface
                  let dval ← (match decode env fty dv with | .ok x => pure x | .error _ => throw "default-does-not-compile")
                  plain := .strct (fs.map fun (n, x) => if n == field then (n, dval) else (n, x))
              | _ => pure ()
        | .nullType field depth => if !(checkNull (fieldOf plain field) depth) then throw "null"
        | .array field depth mn mx => if !(checkArray (fieldOf plain field) depth mn mx) then throw "length"
        | .string field mn mx p nl => if !(checkString (fieldOf plain field) mn mx p nl) then throw "string"
        | .numeric field nl m lo hi xlo xhi r => if !(checkNumeric (fieldOf plain field) nl m lo hi xlo xhi r) then throw "bound"
      pure plain
end

def isEmptyVal : GoVal → Bool
  | .int i => i == 0 | .float q => q == 0 | .str s => s == "" | .bool b => !b | .nil => true
  | .slice xs => xs.isEmpty | .map kvs => kvs.isEmpty | _ => false

partial def marshal (env : Env) (ty : GoTy) (v : GoVal) : Json :=
  match ty, v with
  | .named n, _ => match env.find n with
      | some d => if d.enumWrapped then (match v with | .strct [(_, x)] => marshal env .iface x | _ => .null) else marshal env d.ty v
      | none => .null
  | _, .nil => .null
  | .ptr t, .ptrTo x => marshal env t x
  | _, .int i => Json.num ⟨i, 0⟩
  | _, .float q => ratToJson q
  | _, .str s => .str s
  | _, .bool b => .bool b
  | _, .iface j => j
  | .slice t, .slice xs => Json.arr (xs.map (marshal env t)).toArray
  | .map t, .map kvs => Json.mkObj (kvs.map fun (k, x) => (k, marshal env t x))
  | .strct tfs, .strct fs =>
      Json.mkObj ((tfs.zip fs).filterMap fun ((fname, fty, tags), (_, x)) =>
        let isPtrNonNil := match x with | .ptrTo _ => true | _ => false
        if tagOmitEmpty tags && !isPtrNonNil && isEmptyVal x then none else some (tagName tags fname, marshal env fty x))
  | _, _ => .null

def handle (line : String) : IO Unit := do
  match Json.parse line with
  | .error e => IO.println s!"ERR {e}"
  | .ok c =>
    let id := (c.getObjValAs? Nat "id").toOption.getD 0
    let sch := (c.getObjVal? "schema").toOption.getD Json.null
    let tags := ["json"]
    let defs := match sch.getObjVal? "$defs" with | .ok (.obj kvs) => kvs.toArray.toList | _ => []
    let prog : M GoTy := do
      for (dn, d) in defs do
        let _ ← generateDeclaredType [] tags d (identifierize [] dn) (some dn)
      generateDeclaredType [] tags sch "Root"
    let docs := match c.getObjVal? "docs" with | .ok (.arr a) => a.toList | _ => []
    match prog.run { defs := defs } with
    | .error e => IO.println s!"{id}\tIMPORTS\tgen-error {e}"
    | .ok (rootTy, st) =>
      IO.println s!"{id}\tIMPORTS\t{" ".intercalate (st.imports.toArray.qsort (· < ·)).toList}"
      if false then
      for dj in docs do
        let dstr := (dj.getObjValAs? String "doc").toOption.getD "null"
        match Json.parse dstr with
        | .error e => IO.println s!"{id}\tparse-error\t{e}"
        | .ok doc =>
          match decode st.decls rootTy doc with
          | .ok v => IO.println s!"{id}\tok\t{(marshal st.decls rootTy v).compress}"
          | .error e => IO.println s!"{id}\treject\t{e}"

partial def loop (h : IO.FS.Stream) : IO Unit := do
  let line ← h.getLine
  if line.isEmpty then return ()
  handle line
  loop h

def main : IO Unit := do loop (← IO.getStdin)

inductive IntKind where
  | i8 | i16 | i32 | i64 | u8 | u16 | u32 | u64
deriving Repr, DecidableEq

def IntKind.lo : IntKind → Int
  | .i8 => -128 | .i16 => -32768 | .i32 => -2147483648 | .i64 => -9223372036854775808
  | _ => 0
def IntKind.hi : IntKind → Int
  | .i8 => 127 | .i16 => 32767 | .i32 => 2147483647 | .i64 => 9223372036854775807
  | .u8 => 255 | .u16 => 65535 | .u32 => 4294967295 | .u64 => 18446744073709551615
/-- what the code compares the rounded maximum with: float64(MaxInt64)=2^63, float64(MaxUint64)=2^64 -/
def IntKind.hiCmp : IntKind → Int
  | .i64 => 9223372036854775808 | .u64 => 18446744073709551616 | k => k.hi

def IntKind.inRange (k : IntKind) (v : Int) : Prop := k.lo ≤ v ∧ v ≤ k.hi

structure EB where
  lo : Option Int
  hi : Option Int

def signedKind (l h : Int) : IntKind :=
  if l < -2147483648 ∨ h > 2147483647 then .i64
  else if l < -32768 ∨ h > 32767 then .i32
  else if l < -128 ∨ h > 127 then .i16 else .i8

def unsignedKind (h : Int) : IntKind :=
  if h > 4294967295 then .u64 else if h > 65535 then .u32 else if h > 255 then .u16 else .u8

structure Choice where
  kind : IntKind
  rmLo : Bool
  rmHi : Bool

def getMinIntType (b : EB) : Choice :=
  match b.lo, b.hi with
  | some l, hi =>
    if l ≥ 0 then
      match hi with
      | none => ⟨.u64, l == 0, false⟩
      | some h => let k := unsignedKind h; ⟨k, l == 0, h == k.hiCmp⟩
    else
      match hi with
      | none => ⟨.i64, l == IntKind.i64.lo, false⟩
      | some h => let k := signedKind l h; ⟨k, l == k.lo, h == k.hiCmp⟩
  | none, none => ⟨.i64, false, false⟩
  | none, some h => ⟨.i64, false, h == IntKind.i64.hiCmp⟩

def specOK (b : EB) (v : Int) : Prop :=
  (∀ l, b.lo = some l → l ≤ v) ∧ (∀ h, b.hi = some h → v ≤ h)

def accOn (b : EB) (v : Int) : Prop :=
  let r := getMinIntType b
  r.kind.inRange v ∧ (r.rmLo = false → ∀ l, b.lo = some l → l ≤ v) ∧ (r.rmHi = false → ∀ h, b.hi = some h → v ≤ h)

def EB.inD (b : EB) : Prop :=
  (∀ l, b.lo = some l → -9007199254740992 ≤ l ∧ l ≤ 9007199254740992) ∧
  (∀ h, b.hi = some h → -9007199254740992 ≤ h ∧ h ≤ 9007199254740992)

theorem unsignedKind_lo (h : Int) : (unsignedKind h).lo = 0 := by
  unfold unsignedKind; (repeat' split) <;> rfl

theorem hi_of_hiCmp_small (k : IntKind) (h : Int) (hD : h ≤ 9007199254740992) (he : h = k.hiCmp) : k.hi = h := by
  cases k <;> simp only [IntKind.hiCmp, IntKind.hi] at * <;> omega

theorem rmLo_implied (b : EB) (l : Int) (h : b.lo = some l) (hr : (getMinIntType b).rmLo = true) :
    (getMinIntType b).kind.lo = l := by
  rcases b with ⟨lo, hi⟩
  simp only at h; subst h
  unfold getMinIntType at *
  by_cases hc : l ≥ 0 <;> rcases hi with _ | hh <;> simp only [hc, ↓reduceIte, beq_iff_eq] at hr ⊢
  · simp only [IntKind.lo]; omega
  · rw [unsignedKind_lo]; omega
  · omega
  · omega

theorem rmHi_implied (b : EB) (h : Int) (hh : b.hi = some h) (hD : h ≤ 9007199254740992)
    (hr : (getMinIntType b).rmHi = true) : (getMinIntType b).kind.hi = h := by
  rcases b with ⟨lo, hi⟩
  simp only at hh; subst hh
  unfold getMinIntType at *
  rcases lo with _ | l
  · simp only [beq_iff_eq] at hr ⊢; exact hi_of_hiCmp_small _ _ hD hr
  · by_cases hc : l ≥ 0 <;> simp only [hc, ↓reduceIte, beq_iff_eq] at hr ⊢ <;> exact hi_of_hiCmp_small _ _ hD hr

theorem accOn_iff_spec (b : EB) (v : Int) (hD : b.inD) :
    accOn b v ↔ (specOK b v ∧ (getMinIntType b).kind.inRange v) := by
  unfold accOn specOK
  constructor
  · intro ⟨hr, hl, hh⟩
    refine ⟨⟨?_, ?_⟩, hr⟩
    · intro l hl'
      cases hrm : (getMinIntType b).rmLo
      · exact hl hrm l hl'
      · have := rmLo_implied b l hl' hrm
        unfold IntKind.inRange at hr; omega
    · intro h hh'
      cases hrm : (getMinIntType b).rmHi
      · exact hh hrm h hh'
      · have := rmHi_implied b h hh' (hD.2 h hh').2 hrm
        unfold IntKind.inRange at hr; omega
  · intro ⟨⟨hl, hh⟩, hr⟩
    exact ⟨hr, fun _ => hl, fun _ => hh⟩

/-- the chosen kind can represent every admitted integer, when the admitted set is bounded on the relevant side -/
theorem kind_fits (b : EB) (l h v : Int) (hl : b.lo = some l) (hh : b.hi = some h)
    (hD : b.inD) (hv : l ≤ v ∧ v ≤ h) : (getMinIntType b).kind.inRange v := by
  rcases b with ⟨lo, hi⟩
  simp only at hl hh; subst hl; subst hh
  have h1 := (hD.1 l rfl); have h2 := (hD.2 h rfl)
  unfold getMinIntType IntKind.inRange
  simp only
  split
  · simp only [unsignedKind]; (repeat' split) <;> simp [IntKind.lo, IntKind.hi] <;> omega
  · simp only [signedKind]; (repeat' split) <;> simp [IntKind.lo, IntKind.hi] <;> omega

#print axioms accOn_iff_spec
#print axioms kind_fits
example : (getMinIntType ⟨some 0, some 9⟩).kind = .u8 ∧ (getMinIntType ⟨some 0, some 9⟩).rmLo = true := by decide

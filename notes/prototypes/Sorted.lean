-- prototype: sortedKeys is invariant under permutation of a map's entries (C12 core lemma)
def sortedKeys {β : Type} (m : List (String × β)) : List String :=
  (m.map (·.1)).mergeSort (fun a b => decide (a ≤ b))

#check @List.Perm.eq_of_pairwise
#check @List.pairwise_mergeSort
#check @List.mergeSort_perm

theorem sortedKeys_perm {β : Type} (m m' : List (String × β)) (h : m.Perm m') :
    sortedKeys m = sortedKeys m' := by
  unfold sortedKeys
  have hp : ((m.map (·.1)).mergeSort (fun a b => decide (a ≤ b))).Perm
            ((m'.map (·.1)).mergeSort (fun a b => decide (a ≤ b))) :=
    (List.mergeSort_perm _ _).trans ((h.map _).trans (List.mergeSort_perm _ _).symm)
  have tr : ∀ (a b c : String), decide (a ≤ b) = true → decide (b ≤ c) = true → decide (a ≤ c) = true := by
    intro a b c h1 h2; simp at *; exact String.le_trans h1 h2
  have tot : ∀ (a b : String), (decide (a ≤ b) || decide (b ≤ a)) = true := by
    intro a b; simp; exact String.le_total a b
  have s1 := List.pairwise_mergeSort tr tot (m.map (·.1))
  have s2 := List.pairwise_mergeSort tr tot (m'.map (·.1))
  apply List.Perm.eq_of_pairwise (le := fun a b => decide (a ≤ b) = true) _ s1 s2 hp
  intro a b _ _ h1 h2
  simp at h1 h2
  exact String.le_antisymm h1 h2

#print axioms sortedKeys_perm

import Probe.NB
import Mathlib.Tactic.Linarith
import Mathlib.Algebra.Order.Field.Rat

theorem normLo_spec (minimum : Option Rat) (x : XB) (v : Rat) :
    okLo (normLo minimum x) v = true ↔ specLo minimum x v := by
  unfold specLo
  rcases minimum with _ | m <;> rcases x with _ | b | q | _ <;> simp [normLo, okLo]
  · cases b <;> simp
  · by_cases h : m ≤ q
    · simp [h]; intro hq; linarith
    · simp [h]; intro hm; linarith

#print axioms normLo_spec

-- core-only model of mathutils.NormalizeBounds over Rat
inductive XB where
  | none | flag (b : Bool) | num (q : Rat) | other
deriving Repr, DecidableEq

structure NB where
  min : Option Rat
  max : Option Rat
  minX : Bool
  maxX : Bool
deriving Repr, DecidableEq

def normLo (minimum : Option Rat) (x : XB) : Option Rat × Bool :=
  let r : Option Rat × Bool :=
    match x with
    | .none => (minimum, false)
    | .flag b => (minimum, b)
    | .num v =>
      match minimum with
      | none => (some v, true)
      | some m => if v ≥ m then (some v, true) else (some m, false)
    | .other => (none, false)
  match minimum, r.1 with
  | some m, none => (some m, false)
  | _, _ => r

def okLo (b : Option Rat × Bool) (v : Rat) : Bool :=
  match b.1 with
  | none => true
  | some m => if b.2 then decide (m < v) else decide (m ≤ v)

def specLo (minimum : Option Rat) (x : XB) (v : Rat) : Prop :=
  (∀ m, minimum = some m → (match x with | .flag true => m < v | _ => m ≤ v)) ∧
  (∀ q, x = .num q → q < v)

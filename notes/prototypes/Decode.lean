-- prototype: typed decode of JSON into generated Go types, and "missing required key is rejected at every depth"
inductive Json where
  | null | bool (b : Bool) | int (i : Int) | frac (n : Int) (d : Nat) | str (s : String)
  | arr (xs : List Json) | obj (kvs : List (String × Json))

inductive GoTy where
  | int | float | str | bool | iface
  | ptr (t : GoTy)
  | slice (t : GoTy)
  | strct (fields : List (String × GoTy)) (required : List String)  -- a declared struct type with its presence checks

inductive GoVal where
  | int (i : Int) | float (n : Int) (d : Nat) | str (s : String) | bool (b : Bool)
  | nil | iface (j : Json) | ptrTo (v : GoVal) | slice (vs : List GoVal) | strct (fs : List (String × GoVal))

def lookup (k : String) : List (String × Json) → Option Json
  | [] => none
  | (k', v) :: rest => if k = k' then some v else lookup k rest

def hasKey (k : String) (kvs : List (String × Json)) : Bool := (lookup k kvs).isSome

mutual
  def zero : GoTy → GoVal
    | .int => .int 0 | .float => .float 0 1 | .str => .str "" | .bool => .bool false
    | .iface => .nil | .ptr _ => .nil | .slice _ => .nil
    | .strct fs _ => .strct (zeroFields fs)
  def zeroFields : List (String × GoTy) → List (String × GoVal)
    | [] => []
    | (k, t) :: rest => (k, zero t) :: zeroFields rest
end

mutual
  /-- encoding/json rules G1–G6 for the types the generator emits; `none` = the call returns an error -/
  def decode : GoTy → Json → Option GoVal
    | t, .null => some (zero t)                        -- G3 (for a struct with a method: raw map is nil, checks skipped)
    | .int, .int i => some (.int i)
    | .float, .int i => some (.float i 1)
    | .float, .frac n d => some (.float n d)
    | .str, .str s => some (.str s)
    | .bool, .bool b => some (.bool b)
    | .iface, j => some (.iface j)
    | .ptr t, j => (decode t j).map .ptrTo            -- G4
    | .slice t, .arr xs => (decodeElems t xs).map .slice
    | .strct fs req, .obj kvs =>
        if req.all (fun k => hasKey k kvs) then (decodeFields fs kvs).map .strct else none
    | _, _ => none                                     -- G1/G2: every other pairing is a type error
  def decodeElems : GoTy → List Json → Option (List GoVal)
    | _, [] => some []
    | t, x :: xs => do
        let v ← decode t x
        let vs ← decodeElems t xs
        pure (v :: vs)
  def decodeFields : List (String × GoTy) → List (String × Json) → Option (List (String × GoVal))
    | [], _ => some []
    | (k, t) :: rest, kvs => do
        let v ← match lookup k kvs with
                | some j => decode t j
                | none => some (zero t)
        let vs ← decodeFields rest kvs
        pure ((k, v) :: vs)
end

/-- somewhere in the document, at a struct-typed position, an object lacks a key its type requires -/
inductive MissingAt : GoTy → Json → Prop where
  | here  {fs req kvs k} : k ∈ req → hasKey k kvs = false → MissingAt (.strct fs req) (.obj kvs)
  | field {fs req kvs k t j} : (k, t) ∈ fs → lookup k kvs = some j → MissingAt t j → MissingAt (.strct fs req) (.obj kvs)
  | elem  {t xs x} : x ∈ xs → MissingAt t x → MissingAt (.slice t) (.arr xs)
  | ptr   {t j} : MissingAt t j → MissingAt (.ptr t) j

theorem decodeElems_none {t : GoTy} {xs : List Json} {x : Json} (hx : x ∈ xs) (h : decode t x = none) :
    decodeElems t xs = none := by
  induction xs with
  | nil => cases hx
  | cons y ys ih =>
    rcases List.mem_cons.mp hx with rfl | hx
    · simp [decodeElems, h]
    · simp only [decodeElems]
      cases decode t y <;> simp [ih hx]

theorem decodeFields_none {fs : List (String × GoTy)} {kvs : List (String × Json)} {k : String} {t : GoTy} {j : Json}
    (hf : (k, t) ∈ fs) (hl : lookup k kvs = some j) (h : decode t j = none) : decodeFields fs kvs = none := by
  induction fs with
  | nil => cases hf
  | cons f rest ih =>
    obtain ⟨k', t'⟩ := f
    rcases List.mem_cons.mp hf with heq | hf
    · cases heq
      simp [decodeFields, hl, h]
    · simp only [decodeFields, ih hf]
      cases lookup k' kvs with
      | none => simp
      | some j' => cases decode t' j' <;> simp

theorem missing_null_false {t : GoTy} : ¬ MissingAt t .null := by
  intro h
  generalize hj : Json.null = j at h
  induction h with
  | here _ _ => cases hj
  | field _ _ _ _ => cases hj
  | elem _ _ _ => cases hj
  | ptr _ ih => exact ih hj

/-- C04 shape: at any depth, through pointers, arrays and nested objects -/
theorem rejects_missing {t : GoTy} {d : Json} (h : MissingAt t d) : decode t d = none := by
  induction h with
  | @here fs req kvs k hk hn =>
    have : req.all (fun k => hasKey k kvs) = false := by
      apply Bool.eq_false_iff.mpr
      intro hall
      have := List.all_eq_true.mp hall k hk
      simp [hn] at this
    simp [decode, this]
  | @field fs req kvs k t j hf hl _ ih =>
    simp only [decode]
    split
    · simp [decodeFields_none hf hl ih]
    · rfl
  | @elem t xs x hx _ ih =>
    simp [decode, decodeElems_none hx ih]
  | @ptr t j hm ih =>
    cases j with
    | null => exact absurd hm missing_null_false
    | _ => simp [decode, ih]

#print axioms rejects_missing

-- non-vacuity: a three-level document whose innermost object lacks "k"
def tyEx : GoTy := .strct [("a", .ptr (.slice (.strct [("k", .int)] ["k"])))] []
def docEx : Json := .obj [("a", .arr [.obj [("k", .int 1)], .obj []])]
example : MissingAt tyEx docEx :=
  .field (k := "a") (List.mem_cons_self ..) rfl (.ptr (.elem (x := .obj []) (by simp) (.here (k := "k") (by simp) rfl)))

/-
  Prototype: C04 on a faithfully shaped TOTAL model — fuel, declaration environment, named types whose
  pointer has an emitted UnmarshalJSON (raw-map presence checks BEFORE the shadow decode, value checks after).
-/
inductive Json where
  | null | bool (b : Bool) | int (i : Int) | frac (n : Int) (d : Nat) | str (s : String)
  | arr (xs : List Json) | obj (kvs : List (String × Json))

inductive GoTy where
  | int | float | str | bool | iface
  | ptr (t : GoTy) | slice (t : GoTy) | named (n : String)
  | strct (fields : List (String × GoTy))            -- json key ↦ type (the tag IS the property name, C14)

inductive GoVal where
  | int (i : Int) | float (n : Int) (d : Nat) | str (s : String) | bool (b : Bool)
  | nil | iface (j : Json) | ptrTo (v : GoVal) | slice (vs : List GoVal) | strct (fs : List (String × GoVal))

inductive Validator where
  | required (k : String)                       -- before: `if _, ok := raw[k]; raw != nil && !ok`
  | minInt (k : String) (nillable : Bool) (b : Int)   -- after:  `if [plain.k != nil &&] b > [*]plain.k`

structure Decl where
  name : String
  ty : GoTy
  validators : List Validator

abbrev Env := List Decl

def Env.find (env : Env) (n : String) : Option Decl :=
  match env with
  | [] => none
  | d :: rest => if d.name = n then some d else Env.find rest n

def lookup (k : String) : List (String × Json) → Option Json
  | [] => none
  | (k', v) :: rest => if k = k' then some v else lookup k rest

def vlookup (k : String) : List (String × GoVal) → Option GoVal
  | [] => none
  | (k', v) :: rest => if k = k' then some v else vlookup k rest

inductive Err where | type | required (k : String) | bound (k : String) | fuel | nodecl

/-- the presence checks of a method; `raw = none` models the nil map of a JSON null -/
def checkRequired (vs : List Validator) (raw : Option (List (String × Json))) : Except Err Unit :=
  match vs with
  | [] => .ok ()
  | .required k :: rest =>
      match raw with
      | some kvs => if (lookup k kvs).isSome then checkRequired rest raw else .error (.required k)
      | none => checkRequired rest raw
  | _ :: rest => checkRequired rest raw

def checkAfter (vs : List Validator) (plain : GoVal) : Except Err Unit :=
  match vs with
  | [] => .ok ()
  | .minInt k nillable b :: rest =>
      let v := match plain with | .strct fs => vlookup k fs | _ => none
      let bad := match v, nillable with
        | some (.int x), false => decide (b > x)
        | some (.ptrTo (.int x)), true => decide (b > x)
        | _, _ => false
      if bad then .error (.bound k) else checkAfter rest plain
  | _ :: rest => checkAfter rest plain

def zero : GoTy → GoVal
  | .int => .int 0 | .float => .float 0 1 | .str => .str "" | .bool => .bool false
  | .strct _ => .strct []        -- (field-wise zero is irrelevant to the theorems below)
  | _ => .nil

mutual
  def decode : Nat → Env → GoTy → Json → Except Err GoVal
    | 0, _, _, _ => .error .fuel
    | f + 1, env, ty, j =>
      match ty, j with
      | .named n, _ =>
          match env.find n with
          | none => .error .nodecl
          | some d => if d.validators.isEmpty then decode f env d.ty j else runMethod f env d j     -- G6, G3
      | .ptr _, .null => .ok .nil
      | .ptr t, _ => (decode f env t j).map .ptrTo
      | .iface, _ => .ok (.iface j)
      | t, .null => .ok (zero t)
      | .int, .int i => .ok (.int i)
      | .float, .int i => .ok (.float i 1)
      | .float, .frac n d => .ok (.float n d)
      | .str, .str s => .ok (.str s)
      | .bool, .bool b => .ok (.bool b)
      | .slice t, .arr xs => (decodeElems f env t xs).map .slice
      | .strct fs, .obj kvs => (decodeFields f env fs kvs).map .strct
      | _, _ => .error .type
  def decodeElems : Nat → Env → GoTy → List Json → Except Err (List GoVal)
    | 0, _, _, _ => .error .fuel
    | _ + 1, _, _, [] => .ok []
    | f + 1, env, t, x :: xs => do
        let v ← decode f env t x
        let vs ← decodeElems f env t xs
        pure (v :: vs)
  def decodeFields : Nat → Env → List (String × GoTy) → List (String × Json) → Except Err (List (String × GoVal))
    | 0, _, _, _ => .error .fuel
    | _ + 1, _, [], _ => .ok []
    | f + 1, env, (k, t) :: rest, kvs => do
        let v ← match lookup k kvs with
                | some j => decode f env t j
                | none => .ok (zero t)
        let vs ← decodeFields f env rest kvs
        pure ((k, v) :: vs)
  /-- the emitted method: raw map, presence checks, shadow decode, value checks, single final result -/
  def runMethod : Nat → Env → Decl → Json → Except Err GoVal
    | 0, _, _, _ => .error .fuel
    | f + 1, env, d, j => do
        let raw ← (match j with
          | .obj kvs => .ok (some kvs)
          | .null => .ok none
          | _ => .error .type : Except Err (Option (List (String × Json))))
        checkRequired d.validators raw
        let plain ← decode f env d.ty j          -- `type Plain T`: same underlying type, no method
        checkAfter d.validators plain
        pure plain
end

/-- somewhere below `ty`, following exactly the paths `decode` follows, an object lacks a key whose
    declaration carries `required k` -/
inductive MissingAt (env : Env) : GoTy → Json → Prop where
  | here  {n d kvs k} : env.find n = some d → Validator.required k ∈ d.validators → lookup k kvs = none →
      MissingAt env (.named n) (.obj kvs)
  | under {n d j} : env.find n = some d → MissingAt env d.ty j → MissingAt env (.named n) j
  | field {fs kvs k t j} : (k, t) ∈ fs → lookup k kvs = some j → MissingAt env t j → MissingAt env (.strct fs) (.obj kvs)
  | elem  {t xs x} : x ∈ xs → MissingAt env t x → MissingAt env (.slice t) (.arr xs)
  | ptr   {t j} : MissingAt env t j → MissingAt env (.ptr t) j

def okB {ε α} : Except ε α → Bool | .ok _ => true | .error _ => false

theorem checkRequired_fails {vs : List Validator} {kvs : List (String × Json)} {k : String}
    (hk : Validator.required k ∈ vs) (hl : lookup k kvs = none) : okB (checkRequired vs (some kvs)) = false := by
  induction vs with
  | nil => cases hk
  | cons v rest ih =>
    cases v with
    | required k' =>
      simp only [checkRequired]
      rcases List.mem_cons.mp hk with heq | hk
      · cases heq; simp [hl, okB]
      · split
        · exact ih hk
        · rfl
    | minInt k' nl b =>
      simp only [checkRequired]
      rcases List.mem_cons.mp hk with heq | hk
      · cases heq
      · exact ih hk

theorem missing_not_null {env : Env} {t : GoTy} : ¬ MissingAt env t .null := by
  intro h
  generalize hj : Json.null = j at h
  induction h with
  | here _ _ _ => cases hj
  | under _ _ ih => exact ih hj
  | field _ _ _ _ => cases hj
  | elem _ _ _ => cases hj
  | ptr _ ih => exact ih hj

theorem isOk_map {ε α β} (f : α → β) (x : Except ε α) : okB (x.map f) = okB x := by
  cases x <;> rfl

theorem decodeElems_fails {f : Nat} {env : Env} {t : GoTy} {xs : List Json} {x : Json} (hx : x ∈ xs)
    (h : ∀ f, okB (decode f env t x) = false) : okB (decodeElems f env t xs) = false := by
  induction xs generalizing f with
  | nil => cases hx
  | cons y ys ih =>
    cases f with
    | zero => rfl
    | succ f =>
      simp only [decodeElems]
      rcases List.mem_cons.mp hx with rfl | hx
      · have := h f
        cases hd : decode f env t x <;> simp_all [okB, bind, Except.bind]
      · have := ih (f := f) hx
        cases hd : decode f env t y <;> cases hr : decodeElems f env t ys <;> simp_all [okB, bind, Except.bind, pure, Except.pure]

theorem decodeFields_fails {f : Nat} {env : Env} {fs : List (String × GoTy)} {kvs : List (String × Json)}
    {k : String} {t : GoTy} {j : Json} (hf : (k, t) ∈ fs) (hl : lookup k kvs = some j)
    (h : ∀ f, okB (decode f env t j) = false) : okB (decodeFields f env fs kvs) = false := by
  induction fs generalizing f with
  | nil => cases hf
  | cons p rest ih =>
    obtain ⟨k', t'⟩ := p
    cases f with
    | zero => rfl
    | succ f =>
      simp only [decodeFields]
      rcases List.mem_cons.mp hf with heq | hf
      · cases heq
        have := h f
        simp only [hl]
        cases hd : decode f env t j <;> simp_all [okB, bind, Except.bind]
      · have hrest := ih (f := f) hf
        cases hl' : lookup k' kvs with
        | none => cases hr : decodeFields f env rest kvs <;> simp_all [okB, bind, Except.bind]
        | some j' =>
          cases hd : decode f env t' j' <;> cases hr : decodeFields f env rest kvs <;> simp_all [okB, bind, Except.bind]

/-- C04, faithful shape: whatever the fuel, whatever the depth, the document is not accepted -/
theorem rejects_missing {env : Env} {ty : GoTy} {d : Json} (h : MissingAt env ty d) :
    ∀ fuel, okB (decode fuel env ty d) = false := by
  induction h with
  | @here n dd kvs k hfind hk hl =>
    intro fuel
    cases fuel with
    | zero => rfl
    | succ f =>
      have hne : dd.validators.isEmpty = false := by
        cases hv : dd.validators with
        | nil => rw [hv] at hk; cases hk
        | cons _ _ => rfl
      simp only [decode, hfind, hne]
      cases f with
      | zero => rfl
      | succ f =>
        simp only [runMethod, Bool.false_eq_true, ↓reduceIte]
        have := checkRequired_fails (vs := dd.validators) hk hl
        cases hc : checkRequired dd.validators (some kvs) <;> simp_all [okB, bind, Except.bind]
  | @under n dd j hfind hm ih =>
    intro fuel
    cases fuel with
    | zero => rfl
    | succ f =>
      simp only [decode, hfind]
      split
      · exact ih f
      · cases f with
        | zero => rfl
        | succ f =>
          simp only [runMethod]
          cases j with
          | null => exact absurd hm missing_not_null
          | obj kvs =>
            have := ih f
            cases hc : checkRequired dd.validators (some kvs) <;>
              cases hd : decode f env dd.ty (Json.obj kvs) <;> simp_all [okB, bind, Except.bind]
          | _ => rfl
  | @field fs kvs k t j hf hl hm ih =>
    intro fuel
    cases fuel with
    | zero => rfl
    | succ f =>
      simp only [decode]
      rw [isOk_map]
      exact decodeFields_fails hf hl ih
  | @elem t xs x hx hm ih =>
    intro fuel
    cases fuel with
    | zero => rfl
    | succ f =>
      simp only [decode]
      rw [isOk_map]
      exact decodeElems_fails hx ih
  | @ptr t j hm ih =>
    intro fuel
    cases fuel with
    | zero => rfl
    | succ f =>
      cases j with
      | null => exact absurd hm missing_not_null
      | _ => simp only [decode]; rw [isOk_map]; exact ih f

#print axioms rejects_missing

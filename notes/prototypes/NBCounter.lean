import Probe.NB
-- the code as it stands (strict comparison: the inclusive bound wins a tie)
def normLoCode (minimum : Option Rat) (x : XB) : Option Rat × Bool :=
  let r : Option Rat × Bool :=
    match x with
    | .none => (minimum, false)
    | .flag b => (minimum, b)
    | .num v =>
      match minimum with
      | none => (some v, true)
      | some m => if v > m then (some v, true) else (some m, false)
    | .other => (none, false)
  match minimum, r.1 with
  | some m, none => (some m, false)
  | _, _ => r

/-- C05 is false of the unrepaired code: minimum 5, exclusiveMinimum 5, value 5 is accepted -/
theorem tie_counterexample :
    okLo (normLoCode (some 5) (.num 5)) 5 = true ∧ ¬ specLo (some 5) (.num 5) 5 := by
  constructor
  · decide
  · intro h
    have := h.2 5 rfl
    exact absurd this (by decide)

#print axioms tie_counterexample

/-
  Draft of GJS/Spec.lean — the reference semantics every property is judged against.
  Written from the JSON-Schema specification and the statements in properties.jsonl, not from the code.
  Core Lean only.
-/

inductive Json where
  | null | bool (b : Bool) | num (q : Rat) | str (s : String)
  | arr (xs : List Json) | obj (kvs : List (String × Json))

inductive JType where
  | null | boolean | integer | number | string | array | object
deriving DecidableEq, Repr

namespace Json

/-- the JSON type of a value, by VALUE: a number is an integer iff it is integral (draft 6+; C03) -/
def jtype : Json → JType
  | .null => .null | .bool _ => .boolean | .str _ => .string | .arr _ => .array | .obj _ => .object
  | .num q => if q.den = 1 then .integer else .number

def get (k : String) : List (String × Json) → Option Json
  | [] => none
  | (k', v) :: rest => if k = k' then some v else get k rest

mutual
  /-- JSON equality: numbers by value, objects as finite maps (no duplicate keys in D), arrays positionally -/
  def beq : Json → Json → Bool
    | .null, .null => true
    | .bool a, .bool b => a == b
    | .num a, .num b => a == b
    | .str a, .str b => a == b
    | .arr xs, .arr ys => beqList xs ys
    | .obj xs, .obj ys => xs.length == ys.length && beqObj xs ys
    | _, _ => false
  def beqList : List Json → List Json → Bool
    | [], [] => true
    | x :: xs, y :: ys => beq x y && beqList xs ys
    | _, _ => false
  def beqObj : List (String × Json) → List (String × Json) → Bool
    | [], _ => true
    | (k, v) :: rest, ys => (match get k ys with | some w => beq v w | none => false) && beqObj rest ys
end

end Json

/-- exclusiveMinimum / exclusiveMaximum in either draft's spelling -/
inductive XB where
  | absent | flag (b : Bool) | num (q : Rat)

/-- patterns: the closed family of §1.2 of DESIGN.md; matching is implemented here, not delegated -/
inductive Pat where
  | none | pre (lit : String) | suf (lit : String) | exact (lit : String) | sub (lit : String)
  | lowers | digits1

/-- the supported schema language (DESIGN.md §1.2), after parsing -/
inductive Schema where
  | mk (types : List JType)            -- [] = unconstrained
       (enum : Option (List Json))
       (minimum maximum multipleOf : Option Rat) (xmin xmax : XB)
       (minLength : Nat) (maxLength : Option Nat) (pattern : Pat)
       (items : Option Schema) (minItems : Nat) (maxItems : Option Nat)
       (props : List (String × Schema)) (required : List String)
       (addl : Option Schema)           -- additionalProperties: schema for the undeclared keys (`false` = some {not:{}} is outside D)
       (allOf anyOf : List Schema)
       (ref : Option String)

abbrev Defs := List (String × Schema)

def matchesPat (p : Pat) (s : String) : Bool :=
  match p with
  | .none => true
  | .pre l => l.isPrefixOf s
  | .suf l => s.endsWith l
  | .exact l => s == l
  | .sub l => (s.splitOn l).length > 1 || l.isEmpty
  | .lowers => s.all Char.isLower          -- ^[a-z]*$
  | .digits1 => !s.isEmpty && s.all Char.isDigit   -- ^[0-9]+$

/-- C05: the effective interval is the intersection of all stated bounds -/
def numOK (minimum maximum multipleOf : Option Rat) (xmin xmax : XB) (v : Rat) : Bool :=
  (match minimum, xmin with
   | some m, .flag true => decide (m < v)
   | some m, _ => decide (m ≤ v)
   | none, _ => true) &&
  (match xmin with | .num q => decide (q < v) | _ => true) &&
  (match maximum, xmax with
   | some m, .flag true => decide (v < m)
   | some m, _ => decide (v ≤ m)
   | none, _ => true) &&
  (match xmax with | .num q => decide (v < q) | _ => true) &&
  (match multipleOf with
   | some m => m != 0 && (v / m).den == 1       -- v is an integer multiple of m
   | none => true)

/-- C06: length in characters (Unicode scalar values), not bytes -/
def strOK (minLength : Nat) (maxLength : Option Nat) (p : Pat) (s : String) : Bool :=
  minLength ≤ s.length && (match maxLength with | some m => s.length ≤ m | none => true) && matchesPat p s

def typeOK (types : List JType) (j : Json) : Bool :=
  types.isEmpty || types.contains j.jtype || (j.jtype == .integer && types.contains .number)

mutual
  /-- validity under the supported keywords; `fuel` bounds $ref unfolding only (recursive definitions) -/
  def valid (defs : Defs) : Nat → Schema → Json → Bool
    | 0, _, _ => false
    | fuel + 1, .mk types enum minimum maximum multipleOf xmin xmax minLength maxLength pattern
                   items minItems maxItems props required addl allOf anyOf ref, j =>
      (match ref with
       | some r => (match defs.lookup r with | some t => valid defs fuel t j | none => false)
       | none => true) &&
      typeOK types j &&
      (match enum with | some vs => vs.any (fun e => Json.beq e j) | none => true) &&
      (match j with
       | .num v => numOK minimum maximum multipleOf xmin xmax v
       | .str s => strOK minLength maxLength pattern s
       | .arr xs =>
           minItems ≤ xs.length && (match maxItems with | some m => xs.length ≤ m | none => true) &&
           (match items with | some it => validAll defs fuel it xs | none => true)      -- C07: THIS array, THESE items
       | .obj kvs =>
           required.all (fun k => (Json.get k kvs).isSome) &&                           -- C04: declared or not
           validProps defs fuel props kvs &&
           (match addl with | some a => validAddl defs fuel a props kvs | none => true)   -- C03: typed additional values
       | _ => true) &&
      validEvery defs fuel allOf j &&                                                    -- C11: conjunction
      (anyOf.isEmpty || validSome defs fuel anyOf j)                                     -- C11: disjunction
  def validAll (defs : Defs) : Nat → Schema → List Json → Bool
    | _, _, [] => true
    | fuel, s, x :: xs => valid defs fuel s x && validAll defs fuel s xs
  def validProps (defs : Defs) : Nat → List (String × Schema) → List (String × Json) → Bool
    | _, [], _ => true
    | fuel, (k, s) :: rest, kvs =>
        (match Json.get k kvs with | some v => valid defs fuel s v | none => true) && validProps defs fuel rest kvs
  def validAddl (defs : Defs) : Nat → Schema → List (String × Schema) → List (String × Json) → Bool
    | _, _, _, [] => true
    | fuel, a, props, (k, v) :: rest =>
        ((props.lookup k).isSome || valid defs fuel a v) && validAddl defs fuel a props rest
  def validEvery (defs : Defs) : Nat → List Schema → Json → Bool
    | _, [], _ => true
    | fuel, s :: rest, j => valid defs fuel s j && validEvery defs fuel rest j
  def validSome (defs : Defs) : Nat → List Schema → Json → Bool
    | _, [], _ => false
    | fuel, s :: rest, j => valid defs fuel s j || validSome defs fuel rest j
end

-- sanity: the tie of C05 and the multi-byte string of C06, evaluated by the spec itself
example : numOK (some 5) none none (.num 5) .absent 5 = false := by decide
example : numOK (some 5) none none (.num 5) .absent 6 = true := by decide
example : numOK none none (some (1/10)) .absent .absent (3/10) = true := by decide +kernel
#eval strOK 0 (some 3) .none "日本語"    -- true: three characters

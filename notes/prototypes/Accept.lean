import Probe.Decode
-- prototype: miniature generator (schema ↦ Go type) and "every valid document is accepted", all depths

inductive Schema where
  | integer | number | string | boolean | any
  | array (items : Schema)
  | object (props : List (String × Schema)) (required : List String)

def GoTy.nillable : GoTy → Bool
  | .ptr _ | .slice _ | .iface => true
  | _ => false

def wrapPtr (t : GoTy) : GoTy := if t.nillable then t else .ptr t

mutual
  /-- type selection: value for required, pointer for optional non-nillable (addStructField) -/
  def plan : Schema → GoTy
    | .integer => .int | .number => .float | .string => .str | .boolean => .bool | .any => .iface
    | .array s => .slice (plan s)
    | .object ps req => .strct (planFields ps req) (req.filter (fun k => ps.any (fun p => p.1 = k)))
  def planFields : List (String × Schema) → List String → List (String × GoTy)
    | [], _ => []
    | (k, s) :: rest, req =>
        (k, if req.contains k then plan s else wrapPtr (plan s)) :: planFields rest req
end

mutual
  /-- reference semantics (independent of the generator) -/
  def valid : Schema → Json → Bool
    | .integer, .int _ => true
    | .number, .int _ => true
    | .number, .frac _ _ => true
    | .string, .str _ => true
    | .boolean, .bool _ => true
    | .any, _ => true
    | .array s, .arr xs => validAll s xs
    | .object ps req, .obj kvs => req.all (fun k => hasKey k kvs) && validProps ps kvs
    | _, _ => false
  def validAll : Schema → List Json → Bool
    | _, [] => true
    | s, x :: xs => valid s x && validAll s xs
  def validProps : List (String × Schema) → List (String × Json) → Bool
    | [], _ => true
    | (k, s) :: rest, kvs =>
        (match lookup k kvs with | some j => valid s j | none => true) && validProps rest kvs
end

theorem decode_wrapPtr {t : GoTy} {j : Json} (h : (decode t j).isSome) : (decode (wrapPtr t) j).isSome := by
  unfold wrapPtr
  split
  · exact h
  · cases j <;> simp_all [decode]

mutual
  theorem accepts_valid : ∀ (s : Schema) (d : Json), valid s d = true → (decode (plan s) d).isSome
    | .integer, d, h => by cases d <;> simp_all [valid, plan, decode]
    | .number, d, h => by cases d <;> simp_all [valid, plan, decode]
    | .string, d, h => by cases d <;> simp_all [valid, plan, decode]
    | .boolean, d, h => by cases d <;> simp_all [valid, plan, decode]
    | .any, d, _ => by cases d <;> simp [plan, decode]
    | .array s, d, h => by
        cases d with
        | arr xs =>
          have := accepts_all s xs (by simpa [valid] using h)
          simp only [plan, decode]
          cases hd : decodeElems (plan s) xs <;> simp_all
        | _ => simp_all [valid]
    | .object ps req, d, h => by
        cases d with
        | obj kvs =>
          simp only [valid, Bool.and_eq_true] at h
          have hf := accepts_props ps req kvs h.2
          simp only [plan, decode]
          have hreq : (req.filter (fun k => ps.any (fun p => p.1 = k))).all (fun k => hasKey k kvs) = true := by
            apply List.all_eq_true.mpr
            intro k hk
            exact List.all_eq_true.mp h.1 k (List.mem_filter.mp hk).1
          simp only [hreq, ↓reduceIte]
          cases hd : decodeFields (planFields ps req) kvs <;> simp_all
        | _ => simp_all [valid]
  theorem accepts_all : ∀ (s : Schema) (xs : List Json), validAll s xs = true → (decodeElems (plan s) xs).isSome
    | _, [], _ => by simp [decodeElems]
    | s, x :: xs, h => by
        simp only [validAll, Bool.and_eq_true] at h
        have h1 := accepts_valid s x h.1
        have h2 := accepts_all s xs h.2
        simp only [decodeElems]
        cases hx : decode (plan s) x <;> cases hxs : decodeElems (plan s) xs <;> simp_all
  theorem accepts_props : ∀ (ps : List (String × Schema)) (req : List String) (kvs : List (String × Json)),
      validProps ps kvs = true → (decodeFields (planFields ps req) kvs).isSome
    | [], _, _, _ => by simp [planFields, decodeFields]
    | (k, s) :: rest, req, kvs, h => by
        simp only [validProps, Bool.and_eq_true] at h
        have h2 := accepts_props rest req kvs h.2
        simp only [planFields, decodeFields]
        cases hl : lookup k kvs with
        | none => cases hxs : decodeFields (planFields rest req) kvs <;> simp_all
        | some j =>
          have hv : valid s j = true := by simpa [hl] using h.1
          have h1 := accepts_valid s j hv
          have h1' : (decode (if req.contains k then plan s else wrapPtr (plan s)) j).isSome := by
            split
            · exact h1
            · exact decode_wrapPtr h1
          cases hx : decode (if req.contains k then plan s else wrapPtr (plan s)) j <;>
            cases hxs : decodeFields (planFields rest req) kvs <;> simp_all
end

#print axioms accepts_valid

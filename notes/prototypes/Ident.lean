-- prototype: splitIdentifierByCaseAndSeparators over classified runes
inductive Cls where
  | lower | upper | nocase | number | delim
deriving Repr, DecidableEq

inductive St where
  | nothing | is (c : Cls)
deriving Repr, DecidableEq

structure SplitSt (α : Type) where
  cur  : St
  part : List α          -- runes[j:i] accumulated so far (empty while in a delimiter run)
  done : List (List α)   -- emitted parts, in order

variable {α : Type} (cls : α → Cls)

def emit (a : List (List α)) (p : List α) : List (List α) := if p = [] then a else a ++ [p]

def step (s : SplitSt α) (r : α) : SplitSt α :=
  let n := cls r
  if s.cur = .is n then
    if n = .delim then s else { s with part := s.part ++ [r] }
  else if s.cur = .is .delim then { s with cur := .is n, part := [r] }
  else if s.cur = .is .upper ∧ n = .lower then { s with cur := .is n, part := s.part ++ [r] }
  else { cur := .is n, part := if n = .delim then [] else [r], done := emit s.done s.part }

def splitIdent (rs : List α) : List (List α) :=
  let s := rs.foldl (step cls) ⟨.nothing, [], []⟩
  emit s.done s.part

def SInv (s : SplitSt α) (seen : List α) : Prop :=
  (∀ p ∈ s.done, p ≠ [] ∧ ∀ r ∈ p, cls r ≠ .delim) ∧
  (∀ r ∈ s.part, cls r ≠ .delim) ∧
  (s.cur = .is .delim → s.part = []) ∧
  (s.done.flatten ++ s.part = seen.filter (fun r => cls r ≠ .delim))

theorem emit_flatten (a : List (List α)) (p : List α) : (emit a p).flatten = a.flatten ++ p := by
  unfold emit; split <;> simp_all

theorem emit_mem (a : List (List α)) (p q : List α) (h : q ∈ emit a p) : q ∈ a ∨ (q = p ∧ p ≠ []) := by
  unfold emit at h; split at h <;> simp_all

theorem step_inv (s : SplitSt α) (seen : List α) (r : α) (h : SInv cls s seen) :
    SInv cls (step cls s r) (seen ++ [r]) := by
  obtain ⟨h1, h2, h3, h4⟩ := h
  have hdone : ∀ p ∈ emit s.done s.part, p ≠ [] ∧ ∀ r ∈ p, cls r ≠ .delim := by
    intro p hp
    rcases emit_mem _ _ _ hp with hp | ⟨rfl, hne⟩
    · exact h1 p hp
    · exact ⟨hne, h2⟩
  have hpart : ∀ x ∈ s.part ++ [r], cls r ≠ .delim → cls x ≠ .delim := by
    intro x hx hd; simp at hx; rcases hx with hx | rfl
    · exact h2 x hx
    · exact hd
  unfold step SInv
  simp only
  by_cases hd : cls r = .delim
  · have hf : (seen ++ [r]).filter (fun r => cls r ≠ .delim) = seen.filter (fun r => cls r ≠ .delim) := by
      simp [List.filter_append, hd]
    rw [hf]
    split
    · exact ⟨h1, h2, h3, h4⟩
    · split
      · rename_i hc hc2; exact absurd (hd ▸ hc2) hc
      · split
        · rename_i hc; rw [hd] at hc; exact absurd hc.2 (by decide)
        · refine ⟨hdone, by simp [hd], by simp [hd], ?_⟩
          simp only [hd, ↓reduceIte, emit_flatten, List.append_nil]; exact h4
  · have hf : (seen ++ [r]).filter (fun r => cls r ≠ .delim) = seen.filter (fun r => cls r ≠ .delim) ++ [r] := by
      simp [List.filter_append, hd]
    rw [hf, ← h4]
    split
    · rename_i hc
      refine ⟨h1, fun x hx => hpart x hx hd, ?_, by simp [List.append_assoc]⟩
      intro hcd; simp only at hcd; rw [hc] at hcd; injection hcd with h'; exact absurd h' hd
    · split
      · rename_i hc hc2
        refine ⟨h1, by simpa using hd, by simp; exact hd, ?_⟩
        simp [h3 hc2]
      · split
        · refine ⟨h1, fun x hx => hpart x hx hd, ?_, by simp [List.append_assoc]⟩
          intro hcd; simp only at hcd; injection hcd with h'; exact absurd h' hd
        · refine ⟨hdone, by simpa [hd] using hd, by simp [hd], ?_⟩
          simp [hd, emit_flatten, List.append_assoc]

theorem foldl_inv (rs : List α) (s : SplitSt α) (seen : List α) (h : SInv cls s seen) :
    SInv cls (rs.foldl (step cls) s) (seen ++ rs) := by
  induction rs generalizing s seen with
  | nil => simpa using h
  | cons r rs ih =>
    have := ih (step cls s r) (seen ++ [r]) (step_inv cls s seen r h)
    simpa [List.append_assoc] using this

/-- the parts are non-empty, delimiter-free, and together are exactly the non-delimiter runes in order -/
theorem splitIdent_spec (rs : List α) :
    (∀ p ∈ splitIdent cls rs, p ≠ [] ∧ ∀ r ∈ p, cls r ≠ .delim) ∧
    (splitIdent cls rs).flatten = rs.filter (fun r => cls r ≠ .delim) := by
  have hinv : SInv cls (rs.foldl (step cls) ⟨.nothing, [], []⟩) ([] ++ rs) :=
    foldl_inv cls rs _ [] ⟨by simp, by simp, by simp, by simp⟩
  obtain ⟨h1, h2, _, h4⟩ := hinv
  unfold splitIdent
  simp only
  constructor
  · intro p hp
    rcases emit_mem _ _ _ hp with hp | ⟨rfl, hne⟩
    · exact h1 p hp
    · exact ⟨hne, h2⟩
  · simpa [emit_flatten] using h4

#print axioms splitIdent_spec

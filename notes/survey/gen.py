import json, random, sys, copy
import jsonschema
from jsonschema import Draft7Validator, Draft4Validator

seed=int(sys.argv[1]); N=int(sys.argv[2]); out=sys.argv[3]; EXT=len(sys.argv)>4 and sys.argv[4]=="ext"; TREE=len(sys.argv)>4 and sys.argv[4]=="tree"
R=random.Random(seed)

def num_schema(ty, draft4):
    s={"type":ty}
    lo=R.choice([None,None,0,1,2,-3]); hi=R.choice([None,None,5,8,10])
    if lo is not None and hi is not None and lo>hi: lo,hi=hi,lo
    if lo is not None and R.random()<0.8: s["minimum"]=lo
    if hi is not None and R.random()<0.8: s["maximum"]=hi
    if draft4:
        if "minimum" in s and R.random()<0.4: s["exclusiveMinimum"]=R.choice([True,False])
        if "maximum" in s and R.random()<0.4: s["exclusiveMaximum"]=R.choice([True,False])
    else:
        if R.random()<0.3: s["exclusiveMinimum"]=R.choice([0,1,2,-3])
        if R.random()<0.3: s["exclusiveMaximum"]=R.choice([5,8,10,9])
    if R.random()<0.2: s["multipleOf"]=R.choice([2,3,5]) if ty=="integer" else R.choice([2,0.5,0.25,1.5])
    return s
def str_schema():
    s={"type":"string"}
    if R.random()<0.5: s["minLength"]=R.choice([1,2,3])
    if R.random()<0.5: s["maxLength"]=R.choice([3,4,6])
    if R.random()<0.3: s["pattern"]=R.choice(["^a","z$","^abc$","b","^[a-z]*$","^[0-9]+$"])
    return s
def enum_schema():
    k=R.choice(["s","i","n","mixed","b","typed_s","typed_i"])
    if k=="s": return {"enum":R.sample(["red","green","blue","x y","a"],R.randint(1,3))}
    if k=="i": return {"enum":R.sample([1,2,3,10,-1],R.randint(1,3))}
    if k=="n": return {"enum":R.sample([1.5,2,3.25],R.randint(1,3))}
    if k=="b": return {"enum":[True]}
    if k=="mixed": return {"enum":R.sample([1,"a",None,True,2.5],R.randint(2,4))}
    if k=="typed_s": return {"type":"string","enum":R.sample(["red","green","blue"],R.randint(1,3))}
    return {"type":"integer","enum":R.sample([1,2,3,10],R.randint(1,3))}
def arr_schema(depth, draft4):
    s={"type":"array","items":prop_schema(depth+1,draft4,in_array=True)}
    if R.random()<0.5: s["minItems"]=R.choice([1,2])
    if R.random()<0.5: s["maxItems"]=R.choice([2,3])
    return s
def obj_schema(depth, draft4, defs=None):
    n=R.randint(1,3); props={}
    for i in range(n):
        props[R.choice(["a","b","c","name","val","x1","fooBar","foo_bar"])+("" if R.random()<0.7 else str(i))]=prop_schema(depth+1,draft4,defs=defs)
    s={"type":"object","properties":props}
    req=[k for k in props if R.random()<0.4]
    if req: s["required"]=req
    if EXT and R.random()<0.2: s["additionalProperties"]=R.choice([True,False,{"type":"integer"},{"type":"string"}])
    return s
def branch(depth, draft4, names):
    props={}
    for k in names: props[k]=R.choice([num_schema("integer",draft4), str_schema(), {"type":"boolean"}])
    b={"type":"object","properties":props}
    req=[k for k in props if R.random()<0.5]
    if req: b["required"]=req
    return b
def comp_schema(depth, draft4, defs):
    kind=R.choice(["allOf","anyOf"])
    pool=["p","q","r","s","t","u"]; R.shuffle(pool)
    n=R.randint(2,3); bs=[]
    overlap=R.random()<0.3
    for i in range(n):
        names=pool[2*i:2*i+2] if not overlap else R.sample(pool[:3],2)
        bs.append(branch(depth,draft4,names))
    return {kind:bs} if R.random()<0.5 else {"type":"object",kind:bs}
def prop_schema(depth, draft4, in_array=False, defs=None):
    kinds=["int","num","str","bool","enum"]
    if depth<3: kinds+=["arr","obj"]
    if depth<2 and EXT: kinds+=["comp"]
    if defs and R.random()<0.25: return {"$ref":"#/$defs/"+R.choice(list(defs))}
    k=R.choice(kinds)
    if k=="int": s=num_schema("integer",draft4)
    elif k=="num": s=num_schema("number",draft4)
    elif k=="str": s=str_schema()
    elif k=="bool": s={"type":"boolean"}
    elif k=="enum": s=enum_schema()
    elif k=="arr": s=arr_schema(depth,draft4)
    elif k=="comp": return comp_schema(depth,draft4,defs)
    else: s=obj_schema(depth,draft4,defs)
    if (EXT or TREE) and k in("int","num","str","bool") and R.random()<0.15 and not in_array:
        V=CUR['V'] or Draft7Validator
        cands={"int":[0,1,2,5,8],"num":[0.5,1,2,5.5],"str":["a","ab","abc","z"],"bool":[True,False]}[k]
        ok=[c for c in cands if Draft7Validator({kk:vv for kk,vv in s.items() if kk not in("exclusiveMinimum","exclusiveMaximum") or not isinstance(vv,bool)}).is_valid(c)]
        if ok: s["default"]=R.choice(ok)
    if "type" in s and isinstance(s["type"],str) and R.random()<0.15 and k!="obj": s["type"]=[s["type"],"null"]
    return s

CUR={'V':None}
def SUBV(s):
    return CUR['V']({k:v for k,v in s.items()})
def sample(s, defs, depth=0):
    """try to build a valid instance (may fail -> None)"""
    if "$ref" in s: return sample(defs[s["$ref"].split("/")[-1]],defs,depth)
    if "enum" in s: return R.choice(s["enum"])
    for kind in ("allOf","anyOf"):
        if kind in s:
            o={}
            chosen=s[kind] if kind=="allOf" else R.sample(s[kind],R.randint(1,len(s[kind])))
            for b in chosen:
                x=sample(b,defs,depth+1)
                if isinstance(x,dict): o.update(x)
            return o
    t=s.get("type")
    if isinstance(t,list): t=t[0]
    if t=="integer" or t=="number":
        cands=[-4,-3,-2,-1,0,1,2,3,4,5,6,7,8,9,10,11]
        if t=="number": cands+=[0.5,1.5,2.25,7.75]
        R.shuffle(cands)
        if R.random()<0.8:
            ok=[c for c in cands if SUBV(s).is_valid(c)]
            if ok: return ok[0]
        return cands[0]
    if t=="string":
        cands=["","a","ab","abc","abcd","zzzzzzz","12","a1z","bz","日本語","éa","abz","az","123","abcz"]
        R.shuffle(cands)
        if R.random()<0.8:
            ok=[c for c in cands if SUBV(s).is_valid(c)]
            if ok: return ok[0]
        return cands[0]
    if t=="boolean": return R.choice([True,False])
    if t=="array":
        lo=s.get("minItems",0); hi=s.get("maxItems",4)
        n=R.randint(lo,max(lo,hi)) if R.random()<0.8 else R.randint(0,5)
        return [sample(s["items"],defs,depth+1) for _ in range(n)]
    if t=="object":
        o={}
        for k,v in s.get("properties",{}).items():
            if k in s.get("required",[]) or R.random()<0.6: o[k]=sample(v,defs,depth+1)
        if s.get("additionalProperties") not in (None,False) and R.random()<0.5:
            ap=s["additionalProperties"]
            o["extra"+str(R.randint(0,2))]=sample(ap,defs,depth+1) if isinstance(ap,dict) else R.choice([1,"s",True])
        return o
    return None

def paths(v,p,out):
    out.append(list(p))
    if isinstance(v,dict):
        for k,x in v.items(): paths(x,p+[k],out)
    elif isinstance(v,list):
        for i,x in enumerate(v): paths(x,p+[i],out)
def setp(v,p,nv,delete=False):
    if not p: return nv
    if len(p)==1 and delete and isinstance(v,dict): v.pop(p[0],None); return v
    v[p[0]]=setp(v[p[0]],p[1:],nv,delete); return v

cases=[]
for i in range(N):
    draft4=R.random()<0.3
    defs={}
    for dn in ([] if TREE else R.sample(["Thing","Pos","Name","Item"],R.randint(0,2))):
        defs[dn]=prop_schema(1,draft4)
    root=obj_schema(0,draft4,defs or None)
    root["$id"]="urn:c%d"%i
    if defs: root["$defs"]=defs
    root["$schema"]="http://json-schema.org/draft-04/schema#" if draft4 else "http://json-schema.org/draft-07/schema#"
    V=(Draft4Validator if draft4 else Draft7Validator)
    sch=copy.deepcopy(root)
    if draft4 and defs:
        pass
    try: V.check_schema(sch)
    except Exception as e: continue
    val=V(sch)
    CUR['V']=V
    docs=[]
    for _ in range(14):
        d=sample(root,defs)
        # mutate sometimes
        if R.random()<0.5 and isinstance(d,dict):
            ps=[];paths(d,[],ps); p=R.choice(ps)
            if p and R.random()<0.3: d=setp(d,p,None,delete=True)
            else: d=setp(d,p,copy.deepcopy(R.choice([None,1,"s",True,[],{},1.5,[1],{"a":1},0,-1,"ab"])))
        js=json.dumps(d,ensure_ascii=False)
        if js in [x[0] for x in docs]: continue
        docs.append((js, val.is_valid(json.loads(js))))
    cases.append({"id":i,"draft4":draft4,"schema":root,"docs":[{"doc":a,"valid":b} for a,b in docs]})
json.dump(cases,open(out,"w"),ensure_ascii=False)
print("cases",len(cases),"docs",sum(len(c["docs"]) for c in cases))

import json,sys,collections
impl=collections.defaultdict(list); model=collections.defaultdict(list)
for l in open(sys.argv[1]):
    p=l.rstrip("\n").split("\t",2); impl[int(p[0])].append((p[1],p[2] if len(p)>2 else ""))
for l in open(sys.argv[2]):
    p=l.rstrip("\n").split("\t",2); model[int(p[0])].append((p[1],p[2] if len(p)>2 else ""))
cases={c['id']:c for c in json.load(open(sys.argv[3]))}
tot=0; agree=0; cl=collections.Counter(); ex={}
for i,rs in impl.items():
    ms=model.get(i,[])
    if len(ms)!=len(rs): cl[("count-mismatch",)]+=1; continue
    for k,((iv,io),(mv,mo)) in enumerate(zip(rs,ms)):
        tot+=1
        if iv==mv and (iv!="ok" or json.loads(io)==json.loads(mo)): agree+=1; continue
        key=(iv,mv, (io if iv!="ok" else "")[:50] if iv!=mv else "value", (mo if mv!="ok" else "")[:40] if iv!=mv else "")
        cl[key]+=1; ex.setdefault(key,(i,cases[i]["docs"][k]["doc"][:100],io[:100],mo[:100]))
print("documents compared:",tot,"agree:",agree,"disagree:",tot-agree)
for k,v in cl.most_common(15): print(v,k,"\n     ",ex.get(k))

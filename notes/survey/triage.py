import json, sys, collections, re
from jsonschema import Draft7Validator, Draft4Validator
NUMKW={"minimum","maximum","exclusiveMinimum","exclusiveMaximum","multipleOf"}
STRKW={"minLength","maxLength","pattern"}
def resolve(schema, path):
    sub=schema; hops=[]
    for p in list(path)+[None]:
        while isinstance(sub,dict) and "$ref" in sub and (p is None or p not in sub):
            name=sub["$ref"].split("/")[-1]; sub=schema["$defs"][name]; hops.append("ref")
        if p is None: break
        if p=="$ref": continue
        sub=sub[p]
        if p=="items": hops.append("items")
        if p in("allOf","anyOf"): hops.append(p)
    return sub,hops
def classify(r):
    schema=r["schema"]; d4="draft-04" in schema.get("$schema","")
    V=Draft4Validator if d4 else Draft7Validator
    inst=json.loads(r["doc"])
    if r["kind"]=="PANIC": return "NEW:panic "+r["detail"][:60]
    if r["kind"]=="REJECTS-VALID":
        m=r["detail"]
        if "length: must be" in m and any(ord(ch)>127 for ch in r["doc"]): return "K1 bytes-not-chars"
        if re.search(r"\[\d+\] length: must be",m): return "K2 nested array checked against outer limits"
        if "cannot unmarshal number" in m and re.search(r"\d\.0\b|[eE]",r["doc"]): return "K11 integer lexeme"
        return "NEW:rejects-valid "+re.sub(r'\d+','N',m)[:100]
    errs=list(V(schema).iter_errors(inst))
    tags=set()
    for e in errs:
        path=list(e.absolute_schema_path)
        try: sub,hops=resolve(schema,path[:-1])
        except Exception as ex: tags.add("NEW:unresolved "+str(path)); continue
        kw=e.validator
        t=sub.get("type")
        nullable=isinstance(t,list) and "null" in t
        if kw=="type" and e.instance is None: tags.add("CONV null at non-nullable position"); continue
        if kw=="type" and "items" in hops and e.instance is None: tags.add("CONV null"); continue
        if kw in NUMKW|STRKW and "items" in hops: tags.add("K2 element constraints unchecked"); continue
        if kw in ("minItems","maxItems") and "items" in hops: tags.add("K2 nested/inner array limits"); continue
        if kw in ("minItems","maxItems") and "ref" in hops: tags.add("K2 named array definition unchecked"); continue
        if kw=="enum" and "ref" in hops and "type" not in sub: tags.add("K18 $ref to untyped definition is interface{}"); continue
        if kw=="enum" and "items" in hops and "type" not in sub and False: pass
        if kw in NUMKW|STRKW and "ref" in hops and nullable: tags.add("K16 nullable primitive definition loses constraints"); continue
        if kw in NUMKW and isinstance(sub.get(kw),float) and t and "integer" in (t if isinstance(t,list) else [t]) and sub[kw]!=int(sub[kw]): tags.add("K3 fractional on integer"); continue
        if kw=="multipleOf" and t and "number" in (t if isinstance(t,list) else [t]): tags.add("K3 float multipleOf"); continue
        if kw=="required":
            props=sub.get("properties",{})
            missing=[x for x in sub["required"] if x not in e.instance]
            if any(m not in props for m in missing): tags.add("K7 required undeclared"); continue
        if kw=="type" and e.instance is not None:
            tags.add("NEW:wrong type accepted inst=%s schema-type=%s hops=%s"%(type(e.instance).__name__,json.dumps(t),hops)); continue
        tags.add("NEW:%s hops=%s type=%s"%(kw,hops,json.dumps(t)))
    new=[t for t in tags if t.startswith("NEW")]
    return " & ".join(sorted(new)) if new else "known: "+" & ".join(sorted(tags))
cl=collections.Counter(); ex={}
for f in sys.argv[1:]:
    for l in open(f):
        r=json.loads(l); c=classify(r); cl[c]+=1; ex.setdefault(c,r)
for k,v in cl.most_common():
    if k.startswith("known"): continue
    e=ex[k]; print(f"{v:4d} {k}\n       case {e['id']} doc={e['doc'][:110]}")
print("--- known classes:")
for k,v in cl.most_common():
    if k.startswith("known"): print(f"{v:4d} {k}")

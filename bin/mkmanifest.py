#!/usr/bin/env python3
"""Regenerates MANIFEST.json from the table below (kept here so the manifest stays consistent)."""
import json, subprocess, sys
base = json.load(open('/root/.vp/BASELINE.json'))
hook = subprocess.run(['git', '-C', '/repo', 'log', '--format=%H', '-1', '--grep=^verif: export shims'], capture_output=True, text=True).stdout.strip()
TB = ("Trusted: Lean 4.33 kernel; axioms propext/Classical.choice/Quot.sound only (audited on every run with #print axioms; no sorry, "
      "native_decide, bv_decide, user axioms); Lean compiler for the driver; GJS/Spec.lean as the reference reading of JSON Schema; the Go "
      "harness, its generators and canonicalisation (it samples, except on the finite skeletons reported as exhaustive); the fact extractor and "
      "its hand-written expectations. Modelled, not verified: encoding/json, yaml.v3, reflect, mapstructure, float64, regexp (closed pattern "
      "family), time/netip parsing, Go's unicode tables, mergo, litter, go/format, go/types, the Go compiler. ")
CLAIMS = {
 "C05": dict(
  text="Theorems (for all rationals / integers, all presence-kind-order combinations of the four bound keywords): NormalizeBounds' result accepts v iff every stated bound admits v (normLo_spec, normHi_spec, boundsOK_iff); the emitted comparisons are exactly that for number positions (float_bounds_exact) and, with integral bounds, for integer positions (int_bounds_exact); integer multipleOf is divisibility (int_multiple_exact, spec_multiple_int); absent/null is unchecked. Tie: the real NormalizeBounds is run on ALL order types of its arguments (exhaustive) against the model and against the stated bounds, and freshly generated+compiled code is run on boundary documents in five positions and compared with model and reference.",
  note=TB + "Float multipleOf is in scope only for dyadic rationals (convention F); other classes are known findings (known_findings.json).",
  technique="Lean 4 theorems over Rat/Int (linarith, omega-free case analysis) + exhaustive function-level and sampled program-level correspondence",
  ref="§3 C05"),
 "C15": dict(
  text="Theorems (all integral bounds within 2^53 in every presence/kind combination, all int64 values): the model's getMinIntType equals the integer-level selection on the effective bounds (getMinIntType_int); a cleared bound is implied by the chosen type (rmLo_implied, rmHi_implied); the type holds every admitted value (kind_fits, type_fits) and is the narrowest of its signedness (kind_minimal_*); acceptance with the flag = admitted AND representable (accOn_iff_spec); and the executable acceptance functions agree with and without the flag (same_accepts). The unrestricted statement is false by design of the feature (KF_uint64_wider, known finding K14). Tie: the real PrimitiveTypeFromJSONSchemaType is compared with the model and judged directly on bounds on/next to/between all type limits; flag-on and flag-off programs are compiled and run on the same boundary documents.",
  note=TB + "Scope F15: integral bounds with |b| <= 2^53 (beyond that float64 rounding absorbs the +-1 adjustments; skipped and counted). min-sized-ints combined with anyOf is outside the model (pointer aliasing of branch nodes) and reported as unsupported.",
  technique="Lean 4 theorems over Int (omega) with a proved Rat-to-Int bridge + function-level and flag-on/flag-off program-level correspondence",
  ref="§3 C15"),
 "C06": dict(
  text="Theorems (all strings, all limits, all patterns of the closed family): on ASCII strings Go's byte length is the character count (ascii_bytes_eq_length) and the emitted test accepts exactly the strings within [minLength,maxLength] that match the pattern (string_check_exact_ascii); pattern-only constraints need no ASCII hypothesis; a nil pointer (absent/null optional string) is never checked; a present value always is. The unrestricted statement is false of the code (KF_bytes_counterexample, known finding K1: bytes, not characters). Tie: freshly generated and compiled programs, one string field in five positions, on boundary-length ASCII and multi-byte documents and on matching/non-matching text.",
  note=TB + "Scope F06: ASCII documents when a length keyword is present; patterns from the closed family of DESIGN §1.2 (regexp itself is trusted). Known findings: K1 (bytes), format-typed strings and nullable definitions drop the constraints.",
  technique="Lean 4 theorems over String/Int + sampled program-level correspondence with systematic boundary documents",
  ref="§3 C06"),
 "C07": dict(
  text="Theorems (all arrays, all limits): at depth 1 the emitted test is exactly minItems <= len <= maxItems on that array (depth1_exact); a nil slice (absent/null) is never rejected; the validator of depth d+2 applies the validator of depth d+1 to every element with the SAME limits (nested_unfold), hence for two levels acceptance = outer length and every inner length within the outer limits (nested2_uniform) - which is the property when limits are uniform and is false otherwise (KF_nested_limits_counterexample, known finding K2). Tie: generated+compiled programs with arrays of depth 1..3, limits at each level independently, lengths min-1,min,max,max+1 at each level.",
  note=TB + "Scope F07: limits on depth-1 arrays, or the same limits at every level. Known findings K2 (outer limits used at every depth, inner-only limits ignored, named array definitions and primitive element constraints unchecked) and maxItems 0.",
  technique="Lean 4 theorems (structural, omega) + sampled program-level correspondence with systematic boundary documents",
  ref="§3 C07"),
 "C08": dict(
  text="Theorems (all value tables, all document values): for the string, float64 and bool carriers the emitted DeepEqual loop is JSON equality with a listed value (string/number/bool_enum_membership); for the interface{} carrier of mixed/null enums likewise on the JSON path (mixed_enum_membership_json); an accepted wrapped value marshals back to the bare JSON value and a plain string enum to the same string (wrapped/plain_marshal_roundtrip). Counterexample for integer coercion (KF_integer_fraction_coerces). Tie: generated+compiled programs for every enum shape x position (inline required/optional, array item, typed $ref, with default) x members and non-members of every JSON type; constants of string enums read back from the emitted file with go/ast.",
  note=TB + "Carrier choice (generateEnumType) is modelled and tied by the go/ast summary, not proved. Known findings: K18 (untyped enum via $ref unenforced), colliding constants, integer coercion, typed integer enum under --min-sized-ints rejects everything. null at a non-nullable typed enum follows the null convention of DESIGN §1.3.",
  technique="Lean 4 theorems about the emitted DeepEqual loop per carrier + sampled program-level correspondence over all enum shapes",
  ref="§3 C08"),
}
NA_PENDING = "check not built yet in this session (work in progress; see DESIGN.md §7)"
ids = [json.loads(l)["id"] for l in open('/verif/properties.jsonl')]
checks, na = [], []
for i in ids:
    if i in CLAIMS:
        c = CLAIMS[i]
        checks.append({
            "property_id": i, "quick_cmd": f"./bin/check {i} quick", "thorough_cmd": f"./bin/check {i} thorough",
            "evidence_file": f"evidence/{i}.json", "replay_cmd_template": "./bin/check replay {path}", "engine": "gjs-lean+harness",
            "level_claimed": {"category": "proof", "text": c["text"], "design_ref": c["ref"]},
            "level_note": c["note"], "technique": c["technique"]})
    else:
        na.append({"property_id": i, "reason": NA_PENDING})
m = {
 "version": 1, "setup_cmd": "./bin/setup",
 "hooks": {"guard": "verif", "enable": "go build -tags verif (with GOFLAGS=-mod=mod GOWORK=off GOPROXY=off GOTOOLCHAIN=local; bin/check does it on every run)",
           "baseline_off_cmd": base["cmd"], "source_commits": [hook], "add_only": True},
 "engines": [
  {"name": "gjs-lean+harness", "path": "lean, harness", "serves_properties": [c["property_id"] for c in checks],
   "kind_free_text": "Lean 4 library GJS (executable model of generator + emitted code, reference semantics, property theorems, compiled line-protocol driver) tied to /repo by a Go correspondence harness that runs the real generator in-process, compiles and executes the emitted code, and diffs against the driver; plus regenerated go/ast facts"}],
 "checks": checks, "not_applicable": na,
 "notes": "Every check: (1) builds the property's Lean theorems and audits their axioms, (2) regenerates facts from /repo and re-checks their tie, (3) replays known findings (known_findings.json), (4) runs correspondence model<->implementation and the property oracle on corpus, systematic and random streams. VERIF_SEED seeds the one PRNG. See DESIGN.md.",
}
json.dump(m, open('/verif/MANIFEST.json', 'w'), indent=1)
print("claimed:", [c["property_id"] for c in checks])

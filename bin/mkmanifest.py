#!/usr/bin/env python3
"""Regenerates MANIFEST.json from the table below (kept here so the manifest stays consistent)."""
import json, subprocess, sys
base = json.load(open('/root/.vp/BASELINE.json'))
hook = subprocess.run(['git', '-C', '/repo', 'log', '--format=%H', '-1', '--grep=^verif: export shims'], capture_output=True, text=True).stdout.strip()
TB = ("Trusted: Lean 4.33 kernel; axioms propext/Classical.choice/Quot.sound only (audited on every run with #print axioms; no sorry, "
      "native_decide, bv_decide, user axioms); Lean compiler for the driver; GJS/Spec.lean as the reference reading of JSON Schema; the Go "
      "harness, its generators and canonicalisation (it samples, except on the finite skeletons reported as exhaustive); the fact extractor and "
      "its hand-written expectations. Modelled, not verified: encoding/json, yaml.v3, reflect, mapstructure, float64, regexp (closed pattern "
      "family), time/netip parsing, Go's unicode tables, mergo, litter, go/format, go/types, the Go compiler. ")
CLAIMS = {
 "C05": dict(
  text="Theorems (for all rationals / integers, all presence-kind-order combinations of the four bound keywords): NormalizeBounds' result accepts v iff every stated bound admits v (normLo_spec, normHi_spec, boundsOK_iff); the emitted comparisons are exactly that for number positions (float_bounds_exact) and, with integral bounds, for integer positions (int_bounds_exact); integer multipleOf is divisibility (int_multiple_exact, spec_multiple_int); absent/null is unchecked. Tie: the real NormalizeBounds is run on ALL order types of its arguments (exhaustive) against the model and against the stated bounds, and freshly generated+compiled code is run on boundary documents in five positions and compared with model and reference.",
  note=TB + "Float multipleOf is in scope only for dyadic rationals (convention F); other classes are known findings (known_findings.json).",
  technique="Lean 4 theorems over Rat/Int (linarith, omega-free case analysis) + exhaustive function-level and sampled program-level correspondence",
  ref="§3 C05"),
 "C15": dict(
  text="Theorems (all integral bounds within 2^53 in every presence/kind combination, all int64 values): the model's getMinIntType equals the integer-level selection on the effective bounds (getMinIntType_int); a cleared bound is implied by the chosen type (rmLo_implied, rmHi_implied); the type holds every admitted value (kind_fits, type_fits) and is the narrowest of its signedness (kind_minimal_*); acceptance with the flag = admitted AND representable (accOn_iff_spec); and the executable acceptance functions agree with and without the flag (same_accepts). The unrestricted statement is false by design of the feature (KF_uint64_wider, known finding K14). Tie: the real PrimitiveTypeFromJSONSchemaType is compared with the model and judged directly on bounds on/next to/between all type limits; flag-on and flag-off programs are compiled and run on the same boundary documents.",
  note=TB + "Scope F15: integral bounds with |b| <= 2^53 (beyond that float64 rounding absorbs the +-1 adjustments; skipped and counted). min-sized-ints combined with anyOf is outside the model (pointer aliasing of branch nodes) and reported as unsupported.",
  technique="Lean 4 theorems over Int (omega) with a proved Rat-to-Int bridge + function-level and flag-on/flag-off program-level correspondence",
  ref="§3 C15"),
 "C06": dict(
  text="Theorems (all strings, all limits, all patterns of the closed family): on ASCII strings Go's byte length is the character count (ascii_bytes_eq_length) and the emitted test accepts exactly the strings within [minLength,maxLength] that match the pattern (string_check_exact_ascii); pattern-only constraints need no ASCII hypothesis; a nil pointer (absent/null optional string) is never checked; a present value always is. The unrestricted statement is false of the code (KF_bytes_counterexample, known finding K1: bytes, not characters). Tie: freshly generated and compiled programs, one string field in five positions, on boundary-length ASCII and multi-byte documents and on matching/non-matching text.",
  note=TB + "Scope F06: ASCII documents when a length keyword is present; patterns from the closed family of DESIGN §1.2 (regexp itself is trusted). Known findings: K1 (bytes), format-typed strings and nullable definitions drop the constraints.",
  technique="Lean 4 theorems over String/Int + sampled program-level correspondence with systematic boundary documents",
  ref="§3 C06"),
 "C07": dict(
  text="Theorems (all arrays, all limits): at depth 1 the emitted test is exactly minItems <= len <= maxItems on that array (depth1_exact); a nil slice (absent/null) is never rejected; the validator of depth d+2 applies the validator of depth d+1 to every element with the SAME limits (nested_unfold), hence for two levels acceptance = outer length and every inner length within the outer limits (nested2_uniform) - which is the property when limits are uniform and is false otherwise (KF_nested_limits_counterexample, known finding K2). Tie: generated+compiled programs with arrays of depth 1..3, limits at each level independently, lengths min-1,min,max,max+1 at each level.",
  note=TB + "Scope F07: limits on depth-1 arrays, or the same limits at every level. Known findings K2 (outer limits used at every depth, inner-only limits ignored, named array definitions and primitive element constraints unchecked) and maxItems 0.",
  technique="Lean 4 theorems (structural, omega) + sampled program-level correspondence with systematic boundary documents",
  ref="§3 C07"),
 "C08": dict(
  text="Theorems (all value tables, all document values): for the string, float64 and bool carriers the emitted DeepEqual loop is JSON equality with a listed value (string/number/bool_enum_membership); for the interface{} carrier of mixed/null enums likewise on the JSON path (mixed_enum_membership_json); an accepted wrapped value marshals back to the bare JSON value and a plain string enum to the same string (wrapped/plain_marshal_roundtrip). Counterexample for integer coercion (KF_integer_fraction_coerces). Tie: generated+compiled programs for every enum shape x position (inline required/optional, array item, typed $ref, with default) x members and non-members of every JSON type; constants of string enums read back from the emitted file with go/ast.",
  note=TB + "Carrier choice (generateEnumType) is modelled and tied by the go/ast summary, not proved. Known findings: K18 (untyped enum via $ref unenforced), colliding constants, integer coercion, typed integer enum under --min-sized-ints rejects everything. null at a non-nullable typed enum follows the null convention of DESIGN §1.3.",
  technique="Lean 4 theorems about the emitted DeepEqual loop per carrier + sampled program-level correspondence over all enum shapes",
  ref="§3 C08"),
 "C04": dict(
  text="Theorems: (run-time, any generated program) if along the paths the decoder follows - pointers, arrays, maps, struct fields bound by rule G7, named types with or without their own emitted method - an object lacks a key whose declaration carries a required validator, the document is not accepted, for every fuel and depth (rejects_missing, via Proofs.fails_not_accepted); (certificate) a decidable certificate certReq relates schema and declarations, and for every certified program every document with a required, declared, default-less key missing at any position reached through properties, items and $ref is rejected (cert_rejects_missing). The driver evaluates the certificate on every generated program. Tie: systematic (all non-empty subsets of required keys at root/nested/element/definition/deep positions, present-null, optional-absent) and random programs with every single deletion at every object position, compiled and run, verdict = reference.",
  note=TB + "The step 'the generator's output is certified' is evaluated per generated program (sampled over schemas), not yet proved for all schemas. Scope F04 excludes composition (C11) and the known-finding classes K7 (undeclared / property-less required) and K20 (declared array types).",
  technique="Lean 4: one structural induction over the run-time model (all documents, all depths) + a proved decidable schema-to-declarations certificate; sampled program-level correspondence with systematic deletions",
  ref="§3 C04"),
 "C03": dict(
  text="Theorems: (run-time) a primitive Go type cannot hold a non-null JSON value of another type, a slice only arrays, a struct or map only objects, an enum type only what its carrier holds, and such a local mismatch makes the whole decoding fail through pointers, arrays, maps, fields and named types (Proofs.fails_not_accepted, top_mismatch); a non-integral number is not an integer (fraction_into_int_fails); null into a pointer yields nil (null_into_pointer); (certificate) for every program certified by certType, every document with a non-null value of another JSON type at ANY typed position reached through properties, items and $ref is rejected (cert_rejects_wrong_type). Tie: random programs; at every typed position a value of every other JSON type, and null where allowed, is substituted into a valid document; compiled, run, verdict = reference.",
  note=TB + "Certification of the generator's output is evaluated per generated program (sampled over schemas). Known findings: typed additionalProperties go through mapstructure (1.5 -> 1), two-type lists are interface{}, alias definitions are interface{} (K18).",
  technique="Lean 4: structural induction over the run-time model + proved decidable certificate; sampled program-level correspondence with systematic type substitutions",
  ref="§3 C03"),
 "C02": dict(
  text="Theorems (run-time level): decode followed by marshal is the identity on strings, booleans, numbers and in-range integers (prim_roundtrip: no truncation, coercion or precision loss); the after-validators reject only when one of their stated checks fails (validators_only_reject_on_constraints); a value all stated bounds admit passes the numeric check, an admitted ASCII string the string check, an admitted length the array check (bounds normalisation does not over-constrain; from C05/C06/C07). Tie: random programs (tree fragment + formats) with schema-directed valid documents: every document the reference calls valid must be accepted by the freshly compiled code and every non-empty declared value must re-appear unchanged at the same place in json.Marshal of the decoded value; a broad all-features stream with mutated documents ties model and implementation on verdict AND value.",
  note=TB + "Partial: the whole-document statement 'every valid document is accepted' is carried by the correspondence plus the per-validator theorems; a generator-level induction is future work. Known findings: additionalProperties:true collects nothing, named format definitions, integer lexemes (1.0), byte lengths (C06).",
  technique="Lean 4 run-time lemmas (round trip, no over-constraining) + sampled program-level correspondence on valid documents with a value-preservation oracle",
  ref="§3 C02"),
 "C09": dict(
  text="Theorems (meaning of the emitted default statement, any program): if the raw map lacks the key, or holds null, the field is set to the value of the default literal and the remaining validators run on the updated value (absent_gets_default, null_gets_default); a present non-null value is never overwritten (present_wins); for scalar fields the literal is accepted exactly when it has the field's type and evaluates to the default's JSON value, and an ill-typed literal is refused (literal_value_typed). Tie: programs with scalar, enum-carrier and primitive-array defaults x documents with the property absent / null / present: decoded field read back from json.Marshal must equal default resp. document value; random schemas with defaults tie model and implementation including the compile verdict.",
  note=TB + "Known findings (ill-typed literals that do not compile: nullable, format, object defaults; null at an enum-typed defaulted property is rejected). Empty values are not observable through json.Marshal (omitempty) and are skipped.",
  technique="Lean 4 lemmas about the emitted default statement + sampled program-level correspondence",
  ref="§3 C09"),
 "C19": dict(
  text="Theorems (method model, any declaration, any wire, any input, any prior destination): the receiver is written only by the final store, so an error leaves the destination exactly as it was and a success does not depend on the prior destination (error_keeps_destination, method_all_or_nothing, result_independent_of_destination); nil guards: nil pointers are never dereferenced by numeric/string validators, nil slices never indexed, a nil raw map never fails a presence check (numeric/string/array/null_nil_guard, required_nil_raw); scalars are refused by the raw-map decode (scalar_refused_by_raw_decode). Counterexample for the one known panic (KF_addl_null_panics, K13). The single-final-store shape of the emitted text is a regenerated fact (receiverWrites). Tie: every root type x valid/single-fault/wrong-shape/deeply nested/malformed inputs x prior destination, under recover(), destination re-marshalled before and after, on the JSON and YAML methods.",
  note=TB + "Partial: panics and non-termination live in the Go runtime; the model has an explicit panic outcome only where one is known (K13) and they are hunted by the correspondence under recover(). The all-or-nothing oracle applies to types that have a generated method (a root type without one is filled field by field by encoding/json itself).",
  technique="Lean 4 lemmas about the method model + regenerated receiver-write facts + sampled execution of the real methods with prior destinations under recover()",
  ref="§3 C19"),
 "C17": dict(
  text="Theorems: the validators emitted after the shadow decode mean the same in both methods for every input (runAfter_wire_independent), the presence checks likewise (runBefore_wire_independent); the decode primitives agree on values of the type their position expects (prim_decode_agree); hence for a plain declaration without anyOf the whole method gives the same verdict and value on both wires whenever the shadow decode does (method_same_statements). Counterexamples for the known differences (KF_yaml_int_in_mixed_enum, KF_yaml_truncates_fraction). Tie: programs generated with --extra-imports; valid and single-fault documents (required / bound / length / pattern / string enum) through the real UnmarshalJSON and UnmarshalYAML: same verdict, same re-marshalled value; model = implementation on both wires.",
  note=TB + "Partial: the induction that lifts primitive agreement to whole documents is carried by the correspondence. Known findings K9 (mixed-enum integers, format date/time under YAML). yaml.v3's leniencies outside the property's fault list (1.5 into int, numbers into strings, null elements dropped) are modelled (rules Y2-Y5) and kept out of the judged stream.",
  technique="Lean 4 wire-independence theorems over the method model + sampled dual-path execution of the real code",
  ref="§3 C17"),
 "C11": dict(
  text="Theorems: the emitted anyOf statement passes iff at least one of the n branch types accepts the same bytes, and rejects iff all reject (anyBranch_iff, anyOf_validator_rejects_iff: disjunction, for every n and input); the merge from which the outer type is generated appends the branches' required lists (merge_required), exposes exactly the union of their property keys (mergeEntry_keys, mergeKvs_keys) and takes over a property only one branch declares unchanged (mergeKvs_disjoint_lookup): conjunction for disjoint branches. The full statement is false for overlapping branches (KF_allOf_overlap_first_wins; known findings K8). Tie: allOf/anyOf of 1..4 object branches, inline or $ref, disjoint or with an identically declared shared property, x documents satisfying every subset of branches; verdict = reference; generated type exposes every branch property.",
  note=TB + "Scope F11: disjoint-or-identical property sets, branch failures that are not type errors. Known findings: first-wins on overlap, union-struct rejection, mergo overwriting a zero bound through a shared pointer, composite definitions reached by $ref do not compile (K21). mergo itself is modelled (the subset of behaviours in Gen.lean), not verified.",
  technique="Lean 4 theorems about the anyOf statement and the merge model + systematic branch-subset documents through compiled programs",
  ref="§3 C11"),
 "C10": dict(
  text="Theorems: in the reference semantics a reference means its target (spec_ref_is_inline); both pointer prefixes name the same definition for EVERY name and a reference without # is a file reference (extractRef_defs, extractRef_definitions, extractRef_prefix_equiv, extractRef_file, about the parser the driver runs); the loader cache key of fix R4 separates equal relative references from different directories and identifies them within one (cacheKey_*); the rejection theorems of C03/C04 see through references (missing_through_ref, wrong_type_through_ref). Tie: random schemas, sub-schemas factored into $defs / definitions / sibling files (.json, .yaml, extension-less with --resolve-extension, with fragment) in varying directories; inline and reference-form programs compiled and run on the same documents: same verdict and value; each definition yields exactly one type; self- and mutually recursive definitions generate, compile and decode documents nested up to 12 levels plus a deep fault.",
  note=TB + "Partial: termination of the real generator on arbitrary reference graphs is observed (timeouts), not proved; the model is total on explicit fuel. Scope F10: object and non-nullable typed scalar definitions. Known findings: alias/untyped definitions become interface{} (K18), nullable/array/format definitions lose constraints (K16, K2, named formats). File system and symlinks are not modelled.",
  technique="Lean 4 theorems on reference parsing, cache keys and the reference semantics + relational inline-vs-reference execution of compiled programs",
  ref="§3 C10"),
}
NA_PENDING = "check not built yet in this session (work in progress; see DESIGN.md §7)"
ids = [json.loads(l)["id"] for l in open('/verif/properties.jsonl')]
checks, na = [], []
for i in ids:
    if i in CLAIMS:
        c = CLAIMS[i]
        checks.append({
            "property_id": i, "quick_cmd": f"./bin/check {i} quick", "thorough_cmd": f"./bin/check {i} thorough",
            "evidence_file": f"evidence/{i}.json", "replay_cmd_template": "./bin/check replay {path}", "engine": "gjs-lean+harness",
            "level_claimed": {"category": "proof", "text": c["text"], "design_ref": c["ref"]},
            "level_note": c["note"], "technique": c["technique"]})
    else:
        na.append({"property_id": i, "reason": NA_PENDING})
m = {
 "version": 1, "setup_cmd": "./bin/setup",
 "hooks": {"guard": "verif", "enable": "go build -tags verif (with GOFLAGS=-mod=mod GOWORK=off GOPROXY=off GOTOOLCHAIN=local; bin/check does it on every run)",
           "baseline_off_cmd": base["cmd"], "source_commits": [hook], "add_only": True},
 "engines": [
  {"name": "gjs-lean+harness", "path": "lean, harness", "serves_properties": [c["property_id"] for c in checks],
   "kind_free_text": "Lean 4 library GJS (executable model of generator + emitted code, reference semantics, property theorems, compiled line-protocol driver) tied to /repo by a Go correspondence harness that runs the real generator in-process, compiles and executes the emitted code, and diffs against the driver; plus regenerated go/ast facts"}],
 "checks": checks, "not_applicable": na,
 "notes": "Every check: (1) builds the property's Lean theorems and audits their axioms, (2) regenerates facts from /repo and re-checks their tie, (3) replays known findings (known_findings.json), (4) runs correspondence model<->implementation and the property oracle on corpus, systematic and random streams. VERIF_SEED seeds the one PRNG. See DESIGN.md.",
}
json.dump(m, open('/verif/MANIFEST.json', 'w'), indent=1)
print("claimed:", [c["property_id"] for c in checks])

/-
  Hand-reviewed expectations for the facts regenerated from /repo (GJS/Facts.lean).
  Written once from the tree the model was validated against; every later difference is a broken tie.
-/
namespace GJS.FactsExpected

def addImports : List String := [
  "pkg/generator jsonFormatter.addImport: AddImport(\"encoding/json\", \"\") when []",
  "pkg/generator schemaGenerator.addStructField: AddImport(pkg, \"\") when [ext != nil]",
  "pkg/generator schemaGenerator.generateDeclaredType: AddImport(\"github.com/go-viper/mapstructure/v2\", \"\") when [t.IsSubSchemaTypeElem() || len(validators) > 0 && hasAdditionalProperties]",
  "pkg/generator schemaGenerator.generateDeclaredType: AddImport(\"reflect\", \"\") when [t.IsSubSchemaTypeElem() || len(validators) > 0 && hasAdditionalProperties]",
  "pkg/generator schemaGenerator.generateDeclaredType: AddImport(\"strings\", \"\") when [t.IsSubSchemaTypeElem() || len(validators) > 0 && hasAdditionalProperties]",
  "pkg/generator schemaGenerator.generateEnumType: AddImport(\"fmt\", \"\") when [!g.config.OnlyModels]",
  "pkg/generator schemaGenerator.generateEnumType: AddImport(\"reflect\", \"\") when [!g.config.OnlyModels]",
  "pkg/generator schemaGenerator.generateReferencedType: AddImport(sg.output.file.Package.QualifiedName, sg.output.file.Package.Name()) when [imp == nil]",
  "pkg/generator schemaGenerator.generateType: AddImport(imprt.QualifiedName, \"\") when [ok]",
  "pkg/generator schemaGenerator.generateType: AddImport(pkg, \"\") when [ext != nil]",
  "pkg/generator schemaGenerator.generateTypeInline: AddImport(imprt.QualifiedName, \"\") when [t.Enum == nil && t.Ref == \"\" && schemas.IsPrimitiveType(t.Type[typeIndex]) && ok]",
  "pkg/generator schemaGenerator.generateTypeInline: AddImport(pkg, \"\") when [t.Enum == nil && t.Ref == \"\" && ext != nil]",
  "pkg/generator schemaGenerator.generateUnmarshaler: AddImport(\"errors\", \"\") when [ok]",
  "pkg/generator schemaGenerator.generateUnmarshaler: AddImport(\"fmt\", \"\") when [v.desc().hasError]",
  "pkg/generator schemaGenerator.structFieldValidators: AddImport(\"math\", \"\") when [!(v.Type == schemas.TypeNameString) && strings.Contains(v.Type, \"int\") || v.Type == float64Type && f.SchemaType.MultipleOf != nil && v.Type == float64Type]",
  "pkg/generator schemaGenerator.structFieldValidators: AddImport(\"regexp\", \"\") when [v.Type == schemas.TypeNameString && hasPattern]",
  "pkg/generator yamlFormatter.addImport: AddImport(YAMLPackage, \"yaml\") when []"
]

def cliOrder : List String := [
  "var.Run: abort(\"No arguments specified. Run with --help for usage.\") when [len(args) == 0]",
  "var.Run: abort(\"Package name not specified.\") when [defaultPackage == \"\" && len(schemaPackages) == 0]",
  "var.Run: stringSliceToStringMap when []",
  "var.Run: abortWithErr(err) when [err != nil]",
  "var.Run: stringSliceToStringMap when []",
  "var.Run: abortWithErr(err) when [err != nil]",
  "var.Run: stringSliceToStringMap when []",
  "var.Run: abortWithErr(err) when [err != nil]",
  "var.Run: mapping.PackageName = s when [ok]",
  "var.Run: mapping.PackageName = defaultPackage when [!(ok)]",
  "var.Run: mapping.OutputName = s when [ok]",
  "var.Run: mapping.OutputName = defaultOutput when [!(ok) && !hasPackage]",
  "var.Run: mapping.RootType = s when [ok]",
  "var.Run: generator.New when []",
  "var.Run: abortWithErr(err) when [err != nil]",
  "var.Run: generator.DoFile when []",
  "var.Run: abortWithErr(err) when [err != nil]",
  "var.Run: generator.Sources when []",
  "var.Run: os.Stdout.Write when [fileName == \"-\"]",
  "var.Run: abortWithErr(err) when [fileName == \"-\" && err != nil]",
  "var.Run: os.MkdirAll when [!(fileName == \"-\")]",
  "var.Run: abortWithErr(err) when [!(fileName == \"-\") && err != nil]",
  "var.Run: os.OpenFile when [!(fileName == \"-\")]",
  "var.Run: abortWithErr(err) when [!(fileName == \"-\") && err != nil]",
  "var.Run: w.Write when [!(fileName == \"-\")]",
  "var.Run: abortWithErr(err) when [!(fileName == \"-\") && err != nil]",
  "var.Run: os.Exit(0) when []",
  "main: abortWithErr(rootCmd.Execute()) when []",
  "abortWithErr: abort(err.Error()) when [err != nil]",
  "abort: os.Exit(1) when []"
]

def droppedErrors : List String := [
  ". logf: (ignored) fmt.Fprint",
  ". logf: (ignored) fmt.Fprint",
  ". logf: (ignored) fmt.Fprintf",
  ". var.Run: _ = os.Stdout.Write",
  ". var.Run: _ = w.Close",
  ". var.Run: _ = w.Write",
  "internal/x/text Caser.Identifierize: _ = sb.WriteString",
  "internal/x/text Caser.Identifierize: _ = sb.WriteString",
  "pkg/codegen Emitter.Newline: (ignored) e.sb.WriteRune",
  "pkg/codegen Emitter.Printf: (ignored) fmt.Fprintf",
  "pkg/codegen Emitter.checkIndent: (ignored) e.sb.WriteRune",
  "pkg/generator Generator.Sources: _ = sb.WriteString",
  "pkg/generator Generator.Sources: _ = sb.WriteString",
  "pkg/generator schemaGenerator.generateAnyOfType: _ = g.generateTypeInline",
  "pkg/generator schemaGenerator.generateRootType: _ = g.generateDeclaredType",
  "pkg/generator schemaGenerator.generateRootType: _ = g.generateDeclaredType",
  "pkg/schemas FromJSONFile: _ = f.Close",
  "pkg/schemas FromYAMLFile: _ = f.Close",
  "pkg/schemas HTTPLoader.Load: _ = resp.Body.Close",
  "pkg/schemas fileExists: _ = os.Stat"
]

def genBoundary : List String := [
  "numericValidator.generate: `if %s %s%s %% %v != 0 {`",
  "numericValidator.generate: `if %s math.Abs(math.Mod(%s%s, %v)) > 1e-10 {`",
  "numericValidator.generate: `return fmt.Errorf(\"field %%s: must be a multiple of %%v\", \"%s\", %f)`",
  "numericValidator.generate: \"}\"",
  "numericValidator.genBoundary: `if %s%v %s%s %s {`",
  "numericValidator.genBoundary: `return fmt.Errorf(\"field %%s: must be %s %%v\", \"%s\", %v)`",
  "numericValidator.genBoundary: \"}\"",
  "numericValidator.genBoundary: if boundary == nil",
  "numericValidator.genBoundary: limit := v.boundOf(*boundary, sign == \"<\", exclusive)",
  "numericValidator.genBoundary: comp := sign",
  "numericValidator.genBoundary: if exclusive",
  "numericValidator.genBoundary: comp += \"=\"",
  "numericValidator.genBoundary: sign += \"=\"",
  "numericValidator.boundOf: if !v.roundToInt",
  "numericValidator.boundOf: return val",
  "numericValidator.boundOf: if upper == exclusive",
  "numericValidator.boundOf: return int64(math.Ceil(val))",
  "numericValidator.boundOf: return int64(math.Floor(val))",
  "numericValidator.valueOf: return int64(val)",
  "numericValidator.valueOf: return val"
]

def intLimits : List String := [
  "adjustForSignedBounds: case minRounded < float64(math.MinInt16) || maxRounded > float64(math.MaxInt16)",
  "adjustForSignedBounds: case minRounded < float64(math.MinInt32) || maxRounded > float64(math.MaxInt32)",
  "adjustForSignedBounds: case minRounded < float64(math.MinInt8) || maxRounded > float64(math.MaxInt8)",
  "adjustForSignedBounds: case nMax == nil",
  "adjustForSignedBounds: case nMin == nil",
  "adjustForSignedBounds: case nMin == nil && nMax == nil",
  "adjustForSignedBounds: return \"int16\", minRounded == float64(math.MinInt16), maxRounded == float64(math.MaxInt16)",
  "adjustForSignedBounds: return \"int32\", minRounded == float64(math.MinInt32), maxRounded == float64(math.MaxInt32)",
  "adjustForSignedBounds: return \"int8\", minRounded == float64(math.MinInt8), maxRounded == float64(math.MaxInt8)",
  "adjustForSignedBounds: return i64, false, false",
  "adjustForSignedBounds: return i64, false, maxRounded == float64(math.MaxInt64)",
  "adjustForSignedBounds: return i64, minRounded == float64(math.MinInt64), false",
  "adjustForSignedBounds: return i64, minRounded == float64(math.MinInt64), maxRounded == float64(math.MaxInt64)",
  "adjustForUnsignedBounds: case maxRounded > float64(math.MaxUint16)",
  "adjustForUnsignedBounds: case maxRounded > float64(math.MaxUint32)",
  "adjustForUnsignedBounds: case maxRounded > float64(math.MaxUint8)",
  "adjustForUnsignedBounds: case nMax == nil",
  "adjustForUnsignedBounds: return \"uint16\", removeMin, maxRounded == float64(math.MaxUint16)",
  "adjustForUnsignedBounds: return \"uint32\", removeMin, maxRounded == float64(math.MaxUint32)",
  "adjustForUnsignedBounds: return \"uint64\", removeMin, false",
  "adjustForUnsignedBounds: return \"uint64\", removeMin, maxRounded == float64(math.MaxUint64)",
  "adjustForUnsignedBounds: return \"uint8\", removeMin, maxRounded == float64(math.MaxUint8)"
]

def mapRanges : List String := [
  ". allKeys: range keySet",
  ". allKeys: range m",
  ". var.Run: calls allKeys(schemaPackageMap, schemaOutputMap, schemaRootTypeMap) [ranges over a map, does not sort]",
  ". var.Run: range generator.Sources()",
  "pkg/generator Generator.Sources: range g.outputs",
  "pkg/generator Generator.Sources: range sources",
  "pkg/generator Generator.beginOutput: range g.outputs",
  "pkg/generator Generator.findOutputFileForSchemaID: calls beginOutput(id, g.config.DefaultOutputName, g.config.DefaultPackageName) [ranges over a map, does not sort]",
  "pkg/generator Generator.findOutputFileForSchemaID: calls beginOutput(id, m.OutputName, m.PackageName) [ranges over a map, does not sort]",
  "pkg/generator sortDefinitionsByName: range defs",
  "pkg/generator sortedKeys: range props",
  "pkg/schemas Schema.UnmarshalJSON: calls checkNoNullSubschemas((*Type)(unmarshSchema.ObjectAsType)) [ranges over a map, does not sort]",
  "pkg/schemas Schema.UnmarshalJSON: range unmarshSchema.Definitions",
  "pkg/schemas Type.UnmarshalJSON: calls checkNoNullSubschemas((*Type)(&obj)) [ranges over a map, does not sort]",
  "pkg/schemas checkNoNullSubschemas: range m",
  "pkg/yamlutils FixMapKeys: calls fixMapKeysIn(v) [ranges over a map, does not sort]",
  "pkg/yamlutils FixMapKeys: range m",
  "pkg/yamlutils fixMapKeysIn: calls fixMapKeysIn(elem) [ranges over a map, does not sort]",
  "pkg/yamlutils fixMapKeysIn: calls fixMapKeysIn(v) [ranges over a map, does not sort]",
  "pkg/yamlutils fixMapKeysIn: range t"
]

def minIntBookkeeping : List String := [
  "PrimitiveTypeFromJSONSchemaType: *exclusiveMaximum = nil",
  "PrimitiveTypeFromJSONSchemaType: *exclusiveMinimum = nil",
  "PrimitiveTypeFromJSONSchemaType: *maximum = nil",
  "PrimitiveTypeFromJSONSchemaType: *minimum = nil",
  "getMinIntType: v = math.Ceil(*nMax) - 1.0",
  "getMinIntType: v = math.Floor(*nMin) + 1.0"
]

def nbComparisons : List String := [
  "v <= *maximum",
  "v >= *minimum"
]

def optionReads : List String := [
  "pkg/generator Generator.findOutputFileForSchemaID: g.beginOutput(… g.config.DefaultOutputName …)",
  "pkg/generator Generator.findOutputFileForSchemaID: g.beginOutput(… g.config.DefaultPackageName …)",
  "pkg/generator Generator.findOutputFileForSchemaID: range g.config.SchemaMappings",
  "pkg/generator Generator.getRootTypeName: if g.config.StructNameFromTitle && schema.Title != \"\"",
  "pkg/generator Generator.getRootTypeName: range g.config.SchemaMappings",
  "pkg/generator New: if config.ExtraImports",
  "pkg/generator New: if config.Loader == nil",
  "pkg/generator New: schemas.NewDefaultCacheLoader(… config.ResolveExtensions …)",
  "pkg/generator New: schemas.NewDefaultCacheLoader(… config.YAMLExtensions …)",
  "pkg/generator New: text.NewCaser(… config.Capitalizations …)",
  "pkg/generator New: text.NewCaser(… config.ResolveExtensions …)",
  "pkg/generator schemaGenerator.addStructField: range g.config.Tags",
  "pkg/generator schemaGenerator.addStructField: range g.config.Tags",
  "pkg/generator schemaGenerator.generateDeclaredType: if g.config.OnlyModels",
  "pkg/generator schemaGenerator.generateEnumType: codegen.PrimitiveTypeFromJSONSchemaType(… g.config.MinSizedInts …)",
  "pkg/generator schemaGenerator.generateEnumType: if !g.config.OnlyModels",
  "pkg/generator schemaGenerator.generateReferencedType: schemas.QualifiedFileName(… g.config.ResolveExtensions …)",
  "pkg/generator schemaGenerator.generateType: codegen.PrimitiveTypeFromJSONSchemaType(… g.config.MinSizedInts …)",
  "pkg/generator schemaGenerator.generateTypeInline: codegen.PrimitiveTypeFromJSONSchemaType(… g.config.MinSizedInts …)",
  "pkg/generator schemaGenerator.generateUnmarshaler: if g.config.OnlyModels"
]

def packageVars : List String := [
  ".: var capitalizations []string",
  ".: var defaultOutput string",
  ".: var defaultPackage string",
  ".: var extraImports bool",
  ".: var minSizedInts bool",
  ".: var onlyModels bool",
  ".: var resolveExtensions []string",
  ".: var rootCmd = &cobra.Command",
  ".: var schemaOutputs []string",
  ".: var schemaPackages []string",
  ".: var schemaRootTypes []string",
  ".: var structNameFromTitle bool",
  ".: var tags []string",
  ".: var verbose bool",
  ".: var yamlExtensions []string"
]

def receiverWrites : List String := [
  "jsonFormatter.generate: \"*j = %s(%s)\"",
  "jsonFormatter.generate: \"return nil\"",
  "jsonFormatter.enumUnmarshal: `*j = %s(v)`",
  "jsonFormatter.enumUnmarshal: `return nil`",
  "yamlFormatter.generate: \"*j = %s(%s)\"",
  "yamlFormatter.generate: \"return nil\"",
  "yamlFormatter.enumUnmarshal: `*j = %s(v)`",
  "yamlFormatter.enumUnmarshal: `return nil`"
]

def stringFormats : List String := [
  "case \"date\": NamedType \"types\" \"github.com/atombender/go-jsonschema/pkg/types\" \"SerializableDate\"",
  "case \"date-time\": NamedType \"time\" \"time\" \"Time\"",
  "case \"ipv4\", \"ipv6\": NamedType \"net/netip\" \"net/netip\" \"Addr\"",
  "case \"time\": NamedType \"types\" \"github.com/atombender/go-jsonschema/pkg/types\" \"SerializableTime\""
]

def templateQualifiers : List String := [
  "pkg/generator anyOfValidator.generate: errors",
  "pkg/generator anyOfValidator.generate: fmt",
  "pkg/generator arrayValidator.generate: fmt",
  "pkg/generator arrayValidator.generate: fmt",
  "pkg/generator jsonFormatter.enumUnmarshal: fmt",
  "pkg/generator jsonFormatter.enumUnmarshal: json",
  "pkg/generator jsonFormatter.enumUnmarshal: reflect",
  "pkg/generator jsonFormatter.generate: mapstructure",
  "pkg/generator jsonFormatter.generate: reflect",
  "pkg/generator jsonFormatter.generate: strings",
  "pkg/generator nullTypeValidator.generate: fmt",
  "pkg/generator numericValidator.genBoundary: fmt",
  "pkg/generator numericValidator.generate: fmt",
  "pkg/generator numericValidator.generate: math",
  "pkg/generator numericValidator.generate: math",
  "pkg/generator requiredValidator.generate: fmt",
  "pkg/generator stringValidator.generate: fmt",
  "pkg/generator stringValidator.generate: fmt",
  "pkg/generator stringValidator.generate: fmt",
  "pkg/generator stringValidator.generate: regexp",
  "pkg/generator yamlFormatter.enumUnmarshal: fmt",
  "pkg/generator yamlFormatter.enumUnmarshal: reflect",
  "pkg/generator yamlFormatter.enumUnmarshal: yaml",
  "pkg/generator yamlFormatter.generate: mapstructure",
  "pkg/generator yamlFormatter.generate: reflect",
  "pkg/generator yamlFormatter.generate: strings",
  "pkg/generator yamlFormatter.generate: yaml"
]

end GJS.FactsExpected

import GJS.Facts
import GJS.FactsExpected
/-- the regenerated facts `cliOrder` are exactly the ones the model was written and validated against -/
theorem GJS.FactsTie.cliOrder : GJS.Facts.cliOrder = GJS.FactsExpected.cliOrder := rfl

import GJS.Facts
import GJS.FactsExpected
/-- the regenerated facts `nbComparisons` are exactly the ones the model was written and validated against -/
theorem GJS.FactsTie.nbComparisons : GJS.Facts.nbComparisons = GJS.FactsExpected.nbComparisons := rfl

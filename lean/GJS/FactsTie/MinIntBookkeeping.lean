import GJS.Facts
import GJS.FactsExpected
/-- the regenerated facts `minIntBookkeeping` are exactly the ones the model was written and validated against -/
theorem GJS.FactsTie.minIntBookkeeping : GJS.Facts.minIntBookkeeping = GJS.FactsExpected.minIntBookkeeping := rfl

import GJS.Facts
import GJS.FactsExpected
/-- the regenerated facts `receiverWrites` are exactly the ones the model was written and validated against -/
theorem GJS.FactsTie.receiverWrites : GJS.Facts.receiverWrites = GJS.FactsExpected.receiverWrites := rfl

import GJS.Facts
import GJS.FactsExpected
/-- the regenerated facts `packageVars` are exactly the ones the model was written and validated against -/
theorem GJS.FactsTie.packageVars : GJS.Facts.packageVars = GJS.FactsExpected.packageVars := rfl

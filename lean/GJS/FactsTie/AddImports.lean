import GJS.Facts
import GJS.FactsExpected
/-- the regenerated facts `addImports` are exactly the ones the model was written and validated against -/
theorem GJS.FactsTie.addImports : GJS.Facts.addImports = GJS.FactsExpected.addImports := rfl

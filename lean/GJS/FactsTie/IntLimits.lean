import GJS.Facts
import GJS.FactsExpected
/-- the regenerated facts `intLimits` are exactly the ones the model was written and validated against -/
theorem GJS.FactsTie.intLimits : GJS.Facts.intLimits = GJS.FactsExpected.intLimits := rfl

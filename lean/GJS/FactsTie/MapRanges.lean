import GJS.Facts
import GJS.FactsExpected
/-- the regenerated facts `mapRanges` are exactly the ones the model was written and validated against -/
theorem GJS.FactsTie.mapRanges : GJS.Facts.mapRanges = GJS.FactsExpected.mapRanges := rfl

import GJS.Facts
import GJS.FactsExpected
/-- the regenerated facts `templateQualifiers` are exactly the ones the model was written and validated against -/
theorem GJS.FactsTie.templateQualifiers : GJS.Facts.templateQualifiers = GJS.FactsExpected.templateQualifiers := rfl

import GJS.Facts
import GJS.FactsExpected
/-- the regenerated facts `stringFormats` are exactly the ones the model was written and validated against -/
theorem GJS.FactsTie.stringFormats : GJS.Facts.stringFormats = GJS.FactsExpected.stringFormats := rfl

import GJS.Facts
import GJS.FactsExpected
/-- the regenerated facts `genBoundary` are exactly the ones the model was written and validated against -/
theorem GJS.FactsTie.genBoundary : GJS.Facts.genBoundary = GJS.FactsExpected.genBoundary := rfl

import GJS.Facts
import GJS.FactsExpected
/-- the regenerated facts `droppedErrors` are exactly the ones the model was written and validated against -/
theorem GJS.FactsTie.droppedErrors : GJS.Facts.droppedErrors = GJS.FactsExpected.droppedErrors := rfl

import GJS.Facts
import GJS.FactsExpected
/-- the regenerated facts `optionReads` are exactly the ones the model was written and validated against -/
theorem GJS.FactsTie.optionReads : GJS.Facts.optionReads = GJS.FactsExpected.optionReads := rfl

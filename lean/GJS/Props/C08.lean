import GJS.Model.Run
import GJS.Spec
/-
  C08 — enum values are exactly the accepted set.
  The emitted method decodes into the carrier type and then loops over the value table with
  reflect.DeepEqual (rule G11): `enumEq`.  These theorems say that, per carrier, the loop is JSON equality.
-/
namespace GJS.Props.C08
open GJS

theorem any_congr' {α : Type} (l : List α) (f g : α → Bool) (h : ∀ x ∈ l, f x = g x) : l.any f = l.any g := by
  induction l with
  | nil => rfl
  | cons a t ih =>
    simp only [List.any_cons]
    rw [h a (List.mem_cons_self ..), ih (fun x hx => h x (List.mem_cons_of_mem _ hx))]

/-- **string carrier** (all-string or `type: string` enums): membership is JSON equality with a listed value -/
theorem string_enum_membership (w : Wire) (c : GoTy) (vals : List Json) (s : String) (ic : Bool) :
    vals.any (enumEq w ic c (.str s)) = vals.any (fun v => v == Json.str s) := by
  apply any_congr'
  intro v _
  cases v <;> simp [enumEq, BEq.beq, Json.beq]
  exact ⟨fun h => h.symm, fun h => h.symm⟩

/-- **float64 carrier** (untyped numeric or `type: number` enums) -/
theorem number_enum_membership (w : Wire) (c : GoTy) (vals : List Json) (q : Rat) :
    vals.any (enumEq w false c (.float q)) = vals.any (fun v => v == Json.num q) := by
  apply any_congr'
  intro v _
  cases v <;> simp [enumEq, BEq.beq, Json.beq]
  exact ⟨fun h => h.symm, fun h => h.symm⟩

/-- **bool carrier** -/
theorem bool_enum_membership (w : Wire) (c : GoTy) (vals : List Json) (b : Bool) (ic : Bool) :
    vals.any (enumEq w ic c (.bool b)) = vals.any (fun v => v == Json.bool b) := by
  apply any_congr'
  intro v _
  cases v <;> simp [enumEq, BEq.beq, Json.beq]
  exact ⟨fun h => h.symm, fun h => h.symm⟩

/-- **interface{} carrier** (mixed enums, enums containing null), JSON path: the generic decoding of a
    primitive document value is DeepEqual to a table entry iff they are JSON-equal -/
theorem mixed_enum_membership_json (c : GoTy) (vals : List Json) (d : Json) (ic : Bool)
    (hd : match d with | .arr _ | .obj _ => False | _ => True)
    (hv : ∀ v ∈ vals, match v with | .arr _ | .obj _ => False | _ => True) :
    vals.any (enumEq .json ic c (jsonToIface d)) = vals.any (fun v => v == d) := by
  apply any_congr'
  intro v hvm
  have := hv v hvm
  cases d <;> cases v <;> simp_all [enumEq, jsonToIface, BEq.beq, Json.beq] <;>
    exact ⟨fun h => h.symm, fun h => h.symm⟩

/-- an accepted value of a struct-wrapped enum, where it is ADDRESSABLE (everywhere except below a map value),
    marshals back to the bare JSON value (MarshalJSON of the wrapper) -/
theorem wrapped_marshal_roundtrip (env : Env) (n : String) (d : Decl) (j : Json) (f : Nat)
    (hres : env.resolve 8 n = some d) (vals : List Json) (ic : Bool) (cs : List (String × String)) (m : Bool)
    (hb : d.body = .enum vals true ic cs m) (hj : j ≠ .null) :
    marshal env (f + 2) true (.named n) (.strct [("Value", jsonToIface j)]) = j := by
  simp only [marshal, hres, hb]
  cases j <;> simp_all [jsonToIface, marshal]

/-- known finding K29: as a MAP VALUE (not addressable) the wrapper's pointer-receiver MarshalJSON is not called
    and the value comes back as the struct `{"Value": j}` -/
theorem KF_wrapped_in_map_value (env : Env) (n : String) (d : Decl) (j : Json) (f : Nat)
    (hres : env.resolve 8 n = some d) (vals : List Json) (ic : Bool) (cs : List (String × String)) (m : Bool)
    (hb : d.body = .enum vals true ic cs m) (hj : j ≠ .null) :
    marshal env (f + 2) false (.named n) (.strct [("Value", jsonToIface j)]) = .obj [("Value", j)] := by
  simp only [marshal, hres, hb]
  cases j <;> simp_all [jsonToIface, marshal]

/-- an accepted value of a plain string enum marshals back to the same string -/
theorem plain_marshal_roundtrip (env : Env) (n : String) (d : Decl) (s : String) (f : Nat) (a : Bool)
    (hres : env.resolve 8 n = some d) (vals : List Json) (ic : Bool) (cs : List (String × String)) (m : Bool)
    (hb : d.body = .enum vals false ic cs m) (ht : d.ty = .string) :
    marshal env (f + 2) a (.named n) (.str s) = .str s := by
  simp only [marshal, hres, hb, ht]

/-- known finding: `type: integer` with a fractional member — the table entry is coerced with `int(v)`, so
    `1.5` in the list makes the document `1` acceptable although 1 is not JSON-equal to any listed value -/
theorem KF_integer_fraction_coerces :
    [Json.num ((truncRat (3/2) : Int) : Rat)].any (enumEq .json true (.int .int) (.int 1)) = true ∧
    [Json.num (3/2)].any (fun v => v == Json.num 1) = false := by
  refine ⟨by decide +kernel, by decide +kernel⟩

example : [Json.str "a", Json.num 1].any (enumEq .json false .iface (jsonToIface (.num 1))) = true := by decide +kernel
example : [Json.str "a", Json.num 1].any (enumEq .json false .iface (jsonToIface (.str "b"))) = false := by decide +kernel


/-- **the emitted method of a string enum accepts a JSON string iff it is one of the listed values** (any wire, any
    list, any fuel ≥ 2; a non-wrapped enum over the `string` carrier) -/
theorem string_enum_method_exact (w : Wire) (env : Env) (d : Decl) (vals : List Json) (ic : Bool) (cs : List (String × String))
    (ms : Bool) (s : String) (f : Nat)
    (hbody : d.body = .enum vals false ic cs ms) (hty : d.ty = .string) :
    (∃ v, runMethod w env (f + 2) d (.str s) = .ok v) ↔ vals.any (fun v => v == Json.str s) = true := by
  have hdec : decode w env (f + 1) .string (.str s) = .ok (.str s) := by cases w <;> simp [decode]
  simp only [runMethod, hbody, hty, enumCarrierOf, hdec, string_enum_membership]
  cases vals.any (fun v => v == Json.str s) <;> simp

/-- … and returns the string itself -/
theorem string_enum_method_value (w : Wire) (env : Env) (d : Decl) (vals : List Json) (ic : Bool) (cs : List (String × String))
    (ms : Bool) (s : String) (f : Nat) (v : GoVal)
    (hbody : d.body = .enum vals false ic cs ms) (hty : d.ty = .string)
    (h : runMethod w env (f + 2) d (.str s) = .ok v) : v = .str s := by
  have hdec : decode w env (f + 1) .string (.str s) = .ok (.str s) := by cases w <;> simp [decode]
  simp only [runMethod, hbody, hty, enumCarrierOf, hdec] at h
  split at h
  · injection h with h; simpa using h.symm
  · cases h

/-- a value of another JSON type never gets as far as the table (JSON wire) -/
theorem string_enum_method_rejects_other_types (env : Env) (d : Decl) (vals : List Json) (ic : Bool) (cs : List (String × String))
    (ms : Bool) (j : Json) (f : Nat)
    (hbody : d.body = .enum vals false ic cs ms) (hty : d.ty = .string)
    (hj : ∀ s, j ≠ .str s) (hn : j ≠ .null) :
    ∃ e, runMethod .json env (f + 2) d j = .error e := by
  have hdec : ∃ e, decode .json env (f + 1) .string j = .error e := by
    cases j with
    | str s => exact absurd rfl (hj s)
    | null => exact absurd rfl hn
    | bool b => exact ⟨.type, by simp [decode]⟩
    | num q => exact ⟨.type, by simp [decode]⟩
    | arr xs => exact ⟨.type, by simp [decode]⟩
    | obj kvs => exact ⟨.type, by simp [decode]⟩
  obtain ⟨e, he⟩ := hdec
  exact ⟨e, by simp only [runMethod, hbody, hty, enumCarrierOf, he]⟩


end GJS.Props.C08

import GJS.Model.Run
import GJS.Cert
import GJS.Proofs.Mono
import GJS.Props.C05
import GJS.Props.C06
import GJS.Props.C07
/-
  C02 — valid documents are accepted and decoded without loss.
  Run-time level: primitives round-trip through decode and marshal unchanged, and each validator rejects
  only what its schema constraint excludes (so a valid value is never rejected by the bound, length or
  pattern checks: "bounds normalisation must not over-constrain").
-/
namespace GJS.Props.C02
open GJS

/-- decode then marshal is the identity on primitive values of the right JSON type: no truncation, coercion
    or precision loss -/
theorem prim_roundtrip (env : Env) (f g : Nat) (a : Bool) :
    (∀ s, decode .json env (f + 1) .string (.str s) = .ok (.str s) ∧ marshal env (g + 1) a .string (.str s) = .str s) ∧
    (∀ b, decode .json env (f + 1) .bool (.bool b) = .ok (.bool b) ∧ marshal env (g + 1) a .bool (.bool b) = .bool b) ∧
    (∀ q, decode .json env (f + 1) .float64 (.num q) = .ok (.float q) ∧ marshal env (g + 1) a .float64 (.float q) = .num q) ∧
    (∀ k (i : Int), k.inRangeB i = true →
      decode .json env (f + 1) (.int k) (.num (i : Rat)) = .ok (.int i) ∧ marshal env (g + 1) a (.int k) (.int i) = .num (i : Rat)) := by
  refine ⟨?_, ?_, ?_, ?_⟩
  · intro s; simp [decode, marshal]
  · intro b; simp [decode, marshal]
  · intro q; simp [decode, marshal]
  · intro k i h; simp [decode, marshal, intInRange, h, Rat.den_intCast, Rat.num_intCast]

/-- if every value check passes, the after-validators do not reject (they reject only on stated constraints) -/
theorem validators_only_reject_on_constraints (w : Wire) (env : Env) (ty : GoTy) (raw : Option (List (String × Json)))
    (plain : GoVal) (vs : List Validator)
    (h : ∀ v ∈ vs, match v with
      | .nullType field depth => checkNull depth (fieldOf plain field) = true
      | .array field depth mn mx => checkArray depth (fieldOf plain field) mn mx = true
      | .string field mn mx p nl => checkString (fieldOf plain field) mn mx p nl = true
      | .numeric field nl c => checkNumeric (fieldOf plain field) nl c = true ∧ nonDyadicFloat c = false
      | .dflt _ _ _ => False
      | _ => True) :
    ∀ f, vs.length < f → runAfter w env f ty vs raw plain = .ok plain := by
  induction vs with
  | nil => intro f hf; cases f with | zero => omega | succ f => rfl
  | cons v rest ih =>
    intro f hf
    cases f with
    | zero => simp at hf
    | succ f =>
      have hv := h v (List.mem_cons_self ..)
      have hrest := ih (fun v' hv' => h v' (List.mem_cons_of_mem _ hv')) f (by simp at hf; omega)
      cases v with
      | required k => simp only [runAfter]; exact hrest
      | anyOf n => simp only [runAfter]; exact hrest
      | dflt a b c => exact absurd hv (by simp)
      | nullType field depth => simp only [runAfter]; simp only at hv; simp [hv, hrest]
      | array field depth mn mx => simp only [runAfter]; simp only at hv; simp [hv, hrest]
      | string field mn mx p nl => simp only [runAfter]; simp only at hv; simp [hv, hrest]
      | numeric field nl c =>
        simp only [runAfter]; simp only at hv
        obtain ⟨hc, hd⟩ := hv
        simp [hd, hc, hrest]

/-- the numeric check never rejects a value all stated bounds admit (number positions) -/
theorem numeric_accepts_valid_float (c : NumCheck) (x : Rat) (hr : c.roundToInt = false) (hm : c.mult = none)
    (h1 : c.xlo ≠ .other) (h2 : c.xhi ≠ .other) (hv : Spec.boundsOK c.lo c.hi c.xlo c.xhi x = true) :
    c.passes x = true :=
  (C05.float_bounds_exact c x hr hm h1 h2).mpr hv

/-- the string check never rejects an ASCII string the schema admits -/
theorem string_accepts_valid_ascii (minLen maxLen : Int) (pattern s : String) (h : C06.IsAscii s)
    (hl : Spec.lengthOK minLen maxLen s = true) (hp : Spec.patternOK pattern s = true) :
    stringPasses minLen maxLen pattern s = true :=
  (C06.string_check_exact_ascii minLen maxLen pattern s h).mpr ⟨hl, hp⟩

/-- the array check never rejects an array whose length the schema admits -/
theorem array_accepts_valid (xs : List GoVal) (mn mx : Int) (h : Spec.itemsCountOK mn mx xs.length = true) :
    checkArray 1 (.slice xs) mn mx = true := by
  rw [C07.depth1_exact]; exact h

/-- **the driver's acceptance is THE acceptance**: what `unmarshal` (the model's `json.Unmarshal`, run with the fuel
    `runFuel j`) accepts is accepted, with the same decoded value, for every larger fuel — fuel is only ever
    "enough or not" (`Proofs.decode_ok_mono`, one induction over the whole mutual block, any program) -/
theorem unmarshal_accept_stable (w : Wire) (env : Env) (root : String) (j : Json) (v : GoVal)
    (h : unmarshal w env root j = .ok v) :
    ∀ g, runFuel j ≤ g → decode w env g (.named root) j = .ok v := by
  intro g hg
  unfold unmarshal at h
  split at h
  · cases h
  · exact Proofs.decode_ok_mono w env (.named root) j v (runFuel j) g hg h

/-- … and a document that is rejected for every fuel can never have been accepted by the driver -/
theorem rejected_forever_not_accepted (env : Env) (root : String) (j : Json)
    (h : ∀ fuel, ¬ Proofs.Accepted (decode .json env fuel (.named root) j)) :
    ¬ Proofs.Accepted (unmarshal .json env root j) := by
  intro ⟨v, hv⟩
  exact h (runFuel j) ⟨v, unmarshal_accept_stable .json env root j v hv (runFuel j) (Nat.le_refl _)⟩


/-! ### what a generated method accepts, spelled out (no fuel, no monad): the acceptance condition of the emitted
    code is the CONJUNCTION of its parts, nothing else -/

/-- the test one after-validator performs on the decoded shadow value -/
def afterPasses (plain : GoVal) : Validator → Bool
  | .nullType field depth => checkNull depth (fieldOf plain field)
  | .array field depth mn mx => checkArray depth (fieldOf plain field) mn mx
  | .string field mn mx p nl => checkString (fieldOf plain field) mn mx p nl
  | .numeric field nl c => checkNumeric (fieldOf plain field) nl c
  | _ => true

/-- validator lists the statement speaks about: no default-filling step (it changes the value: C09) and no float
    multipleOf outside the dyadic rationals (convention F) -/
def Checkable : Validator → Bool
  | .dflt .. => false
  | .numeric _ _ c => !nonDyadicFloat c
  | _ => true

/-- **the after-validators accept exactly when every single check passes**, and then hand the value on unchanged -/
theorem runAfter_ok_iff (w : Wire) (env : Env) (ty : GoTy) (raw : Option (List (String × Json))) (plain : GoVal) :
    ∀ (vs : List Validator) (f : Nat), vs.length < f → (∀ v ∈ vs, Checkable v = true) →
      ((∃ p, runAfter w env f ty vs raw plain = .ok p) ↔ ∀ v ∈ vs, afterPasses plain v = true) ∧
      (∀ p, runAfter w env f ty vs raw plain = .ok p → p = plain) := by
  intro vs
  induction vs with
  | nil =>
    intro f hf _
    cases f with
    | zero => omega
    | succ f => simp [runAfter]
  | cons v rest ih =>
    intro f hf hc
    cases f with
    | zero => simp at hf
    | succ f =>
      have hrest := ih f (by simp at hf; omega) (fun v' hv' => hc v' (List.mem_cons_of_mem _ hv'))
      have hv := hc v (List.mem_cons_self ..)
      cases v with
      | required k =>
        have e : afterPasses plain (.required k) = true := rfl
        simpa only [runAfter, List.forall_mem_cons, e, true_and] using hrest
      | anyOf n =>
        have e : afterPasses plain (.anyOf n) = true := rfl
        simpa only [runAfter, List.forall_mem_cons, e, true_and] using hrest
      | dflt a b c => simp [Checkable] at hv
      | nullType field depth =>
        have e : afterPasses plain (.nullType field depth) = checkNull depth (fieldOf plain field) := rfl
        simp only [runAfter, List.forall_mem_cons, e]
        cases hx : checkNull depth (fieldOf plain field) with
        | true => simpa only [↓reduceIte, true_and] using hrest
        | false => simp
      | array field depth mn mx =>
        have e : afterPasses plain (.array field depth mn mx) = checkArray depth (fieldOf plain field) mn mx := rfl
        simp only [runAfter, List.forall_mem_cons, e]
        cases hx : checkArray depth (fieldOf plain field) mn mx with
        | true => simpa only [↓reduceIte, true_and] using hrest
        | false => simp
      | string field mn mx p nl =>
        have e : afterPasses plain (.string field mn mx p nl) = checkString (fieldOf plain field) mn mx p nl := rfl
        simp only [runAfter, List.forall_mem_cons, e]
        cases hx : checkString (fieldOf plain field) mn mx p nl with
        | true => simpa only [↓reduceIte, true_and] using hrest
        | false => simp
      | numeric field nl c =>
        have e : afterPasses plain (.numeric field nl c) = checkNumeric (fieldOf plain field) nl c := rfl
        simp only [Checkable, Bool.not_eq_true'] at hv
        simp only [runAfter, List.forall_mem_cons, e, hv, Bool.false_eq_true, ↓reduceIte]
        cases hx : checkNumeric (fieldOf plain field) nl c with
        | true => simpa only [↓reduceIte, true_and] using hrest
        | false => simp

def NoAnyOf : Validator → Bool | .anyOf _ => false | _ => true

/-- **the before-validators (without anyOf) accept exactly when every required key is present in the raw map** -/
theorem runBefore_ok_iff (w : Wire) (env : Env) (dn : String) (kvs : List (String × Json)) (j : Json) :
    ∀ (vs : List Validator) (f : Nat), vs.length < f → (∀ v ∈ vs, NoAnyOf v = true) →
      (runBefore w env f dn vs (some kvs) j = .ok () ↔ ∀ k, Validator.required k ∈ vs → ahas k kvs = true) := by
  intro vs
  induction vs with
  | nil =>
    intro f hf _
    cases f with
    | zero => omega
    | succ f => simp [runBefore]
  | cons v rest ih =>
    intro f hf hc
    cases f with
    | zero => simp at hf
    | succ f =>
      have hrest := ih f (by simp at hf; omega) (fun v' hv' => hc v' (List.mem_cons_of_mem _ hv'))
      have hv := hc v (List.mem_cons_self ..)
      cases v with
      | anyOf n => simp [NoAnyOf] at hv
      | required k =>
        simp only [runBefore, List.mem_cons]
        cases hk : ahas k kvs with
        | true =>
          simp only [↓reduceIte, hrest]
          constructor
          · intro h k' hk'
            rcases hk' with e | e
            · injection e with e; subst e; exact hk
            · exact h k' e
          · intro h k' hk'; exact h k' (Or.inr hk')
        | false =>
          simp only [Bool.false_eq_true, ↓reduceIte]
          constructor
          · intro h; cases h
          · intro h; have := h k (Or.inl rfl); rw [hk] at this; cases this
      | nullType a b => simpa [runBefore] using hrest
      | dflt a b c => simpa [runBefore] using hrest
      | array a b c d => simpa [runBefore] using hrest
      | string a b c d e => simpa [runBefore] using hrest
      | numeric a b c => simpa [runBefore] using hrest

/-- without a raw map (no validator needs it) the before-validators without anyOf accept -/
theorem runBefore_noraw (w : Wire) (env : Env) (dn : String) (j : Json) :
    ∀ (vs : List Validator) (f : Nat), vs.length < f → (∀ v ∈ vs, NoAnyOf v = true) →
      runBefore w env f dn vs none j = .ok () := by
  intro vs
  induction vs with
  | nil => intro f hf _; cases f with | zero => omega | succ f => simp [runBefore]
  | cons v rest ih =>
    intro f hf hc
    cases f with
    | zero => simp at hf
    | succ f =>
      have hrest := ih f (by simp at hf; omega) (fun v' hv' => hc v' (List.mem_cons_of_mem _ hv'))
      have hv := hc v (List.mem_cons_self ..)
      cases v <;> first | (simp [NoAnyOf] at hv; done) | simpa [runBefore] using hrest

/-- **C02–C08 at one struct level: the emitted method of a struct type accepts an object exactly when**
    every required key is present, the shadow decode succeeds, and every emitted check passes on the decoded
    value — and then returns that value.  (Validator lists without anyOf and default steps, struct without the
    AdditionalProperties field; those have their own statements.)  Together with the exactness theorems of
    C05 (`float_bounds_exact`, `int_bounds_exact`), C06 (`string_check_exact_ascii`), C07 (`depth1_exact`) this
    says: an accepted object satisfies every stated constraint of the struct's own members, and an object that
    decodes and satisfies them is accepted. -/
theorem struct_method_ok_iff (w : Wire) (env : Env) (d : Decl) (vs : List Validator) (m : Bool) (fs : List Field)
    (kvs : List (String × Json)) (f : Nat)
    (hbody : d.body = .plain vs m) (hty : d.ty = .strct fs)
    (hnoaddl : fs.find? (fun fl => fl.name = "AdditionalProperties") = none)
    (hf : vs.length < f) (h1 : ∀ v ∈ vs, NoAnyOf v = true) (h2 : ∀ v ∈ vs, Checkable v = true) (v : GoVal) :
    runMethod w env (f + 1) d (.obj kvs) = .ok v ↔
      (∀ k, Validator.required k ∈ vs → ahas k kvs = true) ∧
      decode w env f d.ty (.obj kvs) = .ok v ∧ ∀ x ∈ vs, afterPasses v x = true := by
  have hreq_raw : (∃ k, Validator.required k ∈ vs) → vs.any (fun v => v.before || v.requiresRawAfter) = true := by
    rintro ⟨k, hk⟩
    rw [List.any_eq_true]
    exact ⟨_, hk, rfl⟩
  simp only [runMethod, hbody, hty, hnoaddl]
  by_cases hneed : vs.any (fun v => v.before || v.requiresRawAfter) = true
  · simp only [hneed, ↓reduceIte, bind, Except.bind]
    cases hb : runBefore w env f d.name vs (some kvs) (.obj kvs) with
    | error e =>
      have hnot : ¬ (∀ k, Validator.required k ∈ vs → ahas k kvs = true) := fun h => by
        have := (runBefore_ok_iff w env d.name kvs (.obj kvs) vs f hf h1).mpr h
        rw [hb] at this; cases this
      simp only [hb]
      constructor
      · intro h; cases h
      · intro h; exact absurd h.1 hnot
    | ok u =>
      have hall := (runBefore_ok_iff w env d.name kvs (.obj kvs) vs f hf h1).mp (by rw [hb])
      simp only [hb]
      cases hd : decode w env f (.strct fs) (.obj kvs) with
      | error e => simp
      | ok plain =>
        simp only
        obtain ⟨hiff, hsame⟩ := runAfter_ok_iff w env (.strct fs) (some kvs) plain vs f hf h2
        cases ha : runAfter w env f (.strct fs) vs (some kvs) plain with
        | error e =>
          simp only
          constructor
          · intro h; cases h
          · rintro ⟨_, hv, hp⟩
            injection hv with hv; subst hv
            have := hiff.mpr hp
            obtain ⟨p, hp'⟩ := this; rw [ha] at hp'; cases hp'
        | ok p =>
          have hpe := hsame p ha
          subst hpe
          simp only [pure, Except.pure]
          constructor
          · intro h; injection h with h; subst h
            exact ⟨hall, rfl, hiff.mp ⟨_, ha⟩⟩
          · rintro ⟨_, hv, _⟩; injection hv with hv; subst hv; rfl
  · have hneed' : vs.any (fun v => v.before || v.requiresRawAfter) = false := by simpa using hneed
    have hnoreq : ∀ k, Validator.required k ∈ vs → ahas k kvs = true := by
      intro k hk; have := hreq_raw ⟨k, hk⟩; rw [hneed'] at this; cases this
    simp only [hneed', Bool.false_eq_true, ↓reduceIte, bind, Except.bind, runBefore_noraw w env d.name (.obj kvs) vs f hf h1]
    cases hd : decode w env f (.strct fs) (.obj kvs) with
    | error e => simp
    | ok plain =>
      simp only
      obtain ⟨hiff, hsame⟩ := runAfter_ok_iff w env (.strct fs) none plain vs f hf h2
      cases ha : runAfter w env f (.strct fs) vs none plain with
      | error e =>
        simp only
        constructor
        · intro h; cases h
        · rintro ⟨_, hv, hp⟩
          injection hv with hv; subst hv
          obtain ⟨p, hp'⟩ := hiff.mpr hp; rw [ha] at hp'; cases hp'
      | ok p =>
        have hpe := hsame p ha
        subst hpe
        simp only [pure, Except.pure]
        constructor
        · intro h; injection h with h; subst h
          exact ⟨hnoreq, rfl, hiff.mp ⟨_, ha⟩⟩
        · rintro ⟨_, hv, _⟩; injection hv with hv; subst hv; rfl


/-- corollary: whatever an accepted object decodes to passes every emitted check of the struct (so, by the
    exactness theorems of C05–C07, satisfies the stated bound / length / pattern / item-count of that member) -/
theorem accepted_passes_every_check (w : Wire) (env : Env) (d : Decl) (vs : List Validator) (m : Bool) (fs : List Field)
    (kvs : List (String × Json)) (f : Nat)
    (hbody : d.body = .plain vs m) (hty : d.ty = .strct fs)
    (hnoaddl : fs.find? (fun fl => fl.name = "AdditionalProperties") = none)
    (hf : vs.length < f) (h1 : ∀ v ∈ vs, NoAnyOf v = true) (h2 : ∀ v ∈ vs, Checkable v = true) (v : GoVal)
    (hacc : runMethod w env (f + 1) d (.obj kvs) = .ok v) :
    (∀ k, Validator.required k ∈ vs → ahas k kvs = true) ∧
    (∀ field nl c, Validator.numeric field nl c ∈ vs → checkNumeric (fieldOf v field) nl c = true) ∧
    (∀ field mn mx p nl, Validator.string field mn mx p nl ∈ vs → checkString (fieldOf v field) mn mx p nl = true) ∧
    (∀ field depth mn mx, Validator.array field depth mn mx ∈ vs → checkArray depth (fieldOf v field) mn mx = true) := by
  obtain ⟨hr, _, hp⟩ := (struct_method_ok_iff w env d vs m fs kvs f hbody hty hnoaddl hf h1 h2 v).mp hacc
  exact ⟨hr, fun field nl c h => hp _ h, fun field mn mx p nl h => hp _ h, fun field depth mn mx h => hp _ h⟩

/-- the hypotheses are satisfiable by an ordinary generated declaration -/
example :
    let fs : List Field := [{ name := "Name", jsonName := "name", ty := .string, tags := "", jsonKey := "name", yamlKey := "name", omitEmpty := false }]
    let vs : List Validator := [.required "name", .string "Name" 3 8 "" false]
    fs.find? (fun fl => fl.name = "AdditionalProperties") = none ∧ (∀ v ∈ vs, NoAnyOf v = true) ∧ (∀ v ∈ vs, Checkable v = true) := by
  simp [NoAnyOf, Checkable]


/-! ### acceptance is compositional: a struct accepts an object iff every entry that binds to a field is accepted by
    that field's type; a slice accepts an array iff every element is accepted (fuel-free statements, by monotonicity) -/

/-- accepted with SOME fuel (by `decode_ok_mono` then with every larger one, with the same value) -/
def Acc (w : Wire) (env : Env) (ty : GoTy) (j : Json) : Prop := ∃ f v, decode w env f ty j = .ok v

/-- the field a document key binds to under the wire's rule (G7 / Y6) -/
def bindW (w : Wire) (fs : List Field) (k : String) : Option Field :=
  match w with
  | .json => bindKey fs k
  | .yaml => fs.find? (fun fl => fl.yamlKey = k)

theorem elems_of_all (w : Wire) (env : Env) (t : GoTy) (F : Nat) :
    ∀ xs : List Json, (∀ x ∈ xs, ∃ v, decode w env F t x = .ok v) →
      ∃ vs, decodeElems w env (F + xs.length + 1) t xs = .ok vs := by
  intro xs
  induction xs with
  | nil => intro _; exact ⟨[], by simp [decodeElems]⟩
  | cons x rest ih =>
    intro h
    obtain ⟨v, hv⟩ := h x (List.mem_cons_self ..)
    obtain ⟨vs, hvs⟩ := ih (fun y hy => h y (List.mem_cons_of_mem _ hy))
    refine ⟨v :: vs, ?_⟩
    have hv' := Proofs.decode_ok_mono w env t x v F (F + rest.length + 1) (by omega) hv
    have e : F + (x :: rest).length + 1 = (F + rest.length + 1) + 1 := by simp; omega
    rw [e]
    simp only [decodeElems, hv', hvs, bind, Except.bind, pure, Except.pure]

theorem all_of_elems (w : Wire) (env : Env) (t : GoTy) :
    ∀ (xs : List Json) (f : Nat) (vs : List GoVal), decodeElems w env f t xs = .ok vs → ∀ x ∈ xs, Acc w env t x := by
  intro xs
  induction xs with
  | nil => intro _ _ _ x hx; cases hx
  | cons y rest ih =>
    intro f vs h x hx
    cases f with
    | zero => simp [decodeElems] at h
    | succ f =>
      simp only [decodeElems, bind, Except.bind] at h
      cases hd : decode w env f t y with
      | error e => rw [hd] at h; cases h
      | ok v =>
        rw [hd] at h
        simp only at h
        cases hr : decodeElems w env f t rest with
        | error e => rw [hr] at h; cases h
        | ok vs' =>
          rcases List.mem_cons.mp hx with e | e
          · subst e; exact ⟨f, v, hd⟩
          · exact ih f vs' hr x e

/-- a common fuel for finitely many accepted values -/
theorem common_fuel (w : Wire) (env : Env) (t : GoTy) :
    ∀ xs : List Json, (∀ x ∈ xs, Acc w env t x) → ∃ F, ∀ x ∈ xs, ∃ v, decode w env F t x = .ok v := by
  intro xs
  induction xs with
  | nil => intro _; exact ⟨0, fun x hx => by cases hx⟩
  | cons x rest ih =>
    intro h
    obtain ⟨F, hF⟩ := ih (fun y hy => h y (List.mem_cons_of_mem _ hy))
    obtain ⟨f, v, hv⟩ := h x (List.mem_cons_self ..)
    refine ⟨max F f, ?_⟩
    intro y hy
    rcases List.mem_cons.mp hy with e | e
    · subst e; exact ⟨v, Proofs.decode_ok_mono w env t _ v f _ (Nat.le_max_right ..) hv⟩
    · obtain ⟨v', hv'⟩ := hF y e
      exact ⟨v', Proofs.decode_ok_mono w env t y v' F _ (Nat.le_max_left ..) hv'⟩

theorem elemOK_of (env : Env) (t : GoTy) (hn : ∀ n, t ≠ .named n) (hb : t ≠ .int .u8) : elemOK env t = true := by
  cases t <;> first
    | (exfalso; exact hn _ rfl)
    | (rename_i k; cases k <;> first | (exfalso; exact hb rfl) | rfl)
    | rfl

/-- a slice of anything but bytes decodes its array element by element -/
theorem decode_slice_eq (env : Env) (t : GoTy) (xs : List Json) (f : Nat) (he : elemOK env t = true) :
    decode .json env (f + 1) (.slice t) (.arr xs) = (decodeElems .json env f t xs).map .slice := by
  cases t with
  | named n =>
    simp only [elemOK] at he
    cases hr : env.resolve 8 n with
    | none => simp [decode, hr]
    | some d =>
      rw [hr] at he
      simp only at he
      split at he
      · cases he
      · rename_i hne
        have hc : (match d.ty with | .int .u8 => true | _ => false) = false := by
          split
          · rename_i hty; exact absurd hty (hne)
          · rfl
        simp only [decode, hr, hc]
        simp
  | int k => cases k <;> first | (simp [elemOK] at he; done) | simp [decode]
  | _ => simp [decode]

/-- **a slice accepts a JSON array iff its element type accepts every element** (element types other than
    `uint8` and its named aliases, whose slices are byte strings: K22) -/
theorem acc_slice_iff (env : Env) (t : GoTy) (xs : List Json) (he : elemOK env t = true) :
    Acc .json env (.slice t) (.arr xs) ↔ ∀ x ∈ xs, Acc .json env t x := by
  have hdec : ∀ f, decode .json env (f + 1) (.slice t) (.arr xs) = (decodeElems .json env f t xs).map .slice :=
    fun f => decode_slice_eq env t xs f he
  constructor
  · rintro ⟨f, v, h⟩
    cases f with
    | zero => simp [decode] at h
    | succ f =>
      rw [hdec] at h
      cases hr : decodeElems .json env f t xs with
      | error e => rw [hr] at h; cases h
      | ok vs => exact all_of_elems .json env t xs f vs hr
  · intro h
    obtain ⟨F, hF⟩ := common_fuel .json env t xs h
    obtain ⟨vs, hvs⟩ := elems_of_all .json env t F xs hF
    exact ⟨F + xs.length + 1 + 1, .slice vs, by rw [hdec, hvs]; rfl⟩

theorem struct_of_all (w : Wire) (env : Env) (fs : List Field) (F : Nat) :
    ∀ (kvs : List (String × Json)) (acc : List (String × GoVal)),
      (∀ p ∈ kvs, ∀ fld, bindW w fs p.1 = some fld → ∃ v, decode w env F fld.ty p.2 = .ok v) →
      ∃ r, decodeStruct w env (F + kvs.length + 1) fs kvs acc = .ok r := by
  intro kvs
  induction kvs with
  | nil => intro acc _; exact ⟨acc, by simp [decodeStruct]⟩
  | cons p rest ih =>
    obtain ⟨k, x⟩ := p
    intro acc h
    have e : F + ((k, x) :: rest).length + 1 = (F + rest.length + 1) + 1 := by simp; omega
    rw [e]
    have hrest := fun acc' => ih acc' (fun q hq => h q (List.mem_cons_of_mem _ hq))
    cases hbnd : bindW w fs k with
    | none =>
      obtain ⟨r, hr⟩ := hrest acc
      refine ⟨r, ?_⟩
      cases w <;> simp only [bindW] at hbnd <;> simp only [decodeStruct, hbnd, hr]
    | some fld =>
      obtain ⟨v, hv⟩ := h (k, x) (List.mem_cons_self ..) fld hbnd
      have hv' := Proofs.decode_ok_mono w env fld.ty x v F (F + rest.length + 1) (by omega) hv
      obtain ⟨r, hr⟩ := hrest (acc.map fun (q : String × GoVal) => if q.1 = fld.name then (q.1, v) else q)
      refine ⟨r, ?_⟩
      cases w <;> simp only [bindW] at hbnd <;> simp only [decodeStruct, hbnd, hv', hr, bind, Except.bind]

theorem all_of_struct (w : Wire) (env : Env) (fs : List Field) :
    ∀ (kvs : List (String × Json)) (f : Nat) (acc r : List (String × GoVal)),
      decodeStruct w env f fs kvs acc = .ok r →
      ∀ p ∈ kvs, ∀ fld, bindW w fs p.1 = some fld → Acc w env fld.ty p.2 := by
  intro kvs
  induction kvs with
  | nil => intro _ _ _ _ p hp; cases hp
  | cons q rest ih =>
    obtain ⟨k, x⟩ := q
    intro f acc r h p hp fld hfld
    cases f with
    | zero => simp [decodeStruct] at h
    | succ f =>
      cases hbnd : bindW w fs k with
      | none =>
        have h' : decodeStruct w env f fs rest acc = .ok r := by
          cases w <;> simp only [bindW] at hbnd <;> simpa only [decodeStruct, hbnd] using h
        rcases List.mem_cons.mp hp with e | e
        · subst e; rw [hbnd] at hfld; cases hfld
        · exact ih f acc r h' p e fld hfld
      | some fld' =>
        cases hd : decode w env f fld'.ty x with
        | error er =>
          exfalso
          cases w <;> simp only [bindW] at hbnd <;> simp [decodeStruct, hbnd, hd, bind, Except.bind] at h
        | ok v =>
          have h' : decodeStruct w env f fs rest (acc.map fun (q : String × GoVal) => if q.1 = fld'.name then (q.1, v) else q) = .ok r := by
            cases w <;> simp only [bindW] at hbnd <;> simpa only [decodeStruct, hbnd, hd, bind, Except.bind] using h
          rcases List.mem_cons.mp hp with e | e
          · subst e; rw [hbnd] at hfld; injection hfld with hfld; subst hfld; exact ⟨f, v, hd⟩
          · exact ih f _ r h' p e fld hfld

/-- a common fuel for the finitely many entries of an object -/
theorem common_fuel_struct (w : Wire) (env : Env) (fs : List Field) :
    ∀ kvs : List (String × Json), (∀ p ∈ kvs, ∀ fld, bindW w fs p.1 = some fld → Acc w env fld.ty p.2) →
      ∃ F, ∀ p ∈ kvs, ∀ fld, bindW w fs p.1 = some fld → ∃ v, decode w env F fld.ty p.2 = .ok v := by
  intro kvs
  induction kvs with
  | nil => intro _; exact ⟨0, fun p hp => by cases hp⟩
  | cons q rest ih =>
    intro h
    obtain ⟨F, hF⟩ := ih (fun p hp => h p (List.mem_cons_of_mem _ hp))
    cases hb : bindW w fs q.1 with
    | none =>
      refine ⟨F, ?_⟩
      intro p hp fld hfld
      rcases List.mem_cons.mp hp with e | e
      · subst e; rw [hb] at hfld; cases hfld
      · exact hF p e fld hfld
    | some fq =>
      obtain ⟨f, v, hv⟩ := h q (List.mem_cons_self ..) fq hb
      refine ⟨max F f, ?_⟩
      intro p hp fld hfld
      rcases List.mem_cons.mp hp with e | e
      · subst e; rw [hb] at hfld; injection hfld with hfld; subst hfld
        exact ⟨v, Proofs.decode_ok_mono w env _ _ v f _ (Nat.le_max_right ..) hv⟩
      · obtain ⟨v', hv'⟩ := hF p e fld hfld
        exact ⟨v', Proofs.decode_ok_mono w env _ _ v' F _ (Nat.le_max_left ..) hv'⟩

/-- **a struct accepts an object iff every entry whose key binds to a field is accepted by that field's type** —
    unknown keys are ignored, nothing else can make the shadow decode fail (both wires) -/
theorem acc_struct_iff (w : Wire) (env : Env) (fs : List Field) (kvs : List (String × Json)) :
    Acc w env (.strct fs) (.obj kvs) ↔ ∀ p ∈ kvs, ∀ fld, bindW w fs p.1 = some fld → Acc w env fld.ty p.2 := by
  have hdec : ∀ f, decode w env (f + 1) (.strct fs) (.obj kvs) =
      (decodeStruct w env f fs kvs (zeroOf.zeroFields env 32 fs)).map .strct := by
    intro f; cases w <;> simp [decode]
  constructor
  · rintro ⟨f, v, h⟩
    cases f with
    | zero => simp [decode] at h
    | succ f =>
      rw [hdec] at h
      cases hr : decodeStruct w env f fs kvs (zeroOf.zeroFields env 32 fs) with
      | error e => rw [hr] at h; cases h
      | ok r => exact all_of_struct w env fs kvs f _ r hr
  · intro h
    obtain ⟨F, hF⟩ := common_fuel_struct w env fs kvs h
    obtain ⟨r, hr⟩ := struct_of_all w env fs F kvs (zeroOf.zeroFields env 32 fs) hF
    exact ⟨F + kvs.length + 1 + 1, .strct r, by rw [hdec, hr]; rfl⟩

/-- **a pointer accepts null, and otherwise what its element type accepts** (JSON wire) -/
theorem acc_ptr_iff (env : Env) (t : GoTy) (j : Json) :
    Acc .json env (.ptr t) j ↔ j = .null ∨ Acc .json env t j := by
  constructor
  · rintro ⟨f, v, h⟩
    cases f with
    | zero => simp [decode] at h
    | succ f =>
      by_cases hj : j = .null
      · exact Or.inl hj
      · right
        have : decode .json env (f + 1) (.ptr t) j = (decode .json env f t j).map .ptrTo := by
          cases j <;> first | (exfalso; exact hj rfl) | simp [decode]
        rw [this] at h
        cases hd : decode .json env f t j with
        | error e => rw [hd] at h; cases h
        | ok v' => exact ⟨f, v', hd⟩
  · rintro (h | ⟨f, v, h⟩)
    · subst h; exact ⟨1, .nil, by simp [decode]⟩
    · by_cases hj : j = .null
      · subst hj; exact ⟨1, .nil, by simp [decode]⟩
      · refine ⟨f + 1, .ptrTo v, ?_⟩
        have : decode .json env (f + 1) (.ptr t) j = (decode .json env f t j).map .ptrTo := by
          cases j <;> first | (exfalso; exact hj rfl) | simp [decode]
        rw [this, h]; rfl

/-- the leaves (JSON wire): a string field accepts null (a no-op) and strings, nothing else; likewise the others -/
theorem acc_string_iff (env : Env) (j : Json) : Acc .json env .string j ↔ j = .null ∨ ∃ s, j = .str s := by
  constructor
  · rintro ⟨f, v, h⟩
    cases f with
    | zero => simp [decode] at h
    | succ f => cases j <;> simp [decode] at h ⊢
  · rintro (h | ⟨s, h⟩) <;> subst h
    · exact ⟨1, zeroOf env 32 .string, by simp [decode]⟩
    · exact ⟨1, .str s, by simp [decode]⟩

theorem acc_bool_iff (env : Env) (j : Json) : Acc .json env .bool j ↔ j = .null ∨ ∃ b, j = .bool b := by
  constructor
  · rintro ⟨f, v, h⟩
    cases f with
    | zero => simp [decode] at h
    | succ f => cases j <;> simp [decode] at h ⊢
  · rintro (h | ⟨s, h⟩) <;> subst h
    · exact ⟨1, zeroOf env 32 .bool, by simp [decode]⟩
    · exact ⟨1, .bool s, by simp [decode]⟩

theorem acc_float_iff (env : Env) (j : Json) : Acc .json env .float64 j ↔ j = .null ∨ ∃ q, j = .num q := by
  constructor
  · rintro ⟨f, v, h⟩
    cases f with
    | zero => simp [decode] at h
    | succ f => cases j <;> simp [decode] at h ⊢
  · rintro (h | ⟨s, h⟩) <;> subst h
    · exact ⟨1, zeroOf env 32 .float64, by simp [decode]⟩
    · exact ⟨1, .float s, by simp [decode]⟩

/-- an integer field accepts null and exactly the numbers that are integers of its range (G2) -/
theorem acc_int_iff (env : Env) (k : IntKind) (j : Json) :
    Acc .json env (.int k) j ↔ j = .null ∨ ∃ q : Rat, j = .num q ∧ q.den = 1 ∧ intInRange k q.num = true := by
  constructor
  · rintro ⟨f, v, h⟩
    cases f with
    | zero => simp [decode] at h
    | succ f =>
      cases j with
      | num q =>
        right
        refine ⟨q, rfl, ?_⟩
        simp only [decode] at h
        by_cases hd : q.den = 1
        · simp only [hd, ne_eq, not_true_eq_false, ↓reduceIte] at h
          by_cases hr : intInRange k q.num = true
          · exact ⟨hd, hr⟩
          · simp [hr] at h
        · simp [hd] at h
      | null => exact Or.inl rfl
      | bool _ => simp [decode] at h
      | str _ => simp [decode] at h
      | arr _ => simp [decode] at h
      | obj _ => simp [decode] at h
  · rintro (h | ⟨q, h, hd, hr⟩) <;> subst h
    · exact ⟨1, zeroOf env 32 (.int k), by simp [decode]⟩
    · exact ⟨1, .int q.num, by simp [decode, hd, hr]⟩

/-- **a named type with a generated method accepts exactly what the method accepts; one without accepts what its
    underlying type accepts** (JSON wire) -/
theorem acc_named_iff (env : Env) (n : String) (d : Decl) (j : Json) (hres : env.resolve 8 n = some d) :
    Acc .json env (.named n) j ↔
      if d.hasMethod then ∃ f v, runMethod .json env f d j = .ok v
      else d.ty.isFmt = false ∧ Acc .json env d.ty j := by
  have hdec : ∀ f, decode .json env (f + 1) (.named n) j =
      (if d.hasMethod then runMethod .json env f d j
       else if d.ty.isFmt then .error (.unmodelled "named-format-type") else decode .json env f d.ty j) := by
    intro f; simp [decode, hres]
  by_cases hm : d.hasMethod = true
  · simp only [hm, ↓reduceIte]
    constructor
    · rintro ⟨f, v, h⟩
      cases f with
      | zero => simp [decode] at h
      | succ f => rw [hdec] at h; simp only [hm, ↓reduceIte] at h; exact ⟨f, v, h⟩
    · rintro ⟨f, v, h⟩
      exact ⟨f + 1, v, by rw [hdec]; simp only [hm, ↓reduceIte]; exact h⟩
  · have hm' : d.hasMethod = false := by simpa using hm
    simp only [hm', Bool.false_eq_true, ↓reduceIte]
    constructor
    · rintro ⟨f, v, h⟩
      cases f with
      | zero => simp [decode] at h
      | succ f =>
        rw [hdec] at h
        simp only [hm', Bool.false_eq_true, ↓reduceIte] at h
        cases hf : d.ty.isFmt with
        | true => simp [hf] at h
        | false => simp only [hf, Bool.false_eq_true, ↓reduceIte] at h; exact ⟨rfl, f, v, h⟩
    · rintro ⟨hf, f, v, h⟩
      exact ⟨f + 1, v, by rw [hdec]; simp only [hm', hf, Bool.false_eq_true, ↓reduceIte]; exact h⟩


theorem map_of_all (w : Wire) (env : Env) (t : GoTy) (F : Nat) :
    ∀ kvs : List (String × Json), (∀ p ∈ kvs, ∃ v, decode w env F t p.2 = .ok v) →
      ∃ vs, decodeMap w env (F + kvs.length + 1) t kvs = .ok vs := by
  intro kvs
  induction kvs with
  | nil => intro _; exact ⟨[], by simp [decodeMap]⟩
  | cons p rest ih =>
    obtain ⟨k, x⟩ := p
    intro h
    obtain ⟨v, hv⟩ := h (k, x) (List.mem_cons_self ..)
    obtain ⟨vs, hvs⟩ := ih (fun y hy => h y (List.mem_cons_of_mem _ hy))
    refine ⟨(k, v) :: vs, ?_⟩
    have hv' := Proofs.decode_ok_mono w env t x v F (F + rest.length + 1) (by omega) hv
    have e : F + ((k, x) :: rest).length + 1 = (F + rest.length + 1) + 1 := by simp; omega
    rw [e]
    simp only [decodeMap, hv', hvs, bind, Except.bind, pure, Except.pure]

theorem all_of_map (w : Wire) (env : Env) (t : GoTy) :
    ∀ (kvs : List (String × Json)) (f : Nat) (vs : List (String × GoVal)), decodeMap w env f t kvs = .ok vs →
      ∀ p ∈ kvs, Acc w env t p.2 := by
  intro kvs
  induction kvs with
  | nil => intro _ _ _ p hp; cases hp
  | cons q rest ih =>
    obtain ⟨k, y⟩ := q
    intro f vs h p hp
    cases f with
    | zero => simp [decodeMap] at h
    | succ f =>
      simp only [decodeMap, bind, Except.bind] at h
      cases hd : decode w env f t y with
      | error e => rw [hd] at h; cases h
      | ok v =>
        rw [hd] at h
        simp only at h
        cases hr : decodeMap w env f t rest with
        | error e => rw [hr] at h; cases h
        | ok vs' =>
          rcases List.mem_cons.mp hp with e | e
          · subst e; exact ⟨f, v, hd⟩
          · exact ih f vs' hr p e

theorem common_fuel_map (w : Wire) (env : Env) (t : GoTy) :
    ∀ kvs : List (String × Json), (∀ p ∈ kvs, Acc w env t p.2) → ∃ F, ∀ p ∈ kvs, ∃ v, decode w env F t p.2 = .ok v := by
  intro kvs
  induction kvs with
  | nil => intro _; exact ⟨0, fun x hx => by cases hx⟩
  | cons q rest ih =>
    intro h
    obtain ⟨F, hF⟩ := ih (fun y hy => h y (List.mem_cons_of_mem _ hy))
    obtain ⟨f, v, hv⟩ := h q (List.mem_cons_self ..)
    refine ⟨max F f, ?_⟩
    intro y hy
    rcases List.mem_cons.mp hy with e | e
    · subst e; exact ⟨v, Proofs.decode_ok_mono w env t _ v f _ (Nat.le_max_right ..) hv⟩
    · obtain ⟨v', hv'⟩ := hF y e
      exact ⟨v', Proofs.decode_ok_mono w env t _ v' F _ (Nat.le_max_left ..) hv'⟩

/-- **a map accepts an object iff its value type accepts every member's value** (JSON wire) -/
theorem acc_map_iff (env : Env) (t : GoTy) (kvs : List (String × Json)) :
    Acc .json env (.map t) (.obj kvs) ↔ ∀ p ∈ kvs, Acc .json env t p.2 := by
  have hdec : ∀ f, decode .json env (f + 1) (.map t) (.obj kvs) = (decodeMap .json env f t kvs).map .map := by
    intro f; simp [decode]
  constructor
  · rintro ⟨f, v, h⟩
    cases f with
    | zero => simp [decode] at h
    | succ f =>
      rw [hdec] at h
      cases hr : decodeMap .json env f t kvs with
      | error e => rw [hr] at h; cases h
      | ok vs => exact all_of_map .json env t kvs f vs hr
  · intro h
    obtain ⟨F, hF⟩ := common_fuel_map .json env t kvs h
    obtain ⟨vs, hvs⟩ := map_of_all .json env t F kvs hF
    exact ⟨F + kvs.length + 1 + 1, .map vs, by rw [hdec, hvs]; rfl⟩

/-- an `interface{}` position accepts everything (JSON wire) -/
theorem acc_iface (env : Env) (j : Json) : Acc .json env .iface j :=
  ⟨1, jsonToIface j, by cases j <;> simp [decode]⟩

end GJS.Props.C02

import GJS.Model.Run
import GJS.Proofs.Mono
import GJS.Props.C05
import GJS.Props.C06
import GJS.Props.C07
/-
  C02 — valid documents are accepted and decoded without loss.
  Run-time level: primitives round-trip through decode and marshal unchanged, and each validator rejects
  only what its schema constraint excludes (so a valid value is never rejected by the bound, length or
  pattern checks: "bounds normalisation must not over-constrain").
-/
namespace GJS.Props.C02
open GJS

/-- decode then marshal is the identity on primitive values of the right JSON type: no truncation, coercion
    or precision loss -/
theorem prim_roundtrip (env : Env) (f g : Nat) (a : Bool) :
    (∀ s, decode .json env (f + 1) .string (.str s) = .ok (.str s) ∧ marshal env (g + 1) a .string (.str s) = .str s) ∧
    (∀ b, decode .json env (f + 1) .bool (.bool b) = .ok (.bool b) ∧ marshal env (g + 1) a .bool (.bool b) = .bool b) ∧
    (∀ q, decode .json env (f + 1) .float64 (.num q) = .ok (.float q) ∧ marshal env (g + 1) a .float64 (.float q) = .num q) ∧
    (∀ k (i : Int), k.inRangeB i = true →
      decode .json env (f + 1) (.int k) (.num (i : Rat)) = .ok (.int i) ∧ marshal env (g + 1) a (.int k) (.int i) = .num (i : Rat)) := by
  refine ⟨?_, ?_, ?_, ?_⟩
  · intro s; simp [decode, marshal]
  · intro b; simp [decode, marshal]
  · intro q; simp [decode, marshal]
  · intro k i h; simp [decode, marshal, intInRange, h, Rat.den_intCast, Rat.num_intCast]

/-- if every value check passes, the after-validators do not reject (they reject only on stated constraints) -/
theorem validators_only_reject_on_constraints (w : Wire) (env : Env) (ty : GoTy) (raw : Option (List (String × Json)))
    (plain : GoVal) (vs : List Validator)
    (h : ∀ v ∈ vs, match v with
      | .nullType field depth => checkNull depth (fieldOf plain field) = true
      | .array field depth mn mx => checkArray depth (fieldOf plain field) mn mx = true
      | .string field mn mx p nl => checkString (fieldOf plain field) mn mx p nl = true
      | .numeric field nl c => checkNumeric (fieldOf plain field) nl c = true ∧ nonDyadicFloat c = false
      | .dflt _ _ _ => False
      | _ => True) :
    ∀ f, vs.length < f → runAfter w env f ty vs raw plain = .ok plain := by
  induction vs with
  | nil => intro f hf; cases f with | zero => omega | succ f => rfl
  | cons v rest ih =>
    intro f hf
    cases f with
    | zero => simp at hf
    | succ f =>
      have hv := h v (List.mem_cons_self ..)
      have hrest := ih (fun v' hv' => h v' (List.mem_cons_of_mem _ hv')) f (by simp at hf; omega)
      cases v with
      | required k => simp only [runAfter]; exact hrest
      | anyOf n => simp only [runAfter]; exact hrest
      | dflt a b c => exact absurd hv (by simp)
      | nullType field depth => simp only [runAfter]; simp only at hv; simp [hv, hrest]
      | array field depth mn mx => simp only [runAfter]; simp only at hv; simp [hv, hrest]
      | string field mn mx p nl => simp only [runAfter]; simp only at hv; simp [hv, hrest]
      | numeric field nl c =>
        simp only [runAfter]; simp only at hv
        obtain ⟨hc, hd⟩ := hv
        simp [hd, hc, hrest]

/-- the numeric check never rejects a value all stated bounds admit (number positions) -/
theorem numeric_accepts_valid_float (c : NumCheck) (x : Rat) (hr : c.roundToInt = false) (hm : c.mult = none)
    (h1 : c.xlo ≠ .other) (h2 : c.xhi ≠ .other) (hv : Spec.boundsOK c.lo c.hi c.xlo c.xhi x = true) :
    c.passes x = true :=
  (C05.float_bounds_exact c x hr hm h1 h2).mpr hv

/-- the string check never rejects an ASCII string the schema admits -/
theorem string_accepts_valid_ascii (minLen maxLen : Int) (pattern s : String) (h : C06.IsAscii s)
    (hl : Spec.lengthOK minLen maxLen s = true) (hp : Spec.patternOK pattern s = true) :
    stringPasses minLen maxLen pattern s = true :=
  (C06.string_check_exact_ascii minLen maxLen pattern s h).mpr ⟨hl, hp⟩

/-- the array check never rejects an array whose length the schema admits -/
theorem array_accepts_valid (xs : List GoVal) (mn mx : Int) (h : Spec.itemsCountOK mn mx xs.length = true) :
    checkArray 1 (.slice xs) mn mx = true := by
  rw [C07.depth1_exact]; exact h

/-- **the driver's acceptance is THE acceptance**: what `unmarshal` (the model's `json.Unmarshal`, run with the fuel
    `runFuel j`) accepts is accepted, with the same decoded value, for every larger fuel — fuel is only ever
    "enough or not" (`Proofs.decode_ok_mono`, one induction over the whole mutual block, any program) -/
theorem unmarshal_accept_stable (w : Wire) (env : Env) (root : String) (j : Json) (v : GoVal)
    (h : unmarshal w env root j = .ok v) :
    ∀ g, runFuel j ≤ g → decode w env g (.named root) j = .ok v := by
  intro g hg
  unfold unmarshal at h
  split at h
  · cases h
  · exact Proofs.decode_ok_mono w env (.named root) j v (runFuel j) g hg h

/-- … and a document that is rejected for every fuel can never have been accepted by the driver -/
theorem rejected_forever_not_accepted (env : Env) (root : String) (j : Json)
    (h : ∀ fuel, ¬ Proofs.Accepted (decode .json env fuel (.named root) j)) :
    ¬ Proofs.Accepted (unmarshal .json env root j) := by
  intro ⟨v, hv⟩
  exact h (runFuel j) ⟨v, unmarshal_accept_stable .json env root j v hv (runFuel j) (Nat.le_refl _)⟩

end GJS.Props.C02

import GJS.Model.Gen
/-
  C01 — every emitted file is valid, self-contained Go that compiles.
  What decides C01 inside the generator is bookkeeping, and that is what is modelled and proved here: every
  package an emitted statement mentions is imported by the same code path that emits the statement.
  (Go's grammar and type checker are not modelled: *partial*.)
-/
namespace GJS.Props.C01
open GJS

def imported (st : GenSt) (p : String) : Bool := st.imports.any (·.path == p)

/-- the packages the text of a validator mentions (regenerated fact `templateQualifiers`, per template) -/
def validatorUses : Validator → List String
  | .required _ => ["fmt"]
  | .nullType _ _ => ["fmt"]
  | .dflt _ _ _ => []
  | .array _ _ _ _ => ["fmt"]
  | .string _ _ _ p _ => if p = "" then ["fmt"] else ["fmt", "regexp"]
  | .numeric _ _ c => if c.mult.isSome && !c.roundToInt then ["fmt", "math"] else ["fmt"]
  | .anyOf _ => ["fmt", "errors"]

theorem addImport_run (p a : String) (st : GenSt) :
    (addImport p a).run st = .ok ((), if st.imports.any (·.path == p) then st else { st with imports := st.imports ++ [{ path := p, alias := a }] }) := by
  simp [addImport, modify, modifyGet, MonadStateOf.modifyGet, StateT.modifyGet, StateT.run, pure, Except.pure]

/-- after `AddImport(p)` the package is imported -/
theorem addImport_imports (p a : String) (st st' : GenSt) (h : (addImport p a).run st = .ok ((), st')) :
    imported st' p = true := by
  rw [addImport_run] at h
  injection h with h; injection h with _ h; subst h
  unfold imported
  by_cases hp : st.imports.any (·.path == p) = true
  · simp [hp]
  · simp [hp, List.any_append]

/-- `AddImport` never removes an import -/
theorem addImport_mono (p a q : String) (st st' : GenSt) (h : (addImport p a).run st = .ok ((), st'))
    (hq : imported st q = true) : imported st' q = true := by
  rw [addImport_run] at h
  injection h with h; injection h with _ h; subst h
  unfold imported at *
  by_cases hp : st.imports.any (·.path == p) = true
  · simp [hp, hq]
  · simp only [hp, Bool.false_eq_true, ↓reduceIte, List.any_append, Bool.or_eq_true]; left; exact hq

/-- `AddImport` is idempotent: no duplicate import lines -/
theorem addImport_idempotent (p a : String) (st st' st'' : GenSt)
    (h1 : (addImport p a).run st = .ok ((), st')) (h2 : (addImport p a).run st' = .ok ((), st'')) : st''.imports = st'.imports := by
  have hi := addImport_imports p a st st' h1
  rw [addImport_run] at h2
  injection h2 with h2; injection h2 with _ h2; subst h2
  unfold imported at hi
  simp [hi]

/-- the string validator and its `regexp` import come from the same call: whenever `structFieldValidators`
    yields a string validator with a pattern, `regexp` is imported afterwards -/
theorem string_validator_imports_regexp (field : String) (sch : NodeF Schema) (f : Nat) (nl : Bool) (st st' : GenSt)
    (vs : List Validator) (h : (structFieldValidators field sch (f + 1) .string nl).run st = .ok (vs, st'))
    (hp : sch.pattern ≠ "") : imported st' "regexp" = true ∧ vs = [.string field sch.minLength sch.maxLength sch.pattern nl] := by
  simp only [structFieldValidators, hp, ne_eq, not_false_eq_true, decide_true, ↓reduceIte, bind, StateT.bind, StateT.run, or_true] at h
  generalize sch.pattern.toList.contains '`' = b at h
  unfold imported
  by_cases hq : st.imports.any (·.path == "regexp") = true <;> cases b <;> by_cases hi : st.issues.contains "backtick-in-pattern" = true <;>
    simp [addImport, issue, modify, modifyGet, MonadStateOf.modifyGet, StateT.modifyGet, StateT.bind, pure, StateT.pure, Except.pure,
      Except.bind, hq, hi] at h <;>
    (rcases h with ⟨rfl, rfl⟩
     have hi' : ("backtick-in-pattern" ∈ st.issues) ∨ ¬ ("backtick-in-pattern" ∈ st.issues) := Classical.em _
     rcases hi' with hi' | hi' <;> simp_all [List.any_append] )

/-- a numeric validator is registered only if it emits at least one statement (fix R7: otherwise `fmt` would be
    imported and not used) -/
theorem numeric_validator_only_if_it_emits (field : String) (sch : NodeF Schema) (f : Nat) (nl : Bool) (k : IntKind)
    (st st' : GenSt) (vs : List Validator)
    (h : (structFieldValidators field sch (f + 1) (.int k) nl).run st = .ok (vs, st')) :
    ∀ v ∈ vs, match v with | .numeric _ _ c => c.emitsSomething = true | _ => False := by
  intro v hv
  simp only [structFieldValidators, bind, StateT.bind, StateT.run, Bool.not_true, Bool.and_false,
    Bool.false_eq_true, ↓reduceIte] at h
  generalize hc : ({ mult := sch.multipleOf, lo := sch.minimum, hi := sch.maximum, xlo := sch.xmin, xhi := sch.xmax,
                     roundToInt := true } : NumCheck) = c at h
  have hvs : vs = (if c.emitsSomething = true then [Validator.numeric field nl c] else []) := by
    generalize (!((match (normLo sch.minimum sch.xmin).fst with
                      | some q => k.inRangeB (truncRat q)
                      | none => true) &&
                      match (normHi sch.maximum sch.xmax).fst with
                      | some q => k.inRangeB (truncRat q)
                      | none => true)) = b at h
    cases b <;> cases he : c.emitsSomething <;>
      simp [he, issue, modify, modifyGet, MonadStateOf.modifyGet, StateT.modifyGet, pure, StateT.pure, Except.pure,
        Except.bind] at h <;> (first | (simp; exact h.1) | (simp; exact h.1.symm) | (split at h <;> simp at h <;> simp <;> first | exact h.1 | exact h.1.symm))
  by_cases he : c.emitsSomething = true
  · simp only [he, ↓reduceIte] at hvs
    subst hvs
    simp at hv; subst hv; exact he
  · simp only [he, Bool.false_eq_true, ↓reduceIte] at hvs
    subst hvs; cases hv

/-- the shadow type name avoids every declared name: `Plain` unless taken, else `Plain_0`, `Plain_1`, … -/
def shadowName (declared : List String) (declName : String) : String :=
  if declName ≠ "Plain" then "Plain" else
  let rec go (fuel i : Nat) : String :=
    match fuel with
    | 0 => s!"Plain_{i}"
    | f + 1 => if declared.contains s!"Plain_{i}" then go f (i + 1) else s!"Plain_{i}"
  go (declared.length + 1) 0

theorem shadowName_differs (declared : List String) (declName : String) (h : declName ≠ "Plain") :
    shadowName declared declName ≠ declName := by
  simp [shadowName, h]; exact fun he => h he.symm

end GJS.Props.C01

import GJS.Model.Run
/-
  C19 — generated unmarshalers are total and all-or-nothing.
  In the model an emitted method is a total function from the input to `value | error`; the receiver is
  assigned from the value in the method's last statement only (`*j = T(plain)`: regenerated fact
  `receiverWrites`).  `store` is that statement.  The nil guards are the reason no validator dereferences a
  nil pointer, indexes a nil slice or reads a nil raw map.
-/
namespace GJS.Props.C19
open GJS

/-- the single write through the receiver: `*j = T(plain)` after everything else succeeded -/
def store (dest : GoVal) (r : R GoVal) : GoVal :=
  match r with
  | .ok v => v
  | .error _ => dest

/-- **all-or-nothing**: when the method returns an error the destination is exactly what it was -/
theorem error_keeps_destination (dest : GoVal) (e : DecErr) : store dest (.error e) = dest := rfl

/-- … for the emitted method of any declaration, any wire, any input, any prior destination value -/
theorem method_all_or_nothing (w : Wire) (env : Env) (f : Nat) (d : Decl) (j : Json) (dest : GoVal)
    (h : ∀ v, runMethod w env f d j ≠ .ok v) : store dest (runMethod w env f d j) = dest := by
  cases hr : runMethod w env f d j with
  | error e => rfl
  | ok v => exact absurd hr (h v)

/-- the result does not depend on the prior destination at all (the shadow value starts from zero) -/
theorem result_independent_of_destination (w : Wire) (env : Env) (f : Nat) (d : Decl) (j : Json) (d1 d2 : GoVal)
    (v : GoVal) (h : runMethod w env f d j = .ok v) :
    store d1 (runMethod w env f d j) = store d2 (runMethod w env f d j) := by
  rw [h]; rfl

/-- **nil guards**: a nil pointer is never dereferenced by the numeric and string validators -/
theorem numeric_nil_guard (c : NumCheck) : checkNumeric .nil true c = true := rfl
theorem string_nil_guard (mn mx : Int) (p : String) : checkString .nil mn mx p true = true := rfl

/-- a nil slice is never indexed: the range loops of array and null validators do not run -/
theorem array_nil_guard (d : Nat) (mn mx : Int) : checkArray (d + 2) .nil mn mx = true := rfl
theorem null_nil_guard (d : Nat) : checkNull (d + 1) .nil = true := rfl

/-- a nil raw map (the document `null`) never fails a presence check: `raw != nil && !ok` -/
theorem required_nil_raw (w : Wire) (env : Env) (dn k : String) (rest : List Validator) (j : Json) (f : Nat) :
    runBefore w env (f + 1) dn (.required k :: rest) none j = runBefore w env f dn rest none j := rfl

/-- a non-object, non-null document is refused before any validator runs when the method reads the raw map -/
theorem scalar_refused_by_raw_decode (w : Wire) (env : Env) (f : Nat) (d : Decl) (vs : List Validator) (m : Bool)
    (j : Json) (hb : d.body = .plain vs m) (hraw : (vs.any fun v => v.before || v.requiresRawAfter) = true)
    (hj : match j with | .obj _ | .null => False | _ => True) :
    runMethod w env (f + 1) d j = .error .type := by
  simp only [runMethod, hb, hraw, ↓reduceIte]
  cases j <;> simp_all <;> rfl

/-- known finding K13: with typed additionalProperties the document `null` reaches mapstructure.Decode with a
    nil map — the model's explicit `panic` outcome -/
theorem KF_addl_null_panics (w : Wire) (env : Env) (f : Nat) :
    let afl : Field := { name := "AdditionalProperties", jsonName := "", ty := .map (.int .int), tags := "",
                         jsonKey := "AdditionalProperties", yamlKey := "additionalproperties", omitEmpty := false }
    let d : Decl := { name := "T", ty := .strct [afl], body := .plain [.dflt "AdditionalProperties" "" (.obj [])] true }
    runMethod w env (f + 3) d .null = .error (.panic "mapstructure-nil-map") := by
  intro afl d
  cases w <;> simp [runMethod, d, afl, runBefore, decode, runAfter, dfltAbsent, literalOK, literal, fieldTyOf, zeroOf,
    zeroOf.zeroFields, setField, Validator.before, Validator.requiresRawAfter, bind, Except.bind]

end GJS.Props.C19

import GJS.Props.TreeGen
/-
  C16 at generator level for TREES of objects: what `--extra-imports` and `--only-models` change in the generator's
  output, for every tree of the fragment of `run_tree`.
-/
namespace GJS.Props.Tree
open GJS GJS.Props.Flat

/-- what a declaration looks like to a reader of the generated file, apart from validators and methods -/
def declShape (d : Decl) : String × GoTy × String := (d.name, d.ty, d.comment)

theorem fieldT_congr (cfg cfg' : Config) (h : cfg.tags = cfg'.tags) (scope : String) (t : Schema) (n : String) :
    fieldT cfg scope t n = fieldT cfg' scope t n := by
  simp [fieldT, mkTags, h]

/-- the declarations of a tree depend on the options only through `--tags`, `--only-models` and `--min-sized-ints` -/
theorem treeDecls_congr (cfg cfg' : Config) (ht : cfg.tags = cfg'.tags) (ho : cfg.onlyModels = cfg'.onlyModels)
    (hm : cfg.minSizedInts = cfg'.minSizedInts) : ∀ d scope t, treeDecls cfg d scope t = treeDecls cfg' d scope t := by
  intro d
  induction d with
  | zero => intro _ _; rfl
  | succ d ih =>
    intro scope t
    simp only [treeDecls]
    congr 1
    · apply flatMap_congr'
      intro n _
      split
      · exact ih _ _
      · rfl
    · have hf : (sortedKeys t.node.props).map (fieldT cfg scope t) = (sortedKeys t.node.props).map (fieldT cfg' scope t) :=
        List.map_congr_left (fun n _ => fieldT_congr cfg cfg' ht scope t n)
      simp [nodeDecl, hf, ho, keptSchema, hm]

/-- **C16 for trees, `--extra-imports`**: no declaration changes -/
theorem tree_extra_imports_same_decls (cfg : Config) (hc : genCfg cfg) (d : Nat) (t : Schema) (h : TreeOK d t)
    (hnd : (scopes d cfg.rootType t).Nodup) (hd : d ≤ 5) (id : String) (b : Bool) :
    ∃ o1 o2, Gen.run cfg { id := id, hasRoot := true, root := t, defs := [] } = .ok o1 ∧
      Gen.run { cfg with extraImports := b } { id := id, hasRoot := true, root := t, defs := [] } = .ok o2 ∧ o1.decls = o2.decls := by
  obtain ⟨o1, h1, d1⟩ := run_tree cfg hc d t h hnd hd id
  obtain ⟨o2, h2, d2⟩ := run_tree { cfg with extraImports := b } hc d t h hnd hd id
  exact ⟨o1, o2, h1, h2, by rw [d1, d2]; exact treeDecls_congr cfg { cfg with extraImports := b } rfl rfl rfl d _ t⟩

/-- names, types and comments of the declarations do not depend on `--only-models` -/
theorem treeDecls_shape_only_models (cfg : Config) (b : Bool) : ∀ d scope t,
    (treeDecls { cfg with onlyModels := b } d scope t).map declShape = (treeDecls cfg d scope t).map declShape := by
  intro d
  induction d with
  | zero => intro _ _; rfl
  | succ d ih =>
    intro scope t
    simp only [treeDecls, List.map_append, List.map_flatMap, List.map_cons, List.map_nil]
    congr 1
    · apply flatMap_congr'
      intro n _
      split
      · exact ih _ _
      · rfl

/-- **C16 for trees, `--only-models`**: every struct keeps its name, its fields with their types and tags, and its
    comment; with the option every declaration has no validators and no method -/
theorem tree_only_models_keeps_types (cfg : Config) (hc : genCfg cfg) (d : Nat) (t : Schema) (h : TreeOK d t)
    (hnd : (scopes d cfg.rootType t).Nodup) (hd : d ≤ 5) (id : String) :
    ∃ o1 o2, Gen.run { cfg with onlyModels := false } { id := id, hasRoot := true, root := t, defs := [] } = .ok o1 ∧
      Gen.run { cfg with onlyModels := true } { id := id, hasRoot := true, root := t, defs := [] } = .ok o2 ∧
      o1.decls.map declShape = o2.decls.map declShape ∧ ∀ dd ∈ o2.decls, dd.body = .plain [] false := by
  obtain ⟨o1, h1, d1⟩ := run_tree { cfg with onlyModels := false } hc d t h hnd hd id
  obtain ⟨o2, h2, d2⟩ := run_tree { cfg with onlyModels := true } hc d t h hnd hd id
  refine ⟨o1, o2, h1, h2, ?_, ?_⟩
  · rw [d1, d2]
    have a := treeDecls_shape_only_models cfg false d cfg.rootType t
    have b := treeDecls_shape_only_models cfg true d cfg.rootType t
    exact a.trans b.symm
  · rw [d2]
    have key : ∀ d scope t, ∀ dd ∈ treeDecls { cfg with onlyModels := true } d scope t, dd.body = .plain [] false := by
      intro d
      induction d with
      | zero => intro _ _ dd hdd; cases hdd
      | succ d ih =>
        intro scope t dd hdd
        simp only [treeDecls, List.mem_append, List.mem_flatMap, List.mem_singleton] at hdd
        rcases hdd with ⟨n, _, hn⟩ | hdd
        · split at hn
          · exact ih _ _ dd hn
          · cases hn
        · subst hdd; simp [nodeDecl]
    exact key d _ t
/-- a field without what `--tags` controls (tag text, the keys each wire binds, omitempty) -/
def fieldCore (f : Field) : String × String × GoTy × String := (f.name, f.jsonName, f.ty, f.comment)

/-- a declaration without what `--tags` controls -/
def declCore (d : Decl) : String × DeclBody × String × List (String × String × GoTy × String) :=
  (d.name, d.body, d.comment, match d.ty with | .strct fs => fs.map fieldCore | _ => [])

theorem treeDecls_core_tags (cfg : Config) (tags : List String) : ∀ d scope t,
    (treeDecls { cfg with tags := tags } d scope t).map declCore = (treeDecls cfg d scope t).map declCore := by
  intro d
  induction d with
  | zero => intro _ _; rfl
  | succ d ih =>
    intro scope t
    simp only [treeDecls, List.map_append, List.map_flatMap, List.map_cons, List.map_nil]
    congr 1
    · apply flatMap_congr'
      intro n _
      split
      · exact ih _ _
      · rfl
    · simp [declCore, nodeDecl, List.map_map, Function.comp_def, fieldCore, fieldT]

/-- **C16 for trees, `--tags`**: every declaration keeps its name, its validators and method, its comment, and every field
    its name, type and comment; only tag text and key binding depend on the tag list -/
theorem tree_tags_change_only_tags (cfg : Config) (hc : genCfg cfg) (d : Nat) (t : Schema) (h : TreeOK d t)
    (hnd : (scopes d cfg.rootType t).Nodup) (hd : d ≤ 5) (id : String) (tags : List String) :
    ∃ o1 o2, Gen.run cfg { id := id, hasRoot := true, root := t, defs := [] } = .ok o1 ∧
      Gen.run { cfg with tags := tags } { id := id, hasRoot := true, root := t, defs := [] } = .ok o2 ∧
      o1.decls.map declCore = o2.decls.map declCore := by
  obtain ⟨o1, h1, d1⟩ := run_tree cfg hc d t h hnd hd id
  obtain ⟨o2, h2, d2⟩ := run_tree { cfg with tags := tags } hc d t h hnd hd id
  exact ⟨o1, o2, h1, h2, by rw [d1, d2]; exact (treeDecls_core_tags cfg tags d _ t).symm⟩

end GJS.Props.Tree

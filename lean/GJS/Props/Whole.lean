import GJS.Props.C02
import GJS.Props.C03
import GJS.Props.C04
import GJS.Cert
import GJS.Spec
/-
  Whole documents (C02 / C03 / C04): for programs the decidable certificate `certShape` (Cert.lean; evaluated by the
  driver for every generated program) admits, every valid document is accepted — the converse of the two rejection
  theorems — so that on the types-and-required fragment the accepted set is exactly the valid set.
-/
namespace GJS.Props.C02
open GJS

/-! ### whole documents: every document that has the types and the required keys its schema states is ACCEPTED
    (the converse of `C03.cert_rejects_wrong_type` / `C04.cert_rejects_missing`), for programs the decidable
    certificate `certShape` admits -/

/-- `k` occurs as an object key somewhere in the document -/
inductive KeyIn (k : String) : Json → Prop
  | here (kvs : List (String × Json)) (h : k ∈ akeys kvs) : KeyIn k (.obj kvs)
  | inObj (kvs : List (String × Json)) (p : String × Json) (hp : p ∈ kvs) (h : KeyIn k p.2) : KeyIn k (.obj kvs)
  | inArr (xs : List Json) (x : Json) (hx : x ∈ xs) (h : KeyIn k x) : KeyIn k (.arr xs)

/-- the number `q` occurs somewhere in the document -/
inductive NumIn (q : Rat) : Json → Prop
  | here : NumIn q (.num q)
  | inObj (kvs : List (String × Json)) (p : String × Json) (hp : p ∈ kvs) (h : NumIn q p.2) : NumIn q (.obj kvs)
  | inArr (xs : List Json) (x : Json) (hx : x ∈ xs) (h : NumIn q x) : NumIn q (.arr xs)

/-- what is asked of the DOCUMENT (besides validity): its keys do not differ from a field's key by letter case only
    (encoding/json would bind them, G7), and its integers fit Go's `int` -/
structure DocOK (env : Env) (j : Json) : Prop where
  keys : ∀ k, KeyIn k j → ∀ n d fs fl, env.resolve 8 n = some d → d.ty = .strct fs → fl ∈ fs →
           foldKey fl.jsonKey = foldKey k → fl.jsonKey = k
  ints : ∀ q, NumIn q j → q.den = 1 → intInRange .int q.num = true

theorem DocOK.ofMember {env : Env} {kvs : List (String × Json)} (h : DocOK env (.obj kvs)) (p : String × Json) (hp : p ∈ kvs) :
    DocOK env p.2 :=
  ⟨fun k hk => h.keys k (.inObj kvs p hp hk), fun q hq => h.ints q (.inObj kvs p hp hq)⟩

theorem DocOK.ofElem {env : Env} {xs : List Json} (h : DocOK env (.arr xs)) (x : Json) (hx : x ∈ xs) : DocOK env x :=
  ⟨fun k hk => h.keys k (.inArr xs x hx hk), fun q hq => h.ints q (.inArr xs x hx hq)⟩

theorem validProps_mem (defs : Spec.Defs) (props : List (String × Schema)) (addl : Option Schema) (all : List (String × Json)) :
    ∀ (kvs : List (String × Json)) (F : Nat), Spec.validProps F defs props addl all kvs = true →
      ∀ p ∈ kvs, ∀ ps, alookup p.1 props = some ps → ∃ F', Spec.valid F' defs ps p.2 = true := by
  intro kvs
  induction kvs with
  | nil => intro _ _ p hp; cases hp
  | cons q rest ih =>
    obtain ⟨k, v⟩ := q
    intro F h p hp ps hps
    cases F with
    | zero => simp [Spec.validProps] at h
    | succ F =>
      simp only [Spec.validProps, Bool.and_eq_true] at h
      rcases List.mem_cons.mp hp with e | e
      · subst e
        simp only [hps] at h
        exact ⟨F, h.1⟩
      · exact ih F h.2 p e ps hps

theorem validElems_mem (defs : Spec.Defs) (it : Schema) :
    ∀ (xs : List Json) (F : Nat), Spec.validElems F defs it xs = true → ∀ x ∈ xs, ∃ F', Spec.valid F' defs it x = true := by
  intro xs
  induction xs with
  | nil => intro _ _ x hx; cases hx
  | cons y rest ih =>
    intro F h x hx
    cases F with
    | zero => simp [Spec.validElems] at h
    | succ F =>
      simp only [Spec.validElems, Bool.and_eq_true] at h
      rcases List.mem_cons.mp hx with e | e
      · subst e; exact ⟨F, h.1⟩
      · exact ih F h.2 x e

theorem alookup_mem {α : Type} (k : String) (v : α) : ∀ kvs : List (String × α), alookup k kvs = some v → (k, v) ∈ kvs := by
  intro kvs
  induction kvs with
  | nil => intro h; simp [alookup] at h
  | cons q rest ih =>
    obtain ⟨k', v'⟩ := q
    intro h
    simp only [alookup] at h
    by_cases e : k = k'
    · subst e; simp only [↓reduceIte] at h; injection h with h; subst h; exact List.mem_cons_self ..
    · simp only [e, ↓reduceIte] at h; exact List.mem_cons_of_mem _ (ih h)

/-- a key that is no field's key, and differs from every field's key by more than letter case, binds to nothing -/
theorem bindKey_none (fs : List Field) (k : String)
    (h : ∀ fl ∈ fs, foldKey fl.jsonKey = foldKey k → fl.jsonKey = k) (hk : ∀ fl ∈ fs, fl.jsonKey ≠ k) :
    bindKey fs k = none := by
  unfold bindKey
  have h1 : fs.find? (fun f => f.jsonKey = k) = none := by
    rw [List.find?_eq_none]; intro fl hfl; simpa using hk fl hfl
  have h2 : fs.find? (fun f => foldKey f.jsonKey = foldKey k) = none := by
    rw [List.find?_eq_none]; intro fl hfl
    simp only [decide_eq_true_eq]
    intro e; exact hk fl hfl (h fl hfl e)
  simp [h1, h2]

theorem valid_types_obj (defs : Spec.Defs) (s : Schema) (j : Json) (F : Nat) (hr : s.node.ref = "")
    (ht : s.node.types = ["object"]) (h : Spec.valid F defs s j = true) : ∃ kvs, j = .obj kvs := by
  cases F with
  | zero => simp [Spec.valid] at h
  | succ F =>
    simp only [Spec.valid, hr, ne_eq, not_true_eq_false, ↓reduceIte, ht, Bool.and_eq_true] at h
    have := h.1.1.1.1.2
    cases j <;> simp [Spec.hasType] at this
    exact ⟨_, rfl⟩

/-- the parts of `valid` for an object schema without enum / composition / not / additionalProperties -/
theorem valid_obj_parts (defs : Spec.Defs) (s : Schema) (kvs : List (String × Json)) (F : Nat) (hr : s.node.ref = "")
    (h : Spec.valid F defs s (.obj kvs) = true) :
    s.node.required.all (fun k => ahas k kvs) = true ∧ ∃ F', Spec.validProps F' defs s.node.props s.node.addl kvs kvs = true := by
  cases F with
  | zero => simp [Spec.valid] at h
  | succ F =>
    simp only [Spec.valid, hr, ne_eq, not_true_eq_false, ↓reduceIte, Bool.and_eq_true] at h
    exact ⟨h.2.1, F, h.2.2⟩

theorem valid_arr_parts (defs : Spec.Defs) (s : Schema) (j : Json) (F : Nat) (hr : s.node.ref = "")
    (ht : s.node.types = ["array"]) (it : Schema) (hit : s.node.items = some it)
    (h : Spec.valid F defs s j = true) : ∃ xs, j = .arr xs ∧ ∃ F', Spec.validElems F' defs it xs = true := by
  cases F with
  | zero => simp [Spec.valid] at h
  | succ F =>
    simp only [Spec.valid, hr, ne_eq, not_true_eq_false, ↓reduceIte, ht, Bool.and_eq_true] at h
    have hty := h.1.1.1.1.2
    cases j <;> simp [Spec.hasType] at hty
    rename_i xs
    refine ⟨xs, rfl, F, ?_⟩
    have := h.2
    simp only [hit, Bool.and_eq_true] at this
    exact this.2

theorem valid_scalar (defs : Spec.Defs) (s : Schema) (j : Json) (F : Nat) (hr : s.node.ref = "") (T : String)
    (ht : s.node.types = [T]) (h : Spec.valid F defs s j = true) : Spec.hasType T j = true := by
  cases F with
  | zero => simp [Spec.valid] at h
  | succ F =>
    simp only [Spec.valid, hr, ne_eq, not_true_eq_false, ↓reduceIte, ht, Bool.and_eq_true] at h
    simpa using h.1.1.1.1.2


/-- **C02 / C03 / C04, whole documents, completeness**: for a program the certificate admits, EVERY document — of
    any size and nesting depth — that is valid under the schema (has the stated types and required keys) and whose keys
    and integers are ordinary (`DocOK`) is accepted by the generated code.  With `C03.cert_rejects_wrong_type` and
    `C04.cert_rejects_missing` (a wrongly typed value or a missing required key anywhere ⇒ rejected) this makes the
    accepted set EXACTLY the valid set on the types-and-required fragment. -/
theorem certShape_accepts (env : Env) (defs : Spec.Defs) :
    ∀ (f : Nat) (ty : GoTy) (s : Schema), certShape env defs f ty s = true →
      ∀ (F : Nat) (j : Json), Spec.valid F defs s j = true → DocOK env j → Acc .json env ty j := by
  intro f
  induction f with
  | zero => intro ty s h; simp [certShape] at h
  | succ f ih =>
    intro ty s hc F j hv hdoc
    simp only [certShape] at hc
    by_cases hr : s.node.ref = ""
    · simp only [hr, ne_eq, not_true_eq_false, ↓reduceIte] at hc
      cases ty with
      | ptr t => exact (acc_ptr_iff env t j).mpr (Or.inr (ih t s hc F j hv hdoc))
      | named nm =>
        simp only at hc
        cases hres : env.resolve 8 nm with
        | none => simp [hres] at hc
        | some d =>
          simp only [hres] at hc
          cases hbody : d.body with
          | enum a b c e g => simp [hbody] at hc
          | «alias» t => simp [hbody] at hc
          | plain vs m =>
            cases hty : d.ty with
            | strct fs =>
              simp only [hbody, hty, Bool.and_eq_true, beq_iff_eq, Bool.or_eq_true, Bool.not_eq_true', Option.isNone_iff_eq_none,
                List.isEmpty_iff, List.all_eq_true] at hc
              obtain ⟨⟨⟨⟨⟨⟨⟨⟨⟨⟨⟨⟨hmeth, hmv⟩, _⟩, htypes⟩, _⟩, _⟩, _⟩, _⟩, haddl⟩, hnoaddl⟩, hvs⟩, hfields⟩, hprops⟩ := hc
              obtain ⟨kvs, rfl⟩ := valid_types_obj defs s j F hr htypes hv
              obtain ⟨hreq, F', hvp⟩ := valid_obj_parts defs s kvs F hr hv
              -- every entry that binds to a field is accepted by the field's type
              have hentries : ∀ p ∈ kvs, ∀ fld, bindW .json fs p.1 = some fld → Acc .json env fld.ty p.2 := by
                intro p hp fld hb
                simp only [bindW] at hb
                cases hl : alookup p.1 s.node.props with
                | some ps =>
                  have hmem := alookup_mem p.1 ps s.node.props hl
                  have hp' := hprops (p.1, ps) hmem
                  simp only [hb, Bool.and_eq_true, beq_iff_eq] at hp'
                  obtain ⟨F'', hvv⟩ := validProps_mem defs s.node.props s.node.addl kvs kvs F' hvp p hp ps hl
                  exact ih fld.ty ps hp'.2 F'' p.2 hvv (hdoc.ofMember p hp)
                | none =>
                  exfalso
                  have hk : ∀ fl ∈ fs, fl.jsonKey ≠ p.1 := by
                    intro fl hfl e
                    have := hfields fl hfl
                    have hin : p.1 ∈ akeys s.node.props := by simpa [e] using this
                    exact (alookup_none_iff_not_mem p.1 s.node.props).mp hl hin
                  have hfold : ∀ fl ∈ fs, foldKey fl.jsonKey = foldKey p.1 → fl.jsonKey = p.1 := by
                    intro fl hfl e
                    exact hdoc.keys p.1 (.here kvs (by simp only [akeys, List.mem_map]; exact ⟨p, hp, rfl⟩)) nm d fs fl hres hty hfl e
                  rw [bindKey_none fs p.1 hfold hk] at hb; cases hb
              obtain ⟨f0, v0, hdec⟩ := (acc_struct_iff .json env fs kvs).mpr hentries
              rw [acc_named_iff env nm d (.obj kvs) hres]
              cases hm : m with
              | false =>
                -- no method: the struct is decoded field by field
                have hvsE : vs = [] := by rcases hmv with h | h <;> simp_all
                have : d.hasMethod = false := by rw [hmeth, hm]
                simp only [this, Bool.false_eq_true, ↓reduceIte, hty, GoTy.isFmt, true_and]
                exact ⟨f0, v0, hdec⟩
              | true =>
                have : d.hasMethod = true := by rw [hmeth, hm]
                simp only [this, ↓reduceIte]
                -- the method: required keys present, shadow decode ok, no value checks
                let g := max f0 (vs.length + 1)
                have hdec' : decode .json env g d.ty (.obj kvs) = .ok v0 := by
                  rw [hty]; exact Proofs.decode_ok_mono .json env _ _ v0 f0 g (Nat.le_max_left ..) hdec
                have hreqV : ∀ v ∈ vs, ∃ k, v = .required k ∧ k ∈ s.node.required := by
                  intro v hv'
                  have := hvs v hv'
                  cases v <;> simp at this
                  exact ⟨_, rfl, this⟩
                refine ⟨g + 1, v0, ?_⟩
                rw [struct_method_ok_iff .json env d vs m fs kvs g hbody hty hnoaddl
                  (by have : vs.length + 1 ≤ g := Nat.le_max_right ..; omega)
                  (by intro v hv'; obtain ⟨k, rfl, _⟩ := hreqV v hv'; rfl)
                  (by intro v hv'; obtain ⟨k, rfl, _⟩ := hreqV v hv'; rfl)]
                refine ⟨?_, hdec', ?_⟩
                · intro k hk
                  obtain ⟨k', e, hc'⟩ := hreqV _ hk
                  injection e with e; subst e
                  rw [List.all_eq_true] at hreq
                  exact hreq k hc'
                · intro v hv'; obtain ⟨k, rfl, _⟩ := hreqV v hv'; rfl
            | _ => simp [hbody, hty] at hc
      | slice t =>
        simp only [Bool.and_eq_true, beq_iff_eq] at hc
        obtain ⟨⟨⟨⟨⟨⟨htypes, _⟩, _⟩, _⟩, _⟩, htn⟩, hit⟩ := hc
        cases hitems : s.node.items with
        | none => simp [hitems] at hit
        | some it =>
          simp only [hitems] at hit
          obtain ⟨xs, rfl, F', hve⟩ := valid_arr_parts defs s j F hr htypes it hitems hv
          rw [acc_slice_iff env t xs (by intro n e; subst e; simp at htn) (by intro e; subst e; simp at htn)]
          intro x hx
          obtain ⟨F'', hvx⟩ := validElems_mem defs it xs F' hve x hx
          exact ih t it hit F'' x hvx (hdoc.ofElem x hx)
      | string =>
        have ht : s.node.types = ["string"] := by simpa using hc
        have := valid_scalar defs s j F hr "string" ht hv
        cases j <;> simp [Spec.hasType] at this
        exact (acc_string_iff env _).mpr (Or.inr ⟨_, rfl⟩)
      | bool =>
        have ht : s.node.types = ["boolean"] := by simpa using hc
        have := valid_scalar defs s j F hr "boolean" ht hv
        cases j <;> simp [Spec.hasType] at this
        exact (acc_bool_iff env _).mpr (Or.inr ⟨_, rfl⟩)
      | float64 =>
        have ht : s.node.types = ["number"] := by simpa using hc
        have := valid_scalar defs s j F hr "number" ht hv
        cases j <;> simp [Spec.hasType] at this
        exact (acc_float_iff env _).mpr (Or.inr ⟨_, rfl⟩)
      | int k =>
        cases k <;> simp at hc
        have ht : s.node.types = ["integer"] := hc
        have := valid_scalar defs s j F hr "integer" ht hv
        cases j <;> simp [Spec.hasType] at this
        rename_i q
        exact (acc_int_iff env .int _).mpr (Or.inr ⟨q, rfl, this, hdoc.ints q .here this⟩)
      | iface => simp at hc
      | strct fs => simp at hc
      | nullTy => simp at hc
      | map t => simp at hc
      | qual a b => simp at hc
      | custom a b => simp at hc
      | fmt k => simp at hc
    · -- a reference: the target's schema decides
      simp only [ne_eq, hr, not_false_eq_true, ↓reduceIte] at hc
      cases F with
      | zero => simp [Spec.valid] at hv
      | succ F =>
        simp only [Spec.valid, ne_eq, hr, not_false_eq_true, ↓reduceIte] at hv
        cases hn : Spec.refName s.node.ref with
        | none => simp [hn] at hc
        | some name =>
          simp only [hn] at hc hv
          cases hl : alookup name defs with
          | none => simp [hl] at hc
          | some t =>
            simp only [hl] at hc hv
            exact ih ty t hc F j hv hdoc

/-- the certificate admits ordinary generated programs (so the theorem is not vacuous): a root struct with a required
    string, an optional integer behind a pointer, and an array of numbers -/
def exEnv : Env := [
  { name := "Root", ty := .strct [
      { name := "Name", jsonName := "name", ty := .string, tags := "", jsonKey := "name", yamlKey := "name", omitEmpty := false },
      { name := "Age", jsonName := "age", ty := .ptr (.int .int), tags := "", jsonKey := "age", yamlKey := "age", omitEmpty := true },
      { name := "Scores", jsonName := "scores", ty := .slice .float64, tags := "", jsonKey := "scores", yamlKey := "scores", omitEmpty := true }],
    body := .plain [.required "name"] true }]

def exSchema : Schema := .mk { types := ["object"], required := ["name"], props := [
  ("name", .mk { types := ["string"] }), ("age", .mk { types := ["integer"] }),
  ("scores", .mk { types := ["array"], items := some (.mk { types := ["number"] }) })] }

example : certShape exEnv [] 4 (.named "Root") exSchema = true := by decide

/-- **the three certificates together: on the types-and-required fragment the generated code accepts EXACTLY the valid
    documents** — a valid (ordinary) document is accepted; a document with a missing required key anywhere, or a value
    of the wrong JSON type anywhere, is accepted with NO fuel.  All documents, all depths. -/
theorem certified_exact_on_shape (env : Env) (defs : Spec.Defs) (f : Nat) (root : String) (s : Schema)
    (hS : certShape env defs f (.named root) s = true) (hR : certReq env defs f (.named root) s = true)
    (hT : certType env defs f (.named root) s = true) (d : Json) :
    (∀ F, Spec.valid F defs s d = true → DocOK env d → Acc .json env (.named root) d) ∧
    (C04.SpecMissing defs s d → ¬ Acc .json env (.named root) d) ∧
    (C03.SpecWrongType defs s d → ¬ Acc .json env (.named root) d) := by
  refine ⟨fun F hv hd => certShape_accepts env defs f _ s hS F d hv hd, ?_, ?_⟩
  · rintro hm ⟨fuel, v, h⟩
    exact C04.cert_rejects_missing f root s d hR hm fuel ⟨v, h⟩
  · rintro hm ⟨fuel, v, h⟩
    exact C03.cert_rejects_wrong_type f root s d hT hm fuel ⟨v, h⟩

end GJS.Props.C02

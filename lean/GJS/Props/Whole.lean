import GJS.Props.C02
import GJS.Props.C03
import GJS.Props.C04
import GJS.Props.C08
import GJS.Cert
import GJS.Spec
/-
  Whole documents (C02 / C03 / C04): for programs the decidable certificate `certShape` (Cert.lean; evaluated by the
  driver for every generated program) admits, every valid document is accepted — the converse of the two rejection
  theorems — so that on the types-and-required fragment the accepted set is exactly the valid set.
-/
namespace GJS.Props.C02
open GJS

/-! ### whole documents: every document that has the types and the required keys its schema states is ACCEPTED
    (the converse of `C03.cert_rejects_wrong_type` / `C04.cert_rejects_missing`), for programs the decidable
    certificate `certShape` admits -/

/-- `k` occurs as an object key somewhere in the document -/
inductive KeyIn (k : String) : Json → Prop
  | here (kvs : List (String × Json)) (h : k ∈ akeys kvs) : KeyIn k (.obj kvs)
  | inObj (kvs : List (String × Json)) (p : String × Json) (hp : p ∈ kvs) (h : KeyIn k p.2) : KeyIn k (.obj kvs)
  | inArr (xs : List Json) (x : Json) (hx : x ∈ xs) (h : KeyIn k x) : KeyIn k (.arr xs)

/-- the number `q` occurs somewhere in the document -/
inductive NumIn (q : Rat) : Json → Prop
  | here : NumIn q (.num q)
  | inObj (kvs : List (String × Json)) (p : String × Json) (hp : p ∈ kvs) (h : NumIn q p.2) : NumIn q (.obj kvs)
  | inArr (xs : List Json) (x : Json) (hx : x ∈ xs) (h : NumIn q x) : NumIn q (.arr xs)

/-- what is asked of the DOCUMENT (besides validity): its keys do not differ from a field's key by letter case only
    (encoding/json would bind them, G7), and its integers fit Go's `int` -/
structure DocOK (env : Env) (j : Json) : Prop where
  keys : ∀ k, KeyIn k j → ∀ n d fs fl, env.resolve 8 n = some d → d.ty = .strct fs → fl ∈ fs →
           foldKey fl.jsonKey = foldKey k → fl.jsonKey = k
  ints : ∀ q, NumIn q j → q.den = 1 → intInRange .int q.num = true

theorem DocOK.ofMember {env : Env} {kvs : List (String × Json)} (h : DocOK env (.obj kvs)) (p : String × Json) (hp : p ∈ kvs) :
    DocOK env p.2 :=
  ⟨fun k hk => h.keys k (.inObj kvs p hp hk), fun q hq => h.ints q (.inObj kvs p hp hq)⟩

theorem DocOK.ofElem {env : Env} {xs : List Json} (h : DocOK env (.arr xs)) (x : Json) (hx : x ∈ xs) : DocOK env x :=
  ⟨fun k hk => h.keys k (.inArr xs x hx hk), fun q hq => h.ints q (.inArr xs x hx hq)⟩

theorem validProps_mem (defs : Spec.Defs) (props : List (String × Schema)) (addl : Option Schema) (all : List (String × Json)) :
    ∀ (kvs : List (String × Json)) (F : Nat), Spec.validProps F defs props addl all kvs = true →
      ∀ p ∈ kvs, ∀ ps, alookup p.1 props = some ps → ∃ F', Spec.valid F' defs ps p.2 = true := by
  intro kvs
  induction kvs with
  | nil => intro _ _ p hp; cases hp
  | cons q rest ih =>
    obtain ⟨k, v⟩ := q
    intro F h p hp ps hps
    cases F with
    | zero => simp [Spec.validProps] at h
    | succ F =>
      simp only [Spec.validProps, Bool.and_eq_true] at h
      rcases List.mem_cons.mp hp with e | e
      · subst e
        simp only [hps] at h
        exact ⟨F, h.1⟩
      · exact ih F h.2 p e ps hps

theorem validElems_mem (defs : Spec.Defs) (it : Schema) :
    ∀ (xs : List Json) (F : Nat), Spec.validElems F defs it xs = true → ∀ x ∈ xs, ∃ F', Spec.valid F' defs it x = true := by
  intro xs
  induction xs with
  | nil => intro _ _ x hx; cases hx
  | cons y rest ih =>
    intro F h x hx
    cases F with
    | zero => simp [Spec.validElems] at h
    | succ F =>
      simp only [Spec.validElems, Bool.and_eq_true] at h
      rcases List.mem_cons.mp hx with e | e
      · subst e; exact ⟨F, h.1⟩
      · exact ih F h.2 x e

theorem alookup_mem {α : Type} (k : String) (v : α) : ∀ kvs : List (String × α), alookup k kvs = some v → (k, v) ∈ kvs := by
  intro kvs
  induction kvs with
  | nil => intro h; simp [alookup] at h
  | cons q rest ih =>
    obtain ⟨k', v'⟩ := q
    intro h
    simp only [alookup] at h
    by_cases e : k = k'
    · subst e; simp only [↓reduceIte] at h; injection h with h; subst h; exact List.mem_cons_self ..
    · simp only [e, ↓reduceIte] at h; exact List.mem_cons_of_mem _ (ih h)

/-- a key that is no field's key, and differs from every field's key by more than letter case, binds to nothing -/
theorem bindKey_none (fs : List Field) (k : String)
    (h : ∀ fl ∈ fs, foldKey fl.jsonKey = foldKey k → fl.jsonKey = k) (hk : ∀ fl ∈ fs, fl.jsonKey ≠ k) :
    bindKey fs k = none := by
  unfold bindKey
  have h1 : fs.find? (fun f => f.jsonKey = k) = none := by
    rw [List.find?_eq_none]; intro fl hfl; simpa using hk fl hfl
  have h2 : fs.find? (fun f => foldKey f.jsonKey = foldKey k) = none := by
    rw [List.find?_eq_none]; intro fl hfl
    simp only [decide_eq_true_eq]
    intro e; exact hk fl hfl (h fl hfl e)
  simp [h1, h2]

theorem valid_types_obj (defs : Spec.Defs) (s : Schema) (j : Json) (F : Nat) (hr : s.node.ref = "")
    (ht : s.node.types = ["object"]) (h : Spec.valid F defs s j = true) : ∃ kvs, j = .obj kvs := by
  cases F with
  | zero => simp [Spec.valid] at h
  | succ F =>
    simp only [Spec.valid, hr, ne_eq, not_true_eq_false, ↓reduceIte, ht, Bool.and_eq_true] at h
    have := h.1.1.1.1.2
    cases j <;> simp [Spec.hasType] at this
    exact ⟨_, rfl⟩

/-- the parts of `valid` for an object schema without enum / composition / not / additionalProperties -/
theorem valid_obj_parts (defs : Spec.Defs) (s : Schema) (kvs : List (String × Json)) (F : Nat) (hr : s.node.ref = "")
    (h : Spec.valid F defs s (.obj kvs) = true) :
    s.node.required.all (fun k => ahas k kvs) = true ∧ ∃ F', Spec.validProps F' defs s.node.props s.node.addl kvs kvs = true := by
  cases F with
  | zero => simp [Spec.valid] at h
  | succ F =>
    simp only [Spec.valid, hr, ne_eq, not_true_eq_false, ↓reduceIte, Bool.and_eq_true] at h
    exact ⟨h.2.1, F, h.2.2⟩

theorem valid_arr_parts (defs : Spec.Defs) (s : Schema) (j : Json) (F : Nat) (hr : s.node.ref = "")
    (ht : s.node.types = ["array"]) (it : Schema) (hit : s.node.items = some it)
    (h : Spec.valid F defs s j = true) : ∃ xs, j = .arr xs ∧ ∃ F', Spec.validElems F' defs it xs = true := by
  cases F with
  | zero => simp [Spec.valid] at h
  | succ F =>
    simp only [Spec.valid, hr, ne_eq, not_true_eq_false, ↓reduceIte, ht, Bool.and_eq_true] at h
    have hty := h.1.1.1.1.2
    cases j <;> simp [Spec.hasType] at hty
    rename_i xs
    refine ⟨xs, rfl, F, ?_⟩
    have := h.2
    simp only [hit, Bool.and_eq_true] at this
    exact this.2

theorem valid_scalar (defs : Spec.Defs) (s : Schema) (j : Json) (F : Nat) (hr : s.node.ref = "") (T : String)
    (ht : s.node.types = [T]) (h : Spec.valid F defs s j = true) : Spec.hasType T j = true := by
  cases F with
  | zero => simp [Spec.valid] at h
  | succ F =>
    simp only [Spec.valid, hr, ne_eq, not_true_eq_false, ↓reduceIte, ht, Bool.and_eq_true] at h
    simpa using h.1.1.1.1.2


/-- **C02 / C03 / C04, whole documents, completeness**: for a program the certificate admits, EVERY document — of
    any size and nesting depth — that is valid under the schema (has the stated types and required keys) and whose keys
    and integers are ordinary (`DocOK`) is accepted by the generated code.  With `C03.cert_rejects_wrong_type` and
    `C04.cert_rejects_missing` (a wrongly typed value or a missing required key anywhere ⇒ rejected) this makes the
    accepted set EXACTLY the valid set on the types-and-required fragment. -/
theorem certShape_accepts (env : Env) (defs : Spec.Defs) :
    ∀ (f : Nat) (ty : GoTy) (s : Schema), certShape env defs f ty s = true →
      ∀ (F : Nat) (j : Json), Spec.valid F defs s j = true → DocOK env j → Acc .json env ty j := by
  intro f
  induction f with
  | zero => intro ty s h; simp [certShape] at h
  | succ f ih =>
    intro ty s hc F j hv hdoc
    simp only [certShape] at hc
    by_cases hr : s.node.ref = ""
    · simp only [hr, ne_eq, not_true_eq_false, ↓reduceIte] at hc
      cases ty with
      | ptr t => exact (acc_ptr_iff env t j).mpr (Or.inr (ih t s hc F j hv hdoc))
      | named nm =>
        simp only at hc
        cases hres : env.resolve 8 nm with
        | none => simp [hres] at hc
        | some d =>
          simp only [hres] at hc
          cases hbody : d.body with
          | enum a b c e g => simp [hbody] at hc
          | «alias» t => simp [hbody] at hc
          | plain vs m =>
            cases hty : d.ty with
            | strct fs =>
              simp only [hbody, hty, Bool.and_eq_true, beq_iff_eq, Bool.or_eq_true, Bool.not_eq_true', Option.isNone_iff_eq_none,
                List.isEmpty_iff, List.all_eq_true] at hc
              obtain ⟨⟨⟨⟨⟨⟨⟨⟨⟨⟨⟨⟨hmeth, hmv⟩, _⟩, htypes⟩, _⟩, _⟩, _⟩, _⟩, haddl⟩, hnoaddl⟩, hvs⟩, hfields⟩, hprops⟩ := hc
              obtain ⟨kvs, rfl⟩ := valid_types_obj defs s j F hr htypes hv
              obtain ⟨hreq, F', hvp⟩ := valid_obj_parts defs s kvs F hr hv
              -- every entry that binds to a field is accepted by the field's type
              have hentries : ∀ p ∈ kvs, ∀ fld, bindW .json fs p.1 = some fld → Acc .json env fld.ty p.2 := by
                intro p hp fld hb
                simp only [bindW] at hb
                cases hl : alookup p.1 s.node.props with
                | some ps =>
                  have hmem := alookup_mem p.1 ps s.node.props hl
                  have hp' := hprops (p.1, ps) hmem
                  simp only [hb, Bool.and_eq_true, beq_iff_eq] at hp'
                  obtain ⟨F'', hvv⟩ := validProps_mem defs s.node.props s.node.addl kvs kvs F' hvp p hp ps hl
                  exact ih fld.ty ps hp'.2 F'' p.2 hvv (hdoc.ofMember p hp)
                | none =>
                  exfalso
                  have hk : ∀ fl ∈ fs, fl.jsonKey ≠ p.1 := by
                    intro fl hfl e
                    have := hfields fl hfl
                    have hin : p.1 ∈ akeys s.node.props := by simpa [e] using this
                    exact (alookup_none_iff_not_mem p.1 s.node.props).mp hl hin
                  have hfold : ∀ fl ∈ fs, foldKey fl.jsonKey = foldKey p.1 → fl.jsonKey = p.1 := by
                    intro fl hfl e
                    exact hdoc.keys p.1 (.here kvs (by simp only [akeys, List.mem_map]; exact ⟨p, hp, rfl⟩)) nm d fs fl hres hty hfl e
                  rw [bindKey_none fs p.1 hfold hk] at hb; cases hb
              obtain ⟨f0, v0, hdec⟩ := (acc_struct_iff .json env fs kvs).mpr hentries
              rw [acc_named_iff env nm d (.obj kvs) hres]
              cases hm : m with
              | false =>
                -- no method: the struct is decoded field by field
                have hvsE : vs = [] := by rcases hmv with h | h <;> simp_all
                have : d.hasMethod = false := by rw [hmeth, hm]
                simp only [this, Bool.false_eq_true, ↓reduceIte, hty, GoTy.isFmt, true_and]
                exact ⟨f0, v0, hdec⟩
              | true =>
                have : d.hasMethod = true := by rw [hmeth, hm]
                simp only [this, ↓reduceIte]
                -- the method: required keys present, shadow decode ok, no value checks
                let g := max f0 (vs.length + 1)
                have hdec' : decode .json env g d.ty (.obj kvs) = .ok v0 := by
                  rw [hty]; exact Proofs.decode_ok_mono .json env _ _ v0 f0 g (Nat.le_max_left ..) hdec
                have hreqV : ∀ v ∈ vs, ∃ k, v = .required k ∧ k ∈ s.node.required := by
                  intro v hv'
                  have := hvs v hv'
                  cases v <;> simp at this
                  exact ⟨_, rfl, this⟩
                refine ⟨g + 1, v0, ?_⟩
                rw [struct_method_ok_iff .json env d vs m fs kvs g hbody hty hnoaddl
                  (by have : vs.length + 1 ≤ g := Nat.le_max_right ..; omega)
                  (by intro v hv'; obtain ⟨k, rfl, _⟩ := hreqV v hv'; rfl)
                  (by intro v hv'; obtain ⟨k, rfl, _⟩ := hreqV v hv'; rfl)]
                refine ⟨?_, hdec', ?_⟩
                · intro k hk
                  obtain ⟨k', e, hc'⟩ := hreqV _ hk
                  injection e with e; subst e
                  rw [List.all_eq_true] at hreq
                  exact hreq k hc'
                · intro v hv'; obtain ⟨k, rfl, _⟩ := hreqV v hv'; rfl
            | _ => simp [hbody, hty] at hc
      | slice t =>
        simp only [Bool.and_eq_true, beq_iff_eq] at hc
        obtain ⟨⟨⟨⟨⟨⟨htypes, _⟩, _⟩, _⟩, _⟩, htn⟩, hit⟩ := hc
        cases hitems : s.node.items with
        | none => simp [hitems] at hit
        | some it =>
          simp only [hitems] at hit
          obtain ⟨xs, rfl, F', hve⟩ := valid_arr_parts defs s j F hr htypes it hitems hv
          rw [acc_slice_iff env t xs (elemOK_of env t (by intro n e; subst e; simp at htn) (by intro e; subst e; simp at htn))]
          intro x hx
          obtain ⟨F'', hvx⟩ := validElems_mem defs it xs F' hve x hx
          exact ih t it hit F'' x hvx (hdoc.ofElem x hx)
      | string =>
        have ht : s.node.types = ["string"] := by simpa using hc
        have := valid_scalar defs s j F hr "string" ht hv
        cases j <;> simp [Spec.hasType] at this
        exact (acc_string_iff env _).mpr (Or.inr ⟨_, rfl⟩)
      | bool =>
        have ht : s.node.types = ["boolean"] := by simpa using hc
        have := valid_scalar defs s j F hr "boolean" ht hv
        cases j <;> simp [Spec.hasType] at this
        exact (acc_bool_iff env _).mpr (Or.inr ⟨_, rfl⟩)
      | float64 =>
        have ht : s.node.types = ["number"] := by simpa using hc
        have := valid_scalar defs s j F hr "number" ht hv
        cases j <;> simp [Spec.hasType] at this
        exact (acc_float_iff env _).mpr (Or.inr ⟨_, rfl⟩)
      | int k =>
        cases k <;> simp at hc
        have ht : s.node.types = ["integer"] := hc
        have := valid_scalar defs s j F hr "integer" ht hv
        cases j <;> simp [Spec.hasType] at this
        rename_i q
        exact (acc_int_iff env .int _).mpr (Or.inr ⟨q, rfl, this, hdoc.ints q .here this⟩)
      | iface => simp at hc
      | strct fs => simp at hc
      | nullTy => simp at hc
      | map t => simp at hc
      | qual a b => simp at hc
      | custom a b => simp at hc
      | fmt k => simp at hc
    · -- a reference: the target's schema decides
      simp only [ne_eq, hr, not_false_eq_true, ↓reduceIte] at hc
      cases F with
      | zero => simp [Spec.valid] at hv
      | succ F =>
        simp only [Spec.valid, ne_eq, hr, not_false_eq_true, ↓reduceIte] at hv
        cases hn : Spec.refName s.node.ref with
        | none => simp [hn] at hc
        | some name =>
          simp only [hn] at hc hv
          cases hl : alookup name defs with
          | none => simp [hl] at hc
          | some t =>
            simp only [hl] at hc hv
            exact ih ty t hc F j hv hdoc

/-- the certificate admits ordinary generated programs (so the theorem is not vacuous): a root struct with a required
    string, an optional integer behind a pointer, and an array of numbers -/
def exEnv : Env := [
  { name := "Root", ty := .strct [
      { name := "Name", jsonName := "name", ty := .string, tags := "", jsonKey := "name", yamlKey := "name", omitEmpty := false },
      { name := "Age", jsonName := "age", ty := .ptr (.int .int), tags := "", jsonKey := "age", yamlKey := "age", omitEmpty := true },
      { name := "Scores", jsonName := "scores", ty := .slice .float64, tags := "", jsonKey := "scores", yamlKey := "scores", omitEmpty := true }],
    body := .plain [.required "name"] true }]

def exSchema : Schema := .mk { types := ["object"], required := ["name"], props := [
  ("name", .mk { types := ["string"] }), ("age", .mk { types := ["integer"] }),
  ("scores", .mk { types := ["array"], items := some (.mk { types := ["number"] }) })] }

example : certShape exEnv [] 4 (.named "Root") exSchema = true := by decide

/-- **the three certificates together: on the types-and-required fragment the generated code accepts EXACTLY the valid
    documents** — a valid (ordinary) document is accepted; a document with a missing required key anywhere, or a value
    of the wrong JSON type anywhere, is accepted with NO fuel.  All documents, all depths. -/
theorem certified_exact_on_shape (env : Env) (defs : Spec.Defs) (f : Nat) (root : String) (s : Schema)
    (hS : certShape env defs f (.named root) s = true) (hR : certReq env defs f (.named root) s = true)
    (hT : certType env defs f (.named root) s = true) (d : Json) :
    (∀ F, Spec.valid F defs s d = true → DocOK env d → Acc .json env (.named root) d) ∧
    (C04.SpecMissing defs s d → ¬ Acc .json env (.named root) d) ∧
    (C03.SpecWrongType defs s d → ¬ Acc .json env (.named root) d) := by
  refine ⟨fun F hv hd => certShape_accepts env defs f _ s hS F d hv hd, ?_, ?_⟩
  · rintro hm ⟨fuel, v, h⟩
    exact C04.cert_rejects_missing f root s d hR hm fuel ⟨v, h⟩
  · rintro hm ⟨fuel, v, h⟩
    exact C03.cert_rejects_wrong_type f root s d hT hm fuel ⟨v, h⟩

/-! ### the value a struct field ends up with: decided by the entries that bind to it -/

theorem alookup_map_update (name : String) (v : GoVal) (n : String) :
    ∀ acc : List (String × GoVal),
      alookup n (acc.map fun (p : String × GoVal) => if p.1 = name then (p.1, v) else p) =
        if n = name then (alookup n acc).map (fun _ => v) else alookup n acc := by
  intro acc
  induction acc with
  | nil => simp [alookup]
  | cons q rest ih =>
    obtain ⟨k, x⟩ := q
    simp only [List.map_cons]
    by_cases hk : k = name
    · subst hk
      simp only [↓reduceIte, alookup]
      by_cases hn : n = k
      · subst hn; simp
      · simp only [hn, ↓reduceIte]; rw [ih]; simp [hn]
    · simp only [hk, ↓reduceIte, alookup]
      by_cases hn : n = k
      · subst hn; simp [hk]
      · simp only [hn, ↓reduceIte]; exact ih

/-- some entry of `kvs` binds (by field name) to the field called `name` -/
def BindsTo (w : Wire) (fs : List Field) (name : String) (kvs : List (String × Json)) : Prop :=
  ∃ p ∈ kvs, ∃ fld, bindW w fs p.1 = some fld ∧ fld.name = name

/-- **what a field holds after the shadow decode**: if some entry binds to it, a value that every binding entry's
    decode satisfies `Good`; if none does, what it held before (its zero value) -/
theorem decodeStruct_field (w : Wire) (env : Env) (fs : List Field) (Good : String → GoVal → Prop) :
    ∀ (kvs : List (String × Json)) (f : Nat) (acc r : List (String × GoVal)),
      (∀ p ∈ kvs, ∀ fld, bindW w fs p.1 = some fld → ∀ g v, decode w env g fld.ty p.2 = .ok v → Good fld.name v) →
      (∀ p ∈ kvs, ∀ fld, bindW w fs p.1 = some fld → (alookup fld.name acc).isSome = true) →
      decodeStruct w env f fs kvs acc = .ok r →
      ∀ name, (BindsTo w fs name kvs ∧ ∃ v, alookup name r = some v ∧ Good name v) ∨
              (¬ BindsTo w fs name kvs ∧ alookup name r = alookup name acc) := by
  intro kvs
  induction kvs with
  | nil =>
    intro f acc r _ _ h name
    cases f with
    | zero => simp [decodeStruct] at h
    | succ f =>
      simp only [decodeStruct] at h
      injection h with h; subst h
      exact Or.inr ⟨(by rintro ⟨p, hp, _⟩; cases hp), rfl⟩
  | cons q rest ih =>
    obtain ⟨k, x⟩ := q
    intro f acc r hgood hkeys h name
    cases f with
    | zero => simp [decodeStruct] at h
    | succ f =>
      have hgood' : ∀ p ∈ rest, ∀ fld, bindW w fs p.1 = some fld → ∀ g v, decode w env g fld.ty p.2 = .ok v → Good fld.name v :=
        fun p hp => hgood p (List.mem_cons_of_mem _ hp)
      cases hb : bindW w fs k with
      | none =>
        have h' : decodeStruct w env f fs rest acc = .ok r := by
          cases w <;> simp only [bindW] at hb <;> simpa only [decodeStruct, hb] using h
        have hkeys' : ∀ p ∈ rest, ∀ fld, bindW w fs p.1 = some fld → (alookup fld.name acc).isSome = true :=
          fun p hp => hkeys p (List.mem_cons_of_mem _ hp)
        rcases ih f acc r hgood' hkeys' h' name with ⟨⟨p, hp, fld, hbf, hn⟩, hv⟩ | ⟨hnb, he⟩
        · exact Or.inl ⟨⟨p, List.mem_cons_of_mem _ hp, fld, hbf, hn⟩, hv⟩
        · refine Or.inr ⟨?_, he⟩
          rintro ⟨p, hp, fld, hbf, hn⟩
          rcases List.mem_cons.mp hp with e | e
          · subst e; rw [hb] at hbf; cases hbf
          · exact hnb ⟨p, e, fld, hbf, hn⟩
      | some fld0 =>
        cases hd : decode w env f fld0.ty x with
        | error er =>
          exfalso
          cases w <;> simp only [bindW] at hb <;> simp [decodeStruct, hb, hd, bind, Except.bind] at h
        | ok v =>
          let acc' := acc.map fun (q : String × GoVal) => if q.1 = fld0.name then (q.1, v) else q
          have h' : decodeStruct w env f fs rest acc' = .ok r := by
            cases w <;> simp only [bindW] at hb <;> simpa only [decodeStruct, hb, hd, bind, Except.bind] using h
          have hkeys' : ∀ p ∈ rest, ∀ fld, bindW w fs p.1 = some fld → (alookup fld.name acc').isSome = true := by
            intro p hp fld hbf
            have := hkeys p (List.mem_cons_of_mem _ hp) fld hbf
            show (alookup fld.name (acc.map _)).isSome = true
            rw [alookup_map_update]
            by_cases e : fld.name = fld0.name
            · simp only [e, ↓reduceIte, Option.isSome_map]; rw [← e]; exact this
            · simp only [e, ↓reduceIte]; exact this
          have hgv : Good fld0.name v := hgood (k, x) (List.mem_cons_self ..) fld0 hb f v hd
          rcases ih f acc' r hgood' hkeys' h' name with ⟨⟨p, hp, fld, hbf, hn⟩, hv⟩ | ⟨hnb, he⟩
          · exact Or.inl ⟨⟨p, List.mem_cons_of_mem _ hp, fld, hbf, hn⟩, hv⟩
          · by_cases e : name = fld0.name
            · -- this entry is the last one that binds the field: the value it decoded stays
              refine Or.inl ⟨⟨(k, x), List.mem_cons_self .., fld0, hb, e.symm⟩, v, ?_, by rw [e]; exact hgv⟩
              rw [he]
              show alookup name (acc.map _) = some v
              rw [alookup_map_update]
              simp only [e, ↓reduceIte]
              have := hkeys (k, x) (List.mem_cons_self ..) fld0 hb
              cases hl : alookup fld0.name acc with
              | none => rw [hl] at this; cases this
              | some z => rfl
            · refine Or.inr ⟨?_, ?_⟩
              · rintro ⟨p, hp, fld, hbf, hn⟩
                rcases List.mem_cons.mp hp with e' | e'
                · subst e'; rw [hb] at hbf; injection hbf with hbf; subst hbf; exact e hn.symm
                · exact hnb ⟨p, e', fld, hbf, hn⟩
              · rw [he]
                show alookup name (acc.map _) = alookup name acc
                rw [alookup_map_update]; simp [e]

/-! ### numeric members: what a valid number decodes to passes the emitted bound checks -/

theorem valid_num_parts (defs : Spec.Defs) (ps : Schema) (j : Json) (F : Nat) (hr : ps.node.ref = "")
    (T : String) (ht : ps.node.types = [T]) (hT : T = "integer" ∨ T = "number") (h : Spec.valid F defs ps j = true) :
    ∃ q, j = .num q ∧ (T = "integer" → q.den = 1) ∧
      Spec.boundsOK ps.node.minimum ps.node.maximum ps.node.xmin ps.node.xmax q = true := by
  have hty := valid_scalar defs ps j F hr T ht h
  cases F with
  | zero => simp [Spec.valid] at h
  | succ F =>
    simp only [Spec.valid, hr, ne_eq, not_true_eq_false, ↓reduceIte, Bool.and_eq_true] at h
    rcases hT with e | e <;> subst e <;> cases j <;> simp [Spec.hasType] at hty
    · rename_i q
      refine ⟨q, rfl, fun _ => hty, ?_⟩
      have := h.2; simp only [Bool.and_eq_true] at this; exact this.1
    · rename_i q
      refine ⟨q, rfl, (fun e => absurd e (by decide)), ?_⟩
      have := h.2; simp only [Bool.and_eq_true] at this; exact this.1

theorem num_cast_of_den_one (q : Rat) (h : q.den = 1) : ((q.num : Int) : Rat) = q := by
  have := Rat.num_div_den q
  rw [h] at this
  simpa using this

/-- the value a numeric member decodes to passes the check built from its schema's bounds -/
theorem num_decode_passes (env : Env) (defs : Spec.Defs) (ty : GoTy) (ps : Schema) (nl : Bool) (c : NumCheck)
    (j : Json) (F g : Nat) (v : GoVal)
    (hr : ps.node.ref = "") (hb : numBase ty = some (nl, c.roundToInt))
    (ht : ps.node.types = [if c.roundToInt then "integer" else "number"])
    (hm : c.mult = none) (hlo : c.lo = ps.node.minimum) (hhi : c.hi = ps.node.maximum)
    (hxlo : c.xlo = ps.node.xmin) (hxhi : c.xhi = ps.node.xmax) (h1 : c.xlo ≠ .other) (h2 : c.xhi ≠ .other)
    (hv : Spec.valid F defs ps j = true) (hd : decode .json env g ty j = .ok v) :
    checkNumeric v nl c = true := by
  obtain ⟨q, rfl, hden, hbo⟩ := valid_num_parts defs ps j F hr _ ht (by cases c.roundToInt <;> simp) hv
  rw [← hlo, ← hhi, ← hxlo, ← hxhi] at hbo
  cases hrt : c.roundToInt with
  | true =>
    have hden1 : q.den = 1 := hden (by simp [hrt])
    have hpass : c.passes q = true := by
      have := (C05.int_bounds_exact c q.num hrt hm h1 h2).mpr (by rw [num_cast_of_den_one q hden1]; exact hbo)
      rwa [num_cast_of_den_one q hden1] at this
    rw [hrt] at hb
    -- the two integer-typed shapes
    cases ty with
    | int k =>
      cases k <;> simp [numBase] at hb
      subst hb
      cases g with
      | zero => simp [decode] at hd
      | succ g =>
        simp only [decode, hden1, ne_eq, not_true_eq_false, ↓reduceIte] at hd
        split at hd
        · injection hd with hd; subst hd
          simp [checkNumeric, derefIf, numOf, NumCheck.accepts, num_cast_of_den_one q hden1, hpass]
        · cases hd
    | ptr t =>
      cases t with
      | int k =>
        cases k <;> simp [numBase] at hb
        subst hb
        cases g with
        | zero => simp [decode] at hd
        | succ g =>
          have : decode .json env (g + 1) (.ptr (.int .int)) (.num q) = (decode .json env g (.int .int) (.num q)).map .ptrTo := by
            simp [decode]
          rw [this] at hd
          cases g with
          | zero => simp [decode, Except.map] at hd
          | succ g =>
            simp only [decode, hden1, ne_eq, not_true_eq_false, ↓reduceIte] at hd
            split at hd
            · simp only [Except.map] at hd
              injection hd with hd; subst hd
              simp [checkNumeric, derefIf, numOf, NumCheck.accepts, num_cast_of_den_one q hden1, hpass]
            · simp [Except.map] at hd
      | _ => simp [numBase] at hb
    | _ => simp [numBase] at hb
  | false =>
    have hpass : c.passes q = true := (C05.float_bounds_exact c q hrt hm h1 h2).mpr hbo
    rw [hrt] at hb
    cases ty with
    | float64 =>
      simp [numBase] at hb
      subst hb
      cases g with
      | zero => simp [decode] at hd
      | succ g =>
        simp only [decode] at hd
        injection hd with hd; subst hd
        simp [checkNumeric, derefIf, numOf, NumCheck.accepts, hpass]
    | ptr t =>
      cases t with
      | float64 =>
        simp [numBase] at hb
        subst hb
        cases g with
        | zero => simp [decode] at hd
        | succ g =>
          have : decode .json env (g + 1) (.ptr .float64) (.num q) = (decode .json env g .float64 (.num q)).map .ptrTo := by
            simp [decode]
          rw [this] at hd
          cases g with
          | zero => simp [decode, Except.map] at hd
          | succ g =>
            simp only [decode, Except.map] at hd
            injection hd with hd; subst hd
            simp [checkNumeric, derefIf, numOf, NumCheck.accepts, hpass]
      | int k => cases k <;> simp [numBase] at hb
      | _ => simp [numBase] at hb
    | int k => cases k <;> simp [numBase] at hb
    | _ => simp [numBase] at hb

/-! ### the certificate with numeric bounds, and the completeness theorem for it -/

theorem zeroFields_lookup (env : Env) :
    ∀ (fs : List Field) (n : Nat), fs.length ≤ n → (fs.map (·.name)).Nodup → ∀ fld ∈ fs,
      ∃ g, alookup fld.name (zeroOf.zeroFields env n fs) = some (zeroOf env g fld.ty) := by
  intro fs
  induction fs with
  | nil => intro _ _ _ fld h; cases h
  | cons a rest ih =>
    intro n hn hnd fld hfld
    cases n with
    | zero => simp at hn
    | succ n =>
      simp only [List.map_cons, List.nodup_cons] at hnd
      simp only [zeroOf.zeroFields, alookup]
      rcases List.mem_cons.mp hfld with e | e
      · subst e; exact ⟨n, by simp⟩
      · have hne : fld.name ≠ a.name := by
          intro e'; apply hnd.1; rw [← e']; exact List.mem_map.mpr ⟨fld, e, rfl⟩
        simp only [hne, ↓reduceIte]
        exact ih n (by simp at hn; omega) hnd.2 fld e

theorem mem_of_bindKey (fs : List Field) (k : String) (fld : Field) (h : bindKey fs k = some fld) : fld ∈ fs := by
  unfold bindKey at h
  cases h1 : fs.find? (fun f => f.jsonKey = k) with
  | some f1 => rw [h1] at h; injection h with h; subst h; exact List.mem_of_find?_eq_some h1
  | none => rw [h1] at h; exact List.mem_of_find?_eq_some h

theorem eq_of_mem_same_name (fs : List Field) (key : Field → String) (hnd : (fs.map key).Nodup) (a b : Field)
    (ha : a ∈ fs) (hb : b ∈ fs) (h : key a = key b) : a = b := by
  induction fs with
  | nil => cases ha
  | cons x rest ih =>
    simp only [List.map_cons, List.nodup_cons] at hnd
    rcases List.mem_cons.mp ha with e1 | e1 <;> rcases List.mem_cons.mp hb with e2 | e2
    · rw [e1, e2]
    · subst e1; exfalso; apply hnd.1; rw [h]; exact List.mem_map.mpr ⟨b, e2, rfl⟩
    · subst e2; exfalso; apply hnd.1; rw [← h]; exact List.mem_map.mpr ⟨a, e1, rfl⟩
    · exact ih hnd.2 e1 e2

/-- **C02 / C05, whole documents, completeness with numeric bounds**: for a program `certFull` admits, every document
    of any size and depth that is valid under the schema — types, required keys AND every minimum / maximum /
    exclusive bound of every numeric member at every level — and ordinary (`DocOK`) is accepted by the generated code -/
theorem certFull_accepts (env : Env) (defs : Spec.Defs) :
    ∀ (f : Nat) (ty : GoTy) (s : Schema), certFull env defs f ty s = true →
      ∀ (F : Nat) (j : Json), Spec.valid F defs s j = true → DocOK env j → Acc .json env ty j := by
  intro f
  induction f with
  | zero => intro ty s h; simp [certFull] at h
  | succ f ih =>
    intro ty s hc F j hv hdoc
    simp only [certFull] at hc
    by_cases hr : s.node.ref = ""
    · simp only [hr, ne_eq, not_true_eq_false, ↓reduceIte] at hc
      cases ty with
      | ptr t => exact (acc_ptr_iff env t j).mpr (Or.inr (ih t s hc F j hv hdoc))
      | named nm =>
        simp only at hc
        cases hres : env.resolve 8 nm with
        | none => simp [hres] at hc
        | some d =>
          simp only [hres] at hc
          cases hbody : d.body with
          | enum a b c e g => simp [hbody] at hc
          | «alias» t => simp [hbody] at hc
          | plain vs m =>
            cases hty : d.ty with
            | strct fs =>
              simp only [hbody, hty, Bool.and_eq_true, beq_iff_eq, Bool.or_eq_true, Bool.not_eq_true', Option.isNone_iff_eq_none,
                List.isEmpty_iff, List.all_eq_true, decide_eq_true_eq] at hc
              obtain ⟨⟨⟨⟨⟨⟨⟨⟨⟨⟨⟨⟨⟨⟨⟨hmeth, hmv⟩, _⟩, htypes⟩, _⟩, _⟩, _⟩, _⟩, haddl⟩, hnoaddl⟩, hlen⟩, hndN⟩, hndK⟩, hvs⟩, hfields⟩, hprops⟩ := hc
              obtain ⟨kvs, rfl⟩ := valid_types_obj defs s j F hr htypes hv
              obtain ⟨hreq, F', hvp⟩ := valid_obj_parts defs s kvs F hr hv
              -- what the certificate says about one declared property
              have hprop : ∀ k ps, alookup k s.node.props = some ps →
                  ∃ fld, bindKey fs k = some fld ∧ fld.jsonKey = k ∧ certFull env defs f fld.ty ps = true := by
                intro k ps hl
                have hp' := hprops (k, ps) (alookup_mem k ps s.node.props hl)
                cases hb : bindKey fs k with
                | none => simp [hb] at hp'
                | some fld => simp only [hb, Bool.and_eq_true, beq_iff_eq] at hp'; exact ⟨fld, rfl, hp'.1, hp'.2⟩
              -- an entry that binds is a declared property, bound to ITS field
              have hbound : ∀ p ∈ kvs, ∀ fld, bindKey fs p.1 = some fld →
                  ∃ ps, alookup p.1 s.node.props = some ps ∧ fld.jsonKey = p.1 ∧ certFull env defs f fld.ty ps = true ∧
                    ∃ F'', Spec.valid F'' defs ps p.2 = true := by
                intro p hp fld hb
                cases hl : alookup p.1 s.node.props with
                | some ps =>
                  obtain ⟨fld', hb', hk', hcs⟩ := hprop p.1 ps hl
                  rw [hb] at hb'; injection hb' with hb'; subst hb'
                  obtain ⟨F'', hvv⟩ := validProps_mem defs s.node.props s.node.addl kvs kvs F' hvp p hp ps hl
                  exact ⟨ps, rfl, hk', hcs, F'', hvv⟩
                | none =>
                  exfalso
                  have hk : ∀ fl ∈ fs, fl.jsonKey ≠ p.1 := by
                    intro fl hfl e
                    have := hfields fl hfl
                    have hin : p.1 ∈ akeys s.node.props := by simpa [e] using this
                    exact (alookup_none_iff_not_mem p.1 s.node.props).mp hl hin
                  have hfold : ∀ fl ∈ fs, foldKey fl.jsonKey = foldKey p.1 → fl.jsonKey = p.1 := by
                    intro fl hfl e
                    exact hdoc.keys p.1 (.here kvs (by simp only [akeys, List.mem_map]; exact ⟨p, hp, rfl⟩)) nm d fs fl hres hty hfl e
                  rw [bindKey_none fs p.1 hfold hk] at hb; cases hb
              have hentries : ∀ p ∈ kvs, ∀ fld, bindW .json fs p.1 = some fld → Acc .json env fld.ty p.2 := by
                intro p hp fld hb
                obtain ⟨ps, _, _, hcs, F'', hvv⟩ := hbound p hp fld hb
                exact ih fld.ty ps hcs F'' p.2 hvv (hdoc.ofMember p hp)
              obtain ⟨f0, v0, hdec⟩ := (acc_struct_iff .json env fs kvs).mpr hentries
              rw [acc_named_iff env nm d (.obj kvs) hres]
              cases hm : m with
              | false =>
                have hvsE : vs = [] := by rcases hmv with h | h <;> simp_all
                have : d.hasMethod = false := by rw [hmeth, hm]
                simp only [this, Bool.false_eq_true, ↓reduceIte, hty, GoTy.isFmt, true_and]
                exact ⟨f0, v0, hdec⟩
              | true =>
                have : d.hasMethod = true := by rw [hmeth, hm]
                simp only [this, ↓reduceIte]
                -- the decoded struct value
                obtain ⟨f1, rfl⟩ : ∃ f1, f0 = f1 + 1 := by
                  cases f0 with
                  | zero => simp [decode] at hdec
                  | succ f1 => exact ⟨f1, rfl⟩
                have hdecS : decode .json env (f1 + 1) (.strct fs) (.obj kvs) =
                    (decodeStruct .json env f1 fs kvs (zeroOf.zeroFields env 32 fs)).map .strct := by simp [decode]
                rw [hdecS] at hdec
                cases hr0 : decodeStruct .json env f1 fs kvs (zeroOf.zeroFields env 32 fs) with
                | error e => rw [hr0] at hdec; cases hdec
                | ok r =>
                  rw [hr0] at hdec
                  have hv0 : v0 = .strct r := by simp only [Except.map] at hdec; injection hdec with h; exact h.symm
                  subst hv0
                  -- the field lemma, with "every numeric validator on this field passes" as the predicate
                  let Good : String → GoVal → Prop := fun name v => ∀ nl c, Validator.numeric name nl c ∈ vs → checkNumeric v nl c = true
                  have hjust : ∀ field nl c, Validator.numeric field nl c ∈ vs → field ≠ "" ∧ numJustified fs s field nl c = true := by
                    intro field nl c hin
                    have := hvs _ hin
                    simp only [Bool.and_eq_true, bne_iff_ne, ne_eq] at this
                    exact this
                  have hgoodE : ∀ p ∈ kvs, ∀ fld, bindW .json fs p.1 = some fld → ∀ g v, decode .json env g fld.ty p.2 = .ok v → Good fld.name v := by
                    intro p hp fld hb g v hd nl c hin
                    obtain ⟨ps, hl, hk, _, F'', hvv⟩ := hbound p hp fld hb
                    obtain ⟨_, hj⟩ := hjust fld.name nl c hin
                    unfold numJustified at hj
                    cases hfind : fs.find? (fun fl => fl.name = fld.name) with
                    | none => simp [hfind] at hj
                    | some fl =>
                      have hflmem := List.mem_of_find?_eq_some hfind
                      have hfln : fl.name = fld.name := by simpa using List.find?_some hfind
                      have hflEq : fl = fld := eq_of_mem_same_name fs (·.name) hndN fl fld hflmem (mem_of_bindKey fs p.1 fld hb) hfln
                      subst hflEq
                      simp only [hfind, hk, hl, Bool.and_eq_true, beq_iff_eq, decide_eq_true_eq, Option.isNone_iff_eq_none, Bool.or_eq_true] at hj
                      obtain ⟨⟨⟨⟨⟨⟨⟨⟨⟨⟨hpr, hnb⟩, hpt⟩, hmu⟩, hlo⟩, hhi⟩, hxlo⟩, hxhi⟩, hx1⟩, hx2⟩, _⟩ := hj
                      exact num_decode_passes env defs fl.ty ps nl c p.2 F'' g v hpr hnb hpt hmu hlo hhi hxlo hxhi hx1 hx2 hvv hd
                  have hkeysE : ∀ p ∈ kvs, ∀ fld, bindW .json fs p.1 = some fld → (alookup fld.name (zeroOf.zeroFields env 32 fs)).isSome = true := by
                    intro p hp fld hb
                    obtain ⟨g, hg⟩ := zeroFields_lookup env fs 32 (by omega) hndN fld (mem_of_bindKey fs p.1 fld hb)
                    rw [hg]; rfl
                  have hfield := decodeStruct_field .json env fs Good kvs f1 _ r hgoodE hkeysE hr0
                  -- all after-validators pass
                  have hafter : ∀ x ∈ vs, afterPasses (.strct r) x = true := by
                    intro x hx
                    cases x with
                    | numeric field nl c =>
                      obtain ⟨hfne, hj⟩ := hjust field nl c hx
                      show checkNumeric (fieldOf (.strct r) field) nl c = true
                      simp only [fieldOf, hfne, ↓reduceIte]
                      rcases hfield field with ⟨_, v, hlv, hg⟩ | ⟨hnb, he⟩
                      · rw [hlv]; exact hg nl c hx
                      · -- no entry binds the field: it is a nil pointer (a non-nillable one is required, hence bound)
                        unfold numJustified at hj
                        cases hfind : fs.find? (fun fl => fl.name = field) with
                        | none => simp [hfind] at hj
                        | some fl =>
                          have hflmem := List.mem_of_find?_eq_some hfind
                          have hfln : fl.name = field := by simpa using List.find?_some hfind
                          cases hl : alookup fl.jsonKey s.node.props with
                          | none => simp [hfind, hl] at hj
                          | some ps =>
                            simp only [hfind, hl, Bool.and_eq_true, beq_iff_eq, decide_eq_true_eq, Option.isNone_iff_eq_none, Bool.or_eq_true] at hj
                            obtain ⟨⟨⟨⟨⟨⟨⟨⟨⟨⟨_, hnb'⟩, _⟩, _⟩, _⟩, _⟩, _⟩, _⟩, _⟩, _⟩, hnlreq⟩ := hj
                            have hnbase := hnb'
                            obtain ⟨g, hg⟩ := zeroFields_lookup env fs 32 (by omega) hndN fl hflmem
                            rw [he, ← hfln, hg]
                            rcases hnlreq with hnl | hreqk
                            · subst hnl
                              -- a nil pointer: the emitted `!= nil &&` guard
                              cases hfty : fl.ty with
                              | ptr t => cases g <;> simp [zeroOf, checkNumeric, derefIf, NumCheck.accepts]
                              | int k => rw [hfty] at hnbase; cases k <;> simp [numBase] at hnbase
                              | _ => rw [hfty] at hnbase; simp [numBase] at hnbase
                            · exfalso
                              rw [List.all_eq_true] at hreq
                              have hhas := hreq fl.jsonKey (by simpa using hreqk)
                              simp only [ahas] at hhas
                              cases hlk : alookup fl.jsonKey kvs with
                              | none => rw [hlk] at hhas; cases hhas
                              | some x =>
                                have hmem := alookup_mem fl.jsonKey x kvs hlk
                                obtain ⟨fld', hb', hk', _⟩ := hprop fl.jsonKey ps hl
                                have : fld' = fl := eq_of_mem_same_name fs (·.jsonKey) hndK fld' fl (mem_of_bindKey fs _ fld' hb') hflmem hk'
                                subst this
                                exact hnb ⟨(fld'.jsonKey, x), hmem, fld', hb', hfln⟩
                    | required k => rfl
                    | _ => have := hvs _ hx; simp at this
                  let g := max (f1 + 1) (vs.length + 1)
                  have hdec' : decode .json env g d.ty (.obj kvs) = .ok (.strct r) := by
                    rw [hty]
                    exact Proofs.decode_ok_mono .json env _ _ _ (f1 + 1) g (Nat.le_max_left ..) (by rw [hdecS, hr0]; rfl)
                  refine ⟨g + 1, .strct r, ?_⟩
                  rw [struct_method_ok_iff .json env d vs m fs kvs g hbody hty hnoaddl
                    (by have : vs.length + 1 ≤ g := Nat.le_max_right ..; omega)
                    (by intro v hv'; have := hvs v hv'; cases v <;> simp at this <;> rfl)
                    (by
                      intro v hv'
                      cases v with
                      | numeric field nl c =>
                        obtain ⟨_, hj⟩ := hjust field nl c hv'
                        unfold numJustified at hj
                        cases hfind : fs.find? (fun fl => fl.name = field) with
                        | none => simp [hfind] at hj
                        | some fl =>
                          cases hl : alookup fl.jsonKey s.node.props with
                          | none => simp [hfind, hl] at hj
                          | some ps =>
                            simp only [hfind, hl, Bool.and_eq_true, Option.isNone_iff_eq_none] at hj
                            have hmu : c.mult = none := hj.1.1.1.1.1.1.1.2
                            simp [Checkable, nonDyadicFloat, hmu]
                      | required k => rfl
                      | _ => have := hvs _ hv'; simp at this)]
                  refine ⟨?_, hdec', hafter⟩
                  intro k hk
                  have := hvs _ hk
                  simp only at this
                  rw [List.all_eq_true] at hreq
                  exact hreq k (by simpa using this)
            | _ => simp [hbody, hty] at hc
      | slice t =>
        simp only [Bool.and_eq_true, beq_iff_eq] at hc
        obtain ⟨⟨⟨⟨⟨⟨htypes, _⟩, _⟩, _⟩, _⟩, htn⟩, hit⟩ := hc
        cases hitems : s.node.items with
        | none => simp [hitems] at hit
        | some it =>
          simp only [hitems] at hit
          obtain ⟨xs, rfl, F', hve⟩ := valid_arr_parts defs s j F hr htypes it hitems hv
          rw [acc_slice_iff env t xs (elemOK_of env t (by intro n e; subst e; simp at htn) (by intro e; subst e; simp at htn))]
          intro x hx
          obtain ⟨F'', hvx⟩ := validElems_mem defs it xs F' hve x hx
          exact ih t it hit F'' x hvx (hdoc.ofElem x hx)
      | string =>
        have ht : s.node.types = ["string"] := by simpa using hc
        have := valid_scalar defs s j F hr "string" ht hv
        cases j <;> simp [Spec.hasType] at this
        exact (acc_string_iff env _).mpr (Or.inr ⟨_, rfl⟩)
      | bool =>
        have ht : s.node.types = ["boolean"] := by simpa using hc
        have := valid_scalar defs s j F hr "boolean" ht hv
        cases j <;> simp [Spec.hasType] at this
        exact (acc_bool_iff env _).mpr (Or.inr ⟨_, rfl⟩)
      | float64 =>
        have ht : s.node.types = ["number"] := by simpa using hc
        have := valid_scalar defs s j F hr "number" ht hv
        cases j <;> simp [Spec.hasType] at this
        exact (acc_float_iff env _).mpr (Or.inr ⟨_, rfl⟩)
      | int k =>
        cases k <;> simp at hc
        have ht : s.node.types = ["integer"] := hc
        have := valid_scalar defs s j F hr "integer" ht hv
        cases j <;> simp [Spec.hasType] at this
        rename_i q
        exact (acc_int_iff env .int _).mpr (Or.inr ⟨q, rfl, this, hdoc.ints q .here this⟩)
      | iface => simp at hc
      | strct fs => simp at hc
      | nullTy => simp at hc
      | map t => simp at hc
      | qual a b => simp at hc
      | custom a b => simp at hc
      | fmt k => simp at hc
    · -- a reference: the target's schema decides
      simp only [ne_eq, hr, not_false_eq_true, ↓reduceIte] at hc
      cases F with
      | zero => simp [Spec.valid] at hv
      | succ F =>
        simp only [Spec.valid, ne_eq, hr, not_false_eq_true, ↓reduceIte] at hv
        cases hn : Spec.refName s.node.ref with
        | none => simp [hn] at hc
        | some name =>
          simp only [hn] at hc hv
          cases hl : alookup name defs with
          | none => simp [hl] at hc
          | some t =>
            simp only [hl] at hc hv
            exact ih ty t hc F j hv hdoc


/-- `certFull` admits ordinary generated programs with bounded numeric members (non-vacuity) -/
def exEnvN : Env := [
  { name := "Root", ty := .strct [
      { name := "Name", jsonName := "name", ty := .string, tags := "", jsonKey := "name", yamlKey := "name", omitEmpty := false },
      { name := "Age", jsonName := "age", ty := .ptr (.int .int), tags := "", jsonKey := "age", yamlKey := "age", omitEmpty := true },
      { name := "Ratio", jsonName := "ratio", ty := .float64, tags := "", jsonKey := "ratio", yamlKey := "ratio", omitEmpty := false }],
    body := .plain [.required "name", .required "ratio",
      .numeric "Age" true { lo := some 0, hi := some 150, roundToInt := true },
      .numeric "Ratio" false { lo := some 0, xhi := .num 1 }] true }]

def exSchemaN : Schema := .mk { types := ["object"], required := ["name", "ratio"], props := [
  ("name", .mk { types := ["string"] }), ("age", .mk { types := ["integer"], minimum := some 0, maximum := some 150 }),
  ("ratio", .mk { types := ["number"], minimum := some 0, xmax := .num 1 })] }

example : certFull exEnvN [] 4 (.named "Root") exSchemaN = true := by decide

/-! ### string and array members -/

/-- the string `t` occurs somewhere in the document -/
inductive StrIn (t : String) : Json → Prop
  | here : StrIn t (.str t)
  | inObj (kvs : List (String × Json)) (p : String × Json) (hp : p ∈ kvs) (h : StrIn t p.2) : StrIn t (.obj kvs)
  | inArr (xs : List Json) (x : Json) (hx : x ∈ xs) (h : StrIn t x) : StrIn t (.arr xs)

/-- `DocOK`, and the document's strings are ASCII (Go's `len` counts bytes: known finding K1) -/
structure DocOKS (env : Env) (j : Json) : Prop where
  base : DocOK env j
  strs : ∀ t, StrIn t j → C06.IsAscii t

theorem DocOKS.ofMember {env : Env} {kvs : List (String × Json)} (h : DocOKS env (.obj kvs)) (p : String × Json) (hp : p ∈ kvs) :
    DocOKS env p.2 := ⟨h.base.ofMember p hp, fun t ht => h.strs t (.inObj kvs p hp ht)⟩

theorem DocOKS.ofElem {env : Env} {xs : List Json} (h : DocOKS env (.arr xs)) (x : Json) (hx : x ∈ xs) : DocOKS env x :=
  ⟨h.base.ofElem x hx, fun t ht => h.strs t (.inArr xs x hx ht)⟩

theorem valid_str_parts (defs : Spec.Defs) (ps : Schema) (j : Json) (F : Nat) (hr : ps.node.ref = "")
    (ht : ps.node.types = ["string"]) (h : Spec.valid F defs ps j = true) :
    ∃ t, j = .str t ∧ Spec.lengthOK ps.node.minLength ps.node.maxLength t = true ∧ Spec.patternOK ps.node.pattern t = true := by
  have hty := valid_scalar defs ps j F hr "string" ht h
  cases F with
  | zero => simp [Spec.valid] at h
  | succ F =>
    simp only [Spec.valid, hr, ne_eq, not_true_eq_false, ↓reduceIte, Bool.and_eq_true] at h
    cases j <;> simp [Spec.hasType] at hty
    rename_i t
    have := h.2
    simp only [Bool.and_eq_true] at this
    exact ⟨t, rfl, this.1.1, this.1.2⟩

/-- the value a string member decodes to passes the check built from its schema's limits and pattern -/
theorem str_decode_passes (env : Env) (defs : Spec.Defs) (ty : GoTy) (ps : Schema) (nl : Bool) (mn mx : Int) (pat : String)
    (j : Json) (F g : Nat) (v : GoVal)
    (hr : ps.node.ref = "") (hb : strBase ty = some nl) (ht : ps.node.types = ["string"])
    (hmn : mn = ps.node.minLength) (hmx : mx = ps.node.maxLength) (hp : pat = ps.node.pattern)
    (hascii : ∀ t, j = .str t → C06.IsAscii t)
    (hv : Spec.valid F defs ps j = true) (hd : decode .json env g ty j = .ok v) :
    checkString v mn mx pat nl = true := by
  obtain ⟨t, rfl, hlen, hpat⟩ := valid_str_parts defs ps j F hr ht hv
  have hpass : stringPasses mn mx pat t = true := by
    rw [hmn, hmx, hp]
    exact (C06.string_check_exact_ascii _ _ _ t (hascii t rfl)).mpr ⟨hlen, hpat⟩
  cases ty with
  | string =>
    simp [strBase] at hb; subst hb
    cases g with
    | zero => simp [decode] at hd
    | succ g =>
      simp only [decode] at hd
      injection hd with hd; subst hd
      simp [checkString, derefIf, hpass]
  | ptr t' =>
    cases t' with
    | string =>
      simp [strBase] at hb; subst hb
      cases g with
      | zero => simp [decode] at hd
      | succ g =>
        have : decode .json env (g + 1) (.ptr .string) (.str t) = (decode .json env g .string (.str t)).map .ptrTo := by
          simp [decode]
        rw [this] at hd
        cases g with
        | zero => simp [decode, Except.map] at hd
        | succ g =>
          simp only [decode, Except.map] at hd
          injection hd with hd; subst hd
          simp [checkString, derefIf, hpass]
    | _ => simp [strBase] at hb
  | _ => simp [strBase] at hb

theorem decodeElems_length (w : Wire) (env : Env) (t : GoTy) :
    ∀ (xs : List Json) (f : Nat) (vs : List GoVal), decodeElems w env f t xs = .ok vs → vs.length = xs.length := by
  intro xs
  induction xs with
  | nil => intro f vs h; cases f <;> simp [decodeElems] at h; subst h; rfl
  | cons x rest ih =>
    intro f vs h
    cases f with
    | zero => simp [decodeElems] at h
    | succ f =>
      simp only [decodeElems, bind, Except.bind] at h
      cases hd : decode w env f t x with
      | error e => rw [hd] at h; cases h
      | ok v =>
        rw [hd] at h; simp only at h
        cases hr : decodeElems w env f t rest with
        | error e => rw [hr] at h; cases h
        | ok vs' =>
          rw [hr] at h; simp only [pure, Except.pure] at h
          injection h with h; subst h
          simp [ih f vs' hr]

theorem valid_arr_count (defs : Spec.Defs) (ps : Schema) (j : Json) (F : Nat) (hr : ps.node.ref = "")
    (ht : ps.node.types = ["array"]) (h : Spec.valid F defs ps j = true) :
    ∃ xs, j = .arr xs ∧ Spec.itemsCountOK ps.node.minItems ps.node.maxItems xs.length = true := by
  have hty := valid_scalar defs ps j F hr "array" ht h
  cases F with
  | zero => simp [Spec.valid] at h
  | succ F =>
    simp only [Spec.valid, hr, ne_eq, not_true_eq_false, ↓reduceIte, Bool.and_eq_true] at h
    cases j <;> simp [Spec.hasType] at hty
    rename_i xs
    have := h.2
    simp only [Bool.and_eq_true] at this
    exact ⟨xs, rfl, this.1⟩

/-- the slice an array member decodes to passes the depth-1 item-count check built from its schema's limits -/
theorem arr_decode_passes (env : Env) (defs : Spec.Defs) (t : GoTy) (ps : Schema) (mn mx : Int)
    (j : Json) (F g : Nat) (v : GoVal)
    (hr : ps.node.ref = "") (ht : ps.node.types = ["array"]) (he : elemOK env t = true)
    (hmn : mn = ps.node.minItems) (hmx : mx = ps.node.maxItems)
    (hv : Spec.valid F defs ps j = true) (hd : decode .json env g (.slice t) j = .ok v) :
    checkArray 1 v mn mx = true := by
  obtain ⟨xs, rfl, hcount⟩ := valid_arr_count defs ps j F hr ht hv
  cases g with
  | zero => simp [decode] at hd
  | succ g =>
    have hdec : decode .json env (g + 1) (.slice t) (.arr xs) = (decodeElems .json env g t xs).map .slice :=
      decode_slice_eq env t xs g he
    rw [hdec] at hd
    cases hr' : decodeElems .json env g t xs with
    | error e => rw [hr'] at hd; cases hd
    | ok vs =>
      rw [hr'] at hd
      simp only [Except.map] at hd
      injection hd with hd; subst hd
      rw [C07.depth1_exact, decodeElems_length .json env t xs g vs hr', hmn, hmx]
      exact hcount

/-! ### string enums -/

theorem enumStrs_eq : ∀ (vs : List Json) (l : List String), enumStrs vs = some l → vs = l.map Json.str := by
  intro vs
  induction vs with
  | nil => intro l h; simp [enumStrs] at h; subst h; rfl
  | cons v rest ih =>
    intro l h
    cases v with
    | str x =>
      simp only [enumStrs, Option.map_eq_some_iff] at h
      obtain ⟨l', hl', rfl⟩ := h
      simp [ih l' hl']
    | null => simp [enumStrs] at h
    | bool b => simp [enumStrs] at h
    | num q => simp [enumStrs] at h
    | arr xs => simp [enumStrs] at h
    | obj kvs => simp [enumStrs] at h

/-- what `strEnumJustified` gives: the table of the declaration IS the schema's list, and all of it are strings -/
theorem strEnumJustified_eq (vals : List Json) (s : Schema) (h : strEnumJustified vals s = true) :
    ∃ l : List String, vals = l.map Json.str ∧ s.node.enum = some vals := by
  unfold strEnumJustified at h
  cases h1 : enumStrs vals with
  | none => simp [h1] at h
  | some l =>
    cases h2 : s.node.enum with
    | none => simp [h1, h2] at h
    | some vs =>
      simp only [h1, h2, beq_iff_eq] at h
      have e1 := enumStrs_eq vals l h1
      have e2 := enumStrs_eq vs l h
      exact ⟨l, e1, by rw [e1, e2]⟩

/-- a member of an all-string list is a string -/
theorem mem_strs_is_str (l : List String) (j : Json) (h : (l.map Json.str).any (fun v => v == j) = true) :
    ∃ x, j = .str x := by
  simp only [List.any_map, List.any_eq_true, Function.comp] at h
  obtain ⟨x, _, hx⟩ := h
  cases j with
  | str y => exact ⟨y, rfl⟩
  | null => simp [BEq.beq, Json.beq] at hx
  | bool b => simp [BEq.beq, Json.beq] at hx
  | num q => simp [BEq.beq, Json.beq] at hx
  | arr xs => simp [BEq.beq, Json.beq] at hx
  | obj kvs => simp [BEq.beq, Json.beq] at hx

theorem valid_enum_parts (defs : Spec.Defs) (s : Schema) (j : Json) (F : Nat) (vs : List Json) (hr : s.node.ref = "")
    (he : s.node.enum = some vs) (h : Spec.valid F defs s j = true) : vs.any (fun v => v == j) = true := by
  cases F with
  | zero => simp [Spec.valid] at h
  | succ F =>
    simp only [Spec.valid, hr, ne_eq, not_true_eq_false, ↓reduceIte, he, Bool.and_eq_true] at h
    exact h.1.1.1.2

/-- **a string-enum type accepts every valid value** -/
theorem enum_decl_accepts (env : Env) (defs : Spec.Defs) (nm : String) (d : Decl) (vals : List Json) (ic : Bool)
    (cs : List (String × String)) (ms : Bool) (s : Schema) (j : Json) (F : Nat)
    (hres : env.resolve 8 nm = some d) (hbody : d.body = .enum vals false ic cs ms) (hty : d.ty = .string)
    (hmeth : d.hasMethod = true) (hr : s.node.ref = "") (hj : strEnumJustified vals s = true)
    (hv : Spec.valid F defs s j = true) : Acc .json env (.named nm) j := by
  obtain ⟨l, hl, he⟩ := strEnumJustified_eq vals s hj
  have hmem := valid_enum_parts defs s j F vals hr he hv
  obtain ⟨x, rfl⟩ := mem_strs_is_str l j (hl ▸ hmem)
  rw [acc_named_iff env nm d _ hres]
  simp only [hmeth, ↓reduceIte]
  obtain ⟨v, hv'⟩ := (C08.string_enum_method_exact .json env d vals ic cs ms x 0 hbody hty).mpr hmem
  exact ⟨2, v, hv'⟩

/-! ### the certificate with all three kinds of value validators -/

/-- the check a value validator performs, on the field's value itself -/
def passesOn (v : GoVal) : Validator → Bool
  | .numeric _ nl c => checkNumeric v nl c
  | .string _ mn mx pat nl => checkString v mn mx pat nl
  | .array _ depth mn mx => checkArray depth v mn mx
  | _ => true

def fieldNameOf : Validator → String
  | .numeric f _ _ => f | .string f _ _ _ _ => f | .array f _ _ _ => f | _ => ""

/-- what `*Justified` gives: the field, its schema, and why an absent member is harmless -/
structure JustFacts (fs : List Field) (s : Schema) (field : String) (fl : Field) (ps : Schema) : Prop where
  mem : fl ∈ fs
  name : fl.name = field
  look : alookup fl.jsonKey s.node.props = some ps
  noref : ps.node.ref = ""

theorem find_facts (fs : List Field) (s : Schema) (field : String) (fl : Field) (ps : Schema)
    (hfind : fs.find? (fun fl => fl.name = field) = some fl) (hl : alookup fl.jsonKey s.node.props = some ps)
    (hr : ps.node.ref = "") : JustFacts fs s field fl ps :=
  ⟨List.mem_of_find?_eq_some hfind, by simpa using List.find?_some hfind, hl, hr⟩


/-- **C02 / C05 / C06 / C07, whole documents, completeness**: for a program `certAll` admits — structs whose validators are
    exactly what the schema states: presence checks, numeric bounds, string length limits and patterns, array item
    counts — every document of any size and depth that is valid under the schema and ordinary (`DocOKS`: keys and integers
    as in `DocOK`, strings ASCII) is accepted by the generated code -/
theorem certAll_accepts (env : Env) (defs : Spec.Defs) :
    ∀ (f : Nat) (ty : GoTy) (s : Schema), certAll env defs f ty s = true →
      ∀ (F : Nat) (j : Json), Spec.valid F defs s j = true → DocOKS env j → Acc .json env ty j := by
  intro f
  induction f with
  | zero => intro ty s h; simp [certAll] at h
  | succ f ih =>
    intro ty s hc F j hv hdoc
    simp only [certAll] at hc
    by_cases hr : s.node.ref = ""
    · simp only [hr, ne_eq, not_true_eq_false, ↓reduceIte] at hc
      cases ty with
      | ptr t => exact (acc_ptr_iff env t j).mpr (Or.inr (ih t s hc F j hv hdoc))
      | named nm =>
        simp only at hc
        cases hres : env.resolve 8 nm with
        | none => simp [hres] at hc
        | some d =>
          simp only [hres] at hc
          cases hbody : d.body with
          | enum vals wr ic cs ms =>
            cases hty : d.ty <;> simp only [hbody, hty] at hc <;> try (simp at hc; done)
            cases wr <;> simp only at hc <;> try (simp at hc; done)
            simp only [Bool.and_eq_true, Bool.or_eq_true, beq_iff_eq, List.isEmpty_iff, Bool.not_eq_true'] at hc
            obtain ⟨⟨⟨⟨⟨hmeth, _⟩, hj⟩, _⟩, _⟩, _⟩ := hc
            exact enum_decl_accepts env defs nm d vals ic cs ms s j F hres hbody hty hmeth hr hj hv
          | «alias» t => simp [hbody] at hc
          | plain vs m =>
            cases hty : d.ty with
            | strct fs =>
              simp only [hbody, hty, Bool.and_eq_true, beq_iff_eq, Bool.or_eq_true, Bool.not_eq_true', Option.isNone_iff_eq_none,
                List.isEmpty_iff, List.all_eq_true, decide_eq_true_eq] at hc
              obtain ⟨⟨⟨⟨⟨⟨⟨⟨⟨⟨⟨⟨⟨⟨⟨hmeth, hmv⟩, _⟩, htypes⟩, _⟩, _⟩, _⟩, _⟩, haddl⟩, hnoaddl⟩, hlen⟩, hndN⟩, hndK⟩, hvs⟩, hfields⟩, hprops⟩ := hc
              obtain ⟨kvs, rfl⟩ := valid_types_obj defs s j F hr htypes hv
              obtain ⟨hreq, F', hvp⟩ := valid_obj_parts defs s kvs F hr hv
              -- what the certificate says about one declared property
              have hprop : ∀ k ps, alookup k s.node.props = some ps →
                  ∃ fld, bindKey fs k = some fld ∧ fld.jsonKey = k ∧ certAll env defs f fld.ty ps = true := by
                intro k ps hl
                have hp' := hprops (k, ps) (alookup_mem k ps s.node.props hl)
                cases hb : bindKey fs k with
                | none => simp [hb] at hp'
                | some fld => simp only [hb, Bool.and_eq_true, beq_iff_eq] at hp'; exact ⟨fld, rfl, hp'.1, hp'.2⟩
              -- an entry that binds is a declared property, bound to ITS field
              have hbound : ∀ p ∈ kvs, ∀ fld, bindKey fs p.1 = some fld →
                  ∃ ps, alookup p.1 s.node.props = some ps ∧ fld.jsonKey = p.1 ∧ certAll env defs f fld.ty ps = true ∧
                    ∃ F'', Spec.valid F'' defs ps p.2 = true := by
                intro p hp fld hb
                cases hl : alookup p.1 s.node.props with
                | some ps =>
                  obtain ⟨fld', hb', hk', hcs⟩ := hprop p.1 ps hl
                  rw [hb] at hb'; injection hb' with hb'; subst hb'
                  obtain ⟨F'', hvv⟩ := validProps_mem defs s.node.props s.node.addl kvs kvs F' hvp p hp ps hl
                  exact ⟨ps, rfl, hk', hcs, F'', hvv⟩
                | none =>
                  exfalso
                  have hk : ∀ fl ∈ fs, fl.jsonKey ≠ p.1 := by
                    intro fl hfl e
                    have := hfields fl hfl
                    have hin : p.1 ∈ akeys s.node.props := by simpa [e] using this
                    exact (alookup_none_iff_not_mem p.1 s.node.props).mp hl hin
                  have hfold : ∀ fl ∈ fs, foldKey fl.jsonKey = foldKey p.1 → fl.jsonKey = p.1 := by
                    intro fl hfl e
                    exact hdoc.base.keys p.1 (.here kvs (by simp only [akeys, List.mem_map]; exact ⟨p, hp, rfl⟩)) nm d fs fl hres hty hfl e
                  rw [bindKey_none fs p.1 hfold hk] at hb; cases hb
              have hentries : ∀ p ∈ kvs, ∀ fld, bindW .json fs p.1 = some fld → Acc .json env fld.ty p.2 := by
                intro p hp fld hb
                obtain ⟨ps, _, _, hcs, F'', hvv⟩ := hbound p hp fld hb
                exact ih fld.ty ps hcs F'' p.2 hvv (hdoc.ofMember p hp)
              obtain ⟨f0, v0, hdec⟩ := (acc_struct_iff .json env fs kvs).mpr hentries
              rw [acc_named_iff env nm d (.obj kvs) hres]
              cases hm : m with
              | false =>
                have hvsE : vs = [] := by rcases hmv with h | h <;> simp_all
                have : d.hasMethod = false := by rw [hmeth, hm]
                simp only [this, Bool.false_eq_true, ↓reduceIte, hty, GoTy.isFmt, true_and]
                exact ⟨f0, v0, hdec⟩
              | true =>
                have : d.hasMethod = true := by rw [hmeth, hm]
                simp only [this, ↓reduceIte]
                -- the decoded struct value
                obtain ⟨f1, rfl⟩ : ∃ f1, f0 = f1 + 1 := by
                  cases f0 with
                  | zero => simp [decode] at hdec
                  | succ f1 => exact ⟨f1, rfl⟩
                have hdecS : decode .json env (f1 + 1) (.strct fs) (.obj kvs) =
                    (decodeStruct .json env f1 fs kvs (zeroOf.zeroFields env 32 fs)).map .strct := by simp [decode]
                rw [hdecS] at hdec
                cases hr0 : decodeStruct .json env f1 fs kvs (zeroOf.zeroFields env 32 fs) with
                | error e => rw [hr0] at hdec; cases hdec
                | ok r =>
                  rw [hr0] at hdec
                  have hv0 : v0 = .strct r := by simp only [Except.map] at hdec; injection hdec with h; exact h.symm
                  subst hv0
                  -- the field lemma, with "every value validator on this field passes" as the predicate
                  let Good : String → GoVal → Prop := fun name v => ∀ x ∈ vs, fieldNameOf x = name → passesOn v x = true
                  have hjust : ∀ x ∈ vs, valJustified env fs s x = true := hvs
                  have hascii : ∀ p ∈ kvs, ∀ t, p.2 = .str t → C06.IsAscii t := by
                    intro p hp t e
                    exact hdoc.strs t (.inObj kvs p hp (by rw [e]; exact .here))
                  have hgoodE : ∀ p ∈ kvs, ∀ fld, bindW .json fs p.1 = some fld → ∀ g v, decode .json env g fld.ty p.2 = .ok v → Good fld.name v := by
                    intro p hp fld hb g v hd x hx hname
                    obtain ⟨ps, hl, hk, _, F'', hvv⟩ := hbound p hp fld hb
                    have hj := hjust x hx
                    have hfldmem := mem_of_bindKey fs p.1 fld hb
                    cases x with
                    | numeric field nl c =>
                      simp only [fieldNameOf] at hname; subst hname
                      simp only [valJustified, Bool.and_eq_true, bne_iff_ne, ne_eq] at hj
                      obtain ⟨_, hj⟩ := hj
                      unfold numJustified at hj
                      cases hfind : fs.find? (fun fl => fl.name = fld.name) with
                      | none => simp [hfind] at hj
                      | some fl =>
                        have hflEq : fl = fld := eq_of_mem_same_name fs (·.name) hndN fl fld (List.mem_of_find?_eq_some hfind) hfldmem (by simpa using List.find?_some hfind)
                        subst hflEq
                        simp only [hfind, hk, hl, Bool.and_eq_true, beq_iff_eq, decide_eq_true_eq, Option.isNone_iff_eq_none, Bool.or_eq_true] at hj
                        obtain ⟨⟨⟨⟨⟨⟨⟨⟨⟨⟨hpr, hnb⟩, hpt⟩, hmu⟩, hlo⟩, hhi⟩, hxlo⟩, hxhi⟩, hx1⟩, hx2⟩, _⟩ := hj
                        exact num_decode_passes env defs fl.ty ps nl c p.2 F'' g v hpr hnb hpt hmu hlo hhi hxlo hxhi hx1 hx2 hvv hd
                    | string field mn mx pat nl =>
                      simp only [fieldNameOf] at hname; subst hname
                      simp only [valJustified, Bool.and_eq_true, bne_iff_ne, ne_eq] at hj
                      obtain ⟨_, hj⟩ := hj
                      unfold strJustified at hj
                      cases hfind : fs.find? (fun fl => fl.name = fld.name) with
                      | none => simp [hfind] at hj
                      | some fl =>
                        have hflEq : fl = fld := eq_of_mem_same_name fs (·.name) hndN fl fld (List.mem_of_find?_eq_some hfind) hfldmem (by simpa using List.find?_some hfind)
                        subst hflEq
                        simp only [hfind, hk, hl, Bool.and_eq_true, beq_iff_eq, decide_eq_true_eq, Bool.or_eq_true] at hj
                        obtain ⟨⟨⟨⟨⟨⟨hpr, hsb⟩, hpt⟩, hmn⟩, hmx⟩, hpa⟩, _⟩ := hj
                        exact str_decode_passes env defs fl.ty ps nl mn mx pat p.2 F'' g v hpr hsb hpt hmn hmx hpa (hascii p hp) hvv hd
                    | array field depth mn mx =>
                      simp only [fieldNameOf] at hname; subst hname
                      simp only [valJustified, Bool.and_eq_true, bne_iff_ne, ne_eq, beq_iff_eq] at hj
                      obtain ⟨⟨_, hdep⟩, hj⟩ := hj
                      subst hdep
                      unfold arrJustified at hj
                      cases hfind : fs.find? (fun fl => fl.name = fld.name) with
                      | none => simp [hfind] at hj
                      | some fl =>
                        have hflEq : fl = fld := eq_of_mem_same_name fs (·.name) hndN fl fld (List.mem_of_find?_eq_some hfind) hfldmem (by simpa using List.find?_some hfind)
                        subst hflEq
                        simp only [hfind, hk, hl, Bool.and_eq_true, beq_iff_eq, decide_eq_true_eq] at hj
                        obtain ⟨⟨⟨⟨⟨hpr, hsl⟩, hpt⟩, hmn⟩, hmx⟩, _⟩ := hj
                        cases hfty : fl.ty with
                        | slice t =>
                          rw [hfty] at hd hsl
                          simp only [sliceElemOK] at hsl
                          exact arr_decode_passes env defs t ps mn mx p.2 F'' g v hpr hpt hsl hmn hmx hvv hd
                        | _ => rw [hfty] at hsl; simp [sliceElemOK] at hsl
                    | required k => rfl
                    | _ => simp [valJustified] at hj
                  have hkeysE : ∀ p ∈ kvs, ∀ fld, bindW .json fs p.1 = some fld → (alookup fld.name (zeroOf.zeroFields env 32 fs)).isSome = true := by
                    intro p hp fld hb
                    obtain ⟨g, hg⟩ := zeroFields_lookup env fs 32 (by omega) hndN fld (mem_of_bindKey fs p.1 fld hb)
                    rw [hg]; rfl
                  have hfield := decodeStruct_field .json env fs Good kvs f1 _ r hgoodE hkeysE hr0
                  -- a required member is bound by some entry
                  have hreqBound : ∀ fl ∈ fs, ∀ ps, alookup fl.jsonKey s.node.props = some ps → s.node.required.contains fl.jsonKey = true →
                      BindsTo .json fs fl.name kvs := by
                    intro fl hflmem ps hl hreqk
                    rw [List.all_eq_true] at hreq
                    have hhas := hreq fl.jsonKey (by simpa using hreqk)
                    simp only [ahas] at hhas
                    cases hlk : alookup fl.jsonKey kvs with
                    | none => rw [hlk] at hhas; cases hhas
                    | some x =>
                      have hmem := alookup_mem fl.jsonKey x kvs hlk
                      obtain ⟨fld', hb', hk', _⟩ := hprop fl.jsonKey ps hl
                      have : fld' = fl := eq_of_mem_same_name fs (·.jsonKey) hndK fld' fl (mem_of_bindKey fs _ fld' hb') hflmem hk'
                      subst this
                      exact ⟨(fld'.jsonKey, x), hmem, fld', hb', rfl⟩
                  -- all after-validators pass
                  have hafter : ∀ x ∈ vs, afterPasses (.strct r) x = true := by
                    intro x hx
                    have hj := hjust x hx
                    cases x with
                    | numeric field nl c =>
                      simp only [valJustified, Bool.and_eq_true, bne_iff_ne, ne_eq] at hj
                      obtain ⟨hfne, hj⟩ := hj
                      show checkNumeric (fieldOf (.strct r) field) nl c = true
                      simp only [fieldOf, hfne, ↓reduceIte]
                      rcases hfield field with ⟨_, v, hlv, hg⟩ | ⟨hnb, he⟩
                      · rw [hlv]; exact hg _ hx rfl
                      · unfold numJustified at hj
                        cases hfind : fs.find? (fun fl => fl.name = field) with
                        | none => simp [hfind] at hj
                        | some fl =>
                          have hflmem := List.mem_of_find?_eq_some hfind
                          have hfln : fl.name = field := by simpa using List.find?_some hfind
                          cases hl : alookup fl.jsonKey s.node.props with
                          | none => simp [hfind, hl] at hj
                          | some ps =>
                            simp only [hfind, hl, Bool.and_eq_true, beq_iff_eq, decide_eq_true_eq, Option.isNone_iff_eq_none, Bool.or_eq_true] at hj
                            obtain ⟨⟨⟨⟨⟨⟨⟨⟨⟨⟨_, hnbase⟩, _⟩, _⟩, _⟩, _⟩, _⟩, _⟩, _⟩, _⟩, hnlreq⟩ := hj
                            obtain ⟨g, hg⟩ := zeroFields_lookup env fs 32 (by omega) hndN fl hflmem
                            rw [he, ← hfln, hg]
                            rcases hnlreq with hnl | hreqk
                            · subst hnl
                              cases hfty : fl.ty with
                              | ptr t => cases g <;> simp [zeroOf, checkNumeric, derefIf, NumCheck.accepts]
                              | int k => rw [hfty] at hnbase; cases k <;> simp [numBase] at hnbase
                              | _ => rw [hfty] at hnbase; simp [numBase] at hnbase
                            · exfalso; rw [← hfln] at hnb; exact hnb (hreqBound fl hflmem ps hl hreqk)
                    | string field mn mx pat nl =>
                      simp only [valJustified, Bool.and_eq_true, bne_iff_ne, ne_eq] at hj
                      obtain ⟨hfne, hj⟩ := hj
                      show checkString (fieldOf (.strct r) field) mn mx pat nl = true
                      simp only [fieldOf, hfne, ↓reduceIte]
                      rcases hfield field with ⟨_, v, hlv, hg⟩ | ⟨hnb, he⟩
                      · rw [hlv]; exact hg _ hx rfl
                      · unfold strJustified at hj
                        cases hfind : fs.find? (fun fl => fl.name = field) with
                        | none => simp [hfind] at hj
                        | some fl =>
                          have hflmem := List.mem_of_find?_eq_some hfind
                          have hfln : fl.name = field := by simpa using List.find?_some hfind
                          cases hl : alookup fl.jsonKey s.node.props with
                          | none => simp [hfind, hl] at hj
                          | some ps =>
                            simp only [hfind, hl, Bool.and_eq_true, beq_iff_eq, decide_eq_true_eq, Bool.or_eq_true] at hj
                            obtain ⟨⟨⟨⟨⟨⟨_, hsb⟩, _⟩, _⟩, _⟩, _⟩, hnlreq⟩ := hj
                            obtain ⟨g, hg⟩ := zeroFields_lookup env fs 32 (by omega) hndN fl hflmem
                            rw [he, ← hfln, hg]
                            rcases hnlreq with hnl | hreqk
                            · subst hnl
                              cases hfty : fl.ty with
                              | ptr t => cases g <;> simp [zeroOf, checkString, derefIf]
                              | _ => rw [hfty] at hsb; simp [strBase] at hsb
                            · exfalso; rw [← hfln] at hnb; exact hnb (hreqBound fl hflmem ps hl hreqk)
                    | array field depth mn mx =>
                      simp only [valJustified, Bool.and_eq_true, bne_iff_ne, ne_eq, beq_iff_eq] at hj
                      obtain ⟨⟨hfne, hdep⟩, hj⟩ := hj
                      subst hdep
                      show checkArray 1 (fieldOf (.strct r) field) mn mx = true
                      simp only [fieldOf, hfne, ↓reduceIte]
                      rcases hfield field with ⟨_, v, hlv, hg⟩ | ⟨hnb, he⟩
                      · rw [hlv]; exact hg _ hx rfl
                      · unfold arrJustified at hj
                        cases hfind : fs.find? (fun fl => fl.name = field) with
                        | none => simp [hfind] at hj
                        | some fl =>
                          have hflmem := List.mem_of_find?_eq_some hfind
                          have hfln : fl.name = field := by simpa using List.find?_some hfind
                          cases hl : alookup fl.jsonKey s.node.props with
                          | none => simp [hfind, hl] at hj
                          | some ps =>
                            simp only [hfind, hl, Bool.and_eq_true, beq_iff_eq, decide_eq_true_eq] at hj
                            obtain ⟨⟨⟨⟨⟨_, hsl⟩, _⟩, _⟩, _⟩, hmx0⟩ := hj
                            obtain ⟨g, hg⟩ := zeroFields_lookup env fs 32 (by omega) hndN fl hflmem
                            rw [he, ← hfln, hg]
                            cases hfty : fl.ty with
                            | slice t =>
                              have hz : zeroOf env g (.slice t) = .nil := by cases g <;> simp [zeroOf]
                              simp only [hz, Option.getD_some]
                              exact C07.absent_or_null_unchecked mn mx hmx0 0
                            | _ => rw [hfty] at hsl; simp [sliceElemOK] at hsl
                    | required k => rfl
                    | _ => simp [valJustified] at hj
                  let g := max (f1 + 1) (vs.length + 1)
                  have hdec' : decode .json env g d.ty (.obj kvs) = .ok (.strct r) := by
                    rw [hty]
                    exact Proofs.decode_ok_mono .json env _ _ _ (f1 + 1) g (Nat.le_max_left ..) (by rw [hdecS, hr0]; rfl)
                  refine ⟨g + 1, .strct r, ?_⟩
                  rw [struct_method_ok_iff .json env d vs m fs kvs g hbody hty hnoaddl
                    (by have : vs.length + 1 ≤ g := Nat.le_max_right ..; omega)
                    (by intro v hv'; have := hjust v hv'; cases v <;> simp [valJustified] at this <;> rfl)
                    (by
                      intro v hv'
                      have hj := hjust v hv'
                      cases v with
                      | numeric field nl c =>
                        simp only [valJustified, Bool.and_eq_true] at hj
                        obtain ⟨_, hj⟩ := hj
                        unfold numJustified at hj
                        cases hfind : fs.find? (fun fl => fl.name = field) with
                        | none => simp [hfind] at hj
                        | some fl =>
                          cases hl : alookup fl.jsonKey s.node.props with
                          | none => simp [hfind, hl] at hj
                          | some ps =>
                            simp only [hfind, hl, Bool.and_eq_true, Option.isNone_iff_eq_none] at hj
                            have hmu : c.mult = none := hj.1.1.1.1.1.1.1.2
                            simp [Checkable, nonDyadicFloat, hmu]
                      | dflt a b c => simp [valJustified] at hj
                      | _ => rfl)]
                  refine ⟨?_, hdec', hafter⟩
                  intro k hk
                  have := hjust _ hk
                  simp only [valJustified] at this
                  rw [List.all_eq_true] at hreq
                  exact hreq k (by simpa using this)
            | _ => simp [hbody, hty] at hc
      | slice t =>
        simp only [Bool.and_eq_true, beq_iff_eq] at hc
        obtain ⟨⟨⟨⟨⟨⟨htypes, _⟩, _⟩, _⟩, _⟩, htn⟩, hit⟩ := hc
        cases hitems : s.node.items with
        | none => simp [hitems] at hit
        | some it =>
          simp only [hitems] at hit
          obtain ⟨xs, rfl, F', hve⟩ := valid_arr_parts defs s j F hr htypes it hitems hv
          rw [acc_slice_iff env t xs htn]
          intro x hx
          obtain ⟨F'', hvx⟩ := validElems_mem defs it xs F' hve x hx
          exact ih t it hit F'' x hvx (hdoc.ofElem x hx)
      | string =>
        have ht : s.node.types = ["string"] := by
          simp only [Bool.and_eq_true, beq_iff_eq] at hc; exact hc.1
        have := valid_scalar defs s j F hr "string" ht hv
        cases j <;> simp [Spec.hasType] at this
        exact (acc_string_iff env _).mpr (Or.inr ⟨_, rfl⟩)
      | bool =>
        have ht : s.node.types = ["boolean"] := by simpa using hc
        have := valid_scalar defs s j F hr "boolean" ht hv
        cases j <;> simp [Spec.hasType] at this
        exact (acc_bool_iff env _).mpr (Or.inr ⟨_, rfl⟩)
      | float64 =>
        have ht : s.node.types = ["number"] := by simpa using hc
        have := valid_scalar defs s j F hr "number" ht hv
        cases j <;> simp [Spec.hasType] at this
        exact (acc_float_iff env _).mpr (Or.inr ⟨_, rfl⟩)
      | int k =>
        cases k <;> simp at hc
        have ht : s.node.types = ["integer"] := hc
        have := valid_scalar defs s j F hr "integer" ht hv
        cases j <;> simp [Spec.hasType] at this
        rename_i q
        exact (acc_int_iff env .int _).mpr (Or.inr ⟨q, rfl, this, hdoc.base.ints q .here this⟩)
      | iface => simp at hc
      | strct fs => simp at hc
      | nullTy => simp at hc
      | map t => simp at hc
      | qual a b => simp at hc
      | custom a b => simp at hc
      | fmt k => simp at hc
    · -- a reference: the target's schema decides
      simp only [ne_eq, hr, not_false_eq_true, ↓reduceIte] at hc
      cases F with
      | zero => simp [Spec.valid] at hv
      | succ F =>
        simp only [Spec.valid, ne_eq, hr, not_false_eq_true, ↓reduceIte] at hv
        cases hn : Spec.refName s.node.ref with
        | none => simp [hn] at hc
        | some name =>
          simp only [hn] at hc hv
          cases hl : alookup name defs with
          | none => simp [hl] at hc
          | some t =>
            simp only [hl] at hc hv
            exact ih ty t hc F j hv hdoc




/-- `certAll` admits ordinary generated programs with all three kinds of value validators (non-vacuity) -/
def exEnvA : Env := [
  { name := "Root", ty := .strct [
      { name := "Name", jsonName := "name", ty := .string, tags := "", jsonKey := "name", yamlKey := "name", omitEmpty := false },
      { name := "Nick", jsonName := "nick", ty := .ptr .string, tags := "", jsonKey := "nick", yamlKey := "nick", omitEmpty := true },
      { name := "Age", jsonName := "age", ty := .ptr (.int .int), tags := "", jsonKey := "age", yamlKey := "age", omitEmpty := true },
      { name := "Tags", jsonName := "tags", ty := .slice .string, tags := "", jsonKey := "tags", yamlKey := "tags", omitEmpty := true }],
    body := .plain [.required "name",
      .string "Name" 3 8 "" false, .string "Nick" 0 4 "^a" true,
      .numeric "Age" true { lo := some 0, hi := some 150, roundToInt := true },
      .array "Tags" 1 1 3] true }]

def exSchemaA : Schema := .mk { types := ["object"], required := ["name"], props := [
  ("name", .mk { types := ["string"], minLength := 3, maxLength := 8 }),
  ("nick", .mk { types := ["string"], maxLength := 4, pattern := "^a" }),
  ("age", .mk { types := ["integer"], minimum := some 0, maximum := some 150 }),
  ("tags", .mk { types := ["array"], minItems := 1, maxItems := 3, items := some (.mk { types := ["string"] }) })] }

example : certAll exEnvA [] 4 (.named "Root") exSchemaA = true := by decide

end GJS.Props.C02

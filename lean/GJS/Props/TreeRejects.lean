import GJS.Props.TreeExact
/-
  C03 and C04 at generator level, spelled out: for every tree of objects of the fragment of `tree_end_to_end`, the program
  the generator emits rejects every clean document in which — at ANY depth — a required key is missing
  (`tree_rejects_missing_required`) or a value has another JSON type than its position states
  (`tree_rejects_wrong_type`).  `MissingAt` / `WrongTypeAt` are notions of the reference side; `missing_invalid` /
  `wrong_type_invalid` show that the reference semantics judges such documents invalid.
-/
namespace GJS.Props.Tree
open GJS GJS.Props.Flat GJS.Props.C02

/-- somewhere in the document — at the top or below any chain of object members — a key the schema requires is missing -/
inductive MissingAt : Schema → Json → Prop where
  | here {s : Schema} {kvs : List (String × Json)} {k : String} :
      k ∈ s.node.required → ahas k kvs = false → MissingAt s (.obj kvs)
  | under {s ps : Schema} {kvs : List (String × Json)} {m : String} {v : Json} :
      (m, v) ∈ kvs → alookup m s.node.props = some ps → ps.node.ref = "" → MissingAt ps v → MissingAt s (.obj kvs)

/-- under the reference semantics such a document is invalid, for every fuel -/
theorem missing_invalid (defs : Spec.Defs) : ∀ {s : Schema} {j : Json}, MissingAt s j → s.node.ref = "" →
    ∀ F, Spec.valid F defs s j = false := by
  intro s j h
  induction h with
  | @here s kvs k hk hmiss =>
    intro hr F
    cases hv : Spec.valid F defs s (.obj kvs) with
    | false => rfl
    | true =>
      obtain ⟨hreq, _⟩ := valid_obj_parts defs s kvs F hr hv
      have := List.all_eq_true.mp hreq k hk
      rw [hmiss] at this; cases this
  | @under s ps kvs m v hmem hlk hpr _ ih =>
    intro hr F
    cases hv : Spec.valid F defs s (.obj kvs) with
    | false => rfl
    | true =>
      obtain ⟨_, F', hprops⟩ := valid_obj_parts defs s kvs F hr hv
      obtain ⟨F'', hval⟩ := validProps_mem defs s.node.props s.node.addl kvs kvs F' hprops (m, v) hmem ps hlk
      rw [ih hpr F''] at hval; cases hval

/-- **C04 at generator level**: for every tree of the fragment the generated program rejects every clean document in which
    a required key is missing at ANY depth -/
theorem tree_rejects_missing_required (cfg : Config) (hc : stdCfg cfg) (d : Nat) (t : Schema) (h : TreeFull d t)
    (hnd : (scopes d "Root" t).Nodup) (hd : d ≤ 5) (id : String) :
    ∃ out, Gen.run cfg { id := id, hasRoot := true, root := t, defs := [] } = .ok out ∧
      ∀ j, DocClean out.decls j → MissingAt t j → ¬ Acc .json out.decls (.named "Root") j := by
  obtain ⟨out, hrun, hiff⟩ := tree_end_to_end cfg hc d t h hnd hd id
  refine ⟨out, hrun, ?_⟩
  intro j hclean hmiss hacc
  obtain ⟨F, hF⟩ := (hiff j hclean).mp hacc
  rw [missing_invalid [] hmiss h.shape.ref F] at hF
  cases hF

/-- … and every clean document that is not an object at all -/
theorem tree_rejects_non_object (cfg : Config) (hc : stdCfg cfg) (d : Nat) (t : Schema) (h : TreeFull d t)
    (hnd : (scopes d "Root" t).Nodup) (hd : d ≤ 5) (id : String) :
    ∃ out, Gen.run cfg { id := id, hasRoot := true, root := t, defs := [] } = .ok out ∧
      ∀ j, DocClean out.decls j → (∀ kvs, j ≠ .obj kvs) → ¬ Acc .json out.decls (.named "Root") j := by
  obtain ⟨out, hrun, hiff⟩ := tree_end_to_end cfg hc d t h hnd hd id
  refine ⟨out, hrun, ?_⟩
  intro j hclean hno hacc
  obtain ⟨F, hF⟩ := (hiff j hclean).mp hacc
  obtain ⟨kvs, hk⟩ := valid_types_obj [] t j F h.shape.ref h.shape.types hF
  exact hno kvs hk

/-- non-vacuity: the example tree, a document lacking `city` inside `address` -/
example : MissingAt exTree (.obj [("name", .str "n"), ("address", .obj [("zip", .num 1)])]) :=
  .under (m := "address") (v := .obj [("zip", .num 1)]) (ps := exAddr) (by simp) (by simp [exTree, Schema.node, alookup]) rfl
    (.here (k := "city") (by simp [exAddr, Schema.node]) (by simp [ahas, alookup]))

/-- a value of another JSON type than the (single) type its position states — at the top, below object members, or among
    the elements of an array -/
inductive WrongTypeAt : Schema → Json → Prop where
  | here {s : Schema} {j : Json} {T : String} : s.node.types = [T] → Spec.hasType T j = false → WrongTypeAt s j
  | under {s ps : Schema} {kvs : List (String × Json)} {m : String} {v : Json} :
      (m, v) ∈ kvs → alookup m s.node.props = some ps → ps.node.ref = "" → WrongTypeAt ps v → WrongTypeAt s (.obj kvs)
  | elem {s it : Schema} {xs : List Json} {x : Json} :
      x ∈ xs → s.node.items = some it → it.node.ref = "" → WrongTypeAt it x → WrongTypeAt s (.arr xs)

theorem validElems_mem' (defs : Spec.Defs) (it : Schema) : ∀ (xs : List Json) (F : Nat), Spec.validElems F defs it xs = true →
    ∀ x ∈ xs, ∃ F', Spec.valid F' defs it x = true := by
  intro xs
  induction xs with
  | nil => intro _ _ x hx; cases hx
  | cons y rest ih =>
    intro F h x hx
    cases F with
    | zero => simp [Spec.validElems] at h
    | succ F =>
      simp only [Spec.validElems, Bool.and_eq_true] at h
      rcases List.mem_cons.mp hx with e | e
      · subst e; exact ⟨F, h.1⟩
      · exact ih F h.2 x e

theorem wrong_type_invalid (defs : Spec.Defs) : ∀ {s : Schema} {j : Json}, WrongTypeAt s j → s.node.ref = "" →
    ∀ F, Spec.valid F defs s j = false := by
  intro s j h
  induction h with
  | @here s j T ht hno =>
    intro hr F
    cases F with
    | zero => simp [Spec.valid]
    | succ F => simp [Spec.valid, hr, ht, hno]
  | @under s ps kvs m v hmem hlk hpr _ ih =>
    intro hr F
    cases hv : Spec.valid F defs s (.obj kvs) with
    | false => rfl
    | true =>
      obtain ⟨_, F', hprops⟩ := valid_obj_parts defs s kvs F hr hv
      obtain ⟨F'', hval⟩ := validProps_mem defs s.node.props s.node.addl kvs kvs F' hprops (m, v) hmem ps hlk
      rw [ih hpr F''] at hval; cases hval
  | @elem s it xs x hmem hit hir _ ih =>
    intro hr F
    cases hv : Spec.valid F defs s (.arr xs) with
    | false => rfl
    | true =>
      cases F with
      | zero => simp [Spec.valid] at hv
      | succ F =>
        simp only [Spec.valid, hr, ne_eq, not_true_eq_false, if_false, hit, Bool.and_eq_true] at hv
        obtain ⟨F', hval⟩ := validElems_mem' defs it xs F hv.2.2 x hmem
        rw [ih hir F'] at hval; cases hval

/-- **C03 at generator level**: for every tree of the fragment the generated program rejects every clean document that has,
    at ANY depth, a value of another JSON type than its position states -/
theorem tree_rejects_wrong_type (cfg : Config) (hc : stdCfg cfg) (d : Nat) (t : Schema) (h : TreeFull d t)
    (hnd : (scopes d "Root" t).Nodup) (hd : d ≤ 5) (id : String) :
    ∃ out, Gen.run cfg { id := id, hasRoot := true, root := t, defs := [] } = .ok out ∧
      ∀ j, DocClean out.decls j → WrongTypeAt t j → ¬ Acc .json out.decls (.named "Root") j := by
  obtain ⟨out, hrun, hiff⟩ := tree_end_to_end cfg hc d t h hnd hd id
  refine ⟨out, hrun, ?_⟩
  intro j hclean hwrong hacc
  obtain ⟨F, hF⟩ := (hiff j hclean).mp hacc
  rw [wrong_type_invalid [] hwrong h.shape.ref F] at hF
  cases hF

/-- non-vacuity: a string where the nested `zip` wants an integer -/
example : WrongTypeAt exTree (.obj [("name", .str "n"), ("address", .obj [("city", .str "c"), ("zip", .str "x")])]) :=
  .under (m := "address") (v := .obj [("city", .str "c"), ("zip", .str "x")]) (ps := exAddr) (by simp) (by simp [exTree, Schema.node, alookup]) rfl
    (.under (m := "zip") (v := .str "x") (ps := .mk { types := ["integer"], minimum := some 0 }) (by simp) (by simp [exAddr, Schema.node, alookup]) rfl
      (.here (T := "integer") rfl rfl))
end GJS.Props.Tree

import GJS.Model.Run
import GJS.Cert
import GJS.Proofs.Decode
/-
  C03 — a value of the wrong JSON type is rejected; null is accepted where allowed.
-/
namespace GJS.Props.C03
open GJS GJS.Proofs

/-- schema level: at a position reached through declared properties, array items and references, the
    document holds a non-null value whose JSON type is not the single type the schema states there
    (an integral number IS an integer and a number; a non-integral number is not an integer) -/
inductive SpecWrongType (defs : Spec.Defs) : Schema → Json → Prop where
  | here {s d T} : s.node.ref = "" → singleType s = some T → d ≠ .null → Spec.hasType T d = false →
      SpecWrongType defs s d
  | prop {s kvs k ps x} : s.node.ref = "" → (k, ps) ∈ s.node.props → (k, x) ∈ kvs →
      SpecWrongType defs ps x → SpecWrongType defs s (.obj kvs)
  | item {s xs it x} : s.node.ref = "" → s.node.items = some it → x ∈ xs → SpecWrongType defs it x →
      SpecWrongType defs s (.arr xs)
  | ref {s name t d} : s.node.ref ≠ "" → Spec.refName s.node.ref = some name → alookup name defs = some t →
      SpecWrongType defs t d → SpecWrongType defs s d

/-- a Go type whose top level is the JSON type `T` cannot hold a non-null value that is not a `T` (G1, G2) -/
theorem top_mismatch (env : Env) (T : String) (t : GoTy) (d : Json) (hm : topMatches T t = true)
    (hd : Spec.hasType T d = false) (hn : d ≠ .null) : FailsAt env t d := by
  cases t with
  | string => simp only [topMatches, beq_iff_eq] at hm; subst hm
              apply FailsAt.prim _ hn; cases d <;> simp_all [primMismatch, Spec.hasType]
  | fmt k => simp only [topMatches, beq_iff_eq] at hm; subst hm
             apply FailsAt.prim _ hn; cases d <;> simp_all [primMismatch, Spec.hasType]
  | bool => simp only [topMatches, beq_iff_eq] at hm; subst hm
            apply FailsAt.prim _ hn; cases d <;> simp_all [primMismatch, Spec.hasType]
  | float64 => simp only [topMatches, beq_iff_eq] at hm; subst hm
               apply FailsAt.prim _ hn; cases d <;> simp_all [primMismatch, Spec.hasType]
  | int k => simp only [topMatches, beq_iff_eq] at hm; subst hm
             apply FailsAt.prim _ hn; cases d <;> simp_all [primMismatch, Spec.hasType]
  | slice e => simp only [topMatches, beq_iff_eq] at hm; subst hm
               apply FailsAt.shape _ hn; cases d <;> simp_all [shapeMismatch, Spec.hasType]
  | strct fs => simp only [topMatches, beq_iff_eq] at hm; subst hm
                apply FailsAt.shape _ hn; cases d <;> simp_all [shapeMismatch, Spec.hasType]
  | map e => simp only [topMatches, beq_iff_eq] at hm; subst hm
             apply FailsAt.shape _ hn; cases d <;> simp_all [shapeMismatch, Spec.hasType]
  | _ => simp [topMatches] at hm

theorem certTypeProps_mem {env : Env} {defs : Spec.Defs} {fs : List Field} {props : List (String × Schema)}
    {k : String} {ps : Schema} (hmem : (k, ps) ∈ props) :
    ∀ f, certTypeProps env defs f fs props = true →
      ∃ f' fld, f' < f ∧ bindKey fs k = some fld ∧ certType env defs f' fld.ty ps = true := by
  induction props with
  | nil => cases hmem
  | cons p rest ih =>
    obtain ⟨k', ps'⟩ := p
    intro f h
    cases f with
    | zero => simp [certTypeProps] at h
    | succ f =>
      simp only [certTypeProps, Bool.and_eq_true] at h
      obtain ⟨h1, h3⟩ := h
      rcases List.mem_cons.mp hmem with heq | hmem'
      · cases heq
        cases hb : bindKey fs k with
        | none => simp [hb] at h1
        | some fld =>
          simp only [hb] at h1
          exact ⟨f, fld, Nat.lt_succ_self f, rfl, h1⟩
      · obtain ⟨f', fld, hlt, rest⟩ := ih hmem' f h3
        exact ⟨f', fld, Nat.lt_succ_of_lt hlt, rest⟩

theorem isEmpty_not_mem {α : Type} {l : List α} {a : α} (h : l.isEmpty = true) : a ∉ l := by
  cases l with
  | nil => simp
  | cons _ _ => simp at h

theorem not_obj_of_hasType {d : Json} (h : Spec.hasType "object" d = false) : ∀ kvs, d ≠ .obj kvs := by
  intro kvs he; subst he; simp [Spec.hasType] at h

theorem not_arr_of_hasType {d : Json} (h : Spec.hasType "array" d = false) : ∀ xs, d ≠ .arr xs := by
  intro xs he; subst he; simp [Spec.hasType] at h

theorem cert_wrong_type_le {env : Env} {defs : Spec.Defs} :
    ∀ (n f : Nat), f ≤ n → ∀ (ty : GoTy) (s : Schema) (d : Json), certType env defs f ty s = true →
      SpecWrongType defs s d → FailsAt env ty d := by
  intro n
  induction n with
  | zero =>
    intro f hf ty s d h
    have : f = 0 := by omega
    subst this; simp [certType] at h
  | succ n ihn =>
    intro f hf ty s d hc hm
    cases f with
    | zero => simp [certType] at hc
    | succ f =>
    have hfn : f ≤ n := by omega
    have ih : ∀ (ty : GoTy) (s : Schema) (d : Json), certType env defs f ty s = true → SpecWrongType defs s d →
        FailsAt env ty d := ihn f hfn
    unfold certType at hc
    by_cases href : s.node.ref ≠ ""
    · rw [if_pos href] at hc
      cases hm with
      | here h0 => exact absurd h0 href
      | prop h0 => exact absurd h0 href
      | item h0 => exact absurd h0 href
      | @ref _ name t _ _ hn hl hsub =>
        simp only [hn, hl] at hc
        exact ih ty t d hc hsub
    · have href' : s.node.ref = "" := by simpa using href
      rw [if_neg href] at hc
      cases ty with
      | ptr t => exact .ptr (ih t s d hc hm)
      | named nm =>
        simp only at hc
        cases hres : env.resolve 8 nm with
        | none => simp [hres] at hc
        | some dd =>
          simp only [hres] at hc
          cases hbody : dd.body with
          | alias t => simp [hbody] at hc
          | enum vals wr ic cs m =>
            simp only [hbody, Bool.and_eq_true] at hc
            obtain ⟨⟨⟨hmt, hpe⟩, hie⟩, htop⟩ := hc
            subst hmt
            cases hm with
            | @here _ _ T _ hst hnn hht =>
              simp only [hst] at htop
              exact .enumUnder hres hbody (top_mismatch env T _ d htop hht hnn)
            | prop _ hp => exact absurd hp (isEmpty_not_mem hpe)
            | item _ hi => simp [hi] at hie
            | ref h0 => exact absurd href' h0
          | plain vs m =>
            simp only [hbody, Bool.and_eq_true, Bool.not_eq_true'] at hc
            obtain ⟨hfmt, hc⟩ := hc
            cases hty : dd.ty with
            | strct fs =>
              simp only [hty, Bool.and_eq_true] at hc
              obtain ⟨⟨hobj, hitems⟩, hprops⟩ := hc
              cases hm with
              | @here _ _ T _ hst hnn hht =>
                simp only [hst, beq_iff_eq] at hobj
                subst hobj
                refine .under hres hbody hfmt ?_
                rw [hty]
                apply FailsAt.shape _ hnn
                cases d <;> simp_all [shapeMismatch, Spec.hasType]
              | @prop _ kvs k ps x _ hp hx hsub =>
                obtain ⟨f', fld, hlt, hb, hcf⟩ := certTypeProps_mem hp f hprops
                have hsubm : FailsAt env fld.ty x := ihn f' (by omega) fld.ty ps x hcf hsub
                refine .under hres hbody hfmt ?_
                rw [hty]
                exact .field hx hb hsubm
              | item _ hi => simp [hi] at hitems
              | ref h0 => exact absurd href' h0
            | named _ => simp [hty] at hc
            | ptr _ => simp [hty] at hc
            | _ =>
              all_goals
                simp only [hty] at hc
                refine .under hres hbody hfmt ?_
                rw [hty]
                exact ih _ s d hc hm
      | slice t =>
        simp only [Bool.and_eq_true] at hc
        obtain ⟨⟨harr, hpe⟩, hit⟩ := hc
        cases hm with
        | @here _ _ T _ hst hnn hht =>
          simp only [hst, beq_iff_eq] at harr
          subst harr
          apply FailsAt.shape _ hnn
          cases d <;> simp_all [shapeMismatch, Spec.hasType]
        | prop _ hp => exact absurd hp (isEmpty_not_mem hpe)
        | @item _ xs it x _ hi hx hsub =>
          simp only [hi] at hit
          exact .elem hx (ih t it x hit hsub)
        | ref h0 => exact absurd href' h0
      | strct fs => simp at hc
      | map t =>
        simp only [Bool.and_eq_true] at hc
        obtain ⟨⟨hobj, hpe⟩, hie⟩ := hc
        cases hm with
        | @here _ _ T _ hst hnn hht =>
          simp only [hst, beq_iff_eq] at hobj
          subst hobj
          apply FailsAt.shape _ hnn
          cases d <;> simp_all [shapeMismatch, Spec.hasType]
        | prop _ hp => exact absurd hp (isEmpty_not_mem hpe)
        | item _ hi => simp [hi] at hie
        | ref h0 => exact absurd href' h0
      | _ =>
        all_goals
          simp only [Bool.and_eq_true] at hc
          obtain ⟨⟨hpe, hie⟩, htop⟩ := hc
          cases hm with
          | @here _ _ T _ hst hnn hht =>
            simp only [hst] at htop
            exact top_mismatch env T _ d htop hht hnn
          | prop _ hp => exact absurd hp (isEmpty_not_mem hpe)
          | item _ hi => simp [hi] at hie
          | ref h0 => exact absurd href' h0

/-- **C03 (wrong type rejected)**: for every generated program whose root type is certified for its schema,
    every document that gives some typed position — at any depth, through references, arrays, pointers,
    named types — a non-null value of another JSON type is rejected.  All documents, all fuels. -/
theorem cert_rejects_wrong_type {env : Env} {defs : Spec.Defs} (f : Nat) (root : String) (s : Schema) (d : Json)
    (hc : certType env defs f (.named root) s = true) (hm : SpecWrongType defs s d) :
    ∀ fuel, ¬ Accepted (decode .json env fuel (.named root) d) :=
  fails_not_accepted (cert_wrong_type_le f f (Nat.le_refl f) (.named root) s d hc hm)

/-- **C03 (null where allowed)**: `null` at a pointer-typed (nullable or optional) position decodes to nil -/
theorem null_into_pointer (env : Env) (t : GoTy) (f : Nat) :
    decode .json env (f + 1) (.ptr t) .null = .ok .nil := by
  simp [decode]

/-- a non-integral number is not an integer: run-time rule G2 as the model states it -/
theorem fraction_into_int_fails (env : Env) (k : IntKind) (q : Rat) (hq : q.den ≠ 1) :
    ∀ fuel, ¬ Accepted (decode .json env fuel (.int k) (.num q)) :=
  fails_not_accepted (.prim (by simp [primMismatch, hq]) (by simp))

end GJS.Props.C03

import GJS.Model.Run
import GJS.Spec
import GJS.Proofs.Basic
/-
  C06 — string length and pattern constraints are enforced exactly.
-/
namespace GJS.Props.C06
open GJS

/-- every character is ASCII -/
def IsAscii (s : String) : Prop := ∀ c ∈ s.toList, c.val ≤ 127

/-- on ASCII strings Go's `len` (bytes) is the number of characters -/
theorem ascii_bytes_eq_length (s : String) (h : IsAscii s) : utf8Len s = s.length := by
  unfold utf8Len
  rw [Proofs.sum_map_one _ _ (fun c hc => Char.utf8Size_eq_one_iff.mpr (h c hc))]
  exact String.length_toList

/-- **C06**: on ASCII strings (or without length keywords) the emitted test accepts exactly the strings whose
    length in characters lies within the limits and that match the pattern.  Limits are non-negative
    (JSON Schema requires it). -/
theorem string_check_exact_ascii (minLen maxLen : Int) (pattern s : String) (h : IsAscii s) :
    stringPasses minLen maxLen pattern s = true ↔
      (Spec.lengthOK minLen maxLen s = true ∧ Spec.patternOK pattern s = true) := by
  unfold stringPasses Spec.lengthOK
  rw [ascii_bytes_eq_length s h]
  have hp : (decide (pattern = "") || Spec.patternOK pattern s) = Spec.patternOK pattern s := by
    by_cases hpe : pattern = ""
    · subst hpe; simp [Spec.patternOK]
    · simp [hpe]
  rw [hp, Bool.and_assoc, Proofs.lenEquiv, Bool.and_eq_true]
  exact And.comm

/-- without length keywords no ASCII hypothesis is needed -/
theorem string_check_exact_pattern_only (pattern s : String) :
    stringPasses 0 0 pattern s = true ↔ (Spec.lengthOK 0 0 s = true ∧ Spec.patternOK pattern s = true) := by
  unfold stringPasses Spec.lengthOK
  by_cases hpe : pattern = ""
  · subst hpe; simp [Spec.patternOK]
  · simp [hpe]

/-- an absent or null optional string (nil pointer) is never checked -/
theorem absent_or_null_unchecked (minLen maxLen : Int) (pattern : String) :
    checkString .nil minLen maxLen pattern true = true := rfl

/-- a required / non-nillable string is always checked -/
theorem present_checked (minLen maxLen : Int) (pattern s : String) (nl : Bool) :
    checkString (if nl then .ptrTo (.str s) else .str s) minLen maxLen pattern nl = stringPasses minLen maxLen pattern s := by
  cases nl <;> rfl

/-- known finding K1: lengths are counted in bytes, so the full statement is false of the code -/
theorem KF_bytes_counterexample :
    stringPasses 0 3 "" "日本語" = false ∧ Spec.lengthOK 0 3 "日本語" = true ∧ Spec.patternOK "" "日本語" = true := by
  refine ⟨by decide +kernel, by decide +kernel, by decide +kernel⟩

example : IsAscii "abc" := by intro c hc; simp at hc; rcases hc with rfl | rfl | rfl <;> decide
example : stringPasses 2 3 "^a" "abc" = true := by decide +kernel
example : stringPasses 2 3 "^a" "abcd" = false := by decide +kernel

/-- since fix R13 a pattern with a carriage return (or a backquote) is applied exactly: CR LF does not match
    "a", LF, "b" (before, the raw string literal silently dropped the CR: the former finding K31) -/
theorem carriage_return_pattern_exact :
    stringPasses 0 0 "\r\n" "a\nb" = false ∧ stringPasses 0 0 "\r\n" "a\r\nb" = true := by
  constructor <;> decide +kernel

end GJS.Props.C06

import GJS.Schema
import GJS.Model.Gen
/-
  C13 — equivalent spellings of a schema generate identical code.
  Parse level: the re-spellings are identified before the generator ever sees them.
-/
namespace GJS.Props.C13
open GJS

/-- `"type": "x"` and `"type": ["x"]` decode to the same TypeList (x non-empty) -/
theorem type_string_or_list (kvs kvs' : List (String × Json)) (s : String) (hs : s ≠ "")
    (h1 : alookup "type" kvs = some (.str s)) (h2 : alookup "type" kvs' = some (.arr [.str s])) :
    parseTypeList kvs = parseTypeList kvs' := by
  simp [parseTypeList, h1, h2, hs, List.mapM_cons, List.mapM_nil, bind, Except.bind, pure, Except.pure]

/-- `true` and `{}` are the same anything-schema -/
theorem true_is_empty_schema (f : Nat) : parseType (f + 1) (.bool true) = parseType (f + 1) (.obj []) := by
  simp [parseType, getStrField, parseTypeList, getRatField, getIntField, getStrList, parseOpt, parseMap,
    parseMapOpt, parseList, alookup, getXB, bind, Except.bind, pure, Except.pure]

/-- `$id` wins when present, `id` is the fallback: one of them alone gives the same id -/
theorem id_fallback (s : String) :
    (if ("" : String) = "" then s else "") = s ∧ (if s = "" then "" else s) = s := by
  constructor
  · simp
  · by_cases h : s = "" <;> simp [h]

/-- `$defs` wins when non-nil, `definitions` is the fallback: one of them alone gives the same definitions -/
theorem defs_fallback (d : List (String × Schema)) :
    (match (some d : Option (List (String × Schema))), (none : Option (List (String × Schema))) with
     | some x, _ => x | none, o => o.getD []) =
    (match (none : Option (List (String × Schema))), (some d : Option (List (String × Schema))) with
     | some x, _ => x | none, o => o.getD []) := rfl

/-- whether a composition's branches are "all primitive" (then the composed position is `interface{}`) does not
    depend on the order in which a branch lists its types: `["null","object"]` = `["object","null"]` (R10) -/
theorem primitive_list_order_free (bs : List Schema) (p : Schema → Schema)
    (h : ∀ b, (p b).node.types.Perm b.node.types) :
    isPrimitiveTypeList (bs.map p) = isPrimitiveTypeList bs := by
  unfold isPrimitiveTypeList
  induction bs with
  | nil => rfl
  | cons b bs ih =>
    simp only [List.map_cons, List.all_cons]
    rw [ih, (h b).all_eq]

/-- a nullable object branch is not primitive, in either spelling -/
theorem nullable_object_not_primitive (n : NodeF Schema) :
    isPrimitiveTypeList [.mk { n with types := ["null", "object"] }] = false ∧
    isPrimitiveTypeList [.mk { n with types := ["object", "null"] }] = false := by
  constructor <;> simp [isPrimitiveTypeList, Schema.node, isPrimitiveTypeName]

end GJS.Props.C13

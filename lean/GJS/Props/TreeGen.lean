import GJS.Props.FlatGen
/-
  The generator on TREES of objects (C02–C04 at generator level; DESIGN §9.2): for every schema that is a tree of
  objects with scalar leaves the model generator emits one struct declaration per object, members before parents, in
  sorted key order — `run_tree`, by induction on the depth (`DeclaredOK`, `declared_step`) with the per-property loop
  carried through a growing state (`Grown`, `Fresh`).  Core Lean only.
-/
namespace GJS.Props.Tree
open GJS GJS.Props.Flat

/-- an array of scalars as a member: `items` is a plain scalar, item counts allowed, nothing else -/
def ArrProp (p : Schema) : Prop :=
  p.node.types = ["array"] ∧ p.node.ref = "" ∧ p.node.enum = none ∧ p.node.ext = none ∧ p.node.anyOf = [] ∧ p.node.allOf = [] ∧
  p.node.default = none ∧ (∃ it, p.node.items = some it) ∧ FlatProp (itemsOf p)

/-- the Go type of a member before optional members are wrapped in a pointer -/
def memTy (scope : String) (t : Schema) (n : String) : GoTy :=
  if isObj (propOf t n) then .named (scope ++ fname n)
  else if isArr (propOf t n) then .slice (scalarTy (itemsOf (propOf t n)))
  else scalarTy (propOf t n)

/-- optional members are pointers, except slices (nil already says "absent") -/
def memFty (scope : String) (t : Schema) (n : String) : GoTy :=
  if t.node.required.contains n || isArr (propOf t n) then memTy scope t n else .ptr (memTy scope t n)

def fieldT (cfg : Config) (scope : String) (t : Schema) (name : String) : Field :=
  let prop := propOf t name
  let isRequired := t.node.required.contains name
  { name := fname name, jsonName := name, ty := memFty scope t name, tags := mkTags cfg name isRequired,
    jsonKey := if cfg.tags.contains "json" then name else fname name,
    yamlKey := if cfg.tags.contains "yaml" then name else (fname name).toLower,
    omitEmpty := !isRequired && cfg.tags.contains "json",
    comment := if prop.node.description = "" then s!"{fname name} corresponds to the JSON schema field \"{name}\"." else prop.node.description }

def metaT (scope : String) (t : Schema) (name : String) : FieldMeta :=
  { name := fname name, jsonName := name, sch := propOf t name, dflt := none, ty := memFty scope t name }

def memVs (t : Schema) (n : String) : List Validator :=
  if isObj (propOf t n) then []
  else if isArr (propOf t n) then
    (if (propOf t n).node.minItems ≠ 0 ∨ (propOf t n).node.maxItems ≠ 0 then
      [Validator.array (fname n) 1 (propOf t n).node.minItems (propOf t n).node.maxItems] else [])
  else propVs (fname n) (propOf t n) (!t.node.required.contains n)

def nodeVs (t : Schema) : List Validator :=
  (flatReq t).map Validator.required ++ (sortedKeys t.node.props).flatMap (memVs t)

def nodeDecl (cfg : Config) (scope : String) (t : Schema) : Decl :=
  { name := scope, ty := .strct ((sortedKeys t.node.props).map (fieldT cfg scope t)), comment := t.node.description,
    body := if cfg.onlyModels then .plain [] false else .plain (nodeVs t) (!(nodeVs t).isEmpty),
    schema := keptSchema cfg t }

/-- the declarations generated for a tree of objects: every object member's declarations (in sorted key order, depth
    first) before the node's own -/
def treeDecls (cfg : Config) : Nat → String → Schema → List Decl
  | 0, _, _ => []
  | d + 1, scope, t =>
    (sortedKeys t.node.props).flatMap (fun n =>
      if isObj (propOf t n) then treeDecls cfg d (scope ++ fname n) (propOf t n) else []) ++ [nodeDecl cfg scope t]

structure ObjShape (t : Schema) : Prop where
  types : t.node.types = ["object"]
  ref : t.node.ref = ""
  enum : t.node.enum = none
  ext : t.node.ext = none
  anyOf : t.node.anyOf = []
  allOf : t.node.allOf = []
  addl : t.node.addl = none
  anyOfCount : t.node.anyOfCount = 0
  subElem : t.node.subElem = false
  props : t.node.props ≠ []
  dflt : t.node.default = none
  small : t.node.props.length ≤ 31
  distinct : ((sortedKeys t.node.props).map fname).Nodup

def MemberName (t : Schema) (n : String) : Prop :=
  (∃ prop, alookup n t.node.props = some prop) ∧ tagNameOK n = true ∧ isAsciiStr n = true ∧ fname n ≠ "AdditionalProperties"

/-- a tree of objects whose leaves are scalars, at most `d` levels deep -/
def TreeOK : Nat → Schema → Prop
  | 0, _ => False
  | d + 1, t => ObjShape t ∧ ∀ n ∈ sortedKeys t.node.props, MemberName t n ∧
      (FlatProp (propOf t n) ∨ (isObj (propOf t n) = true ∧ TreeOK d (propOf t n)) ∨ ArrProp (propOf t n))

theorem flatMap_congr' {α β : Type} (l : List α) (f g : α → List β) (h : ∀ a ∈ l, f a = g a) : l.flatMap f = l.flatMap g := by
  induction l with
  | nil => rfl
  | cons a l ih =>
    simp only [List.flatMap_cons]
    rw [h a (by simp), ih (fun b hb => h b (by simp [hb]))]

theorem scopes_names (cfg : Config) : ∀ d scope t, (treeDecls cfg d scope t).map (·.name) = scopes d scope t := by
  intro d
  induction d with
  | zero => intro _ _; rfl
  | succ d ih =>
    intro scope t
    simp only [treeDecls, scopes, List.map_append, List.map_flatMap, List.map_cons, List.map_nil, nodeDecl]
    congr 1
    apply flatMap_congr'
    intro n _
    split
    · exact ih _ _
    · rfl

/-- the names in `S` are unused in the state: not declared, not in progress -/
def Fresh (st : GenSt) (S : List String) : Prop :=
  ∀ s ∈ S, s ∉ st.decls.map (·.name) ∧ s ∉ st.inProgress.map (·.1)

/-- what a successful generation below `scope` does to the state -/
structure Grown (st st' : GenSt) (new : List Decl) : Prop where
  decls : st'.decls = st.decls ++ new
  inProgress : st'.inProgress = st.inProgress
  hidden : st'.hidden = st.hidden

theorem Grown.of_same {a b c : GenSt} {new : List Decl} (h1 : Grown a b new) (h2 : Same b c) : Grown a c new :=
  ⟨by rw [h2.decls, h1.decls], by rw [h2.inProgress, h1.inProgress], by rw [h2.hidden, h1.hidden]⟩

theorem Same.grown {a b c : GenSt} {new : List Decl} (h1 : Same a b) (h2 : Grown b c new) : Grown a c new :=
  ⟨by rw [h2.decls, h1.decls], by rw [h2.inProgress, h1.inProgress], by rw [h2.hidden, h1.hidden]⟩

theorem Grown.trans {a b c : GenSt} {n1 n2 : List Decl} (h1 : Grown a b n1) (h2 : Grown b c n2) : Grown a c (n1 ++ n2) :=
  ⟨by rw [h2.decls, h1.decls, List.append_assoc], by rw [h2.inProgress, h1.inProgress], by rw [h2.hidden, h1.hidden]⟩

theorem Grown.nil (a : GenSt) : Grown a a [] := ⟨by simp, rfl, rfl⟩

/-- the statement proved by induction on the depth: generating the declared type of a tree node in a state where its
    names are fresh appends exactly `treeDecls` -/
def DeclaredOK (cfg : Config) (doc : SchemaDoc) (d : Nat) : Prop :=
  ∀ (t : Schema) (scope : String) (st : GenSt) (f : Nat), TreeOK d t → (scopes d scope t).Nodup → Fresh st (scopes d scope t) →
    st.hidden = [] → 40 * d ≤ f →
    ∃ st', (generateDeclaredType cfg doc f t scope none).run st = .ok (.named scope, st') ∧ Grown st st' (treeDecls cfg d scope t)


theorem treeDecls_struct (cfg : Config) : ∀ d scope t, ∀ dd ∈ treeDecls cfg d scope t,
    (∃ fs, dd.ty = .strct fs) ∧ (∃ vs m, dd.body = .plain vs m) := by
  intro d
  induction d with
  | zero => intro _ _ dd h; cases h
  | succ d ih =>
    intro scope t dd h
    simp only [treeDecls, List.mem_append, List.mem_flatMap, List.mem_singleton] at h
    rcases h with ⟨n, _, hn⟩ | h
    · split at hn
      · exact ih _ _ dd hn
      · cases hn
    · subst h
      refine ⟨⟨_, rfl⟩, ?_⟩
      simp only [nodeDecl]
      split
      · exact ⟨_, _, rfl⟩
      · exact ⟨_, _, rfl⟩

theorem treeDecls_last (cfg : Config) (d : Nat) (scope : String) (t : Schema) :
    nodeDecl cfg scope t ∈ treeDecls cfg (d + 1) scope t := by
  simp [treeDecls]

def declPred (n : String) (d : Decl) : Bool :=
  d.name == n && (match d.body with | .alias _ => false | _ => true)

theorem findDecl_eq (st : GenSt) (n : String) : findDecl st n = st.decls.find? (declPred n) := rfl

/-- after the declarations of a fresh tree have been appended, its root name denotes a struct declaration -/
theorem findDecl_grown (cfg : Config) (st st' : GenSt) (d : Nat) (scope : String) (t : Schema)
    (hg : Grown st st' (treeDecls cfg (d + 1) scope t)) (hf : scope ∉ st.decls.map (·.name)) :
    ∃ dd fs, findDecl st' scope = some dd ∧ dd.ty = .strct fs := by
  rw [findDecl_eq, hg.decls, List.find?_append]
  have h1 : st.decls.find? (declPred scope) = none := by
    rw [List.find?_eq_none]
    intro x hx hp
    simp only [declPred, Bool.and_eq_true, beq_iff_eq] at hp
    exact hf (List.mem_map.mpr ⟨x, hx, hp.1⟩)
  rw [h1]
  simp only [Option.none_or]
  cases hfind : (treeDecls cfg (d + 1) scope t).find? (declPred scope) with
  | some dd =>
    obtain ⟨⟨fs, hfs⟩, _⟩ := treeDecls_struct cfg (d + 1) scope t dd (List.mem_of_find?_eq_some hfind)
    exact ⟨dd, fs, rfl, hfs⟩
  | none =>
    rw [List.find?_eq_none] at hfind
    have := hfind _ (treeDecls_last cfg d scope t)
    exfalso; apply this
    simp only [declPred, nodeDecl, beq_self_eq_true, Bool.true_and]
    by_cases hom : cfg.onlyModels = true <;> simp [hom]

theorem wrap_named (st : GenSt) (n : String) (dd : Decl) (fs : List Field) (h : findDecl st n = some dd) (hty : dd.ty = .strct fs) :
    wrapPtr st (.named n) = .ptr (.named n) ∧ isNillable st (.named n) = false := by
  simp [wrapPtr, isNillable, h, hty]

theorem TreeOK.shape {d : Nat} {t : Schema} (h : TreeOK d t) : ObjShape t := by
  cases d with
  | zero => exact absurd h (by simp [TreeOK])
  | succ d => exact h.1

theorem inline_obj (cfg : Config) (doc : SchemaDoc) (d : Nat) (ih : DeclaredOK cfg doc d) (prop : Schema) (scope : String)
    (st : GenSt) (f : Nat) (ht : TreeOK d prop) (hnd : (scopes d scope prop).Nodup) (hfr : Fresh st (scopes d scope prop))
    (hh : st.hidden = []) (hf : 40 * d ≤ f) :
    ∃ st', (generateTypeInline cfg doc (f + 1) prop scope none).run st = .ok ({ ty := .named scope }, st') ∧
      Grown st st' (treeDecls cfg d scope prop) := by
  have hs := ht.shape
  obtain ⟨st', h1, hg⟩ := ih prop scope st f ht hnd hfr hh hf
  refine ⟨st', ?_, hg⟩
  simp only [StateT.run] at h1
  rw [generateTypeInline]
  simp [hs.enum, hs.ref, hs.ext, hs.anyOf, hs.allOf, hs.types, isPrimitiveTypeName,
    StateT.run, bind, StateT.bind, pure, StateT.pure, Except.bind, Except.pure, h1]

def memScopes (d : Nat) (scope : String) (t : Schema) (n : String) : List String :=
  if isObj (propOf t n) then scopes d (scope ++ fname n) (propOf t n) else []

def memDecls (cfg : Config) (d : Nat) (scope : String) (t : Schema) (n : String) : List Decl :=
  if isObj (propOf t n) then treeDecls cfg d (scope ++ fname n) (propOf t n) else []

def MemberOK (d : Nat) (t : Schema) (n : String) : Prop :=
  MemberName t n ∧ (FlatProp (propOf t n) ∨ (isObj (propOf t n) = true ∧ TreeOK d (propOf t n)) ∨ ArrProp (propOf t n))

theorem flat_not_obj (p : Schema) (h : FlatProp p) : isObj p = false := by
  rcases h.1 with h | h | h | h <;> simp [isObj, h]

theorem flat_not_arr (p : Schema) (h : FlatProp p) : isArr p = false := by
  rcases h.1 with h | h | h | h <;> simp [isArr, h]

theorem arr_not_obj (p : Schema) (h : ArrProp p) : isObj p = false := by simp [isObj, h.1]
theorem arr_is_arr (p : Schema) (h : ArrProp p) : isArr p = true := by simp [isArr, h.1]
theorem obj_not_arr (p : Schema) (h : isObj p = true) : isArr p = false := by
  simp only [isObj, beq_iff_eq] at h; simp [isArr, h]

theorem scope_mem_scopes (d : Nat) (scope : String) (t : Schema) : scope ∈ scopes (d + 1) scope t := by
  simp [scopes]

theorem inline_arr (cfg : Config) (doc : SchemaDoc) (hc : genCfg cfg) (f : Nat) (p it : Schema) (scope : String)
    (hp : ArrProp p) (hit : p.node.items = some it) (st : GenSt) :
    (generateTypeInline cfg doc (f + 2) p scope none).run st = .ok ({ ty := .slice (scalarTy it) }, st) := by
  obtain ⟨hat, haref, haenum, haext, haany, haall, hadef, _, hitflat⟩ := hp
  have hio : itemsOf p = it := by simp [itemsOf, hit]
  rw [hio] at hitflat
  have hinl := inline_flat cfg doc hc f it (scope ++ "Elem") hitflat
  simp only [StateT.run] at hinl
  rw [generateTypeInline]
  simp [haenum, haref, haext, haany, haall, hat, hit, isPrimitiveTypeName,
    StateT.run, bind, StateT.bind, pure, StateT.pure, Except.bind, Except.pure, hinl, flatRes]

theorem fieldsT (cfg : Config) (doc : SchemaDoc) (hc : genCfg cfg) (d : Nat) (ih : DeclaredOK cfg doc d) (t : Schema) (scope : String) :
    ∀ (ns : List String) (f : Nat) (unique : List (String × Nat)) (fs : List Field) (ms : List FieldMeta) (req : List String) (st : GenSt),
      (∀ n ∈ ns, MemberOK d t n) → (ns.map fname).Nodup → (∀ n ∈ ns, alookup (fname n) unique = none) →
      (ns.flatMap (memScopes d scope t)).Nodup → Fresh st (ns.flatMap (memScopes d scope t)) → st.hidden = [] →
      ns.length + 2 + 40 * d ≤ f →
      ∃ st', (addStructFields cfg doc f t scope ns unique fs ms req).run st =
        .ok ((fs ++ ns.map (fieldT cfg scope t), ms ++ ns.map (metaT scope t), req ++ ns.filter (fun n => t.node.required.contains n)), st') ∧
        Grown st st' (ns.flatMap (memDecls cfg d scope t)) := by
  intro ns
  induction ns with
  | nil =>
    intro f unique fs ms req st _ _ _ _ _ _ hf
    obtain ⟨g, rfl⟩ : ∃ g, f = g + 1 := ⟨f - 1, by omega⟩
    exact ⟨st, by simp [addStructFields, StateT.run, pure, StateT.pure, Except.pure], Grown.nil st⟩
  | cons n rest ihl =>
    intro f unique fs ms req st hok hnd hun hsn hfr hh hf
    obtain ⟨g, rfl⟩ : ∃ g, f = g + 2 := ⟨f - 2, by simp at hf; omega⟩
    obtain ⟨⟨⟨prop, hprop⟩, htag, hascii, _⟩, hkind⟩ := hok n (by simp)
    have hp : propOf t n = prop := by simp [propOf, hprop]
    have hcaps : cfg.caps = [] := hc.1
    have hu : alookup (fname n) unique = none := hun n (by simp)
    simp only [fname] at hu
    have hokr : ∀ m ∈ rest, MemberOK d t m := fun m hm => hok m (by simp [hm])
    have hndr : (rest.map fname).Nodup := by simpa using (List.nodup_cons.mp hnd).2
    have hunr : ∀ m ∈ rest, alookup (fname m) (unique ++ [(identifierizeStr [] n, 1)]) = none := by
      intro m hm
      have hne : fname m ≠ fname n := by
        intro he; exact (List.nodup_cons.mp hnd).1 (by rw [← he]; exact List.mem_map_of_mem hm)
      exact alookup_snoc_none _ _ _ _ (hun m (by simp [hm])) hne
    simp only [List.flatMap_cons] at hsn hfr
    have hsnr : (rest.flatMap (memScopes d scope t)).Nodup := (List.nodup_append.mp hsn).2.1
    rcases hkind with hflat | ⟨hobj, htree⟩ | harr
    · -- a scalar member: nothing is declared
      rw [hp] at hflat
      have hno : isObj (propOf t n) = false := by rw [hp]; exact flat_not_obj prop hflat
      have hinl := inline_flat cfg doc hc g prop (scope ++ fname n) hflat
      simp only [StateT.run, fname] at hinl
      have hnil : ∀ st', isNillable st' (flatRes prop).ty = false := by
        intro st'; rcases hflat.1 with h | h | h | h <;> simp [flatRes, scalarTy, h, isNillable]
      have hwrap : ∀ st', wrapPtr st' (flatRes prop).ty = .ptr (scalarTy prop) := by
        intro st'; rcases hflat.1 with h | h | h | h <;> simp [flatRes, scalarTy, h, wrapPtr]
      have hfrr : Fresh st (rest.flatMap (memScopes d scope t)) := fun s hs => hfr s (List.mem_append_right _ hs)
      obtain ⟨st', hrest, hg⟩ := ihl (g + 1) (unique ++ [(identifierizeStr [] n, 1)])
        (fs ++ [fieldT cfg scope t n]) (ms ++ [metaT scope t n]) (req ++ (if t.node.required.contains n then [n] else [])) st
        hokr hndr hunr hsnr hfrr hh (by simp at hf ⊢; omega)
      refine ⟨st', ?_, by simpa [memDecls, hno] using hg⟩
      simp only [StateT.run] at hrest
      rw [addStructFields]
      simp [hprop, htag, identifierizeM, hascii, hcaps, hflat.2.2.2.1, nextFieldName, fname, hu, hflat.2.2.2.2.2.2.2.1,
        StateT.run, bind, StateT.bind, pure, StateT.pure, get, getThe, MonadStateOf.get, StateT.get, Except.bind, Except.pure, hinl,
        hnil, hwrap]
      have hno' : isObj prop = false := flat_not_obj prop hflat
      have hna' : isArr prop = false := flat_not_arr prop hflat
      simp only [fieldT, metaT, memFty, memTy, propOf, hprop, fname, Option.getD, hno', hna', Bool.false_eq_true, if_false, Bool.or_false] at hrest
      by_cases hr : n ∈ t.node.required <;> rcases hflat.1 with h | h | h | h <;>
        simp [hr, flatRes, h, withBounds_self] at hrest ⊢ <;>
        (rw [hrest]; simp [fieldT, metaT, memFty, memTy, isObj, isArr, propOf, hprop, fname, hr, h])
    · -- an object member: its declarations are appended first
      rw [hp] at hobj htree
      have hshape := htree.shape
      obtain ⟨d', rfl⟩ : ∃ d', d = d' + 1 := by
        cases d with
        | zero => exact absurd htree (by simp [TreeOK])
        | succ d' => exact ⟨d', rfl⟩
      have hms : memScopes (d' + 1) scope t n = scopes (d' + 1) (scope ++ fname n) prop := by simp [memScopes, hp, hobj]
      rw [hms] at hsn hfr
      have hnd1 : (scopes (d' + 1) (scope ++ fname n) prop).Nodup := (List.nodup_append.mp hsn).1
      have hfr1 : Fresh st (scopes (d' + 1) (scope ++ fname n) prop) := fun s hs => hfr s (List.mem_append_left _ hs)
      obtain ⟨st1, h1, hg1⟩ := inline_obj cfg doc (d' + 1) ih prop (scope ++ fname n) st g htree hnd1 hfr1 hh (by simp at hf; omega)
      have hnotin : (scope ++ fname n) ∉ st.decls.map (·.name) := (hfr1 _ (scope_mem_scopes d' _ prop)).1
      obtain ⟨dd, fsd, hfd, htyd⟩ := findDecl_grown cfg st st1 d' (scope ++ fname n) prop hg1 hnotin
      obtain ⟨hwrap, hnil⟩ := wrap_named st1 (scope ++ fname n) dd fsd hfd htyd
      have hfrr : Fresh st1 (rest.flatMap (memScopes (d' + 1) scope t)) := by
        intro s hs
        have h0 := hfr s (List.mem_append_right _ hs)
        refine ⟨?_, by rw [hg1.inProgress]; exact h0.2⟩
        rw [hg1.decls, List.map_append, List.mem_append, scopes_names]
        rintro (hin | hin)
        · exact h0.1 hin
        · exact (List.nodup_append.mp hsn).2.2 s hin s hs rfl
      obtain ⟨st', hrest, hg⟩ := ihl (g + 1) (unique ++ [(identifierizeStr [] n, 1)])
        (fs ++ [fieldT cfg scope t n]) (ms ++ [metaT scope t n]) (req ++ (if t.node.required.contains n then [n] else [])) st1
        hokr hndr hunr hsnr hfrr (by rw [hg1.hidden]; exact hh) (by simp at hf ⊢; omega)
      have hmd : memDecls cfg (d' + 1) scope t n = treeDecls cfg (d' + 1) (scope ++ fname n) prop := by simp [memDecls, hp, hobj]
      refine ⟨st', ?_, by simpa [List.flatMap_cons, hmd] using hg1.trans hg⟩
      simp only [StateT.run, fname] at hrest h1 hwrap hnil
      rw [addStructFields]
      simp [hprop, htag, identifierizeM, hascii, hcaps, hshape.ext, nextFieldName, fname, hu, hshape.dflt,
        StateT.run, bind, StateT.bind, pure, StateT.pure, get, getThe, MonadStateOf.get, StateT.get, Except.bind, Except.pure, h1,
        hnil, hwrap]
      have hnaO : isArr prop = false := obj_not_arr prop hobj
      simp only [fieldT, metaT, memFty, memTy, propOf, hprop, fname, Option.getD, hobj, hnaO, if_true, Bool.or_false] at hrest
      by_cases hr : n ∈ t.node.required <;>
        simp [hr] at hrest ⊢ <;>
        (rw [hrest]; simp [fieldT, metaT, memFty, memTy, propOf, hprop, fname, hr, hobj, hnaO])
    · -- an array of scalars: a slice, never pointer-wrapped, nothing declared
      rw [hp] at harr
      obtain ⟨hat, haref, haenum, haext, haany, haall, hadef, ⟨it, hit⟩, hitflat⟩ := harr
      have hio : itemsOf prop = it := by simp [itemsOf, hit]
      rw [hio] at hitflat
      have hno : isObj (propOf t n) = false := by rw [hp]; simp [isObj, hat]
      have hno' : isObj prop = false := by simp [isObj, hat]
      have hya' : isArr prop = true := by simp [isArr, hat]
      obtain ⟨g0, rfl⟩ : ∃ g0, g = g0 + 1 := ⟨g - 1, by simp at hf; omega⟩
      have hinl0 := fun st => inline_arr cfg doc hc g0 prop it (scope ++ fname n)
        ⟨hat, haref, haenum, haext, haany, haall, hadef, ⟨it, hit⟩, by rw [hio]; exact hitflat⟩ hit st
      simp only [StateT.run, fname] at hinl0
      have hfrr : Fresh st (rest.flatMap (memScopes d scope t)) := fun s hs => hfr s (List.mem_append_right _ hs)
      obtain ⟨st', hrest, hg⟩ := ihl (g0 + 2) (unique ++ [(identifierizeStr [] n, 1)])
        (fs ++ [fieldT cfg scope t n]) (ms ++ [metaT scope t n]) (req ++ (if t.node.required.contains n then [n] else [])) st
        hokr hndr hunr hsnr hfrr hh (by simp at hf ⊢; omega)
      refine ⟨st', ?_, by simpa [memDecls, hno] using hg⟩
      simp only [StateT.run] at hrest
      rw [addStructFields]
      simp [hprop, htag, identifierizeM, hascii, hcaps, haext, nextFieldName, fname, hu, hadef, isNillable,
        StateT.run, bind, StateT.bind, pure, StateT.pure, get, getThe, MonadStateOf.get, StateT.get, Except.bind, Except.pure, hinl0]
      simp only [fieldT, metaT, memFty, memTy, propOf, hprop, fname, Option.getD, hno', hya', itemsOf, hit, Bool.false_eq_true, if_false, if_true, Bool.or_true] at hrest
      by_cases hr : n ∈ t.node.required <;>
        simp [hr, flatRes] at hrest ⊢ <;>
        (rw [hrest]; simp [fieldT, metaT, memFty, memTy, isObj, isArr, propOf, hprop, fname, hr, hat, itemsOf, hit])

theorem sfv_named (field : String) (sch : NodeF Schema) (n : String) (nl : Bool) (f : Nat) (st : GenSt) :
    (structFieldValidators field sch (f + 1) (.named n) nl).run st = .ok ([], st) := by
  simp [structFieldValidators, StateT.run, pure, StateT.pure, Except.pure]

theorem sfv_member (scope : String) (d : Nat) (t : Schema) (n : String) (hn : MemberOK d t n) (st : GenSt) :
    ∃ st', (structFieldValidators (fname n) (propOf t n).node 16 (memFty scope t n) false).run st =
      .ok (memVs t n, st') ∧ Same st st' := by
  obtain ⟨⟨⟨prop, hprop⟩, h2, h3, h4⟩, hkind⟩ := hn
  rcases hkind with hflat | ⟨hobj, _⟩ | harr
  · have hno := flat_not_obj _ hflat
    have hna := flat_not_arr _ hflat
    have hnk : NameOK t n := ⟨⟨prop, hprop, by simpa [propOf, hprop] using hflat⟩, h2, h3, h4⟩
    have := sfv_field t n hnk st
    simpa [memFty, memTy, memVs, hno, hna, ftyOf] using this
  · refine ⟨st, ?_, Same.rfl' st⟩
    have hna := obj_not_arr _ hobj
    by_cases hr : t.node.required.contains n = true
    · simp only [memFty, memTy, memVs, hobj, hna, hr, if_true, Bool.or_false]
      exact sfv_named _ _ _ _ 15 st
    · have hr' : t.node.required.contains n = false := by simpa using hr
      simp only [memFty, memTy, memVs, hobj, hna, hr', if_true, Bool.false_eq_true, if_false, Bool.or_false]
      rw [structFieldValidators]
      exact sfv_named _ _ _ _ 14 st
  · refine ⟨st, ?_, Same.rfl' st⟩
    have hno := arr_not_obj _ harr
    have hya := arr_is_arr _ harr
    simp only [memFty, memTy, memVs, hno, hya, Bool.or_true, if_true, Bool.false_eq_true, if_false]
    rcases harr.2.2.2.2.2.2.2.2.1 with h | h | h | h <;>
      simp [structFieldValidators, structFieldValidators.arrayLoop, scalarTy, h, StateT.run, pure, StateT.pure, Except.pure]

theorem loopT (scope : String) (d : Nat) (t : Schema) : ∀ (ns : List String) (vs : List Validator) (st : GenSt), (∀ n ∈ ns, MemberOK d t n) →
    ∃ st', (fieldValidatorsLoop (ns.map (metaT scope t)) vs false).run st = .ok ((vs ++ ns.flatMap (memVs t), false), st') ∧ Same st st' := by
  intro ns
  induction ns with
  | nil => intro vs st _; exact ⟨st, by simp [fieldValidatorsLoop, StateT.run, pure, StateT.pure, Except.pure], Same.rfl' st⟩
  | cons n rest ih =>
    intro vs st hok
    obtain ⟨st1, h1, hs1⟩ := sfv_member scope d t n (hok n (by simp)) st
    obtain ⟨st2, h2, hs2⟩ := ih (vs ++ memVs t n) st1 (fun m hm => hok m (by simp [hm]))
    refine ⟨st2, ?_, hs1.trans hs2⟩
    have hne : fname n ≠ "AdditionalProperties" := (hok n (by simp)).1.2.2.2
    have hb : (fname n == "AdditionalProperties") = false := by simp [hne]
    simp only [StateT.run] at h1 h2
    simp [fieldValidatorsLoop, metaT, hb, StateT.run, bind, StateT.bind, pure, StateT.pure, Except.bind, Except.pure, h1, h2]

theorem finish_new (cfg : Config) (name : String) (t tEff : Schema) (rty : GoTy) (body : DeclBody) (st : GenSt)
    (h : name ∉ st.decls.map (·.name)) :
    ∃ st', (finishDecl cfg name t tEff rty body).run st = .ok (.named name, st') ∧
      st'.decls = st.decls ++ [{ name, ty := rty, comment := t.node.description, body, schema := keptSchema cfg tEff }] ∧
      st'.inProgress = st.inProgress.filter (·.1 ≠ name) ∧ st'.hidden = st.hidden := by
  have hno : name ∉ declNames st := by
    simp only [declNames, List.mem_filterMap, not_exists, not_and]
    intro x hx hsome
    apply h
    refine List.mem_map.mpr ⟨x, hx, ?_⟩
    split at hsome
    · cases hsome
    · injection hsome
  simp [finishDecl, hno, StateT.run, bind, StateT.bind, pure, StateT.pure, get, getThe, MonadStateOf.get, StateT.get,
    set, StateT.set, Except.bind, Except.pure]

theorem typeT (cfg : Config) (doc : SchemaDoc) (hc : genCfg cfg) (d : Nat) (ih : DeclaredOK cfg doc d) (t : Schema) (scope : String)
    (st : GenSt) (h : TreeOK (d + 1) t)
    (hsn : ((sortedKeys t.node.props).flatMap (memScopes d scope t)).Nodup)
    (hfr : Fresh st ((sortedKeys t.node.props).flatMap (memScopes d scope t))) (hh : st.hidden = [])
    (f : Nat) (hf : 40 * d + 40 ≤ f + 1) :
    ∃ st', (generateType cfg doc f t scope).run st =
      .ok ({ ty := .strct ((sortedKeys t.node.props).map (fieldT cfg scope t)),
             smeta := some { required := flatReq t, fields := (sortedKeys t.node.props).map (metaT scope t) } }, st') ∧
      Grown st st' ((sortedKeys t.node.props).flatMap (memDecls cfg d scope t)) := by
  obtain ⟨hs, hmem⟩ := h
  have hlen : (sortedKeys t.node.props).length ≤ 31 := by
    have : (sortedKeys t.node.props).length = t.node.props.length := by
      unfold sortedKeys; rw [(List.mergeSort_perm _ _).length_eq]; simp
    rw [this]; exact hs.small
  obtain ⟨g, rfl⟩ : ∃ g, f = g + 2 := ⟨f - 2, by omega⟩
  obtain ⟨st', hfs, hg⟩ := fieldsT cfg doc hc d ih t scope (sortedKeys t.node.props) g [] [] [] [] st
    (fun n hn => hmem n hn) hs.distinct (fun _ _ => rfl) hsn hfr hh (by omega)
  refine ⟨st', ?_, hg⟩
  simp only [StateT.run] at hfs
  have hpe : t.node.props.isEmpty = false := by
    cases hp : t.node.props with
    | nil => exact absurd hp hs.props
    | cons _ _ => rfl
  rw [generateType]
  simp [hs.ext, hs.enum, hs.ref, hs.types, determineTypeName, generateStructType, hpe, hs.anyOf, hs.allOf, hs.addl,
    StateT.run, bind, StateT.bind, pure, StateT.pure, Except.bind, Except.pure, hfs, flatReq]

theorem scopes_succ (d : Nat) (scope : String) (t : Schema) :
    scopes (d + 1) scope t = (sortedKeys t.node.props).flatMap (memScopes d scope t) ++ [scope] := by
  rfl

theorem treeDecls_succ (cfg : Config) (d : Nat) (scope : String) (t : Schema) :
    treeDecls cfg (d + 1) scope t = (sortedKeys t.node.props).flatMap (memDecls cfg d scope t) ++ [nodeDecl cfg scope t] := by
  rfl

theorem filter_head (name : String) (t : Schema) (l : List (String × Schema)) (h : name ∉ l.map (·.1)) :
    ((name, t) :: l).filter (·.1 ≠ name) = l := by
  simp only [List.filter_cons, ne_eq, not_true_eq_false, decide_false, Bool.false_eq_true, if_false]
  rw [List.filter_eq_self]
  intro x hx
  simp only [ne_eq, decide_eq_true_eq]
  intro he
  exact h (List.mem_map.mpr ⟨x, hx, he⟩)

theorem declared_step (cfg : Config) (doc : SchemaDoc) (hc : genCfg cfg) (d : Nat) (ih : DeclaredOK cfg doc d) :
    DeclaredOK cfg doc (d + 1) := by
  intro t scope st f ht hnd hfr hh hf
  have hs := ht.1
  rw [scopes_succ] at hnd hfr
  have hsn : ((sortedKeys t.node.props).flatMap (memScopes d scope t)).Nodup := (List.nodup_append.mp hnd).1
  have hscope : scope ∉ st.decls.map (·.name) ∧ scope ∉ st.inProgress.map (·.1) := hfr scope (by simp)
  have hchild : scope ∉ (sortedKeys t.node.props).flatMap (memScopes d scope t) := by
    intro hin; exact (List.nodup_append.mp hnd).2.2 scope hin scope (by simp) rfl
  obtain ⟨g, rfl⟩ : ∃ g, f = g + 1 := ⟨f - 1, by omega⟩
  -- the state in which the members are generated
  let st0 : GenSt := { st with inProgress := (scope, t) :: st.inProgress }
  have hfr0 : Fresh st0 ((sortedKeys t.node.props).flatMap (memScopes d scope t)) := by
    intro s hs'
    have h0 := hfr s (List.mem_append_left _ hs')
    refine ⟨h0.1, ?_⟩
    simp only [st0, List.map_cons, List.mem_cons, not_or]
    exact ⟨fun he => hchild (he ▸ hs'), h0.2⟩
  obtain ⟨st1, hty, hg1⟩ := typeT cfg doc hc d ih t scope st0 ht hsn hfr0 hh g (by omega)
  obtain ⟨st2, h2, hs2⟩ := loopT scope d t (sortedKeys t.node.props) ((flatReq t).map Validator.required) st1 ht.2
  obtain ⟨st3, h3, hs3⟩ := umi_same cfg (nodeVs t) st2
  have hnot1 : scope ∉ st1.decls.map (·.name) := by
    rw [hg1.decls, List.map_append, List.mem_append]
    rintro (hin | hin)
    · exact hscope.1 hin
    · have : (List.flatMap (memDecls cfg d scope t) (sortedKeys t.node.props)).map (·.name) =
          (sortedKeys t.node.props).flatMap (memScopes d scope t) := by
        rw [List.map_flatMap]
        apply flatMap_congr'
        intro n _
        simp only [memDecls, memScopes]
        split
        · exact scopes_names cfg _ _ _
        · rfl
      rw [this] at hin; exact hchild hin
  have hnot2 : scope ∉ st2.decls.map (·.name) := by rw [hs2.decls]; exact hnot1
  have hnot3 : scope ∉ st3.decls.map (·.name) := by rw [hs3.decls]; exact hnot2
  obtain ⟨sa, ha, hda, hia, hha⟩ := finish_new cfg scope t t (.strct ((sortedKeys t.node.props).map (fieldT cfg scope t))) (.plain [] false) st1 hnot1
  obtain ⟨sb, hb, hdb, hib, hhb⟩ := finish_new cfg scope t t (.strct ((sortedKeys t.node.props).map (fieldT cfg scope t))) (.plain (nodeVs t) false) st2 hnot2
  obtain ⟨sc, hcc, hdc, hic, hhc⟩ := finish_new cfg scope t t (.strct ((sortedKeys t.node.props).map (fieldT cfg scope t))) (.plain (nodeVs t) true) st3 hnot3
  have hinp1 : st1.inProgress = (scope, t) :: st.inProgress := hg1.inProgress
  have hfil : ((scope, t) :: st.inProgress).filter (·.1 ≠ scope) = st.inProgress := filter_head scope t _ hscope.2
  have hnd0 : scope ∉ declNames st := by
    simp only [declNames, List.mem_filterMap, not_exists, not_and]
    intro x hx hsome
    apply hscope.1
    refine List.mem_map.mpr ⟨x, hx, ?_⟩
    split at hsome
    · cases hsome
    · injection hsome
  have huniq : isUniqueTypeName st scope = true := by
    have hnv : scope ∉ visibleNames st := fun hin => hnd0 (List.mem_filter.mp hin).1
    simp [isUniqueTypeName, hnv]
  simp only [StateT.run] at hty h2 h3 ha hb hcc
  rw [treeDecls_succ]
  rw [generateDeclaredType]
  by_cases hom : cfg.onlyModels = true
  · refine ⟨sa, ?_, ⟨by rw [hda, hg1.decls]; simp [nodeDecl, hom, st0], by rw [hia, hinp1, hfil], by rw [hha, hg1.hidden]⟩⟩
    simp [huniq, hs.enum, uniqueTypeName, hty, isNamedType, hom, st0,
      StateT.run, bind, StateT.bind, pure, StateT.pure, get, getThe, MonadStateOf.get, StateT.get, modify, modifyGet, MonadStateOf.modifyGet, StateT.modifyGet, Except.bind, Except.pure, ha] at hty ⊢
  have hom' : cfg.onlyModels = false := by simpa using hom
  have hinp2 : st2.inProgress = (scope, t) :: st.inProgress := by rw [hs2.inProgress]; exact hinp1
  have hinp3 : st3.inProgress = (scope, t) :: st.inProgress := by rw [hs3.inProgress]; exact hinp2
  by_cases hv : nodeVs t = []
  · refine ⟨sb, ?_, ⟨by rw [hdb, hs2.decls, hg1.decls]; simp [nodeDecl, hom', hv, st0], by rw [hib, hinp2, hfil],
      by rw [hhb, hs2.hidden, hg1.hidden]⟩⟩
    simp only [nodeVs] at hv hb
    simp [huniq, hs.enum, uniqueTypeName, hty, isNamedType, hom', st0, hs.anyOfCount, hs.subElem,
      StateT.run, bind, StateT.bind, pure, StateT.pure, get, getThe, MonadStateOf.get, StateT.get, modify, modifyGet, MonadStateOf.modifyGet, StateT.modifyGet, Except.bind, Except.pure, h2, hv] at hty ⊢
    rw [hv] at hb; exact hb
  · refine ⟨sc, ?_, ⟨by rw [hdc, hs3.decls, hs2.decls, hg1.decls]; simp [nodeDecl, hom', hv, st0], by rw [hic, hinp3, hfil],
      by rw [hhc, hs3.hidden, hs2.hidden, hg1.hidden]⟩⟩
    simp only [nodeVs] at hv hcc h3
    simp [huniq, hs.enum, uniqueTypeName, hty, isNamedType, hom', st0, hs.anyOfCount, hs.subElem,
      StateT.run, bind, StateT.bind, pure, StateT.pure, get, getThe, MonadStateOf.get, StateT.get, modify, modifyGet, MonadStateOf.modifyGet, StateT.modifyGet, Except.bind, Except.pure, h2, hv, h3, hcc] at hty ⊢

theorem declared_all (cfg : Config) (doc : SchemaDoc) (hc : genCfg cfg) : ∀ d, DeclaredOK cfg doc d := by
  intro d
  induction d with
  | zero => intro t _ _ _ ht; exact absurd ht (by simp [TreeOK])
  | succ d ih => exact declared_step cfg doc hc d ih

/-- **the generator on trees of objects**: for EVERY schema that is a tree of objects with scalar leaves (at most five
    levels, the generated type names pairwise distinct) the model generator succeeds and emits exactly `treeDecls` — one
    struct declaration per object, members' declarations before their parent's, in sorted key order -/
theorem run_tree (cfg : Config) (hc : genCfg cfg) (d : Nat) (t : Schema) (h : TreeOK d t)
    (hnd : (scopes d cfg.rootType t).Nodup) (hd : d ≤ 5) (id : String) :
    ∃ out, Gen.run cfg { id := id, hasRoot := true, root := t, defs := [] } = .ok out ∧
      out.decls = treeDecls cfg d cfg.rootType t := by
  obtain ⟨st', hdecl, hg⟩ := declared_all cfg { id := id, hasRoot := true, root := t, defs := [] } hc d t cfg.rootType {} 200 h hnd
    (fun s _ => ⟨by simp, by simp⟩) rfl (by omega)
  simp only [StateT.run] at hdecl
  have hroot : cfg.rootType ≠ "" := hc.2.2.1
  have hpkg : cfg.pkg ≠ "" := hc.2.2.2
  have hs := h.shape
  have hrun : (generateRootType cfg { id := id, hasRoot := true, root := t, defs := [] }).run {} = .ok ((), st') := by
    simp [generateRootType, hpkg, sortedKeys, hs.types, getRootTypeName, hroot, byNameKeys, visibleNames, declNames,
      StateT.run, bind, StateT.bind, pure, StateT.pure, get, getThe, MonadStateOf.get, StateT.get, Except.bind, Except.pure, hdecl,
      forIn, ForIn.forIn, List.forIn'_nil]
  unfold Gen.run
  rw [hrun]
  exact ⟨_, rfl, by simpa using hg.decls⟩
end GJS.Props.Tree

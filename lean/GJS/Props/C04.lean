import GJS.Model.Run
import GJS.Cert
import GJS.Proofs.Decode
/-
  C04 — a document missing a required property is rejected, at every depth.
  Run-time level: for ANY declaration environment (any generated program), if somewhere along the paths the
  decoder follows an object lacks a key for which the governing declaration carries a `required` validator,
  the document is not accepted — whatever the fuel, whatever the depth, through pointers, arrays, maps,
  nested structs and named types with or without their own method.
-/
namespace GJS.Props.C04
open GJS GJS.Proofs

/-- somewhere below `ty`, following exactly the paths `decode` follows, an object lacks a key whose
    declaration carries `required k` -/
inductive MissingAt (env : Env) : GoTy → Json → Prop where
  | here {n d vs kvs k} : env.resolve 8 n = some d → d.body = .plain vs true → Validator.required k ∈ vs →
      ahas k kvs = false → MissingAt env (.named n) (.obj kvs)
  | under {n d vs m j} : env.resolve 8 n = some d → d.body = .plain vs m →
      d.ty.isFmt = false → MissingAt env d.ty j → MissingAt env (.named n) j
  | field {fs kvs k x fld} : (k, x) ∈ kvs → bindKey fs k = some fld → MissingAt env fld.ty x →
      MissingAt env (.strct fs) (.obj kvs)
  | elem {t xs x} : x ∈ xs → MissingAt env t x → MissingAt env (.slice t) (.arr xs)
  | ptr {t j} : MissingAt env t j → MissingAt env (.ptr t) j
  | mapv {t kvs k x} : (k, x) ∈ kvs → MissingAt env t x → MissingAt env (.map t) (.obj kvs)

theorem missing_fails {env : Env} {t : GoTy} {j : Json} (h : MissingAt env t j) : FailsAt env t j := by
  induction h with
  | here a b c d => exact .here a b c d
  | under a b c _ ih => exact .under a b c ih
  | field a b _ ih => exact .field a b ih
  | elem a _ ih => exact .elem a ih
  | ptr _ ih => exact .ptr ih
  | mapv a _ ih => exact .mapv a ih

/-- **C04, run-time level**: whatever the fuel and the depth, the document is not accepted (JSON path) -/
theorem rejects_missing {env : Env} {ty : GoTy} {d : Json} (h : MissingAt env ty d) :
    ∀ fuel, ¬ Accepted (decode .json env fuel ty d) :=
  fails_not_accepted (missing_fails h)

/-! ### from the schema to the declarations: a decidable certificate

  `certReq env defs fuel ty s = true` says that the Go type `ty` of a generated program (declarations `env`)
  implements the `required` lists of schema `s` at every depth: object schemas are named struct types whose
  method carries a `required` validator for every required, declared, default-less key, every declared
  property is bound (rule G7) to a field whose type is certified for the property's schema, arrays are
  slices of certified element types, `$ref` targets are certified for the same type.  The driver evaluates
  the certificate for every generated program (`CERT` line); the theorem below turns it into rejection of
  every document with a missing required key. -/

theorem hasRequired_mem {vs : List Validator} {k : String} (h : hasRequired vs k = true) : Validator.required k ∈ vs := by
  unfold hasRequired at h
  obtain ⟨v, hv, hm⟩ := List.any_eq_true.mp h
  cases v <;> simp at hm
  subst hm; exact hv

/-- schema level: at a position reached through declared properties, array items and references, an object
    lacks a key that its schema lists as required, declares, and gives no default -/
inductive SpecMissing (defs : Spec.Defs) : Schema → Json → Prop where
  | here {s kvs k ps} : s.node.ref = "" → k ∈ s.node.required → (k, ps) ∈ s.node.props →
      ps.node.default = none → ahas k kvs = false → SpecMissing defs s (.obj kvs)
  | prop {s kvs k ps x} : s.node.ref = "" → (k, ps) ∈ s.node.props → (k, x) ∈ kvs →
      SpecMissing defs ps x → SpecMissing defs s (.obj kvs)
  | item {s xs it x} : s.node.ref = "" → s.node.items = some it → x ∈ xs → SpecMissing defs it x →
      SpecMissing defs s (.arr xs)
  | ref {s name t d} : s.node.ref ≠ "" → Spec.refName s.node.ref = some name → alookup name defs = some t →
      SpecMissing defs t d → SpecMissing defs s d

theorem certProps_mem {env : Env} {defs : Spec.Defs} {fs : List Field} {vs : List Validator} {m : Bool}
    {req : List String} {props : List (String × Schema)} {k : String} {ps : Schema} (hmem : (k, ps) ∈ props) :
    ∀ f, certProps env defs f fs vs m req props = true →
      ∃ f' fld, f' < f ∧ bindKey fs k = some fld ∧ certReq env defs f' fld.ty ps = true ∧
        (req.contains k = true → ps.node.default = none → m = true ∧ Validator.required k ∈ vs) := by
  induction props with
  | nil => cases hmem
  | cons p rest ih =>
    obtain ⟨k', ps'⟩ := p
    intro f h
    cases f with
    | zero => simp [certProps] at h
    | succ f =>
      simp only [certProps, Bool.and_eq_true] at h
      obtain ⟨⟨h1, h2⟩, h3⟩ := h
      rcases List.mem_cons.mp hmem with heq | hmem'
      · cases heq
        cases hb : bindKey fs k with
        | none => simp [hb] at h1
        | some fld =>
          simp only [hb] at h1
          refine ⟨f, fld, Nat.lt_succ_self f, rfl, h1, ?_⟩
          intro hr hd
          simp [hd] at h2
          have hr' : k ∈ req := by simpa using hr
          rcases h2 with h2 | h2
          · exact absurd hr' h2
          · exact ⟨h2.1, hasRequired_mem h2.2⟩
      · obtain ⟨f', fld, hlt, rest⟩ := ih hmem' f h3
        exact ⟨f', fld, Nat.lt_succ_of_lt hlt, rest⟩

theorem isEmpty_not_mem {α : Type} {l : List α} {a : α} (h : l.isEmpty = true) : a ∉ l := by
  cases l with
  | nil => simp
  | cons _ _ => simp at h

/-- **C04, certificate level**: a certified program rejects every document with a missing required key,
    at every depth, through references, arrays and pointers — all documents, all fuels -/
theorem cert_missing_le {env : Env} {defs : Spec.Defs} :
    ∀ (n f : Nat), f ≤ n → ∀ (ty : GoTy) (s : Schema) (d : Json), certReq env defs f ty s = true →
      SpecMissing defs s d → MissingAt env ty d := by
  intro n
  induction n with
  | zero =>
    intro f hf ty s d h
    have : f = 0 := by omega
    subst this; simp [certReq] at h
  | succ n ihn =>
    intro f hf ty s d hc hm
    cases f with
    | zero => simp [certReq] at hc
    | succ f =>
    have hfn : f ≤ n := by omega
    have ih : ∀ (ty : GoTy) (s : Schema) (d : Json), certReq env defs f ty s = true → SpecMissing defs s d →
        MissingAt env ty d := ihn f hfn
    unfold certReq at hc
    by_cases href : s.node.ref ≠ ""
    · rw [if_pos href] at hc
      cases hm with
      | here h0 => exact absurd h0 href
      | prop h0 => exact absurd h0 href
      | item h0 => exact absurd h0 href
      | @ref _ name t _ _ hn hl hsub =>
        simp only [hn, hl] at hc
        exact ih ty t d hc hsub
    · have href' : s.node.ref = "" := by simpa using href
      rw [if_neg href] at hc
      cases ty with
      | ptr t => exact .ptr (ih t s d hc hm)
      | named nm =>
        simp only at hc
        cases hres : env.resolve 8 nm with
        | none => simp [hres] at hc
        | some dd =>
          simp only [hres] at hc
          cases hbody : dd.body with
          | alias t =>
            simp only [hbody, Bool.and_eq_true] at hc
            cases hm with
            | here _ _ hp => exact absurd hp (isEmpty_not_mem hc.1)
            | prop _ hp => exact absurd hp (isEmpty_not_mem hc.1)
            | item _ hi => simp [hi] at hc
            | ref h0 => exact absurd href' h0
          | enum _ _ _ _ _ =>
            simp only [hbody, Bool.and_eq_true] at hc
            cases hm with
            | here _ _ hp => exact absurd hp (isEmpty_not_mem hc.1)
            | prop _ hp => exact absurd hp (isEmpty_not_mem hc.1)
            | item _ hi => simp [hi] at hc
            | ref h0 => exact absurd href' h0
          | plain vs m =>
            simp only [hbody, Bool.and_eq_true, Bool.not_eq_true'] at hc
            obtain ⟨hfmt, hc⟩ := hc
            cases hty : dd.ty with
            | strct fs =>
              simp only [hty, Bool.and_eq_true] at hc
              obtain ⟨hitems, hprops⟩ := hc
              cases hm with
              | @here _ kvs k ps _ hreq hp hdef hmiss =>
                obtain ⟨_, fld, _, _, _, hreqv⟩ := certProps_mem hp f hprops
                have := hreqv (by simpa using hreq) hdef
                obtain ⟨hmt, hv⟩ := this
                subst hmt
                exact .here hres hbody hv hmiss
              | @prop _ kvs k ps x _ hp hx hsub =>
                obtain ⟨f', fld, hlt, hb, hcf, _⟩ := certProps_mem hp f hprops
                have hsubm : MissingAt env fld.ty x := ihn f' (by omega) fld.ty ps x hcf hsub
                refine .under hres hbody hfmt ?_
                rw [hty]
                exact .field hx hb hsubm
              | item _ hi => simp [hi] at hitems
              | ref h0 => exact absurd href' h0
            | _ =>
              all_goals
                simp only [hty, Bool.and_eq_true] at hc
                refine .under hres hbody hfmt ?_
                rw [hty]
                first
                  | exact ih _ s d (by simpa [hty] using hc.2) hm
                  | exact ih _ s d hc.2 hm
      | slice t =>
        simp only [Bool.and_eq_true] at hc
        cases hm with
        | here _ _ hp => exact absurd hp (isEmpty_not_mem hc.1)
        | prop _ hp => exact absurd hp (isEmpty_not_mem hc.1)
        | @item _ xs it x _ hi hx hsub =>
          simp only [hi] at hc
          exact .elem hx (ih t it x hc.2 hsub)
        | ref h0 => exact absurd href' h0
      | _ =>
        all_goals
          simp only [Bool.and_eq_true] at hc
          cases hm with
          | here _ _ hp => exact absurd hp (isEmpty_not_mem hc.1)
          | prop _ hp => exact absurd hp (isEmpty_not_mem hc.1)
          | item _ hi => simp [hi] at hc
          | ref h0 => exact absurd href' h0

/-- **C04**: for every generated program whose root type is certified for its schema, every document that
    misses a required key anywhere is rejected by the generated `UnmarshalJSON` — for all documents, all
    depths, all fuels -/
theorem cert_rejects_missing {env : Env} {defs : Spec.Defs} (f : Nat) (root : String) (s : Schema) (d : Json)
    (hc : certReq env defs f (.named root) s = true) (hm : SpecMissing defs s d) :
    ∀ fuel, ¬ Accepted (decode .json env fuel (.named root) d) :=
  rejects_missing (cert_missing_le f f (Nat.le_refl f) (.named root) s d hc hm)

end GJS.Props.C04

import GJS.Model.Run
import GJS.Spec
import GJS.Proofs.Basic
/-
  C07 — array length limits.
-/
namespace GJS.Props.C07
open GJS

/-- **C07, depth 1**: the emitted test accepts a present array iff its length is within the limits stated
    on that array (limits non-negative) -/
theorem depth1_exact (xs : List GoVal) (mn mx : Int) :
    checkArray 1 (.slice xs) mn mx = Spec.itemsCountOK mn mx xs.length := by
  unfold checkArray lenPasses Spec.itemsCountOK
  simp only [Bool.or_false]
  exact Proofs.lenEquiv mn mx xs.length

/-- an absent or null array (nil slice) is never rejected -/
theorem absent_or_null_unchecked (mn mx : Int) (h1 : 0 ≤ mx) (d : Nat) : checkArray (d + 1) .nil mn mx = true := by
  cases d with
  | zero =>
    unfold checkArray lenPasses
    by_cases hb : mx = 0 <;> simp [hb]; omega
  | succ d => rfl

/-- what the validator at depth d+2 means: every element passes the validator of depth d+1 (the SAME limits) -/
theorem nested_unfold (d : Nat) (xs : List GoVal) (mn mx : Int) :
    checkArray (d + 2) (.slice xs) mn mx = xs.all (fun x => checkArray (d + 1) x mn mx) := rfl

/-- **C07, nested, partial**: for a two-level array the validators the generator attaches (depth 1 and depth 2,
    both carrying the OUTER limits) accept iff the outer length and every inner length lie within the outer
    limits.  With uniform limits at both levels this is the property; otherwise it is known finding K2. -/
theorem nested2_uniform (xss : List (List GoVal)) (mn mx : Int) :
    (checkArray 1 (.slice (xss.map .slice)) mn mx && checkArray 2 (.slice (xss.map .slice)) mn mx) =
      (Spec.itemsCountOK mn mx xss.length && xss.all (fun xs => Spec.itemsCountOK mn mx xs.length)) := by
  rw [depth1_exact, nested_unfold]
  simp only [List.length_map, List.all_map]
  congr 1
  apply List.all_congr rfl
  intro xs
  exact depth1_exact xs mn mx

/-- known finding K2: inner arrays are checked against the outer limits — outer 1..2, inner 2..3, `[[1]]`:
    the inner array is too short for its own schema, too… and the code's inner test uses 1..2 and accepts -/
theorem KF_nested_limits_counterexample :
    (checkArray 1 (.slice [.slice [.int 1]]) 1 2 && checkArray 2 (.slice [.slice [.int 1]]) 1 2) = true ∧
    Spec.itemsCountOK 2 3 [GoVal.int 1].length = false := by
  refine ⟨by decide +kernel, by decide +kernel⟩

example : checkArray 1 (.slice [.int 1, .int 2, .int 3]) 1 2 = false := by decide +kernel
example : checkArray 1 (.slice [.int 1, .int 2]) 1 2 = true := by decide +kernel

end GJS.Props.C07

import GJS.Props.FlatGen
import GJS.Props.Exact
import GJS.Props.ExactYaml
import GJS.Props.C14
/-
  END TO END on the flat fragment: generator model + run-time model against the reference semantics, for every schema
  of the fragment and every document — `flat_end_to_end` (JSON), `flat_end_to_end_yaml` (YAML); `flatPlainB_sound`
  ties the decidable check the driver evaluates (FlatCert.lean) to the fragment.
-/
namespace GJS.Props.Flat
open GJS GJS.Props.C02

/-- the types-and-required part of the flat fragment: what the end-to-end theorem below speaks about -/
structure FlatPlain (t : Schema) : Prop extends FlatObj t where
  hasNot : t.node.hasNot = false
  multipleOf : t.node.multipleOf = none
  format : t.node.format = ""
  keysNodup : (akeys t.node.props).Nodup
  reqDeclared : ∀ k ∈ t.node.required, k ∈ akeys t.node.props
  free : ∀ p ∈ t.node.props, topFree p.2 = true ∧ p.2.node.hasNot = false
  small : t.node.props.length ≤ 31
  rootFree : topFree t = true

theorem sortedKeys_perm' {α : Type} (m : List (String × α)) : (sortedKeys m).Perm (akeys m) := by
  unfold sortedKeys akeys; exact List.mergeSort_perm _ _

theorem mem_sortedKeys {α : Type} (m : List (String × α)) (k : String) : k ∈ sortedKeys m ↔ k ∈ akeys m :=
  (sortedKeys_perm' m).mem_iff

theorem alookup_of_mem {α : Type} (k : String) (v : α) : ∀ kvs : List (String × α), (akeys kvs).Nodup → (k, v) ∈ kvs →
    alookup k kvs = some v := by
  intro kvs
  induction kvs with
  | nil => intro _ h; cases h
  | cons q rest ih =>
    obtain ⟨k', v'⟩ := q
    intro hnd hm
    simp only [akeys, List.map_cons, List.nodup_cons] at hnd
    rcases List.mem_cons.mp hm with e | e
    · injection e with e1 e2; subst e1; subst e2; simp [alookup]
    · have : k ≠ k' := by
        intro he; subst he; exact hnd.1 (List.mem_map_of_mem (f := (·.1)) e)
      simp [alookup, this]; exact ih hnd.2 e

theorem propVs_free (field : String) (p : Schema) (nl : Bool) (h : topFree p = true) : propVs field p nl = [] := by
  simp only [topFree, hasNumTop, hasStrTop, hasArrTop, Bool.and_eq_true, Bool.not_eq_true', Bool.not_eq_false', beq_iff_eq,
    Option.isNone_iff_eq_none, decide_eq_true_eq, Bool.not_not] at h
  obtain ⟨⟨⟨⟨⟨hmin, hmax⟩, hxmin⟩, hxmax⟩, ⟨⟨hml, hMl⟩, hpat⟩⟩, _⟩ := h
  unfold propVs
  split
  · simp [hml, hMl, hpat]
  · simp [NumCheck.emitsSomething, hmin, hmax, hxmin, hxmax, normLo, normHi]
  · simp [NumCheck.emitsSomething, hmin, hmax, hxmin, hxmax, normLo, normHi]
  · rfl

theorem propOf_mem (t : Schema) (h : FlatPlain t) (p : String × Schema) (hp : p ∈ t.node.props) : propOf t p.1 = p.2 := by
  simp [propOf, alookup_of_mem p.1 p.2 t.node.props h.keysNodup hp]

theorem mem_props_of_key (t : Schema) (h : FlatPlain t) (k : String) (hk : k ∈ sortedKeys t.node.props) :
    (k, propOf t k) ∈ t.node.props := by
  obtain ⟨⟨prop, hprop, _⟩, _⟩ := h.names k hk
  simp only [propOf, hprop, Option.getD]
  exact alookup_mem k prop _ hprop

theorem flatVs_plain (t : Schema) (h : FlatPlain t) : flatVs t (sortedKeys t.node.props) = [] := by
  unfold flatVs
  rw [List.flatMap_eq_nil_iff]
  intro n hn
  exact propVs_free _ _ _ (h.free _ (mem_props_of_key t h n hn)).1

theorem find_field (cfg : Config) (t : Schema) (k : String) : ∀ ns : List String, k ∈ ns →
    (ns.map (fieldOf cfg t)).find? (fun f => f.jsonKey = k) = some (fieldOf cfg t k) := by
  intro ns
  induction ns with
  | nil => intro h; cases h
  | cons n rest ih =>
    intro hk
    by_cases hn : n = k
    · subst hn; simp [List.find?, fieldOf]
    · have : k ∈ rest := by rcases List.mem_cons.mp hk with e | e; exact absurd e.symm hn; exact e
      simp [List.find?, fieldOf, hn]
      have := ih this
      simpa [fieldOf] using this

theorem bind_field (cfg : Config) (t : Schema) (k : String) (hk : k ∈ sortedKeys t.node.props) :
    bindKey (flatFields cfg t) k = some (fieldOf cfg t k) := by
  unfold bindKey flatFields
  rw [find_field cfg t k _ hk]

theorem resolve_root (cfg : Config) (t : Schema) : Env.resolve [rootDecl cfg t] 8 "Root" = some (rootDecl cfg t) := by
  simp [Env.resolve, Env.find, rootDecl]

theorem certAll_scalar (env : Env) (defs : Spec.Defs) (p : Schema) (hp : FlatProp p) (f : Nat) :
    certAll env defs (f + 1) (scalarTy p) p = true := by
  obtain ⟨ht, href, _, _, _, _, hfmt, _⟩ := hp
  rcases ht with ht | ht | ht | ht <;> simp [certAll, scalarTy, ht, href, hfmt]

theorem certAll_field (env : Env) (defs : Spec.Defs) (t : Schema) (k : String) (hp : FlatProp (propOf t k)) (f : Nat) :
    certAll env defs (f + 2) (ftyOf t k) (propOf t k) = true := by
  unfold ftyOf
  split
  · exact certAll_scalar env defs _ hp (f + 1)
  · rw [certAll]; simp only [hp.2.1, ne_eq, not_true_eq_false, if_false]; exact certAll_scalar env defs _ hp f

theorem flatAllVs_plain (t : Schema) (h : FlatPlain t) : flatAllVs t = (flatReq t).map Validator.required := by
  simp [flatAllVs, flatVs_plain t h]

theorem certAll_root (cfg : Config) (t : Schema) (h : FlatPlain t) (f : Nat) :
    certAll [rootDecl cfg t] [] (f + 3) (.named "Root") t = true := by
  have hfree := flatAllVs_plain t h
  have hlen : (flatFields cfg t).length ≤ 31 := by
    simp only [flatFields, List.length_map, (sortedKeys_perm' t.node.props).length_eq, akeys]; exact h.small
  have hnames : ((flatFields cfg t).map (·.name)).Nodup := by
    have : (flatFields cfg t).map (·.name) = (sortedKeys t.node.props).map fname := by
      simp [flatFields, List.map_map, Function.comp_def, fieldOf]
    rw [this]; exact h.distinct
  have hkeys : ((flatFields cfg t).map (·.jsonKey)).Nodup := by
    have : (flatFields cfg t).map (·.jsonKey) = sortedKeys t.node.props := by
      simp [flatFields, List.map_map, Function.comp_def, fieldOf]
    rw [this]; exact (sortedKeys_perm' t.node.props).nodup_iff.mpr h.keysNodup
  have haddl : ((flatFields cfg t).find? (fun fl => fl.name = "AdditionalProperties")) = none := by
    rw [List.find?_eq_none]
    intro fl hfl
    simp only [flatFields, List.mem_map] at hfl
    obtain ⟨n, hn, rfl⟩ := hfl
    simpa [fieldOf] using (h.names n hn).2.2.2
  rw [certAll]
  simp only [h.ref, ne_eq, not_true_eq_false, if_false, resolve_root]
  simp only [rootDecl, Decl.hasMethod, hfree]
  simp [GoTy.isFmt, h.types, h.enum, h.allOf, h.anyOf, h.hasNot, h.addl, haddl, hlen, hnames, hkeys, valJustified, flatReq]
  refine ⟨?_, ?_⟩
  · intro fl hfl
    simp only [flatFields, List.mem_map] at hfl
    obtain ⟨n, hn, rfl⟩ := hfl
    simpa [fieldOf] using (mem_sortedKeys _ _).mp hn
  · intro a b hab
    have ha : a ∈ sortedKeys t.node.props := (mem_sortedKeys _ _).mpr (List.mem_map_of_mem (f := (·.1)) hab)
    have hb : propOf t a = b := propOf_mem t h (a, b) hab
    obtain ⟨⟨prop, hprop, hflat⟩, _⟩ := h.names a ha
    have hpb : prop = b := by
      have := alookup_mem a prop _ hprop
      exact nodup_keys_unique a prop b _ h.keysNodup this hab
    subst hpb
    rw [bind_field cfg t a ha]
    have hc : ∀ env, certAll env [] (f + 2) (ftyOf t a) prop = true := fun env => by
      have := certAll_field env [] t a (by rw [hb]; exact hflat) f
      rwa [hb] at this
    simp [fieldOf, hc]

theorem certCov_scalar (env : Env) (defs : Spec.Defs) (p : Schema) (hp : FlatProp p) (hn : p.node.hasNot = false) (f : Nat) :
    certCov env defs (f + 1) (scalarTy p) p = true := by
  obtain ⟨ht, href, henum, _, hany, hall, hfmt, _, _, hmul⟩ := hp
  rcases ht with ht | ht | ht | ht <;> simp [certCov, scalarTy, ht, href, hfmt, hmul, leafPlain, henum, hany, hall, hn]

theorem certCov_field (env : Env) (defs : Spec.Defs) (t : Schema) (k : String) (hp : FlatProp (propOf t k))
    (hn : (propOf t k).node.hasNot = false) (f : Nat) :
    certCov env defs (f + 2) (ftyOf t k) (propOf t k) = true := by
  unfold ftyOf
  split
  · exact certCov_scalar env defs _ hp hn (f + 1)
  · rw [certCov]
    simp only [hp.2.1, ne_eq, not_true_eq_false, if_false, hp.2.2.2.2.2.2.2.2.2, hp.2.2.2.2.2.2.1, Option.isNone_none, beq_self_eq_true, Bool.true_and]
    exact certCov_scalar env defs _ hp hn f

theorem certCov_root (cfg : Config) (t : Schema) (h : FlatPlain t) (f : Nat) :
    certCov [rootDecl cfg t] [] (f + 3) (.named "Root") t = true := by
  have hfree := flatAllVs_plain t h
  rw [certCov]
  simp only [h.ref, ne_eq, not_true_eq_false, if_false, resolve_root, h.multipleOf, h.format]
  simp only [rootDecl, hfree]
  simp [flatReq]
  refine ⟨?_, ?_⟩
  · intro k hk
    exact ⟨(mem_sortedKeys _ _).mpr (h.reqDeclared k hk), hk⟩
  · intro a b hab
    have ha : a ∈ sortedKeys t.node.props := (mem_sortedKeys _ _).mpr (List.mem_map_of_mem (f := (·.1)) hab)
    have hb : propOf t a = b := propOf_mem t h (a, b) hab
    obtain ⟨⟨prop, hprop, hflat⟩, _⟩ := h.names a ha
    have hpb : prop = b := nodup_keys_unique a prop b _ h.keysNodup (alookup_mem a prop _ hprop) hab
    subst hpb
    rw [bind_field cfg t a ha]
    have hfr := h.free _ hab
    have hc : ∀ env, certCov env [] (f + 2) (ftyOf t a) prop = true := fun env => by
      have := certCov_field env [] t a (by rw [hb]; exact hflat) (by rw [hb]; exact hfr.2) f
      rwa [hb] at this
    have htf := hfr.1
    simp only [topFree, Bool.and_eq_true, Bool.not_eq_true'] at htf
    simp [fieldOf, hc, topCovered, htf.1.1, htf.1.2, htf.2]

/-- **END TO END, for every schema of the flat types-and-required fragment**: the model generator succeeds, and the
    program it emits accepts — through `UnmarshalJSON`, for documents of every size — EXACTLY the documents that are
    valid under the schema.  No certificate is evaluated: the quantifier over schemas is discharged by proof. -/
theorem flat_end_to_end (cfg : Config) (hc : stdCfg cfg) (t : Schema) (h : FlatPlain t) (id : String) :
    ∃ out, Gen.run cfg { id := id, hasRoot := true, root := t, defs := [] } = .ok out ∧
      ∀ j, DocClean out.decls j → (Acc .json out.decls (.named "Root") j ↔ ∃ F, Spec.valid F [] t j = true) := by
  have hlen : (sortedKeys t.node.props).length ≤ 190 := by
    rw [(sortedKeys_perm' t.node.props).length_eq]; simp only [akeys, List.length_map]; have := h.small; omega
  obtain ⟨out, hrun, hdecls⟩ := run_flat cfg hc t h.toFlatObj id hlen
  refine ⟨out, hrun, ?_⟩
  intro j hclean
  rw [hdecls] at hclean ⊢
  exact certified_exact [rootDecl cfg t] [] 3 (.named "Root") t (certAll_root cfg t h 0) (certCov_root cfg t h 0) h.ref h.rootFree j hclean

/-- … and through `UnmarshalYAML`, for wire-compatible documents -/
theorem flat_end_to_end_yaml (cfg : Config) (hc : stdCfg cfg) (t : Schema) (h : FlatPlain t) (id : String) :
    ∃ out, Gen.run cfg { id := id, hasRoot := true, root := t, defs := [] } = .ok out ∧
      ∀ j, DocClean out.decls j → C17.WC out.decls (.named "Root") j →
        (Acc .yaml out.decls (.named "Root") j ↔ ∃ F, Spec.valid F [] t j = true) := by
  have hlen : (sortedKeys t.node.props).length ≤ 190 := by
    rw [(sortedKeys_perm' t.node.props).length_eq]; simp only [akeys, List.length_map]; have := h.small; omega
  obtain ⟨out, hrun, hdecls⟩ := run_flat cfg hc t h.toFlatObj id hlen
  refine ⟨out, hrun, ?_⟩
  intro j hclean hwc
  rw [hdecls] at hclean hwc ⊢
  exact C17.certified_exact_yaml [rootDecl cfg t] [] 3 (.named "Root") t (certAll_root cfg t h 0) (certCov_root cfg t h 0) h.ref h.rootFree j hclean hwc


theorem flatPropB_sound (p : Schema) (h : flatPropB p = true) : FlatProp p := by
  simp only [flatPropB, Bool.and_eq_true, Bool.or_eq_true, beq_iff_eq, Option.isNone_iff_eq_none, List.isEmpty_iff,
    Bool.not_eq_true'] at h
  obtain ⟨⟨⟨⟨⟨⟨⟨⟨⟨ht, href⟩, henum⟩, hext⟩, hany⟩, hall⟩, hfmt⟩, hdef⟩, hsub⟩, hmul⟩ := h
  refine ⟨?_, href, henum, hext, hany, hall, hfmt, hdef, hsub, hmul⟩
  rcases ht with ((ht | ht) | ht) | ht
  · exact Or.inl ht
  · exact Or.inr (Or.inl ht)
  · exact Or.inr (Or.inr (Or.inl ht))
  · exact Or.inr (Or.inr (Or.inr ht))

theorem nameOKB_sound (t : Schema) (n : String) (h : nameOKB t n = true) : NameOK t n := by
  simp only [nameOKB, Bool.and_eq_true, bne_iff_ne, ne_eq] at h
  obtain ⟨⟨⟨h1, h2⟩, h3⟩, h4⟩ := h
  refine ⟨?_, h2, h3, h4⟩
  cases hl : alookup n t.node.props with
  | none => rw [hl] at h1; cases h1
  | some prop => rw [hl] at h1; exact ⟨prop, rfl, flatPropB_sound prop h1⟩

theorem flatPlainB_sound (t : Schema) (h : flatPlainB t = true) : FlatPlain t := by
  simp only [flatPlainB, Bool.and_eq_true, beq_iff_eq, Option.isNone_iff_eq_none, List.isEmpty_iff, Bool.not_eq_true',
    decide_eq_true_eq, List.all_eq_true] at h
  obtain ⟨⟨⟨⟨⟨⟨⟨⟨⟨⟨⟨⟨⟨⟨⟨⟨⟨⟨⟨h1, h2⟩, h3⟩, h4⟩, h5⟩, h6⟩, h7⟩, h8⟩, h9⟩, h10⟩, h11⟩, h12⟩, h13⟩, h14⟩, h15⟩, h16⟩, h17⟩, h18⟩, h19⟩, h20⟩ := h
  exact {
    types := h1, ref := h2, enum := h3, ext := h4, anyOf := h5, allOf := h6, addl := h7, anyOfCount := h8, subElem := h9
    props := by intro he; rw [he] at h10; simp at h10
    names := fun n hn => nameOKB_sound t n (h11 n hn)
    distinct := h12, hasNot := h13, multipleOf := h14, format := h15, keysNodup := h16
    reqDeclared := fun k hk => by simpa using h17 k hk
    free := fun p hp => by have := h18 p hp; simpa using this
    small := h19, rootFree := h20 }

theorem stdCfgB_sound (cfg : Config) (h : stdCfgB cfg = true) : stdCfg cfg := by
  simp only [stdCfgB, Bool.and_eq_true, beq_iff_eq, List.isEmpty_iff, Bool.not_eq_true', bne_iff_ne, ne_eq] at h
  obtain ⟨⟨⟨⟨⟨h1, h2⟩, h3⟩, h4⟩, h5⟩, h6⟩ := h
  exact ⟨h1, h2, h3, h4, h5, h6⟩

/-- the form the driver's count refers to -/
theorem flat_end_to_end_checked (cfg : Config) (t : Schema) (id : String) (hc : stdCfgB cfg = true) (h : flatPlainB t = true) :
    ∃ out, Gen.run cfg { id := id, hasRoot := true, root := t, defs := [] } = .ok out ∧
      ∀ j, DocClean out.decls j → (Acc .json out.decls (.named "Root") j ↔ ∃ F, Spec.valid F [] t j = true) :=
  flat_end_to_end cfg (stdCfgB_sound cfg hc) t (flatPlainB_sound t h) id

/-- non-vacuity: an ordinary schema is in the fragment -/
def exFlat : Schema := .mk { types := ["object"], required := ["name"], props := [
  ("name", .mk { types := ["string"] }), ("age", .mk { types := ["integer"] }), ("ok", .mk { types := ["boolean"] }),
  ("score", .mk { types := ["number"] })] }

theorem exFlat_keys : sortedKeys exFlat.node.props = ["age", "name", "ok", "score"] := by
  simp [exFlat, Schema.node, sortedKeys, List.mergeSort]

example : flatPlainB exFlat = true ∧ stdCfgB { rootType := "Root" } = true := by
  unfold flatPlainB; rw [exFlat_keys]; decide +kernel

#print axioms flat_end_to_end
#print axioms flat_end_to_end_checked
#print axioms flat_end_to_end_yaml
/-! ### … with value constraints on the members -/

theorem fname_ne_empty (n : String) : fname n ≠ "" := by
  unfold fname identifierizeStr runesToString
  intro h
  have h2 := congrArg String.toList h
  simp only [String.toList_ofList] at h2
  have h3 : List.map (fun r : RInfo => Char.ofNat r.cp) (identifierize (List.map (fun c : String => c.toList.map asciiInfo) []) (n.toList.map asciiRune)) = [] := by
    simpa using h2
  exact C14.never_empty _ _ (List.map_eq_nil_iff.mp h3)

/-- the keywords of a member fit its type, and every stated numeric keyword is one the generator emits a check for -/
def kwOK (p : Schema) : Prop :=
  p.node.hasNot = false ∧
  (p.node.types = ["string"] → hasNumTop p = false ∧ hasArrTop p = false) ∧
  (p.node.types = ["boolean"] → topFree p = true) ∧
  ((p.node.types = ["number"] ∨ p.node.types = ["integer"]) →
     hasStrTop p = false ∧ hasArrTop p = false ∧ p.node.xmin ≠ .other ∧ p.node.xmax ≠ .other ∧
     (hasNumTop p = true → (normLo p.node.minimum p.node.xmin).1.isSome = true ∨ (normHi p.node.maximum p.node.xmax).1.isSome = true))

structure FlatFull (t : Schema) : Prop extends FlatObj t where
  hasNot : t.node.hasNot = false
  multipleOf : t.node.multipleOf = none
  format : t.node.format = ""
  keysNodup : (akeys t.node.props).Nodup
  reqDeclared : ∀ k ∈ t.node.required, k ∈ akeys t.node.props
  kws : ∀ p ∈ t.node.props, kwOK p.2
  small : t.node.props.length ≤ 31
  rootFree : topFree t = true

theorem find_field_name (cfg : Config) (t : Schema) (k : String) : ∀ ns : List String, k ∈ ns → (ns.map fname).Nodup →
    (ns.map (fieldOf cfg t)).find? (fun f => f.name = fname k) = some (fieldOf cfg t k) := by
  intro ns
  induction ns with
  | nil => intro h; cases h
  | cons n rest ih =>
    intro hk hnd
    by_cases hn : n = k
    · subst hn; simp [List.find?, fieldOf]
    · have hkr : k ∈ rest := by rcases List.mem_cons.mp hk with e | e; exact absurd e.symm hn; exact e
      have hne : fname n ≠ fname k := by
        intro he
        have := (List.nodup_cons.mp hnd).1
        exact this (by rw [he]; exact List.mem_map_of_mem hkr)
      have := ih hkr (List.nodup_cons.mp hnd).2
      simp [List.find?, fieldOf, hne]
      simpa [fieldOf] using this

theorem lookup_prop (t : Schema) (h : FlatFull t) (n : String) (hn : n ∈ sortedKeys t.node.props) :
    alookup n t.node.props = some (propOf t n) ∧ FlatProp (propOf t n) ∧ kwOK (propOf t n) := by
  obtain ⟨⟨prop, hprop, hflat⟩, _⟩ := h.names n hn
  have hp : propOf t n = prop := by simp [propOf, hprop]
  rw [hp]
  exact ⟨hprop, hflat, h.kws (n, prop) (alookup_mem n prop _ hprop)⟩

theorem valJ_prop (cfg : Config) (t : Schema) (h : FlatFull t) (env : Env) (n : String) (hn : n ∈ sortedKeys t.node.props)
    (v : Validator) (hv : v ∈ propVs (fname n) (propOf t n) (!t.node.required.contains n)) :
    valJustified env (flatFields cfg t) t v = true := by
  obtain ⟨hlk, hflat, hkw⟩ := lookup_prop t h n hn
  have hfind := find_field_name cfg t n _ hn h.distinct
  have hne := fname_ne_empty n
  obtain ⟨ht, href, _, _, _, _, _, _, _, hmul⟩ := hflat
  unfold propVs at hv
  rcases ht with ht | ht | ht | ht
  · simp only [ht] at hv
    split at hv
    · simp only [List.mem_singleton] at hv; subst hv
      by_cases hr : n ∈ t.node.required <;>
        simp [valJustified, strJustified, flatFields, hfind, hne, fieldOf, hlk, href, ftyOf, scalarTy, ht, strBase, hr]
    · cases hv
  · simp only [ht] at hv
    split at hv
    · simp only [List.mem_singleton] at hv; subst hv
      obtain ⟨_, _, hx1, hx2, _⟩ := hkw.2.2.2 (Or.inl ht)
      by_cases hr : n ∈ t.node.required <;>
        simp [valJustified, numJustified, flatFields, hfind, hne, fieldOf, hlk, href, ftyOf, scalarTy, ht, numBase, hr, hx1, hx2]
    · cases hv
  · simp only [ht] at hv
    split at hv
    · simp only [List.mem_singleton] at hv; subst hv
      obtain ⟨_, _, hx1, hx2, _⟩ := hkw.2.2.2 (Or.inr ht)
      by_cases hr : n ∈ t.node.required <;>
        simp [valJustified, numJustified, flatFields, hfind, hne, fieldOf, hlk, href, ftyOf, scalarTy, ht, numBase, hr, hx1, hx2]
    · cases hv
  · simp [ht] at hv

theorem mem_flatAllVs (t : Schema) (n : String) (hn : n ∈ sortedKeys t.node.props) (v : Validator)
    (hv : v ∈ propVs (fname n) (propOf t n) (!t.node.required.contains n)) : v ∈ flatAllVs t := by
  unfold flatAllVs flatVs
  exact List.mem_append_right _ (List.mem_flatMap.mpr ⟨n, hn, hv⟩)

theorem all_justified (cfg : Config) (t : Schema) (h : FlatFull t) (env : Env) :
    ∀ v ∈ flatAllVs t, valJustified env (flatFields cfg t) t v = true := by
  intro v hv
  unfold flatAllVs at hv
  rcases List.mem_append.mp hv with hv | hv
  · simp only [List.mem_map, flatReq, List.mem_filter] at hv
    obtain ⟨k, ⟨_, hk⟩, rfl⟩ := hv
    simpa [valJustified] using hk
  · unfold flatVs at hv
    obtain ⟨n, hn, hvn⟩ := List.mem_flatMap.mp hv
    exact valJ_prop cfg t h env n hn v hvn

theorem covered_prop (t : Schema) (h : FlatFull t) (n : String) (hn : n ∈ sortedKeys t.node.props) :
    topCovered (flatAllVs t) (fname n) (propOf t n) = true := by
  obtain ⟨hlk, hflat, hkw⟩ := lookup_prop t h n hn
  obtain ⟨ht, _, _, _, _, _, _, _, _, hmul⟩ := hflat
  have hmem := mem_flatAllVs t n hn
  unfold propVs at hmem
  unfold topCovered
  rcases ht with ht | ht | ht | ht
  · obtain ⟨h1, h2⟩ := hkw.2.1 ht
    simp only [ht] at hmem
    by_cases hs : hasStrTop (propOf t n) = true
    · have hcond : (propOf t n).node.minLength ≠ 0 ∨ (propOf t n).node.maxLength ≠ 0 ∨ (propOf t n).node.pattern ≠ "" := by
        simp only [hasStrTop, Bool.not_eq_true', Bool.and_eq_false_iff, beq_eq_false_iff_ne, ne_eq] at hs
        rcases hs with (hs | hs) | hs
        · exact Or.inl hs
        · exact Or.inr (Or.inl hs)
        · exact Or.inr (Or.inr hs)
      simp only [hcond, if_true] at hmem
      have := hmem _ (List.mem_singleton.mpr rfl)
      simp only [h1, h2, hs, Bool.not_false, Bool.true_or, Bool.not_true, Bool.false_or, Bool.true_and, Bool.and_true]
      exact List.any_eq_true.mpr ⟨_, this, by simp⟩
    · have hs' : hasStrTop (propOf t n) = false := by simpa using hs
      simp [h1, h2, hs']
  · obtain ⟨h1, h2, _, _, hem⟩ := hkw.2.2.2 (Or.inl ht)
    simp only [ht] at hmem
    by_cases hs : hasNumTop (propOf t n) = true
    · have hcond : ({ mult := none, lo := (propOf t n).node.minimum, hi := (propOf t n).node.maximum, xlo := (propOf t n).node.xmin, xhi := (propOf t n).node.xmax, roundToInt := false } : NumCheck).emitsSomething = true := by
        simp only [NumCheck.emitsSomething, Option.isSome_none, Bool.false_or, Bool.or_eq_true]; exact hem hs
      simp only [hcond, if_true] at hmem
      have := hmem _ (List.mem_singleton.mpr rfl)
      simp only [h1, h2, hs, Bool.not_false, Bool.true_or, Bool.not_true, Bool.false_or, Bool.true_and, Bool.and_true]
      exact List.any_eq_true.mpr ⟨_, this, by simp⟩
    · have hs' : hasNumTop (propOf t n) = false := by simpa using hs
      simp [h1, h2, hs']
  · obtain ⟨h1, h2, _, _, hem⟩ := hkw.2.2.2 (Or.inr ht)
    simp only [ht] at hmem
    by_cases hs : hasNumTop (propOf t n) = true
    · have hcond : ({ mult := none, lo := (propOf t n).node.minimum, hi := (propOf t n).node.maximum, xlo := (propOf t n).node.xmin, xhi := (propOf t n).node.xmax, roundToInt := true } : NumCheck).emitsSomething = true := by
        simp only [NumCheck.emitsSomething, Option.isSome_none, Bool.false_or, Bool.or_eq_true]; exact hem hs
      simp only [hcond, if_true] at hmem
      have := hmem _ (List.mem_singleton.mpr rfl)
      simp only [h1, h2, hs, Bool.not_false, Bool.true_or, Bool.not_true, Bool.false_or, Bool.true_and, Bool.and_true]
      exact List.any_eq_true.mpr ⟨_, this, by simp⟩
    · have hs' : hasNumTop (propOf t n) = false := by simpa using hs
      simp [h1, h2, hs']
  · have htf := hkw.2.2.1 ht
    simp only [topFree, Bool.and_eq_true, Bool.not_eq_true'] at htf
    simp [htf.1.1, htf.1.2, htf.2]

theorem propOf_mem' (t : Schema) (h : FlatFull t) (p : String × Schema) (hp : p ∈ t.node.props) : propOf t p.1 = p.2 := by
  simp [propOf, alookup_of_mem p.1 p.2 t.node.props h.keysNodup hp]

theorem certAll_root_full (cfg : Config) (t : Schema) (h : FlatFull t) (f : Nat) :
    certAll [rootDecl cfg t] [] (f + 3) (.named "Root") t = true := by
  have hlen : (flatFields cfg t).length ≤ 31 := by
    simp only [flatFields, List.length_map, (sortedKeys_perm' t.node.props).length_eq, akeys]; exact h.small
  have hnames : ((flatFields cfg t).map (·.name)).Nodup := by
    have : (flatFields cfg t).map (·.name) = (sortedKeys t.node.props).map fname := by
      simp [flatFields, List.map_map, Function.comp_def, fieldOf]
    rw [this]; exact h.distinct
  have hkeys : ((flatFields cfg t).map (·.jsonKey)).Nodup := by
    have : (flatFields cfg t).map (·.jsonKey) = sortedKeys t.node.props := by
      simp [flatFields, List.map_map, Function.comp_def, fieldOf]
    rw [this]; exact (sortedKeys_perm' t.node.props).nodup_iff.mpr h.keysNodup
  have haddl : ((flatFields cfg t).find? (fun fl => fl.name = "AdditionalProperties")) = none := by
    rw [List.find?_eq_none]
    intro fl hfl
    simp only [flatFields, List.mem_map] at hfl
    obtain ⟨n, hn, rfl⟩ := hfl
    simpa [fieldOf] using (h.names n hn).2.2.2
  have hjust : (flatAllVs t).all (valJustified [rootDecl cfg t] (flatFields cfg t) t) = true :=
    List.all_eq_true.mpr (all_justified cfg t h _)
  rw [certAll]
  simp only [h.ref, ne_eq, not_true_eq_false, if_false, resolve_root]
  simp only [rootDecl, Decl.hasMethod] at hjust ⊢
  simp [GoTy.isFmt, h.types, h.enum, h.allOf, h.anyOf, h.hasNot, h.addl, haddl, hlen, hnames, hkeys, hjust]
  refine ⟨?_, ?_⟩
  · intro fl hfl
    simp only [flatFields, List.mem_map] at hfl
    obtain ⟨n, hn, rfl⟩ := hfl
    simpa [fieldOf] using (mem_sortedKeys _ _).mp hn
  · intro a b hab
    have ha : a ∈ sortedKeys t.node.props := (mem_sortedKeys _ _).mpr (List.mem_map_of_mem (f := (·.1)) hab)
    have hb : propOf t a = b := propOf_mem' t h (a, b) hab
    obtain ⟨_, hflat, _⟩ := lookup_prop t h a ha
    rw [bind_field cfg t a ha]
    have hc : ∀ env, certAll env [] (f + 2) (ftyOf t a) b = true := fun env => by
      have := certAll_field env [] t a hflat f
      rwa [hb] at this
    simp [fieldOf, hc]

theorem certCov_root_full (cfg : Config) (t : Schema) (h : FlatFull t) (f : Nat) :
    certCov [rootDecl cfg t] [] (f + 3) (.named "Root") t = true := by
  rw [certCov]
  simp only [h.ref, ne_eq, not_true_eq_false, if_false, resolve_root, h.multipleOf, h.format]
  simp only [rootDecl]
  simp
  refine ⟨?_, ?_⟩
  · intro k hk
    refine ⟨.required k, ?_, by simp⟩
    unfold flatAllVs
    refine List.mem_append_left _ (List.mem_map.mpr ⟨k, ?_, rfl⟩)
    simp only [flatReq, List.mem_filter]
    exact ⟨(mem_sortedKeys _ _).mpr (h.reqDeclared k hk), by simpa using hk⟩
  · intro a b hab
    have ha : a ∈ sortedKeys t.node.props := (mem_sortedKeys _ _).mpr (List.mem_map_of_mem (f := (·.1)) hab)
    have hb : propOf t a = b := propOf_mem' t h (a, b) hab
    obtain ⟨_, hflat, hkw⟩ := lookup_prop t h a ha
    rw [bind_field cfg t a ha]
    have hc : ∀ env, certCov env [] (f + 2) (ftyOf t a) b = true := fun env => by
      have := certCov_field env [] t a hflat hkw.1 f
      rwa [hb] at this
    have hcov := covered_prop t h a ha
    rw [hb] at hcov
    simp [fieldOf, hc, hcov]

/-- **END TO END with value constraints**: for every flat object schema whose members carry numeric bounds (both drafts'
    spellings), string length limits and patterns as their types allow, the generated program accepts exactly the valid
    documents -/
theorem flat_end_to_end_full (cfg : Config) (hc : stdCfg cfg) (t : Schema) (h : FlatFull t) (id : String) :
    ∃ out, Gen.run cfg { id := id, hasRoot := true, root := t, defs := [] } = .ok out ∧
      ∀ j, DocClean out.decls j → (Acc .json out.decls (.named "Root") j ↔ ∃ F, Spec.valid F [] t j = true) := by
  have hlen : (sortedKeys t.node.props).length ≤ 190 := by
    rw [(sortedKeys_perm' t.node.props).length_eq]; simp only [akeys, List.length_map]; have := h.small; omega
  obtain ⟨out, hrun, hdecls⟩ := run_flat cfg hc t h.toFlatObj id hlen
  refine ⟨out, hrun, ?_⟩
  intro j hclean
  rw [hdecls] at hclean ⊢
  exact certified_exact [rootDecl cfg t] [] 3 (.named "Root") t (certAll_root_full cfg t h 0) (certCov_root_full cfg t h 0) h.ref h.rootFree j hclean

theorem flat_end_to_end_full_yaml (cfg : Config) (hc : stdCfg cfg) (t : Schema) (h : FlatFull t) (id : String) :
    ∃ out, Gen.run cfg { id := id, hasRoot := true, root := t, defs := [] } = .ok out ∧
      ∀ j, DocClean out.decls j → C17.WC out.decls (.named "Root") j →
        (Acc .yaml out.decls (.named "Root") j ↔ ∃ F, Spec.valid F [] t j = true) := by
  have hlen : (sortedKeys t.node.props).length ≤ 190 := by
    rw [(sortedKeys_perm' t.node.props).length_eq]; simp only [akeys, List.length_map]; have := h.small; omega
  obtain ⟨out, hrun, hdecls⟩ := run_flat cfg hc t h.toFlatObj id hlen
  refine ⟨out, hrun, ?_⟩
  intro j hclean hwc
  rw [hdecls] at hclean hwc ⊢
  exact C17.certified_exact_yaml [rootDecl cfg t] [] 3 (.named "Root") t (certAll_root_full cfg t h 0) (certCov_root_full cfg t h 0) h.ref h.rootFree j hclean hwc

theorem kwOKB_sound (p : Schema) (hp : FlatProp p) (h : kwOKB p = true) : kwOK p := by
  simp only [kwOKB, Bool.and_eq_true, Bool.not_eq_true'] at h
  obtain ⟨hn, hrest⟩ := h
  refine ⟨hn, ?_, ?_, ?_⟩
  · intro ht
    simp only [ht, beq_self_eq_true, if_true, Bool.and_eq_true, Bool.not_eq_true'] at hrest
    exact hrest
  · intro ht
    have hne : (p.node.types == ["string"]) = false := by rw [ht]; decide
    simp only [hne, Bool.false_eq_true, if_false, ht, beq_self_eq_true, if_true] at hrest
    exact hrest
  · intro ht
    have hne1 : (p.node.types == ["string"]) = false := by rcases ht with ht | ht <;> (rw [ht]; decide)
    have hne2 : (p.node.types == ["boolean"]) = false := by rcases ht with ht | ht <;> (rw [ht]; decide)
    simp only [hne1, hne2, Bool.false_eq_true, if_false, Bool.and_eq_true, Bool.not_eq_true', decide_eq_true_eq,
      Bool.or_eq_true] at hrest
    obtain ⟨⟨⟨⟨h1, h2⟩, h3⟩, h4⟩, h5⟩ := hrest
    refine ⟨h1, h2, h3, h4, ?_⟩
    intro hnum
    rcases h5 with (h5 | h5) | h5
    · rw [hnum] at h5; cases h5
    · exact Or.inl h5
    · exact Or.inr h5

theorem flatFullB_sound (t : Schema) (h : flatFullB t = true) : FlatFull t := by
  simp only [flatFullB, Bool.and_eq_true, beq_iff_eq, Option.isNone_iff_eq_none, List.isEmpty_iff, Bool.not_eq_true',
    decide_eq_true_eq, List.all_eq_true] at h
  obtain ⟨⟨⟨⟨⟨⟨⟨⟨⟨⟨⟨⟨⟨⟨⟨⟨⟨⟨⟨h1, h2⟩, h3⟩, h4⟩, h5⟩, h6⟩, h7⟩, h8⟩, h9⟩, h10⟩, h11⟩, h12⟩, h13⟩, h14⟩, h15⟩, h16⟩, h17⟩, h18⟩, h19⟩, h20⟩ := h
  have hnames : ∀ n ∈ sortedKeys t.node.props, NameOK t n := fun n hn => nameOKB_sound t n (h11 n hn)
  exact {
    types := h1, ref := h2, enum := h3, ext := h4, anyOf := h5, allOf := h6, addl := h7, anyOfCount := h8, subElem := h9
    props := by intro he; rw [he] at h10; simp at h10
    names := hnames
    distinct := h12, hasNot := h13, multipleOf := h14, format := h15, keysNodup := h16
    reqDeclared := fun k hk => by simpa using h17 k hk
    kws := fun p hp => by
      have hk : p.1 ∈ sortedKeys t.node.props := (mem_sortedKeys _ _).mpr (List.mem_map_of_mem (f := (·.1)) hp)
      obtain ⟨⟨prop, hprop, hflat⟩, _⟩ := hnames p.1 hk
      have : prop = p.2 := nodup_keys_unique p.1 prop p.2 _ h16 (alookup_mem p.1 prop _ hprop) hp
      subst this
      exact kwOKB_sound _ hflat (h18 p hp)
    small := h19, rootFree := h20 }

/-- the form the driver's count (`CERT flatc=`) refers to -/
theorem flat_end_to_end_full_checked (cfg : Config) (t : Schema) (id : String) (hc : stdCfgB cfg = true) (h : flatFullB t = true) :
    ∃ out, Gen.run cfg { id := id, hasRoot := true, root := t, defs := [] } = .ok out ∧
      ∀ j, DocClean out.decls j → (Acc .json out.decls (.named "Root") j ↔ ∃ F, Spec.valid F [] t j = true) :=
  flat_end_to_end_full cfg (stdCfgB_sound cfg hc) t (flatFullB_sound t h) id

/-- non-vacuity: members with bounds, limits and a pattern -/
def exFlatC : Schema := .mk { types := ["object"], required := ["name"], props := [
  ("name", .mk { types := ["string"], minLength := 1, maxLength := 8, pattern := "^a" }),
  ("age", .mk { types := ["integer"], minimum := some 0, maximum := some 150 }),
  ("score", .mk { types := ["number"], xmin := .num 0 })] }

theorem exFlatC_keys : sortedKeys exFlatC.node.props = ["age", "name", "score"] := by
  simp [exFlatC, Schema.node, sortedKeys, List.mergeSort]

example : flatFullB exFlatC = true := by
  unfold flatFullB; rw [exFlatC_keys]; decide +kernel

end GJS.Props.Flat

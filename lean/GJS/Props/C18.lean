import GJS.Model.Cli
import GJS.Model.Gen
/-
  C18 — the tool fails loudly and cleanly.
-/
namespace GJS.Props.C18
open GJS

theorem mapM_error_of_mem {α β : Type} (f : α → Except String β) (l : List α) (a : α) (e : String)
    (ha : a ∈ l) (hf : f a = .error e) : ∃ e', l.mapM f = .error e' := by
  induction l with
  | nil => cases ha
  | cons x xs ih =>
    simp only [List.mapM_cons]
    rcases List.mem_cons.mp ha with rfl | h
    · exact ⟨e, by simp [hf, bind, Except.bind]⟩
    · cases hx : f x with
      | error e1 => exact ⟨e1, by simp [bind, Except.bind]⟩
      | ok v =>
        obtain ⟨e', he'⟩ := ih h
        exact ⟨e', by simp [he', bind, Except.bind]⟩

/-- **a generation error writes nothing**: if any input file fails to load or generate, the run ends with
    status 1, a diagnostic, empty stdout and no file written — whatever the other files are -/
theorem cli_generation_error_writes_nothing (i : CliIn) (a : String) (e : String)
    (hargs : a ∈ i.args) (hfail : i.doFile a = .error e) :
    (cliRun i).exit = 1 ∧ (cliRun i).stdout = "" ∧ (cliRun i).writes = [] ∧ (cliRun i).stderr ≠ "" := by
  unfold cliRun
  have hne : i.args.isEmpty = false := by cases hl : i.args <;> simp_all
  simp only [hne, Bool.false_eq_true, ↓reduceIte]
  split
  · simp [failed]
  · split
    · simp [failed]
    · obtain ⟨e', he'⟩ := mapM_error_of_mem i.doFile i.args a e hargs hfail
      simp [he', failed]

/-- **a malformed flag writes nothing** and is reported before any file is even loaded -/
theorem cli_flag_error_writes_nothing (i : CliIn) (l : List String) (p : String)
    (hargs : i.args ≠ []) (hpkg : i.pkgGiven = true) (hl : l ∈ i.flagLists) (hp : p ∈ l) (hbad : '=' ∉ p.toList) :
    (cliRun i).exit = 1 ∧ (cliRun i).stdout = "" ∧ (cliRun i).writes = [] ∧ (cliRun i).stderr ≠ "" := by
  unfold cliRun
  have hne : i.args.isEmpty = false := by cases h : i.args <;> simp_all
  have hsplit : ∃ e, splitFlag p = .error e := by
    unfold splitFlag
    have : p.toList.idxOf? '=' = none := by
      simp [List.idxOf?, List.findIdx?_eq_none_iff]
      intro x hx he; subst he; exact hbad hx
    simp [this]
  obtain ⟨e, he⟩ := hsplit
  obtain ⟨e1, he1⟩ := mapM_error_of_mem splitFlag l p e hp he
  obtain ⟨e2, he2⟩ := mapM_error_of_mem parseFlagMap i.flagLists l e1 hl (by simpa [parseFlagMap] using he1)
  simp [hne, hpkg, he2, failed]

/-- **success is complete**: when every step succeeds all sources are delivered, exit status 0 -/
theorem cli_success_writes_all (i : CliIn) (hargs : i.args ≠ []) (hpkg : i.pkgGiven = true)
    (hflags : ∃ m, i.flagLists.mapM parseFlagMap = .ok m) (hfiles : ∃ u, i.args.mapM i.doFile = .ok u)
    (hw : ∀ s ∈ i.sources, i.writeOK s.1 = true) :
    (cliRun i).exit = 0 ∧ (cliRun i).writes = i.sources.filter (·.1 ≠ "-") := by
  unfold cliRun
  have hne : i.args.isEmpty = false := by cases h : i.args <;> simp_all
  obtain ⟨m, hm⟩ := hflags
  obtain ⟨u, hu⟩ := hfiles
  have hfind : i.sources.find? (fun s => !decide (s.1 = "-") && !i.writeOK s.1) = none := by
    apply List.find?_eq_none.mpr
    intro s hs
    simp [hw s hs]
  simp [hne, hpkg, hm, hu, hfind]

/-- an entry without `=` is rejected -/
theorem flag_without_equals_rejected (p : String) (h : '=' ∉ p.toList) : ∃ e, splitFlag p = .error e := by
  unfold splitFlag
  have : p.toList.idxOf? '=' = none := by
    simp [List.idxOf?, List.findIdx?_eq_none_iff]
    intro x hx he; subst he; exact h hx
  simp [this]

/-- an entry with `=` is split at the first one -/
theorem flag_with_equals_accepted (k v : List Char) (hk : '=' ∉ k) :
    splitFlag (String.ofList (k ++ '=' :: v)) = .ok (String.ofList k, String.ofList v) := by
  unfold splitFlag
  have hidx : (k ++ '=' :: v).idxOf? '=' = some k.length := by
    induction k with
    | nil => simp [List.idxOf?, List.findIdx?_cons]
    | cons c cs ih =>
      have hc : c ≠ '=' := by intro h; subst h; exact hk (List.mem_cons_self ..)
      have hcs : '=' ∉ cs := fun h => hk (List.mem_cons_of_mem _ h)
      have := ih hcs
      simp only [List.idxOf?, List.cons_append, List.findIdx?_cons] at this ⊢
      simp [hc, this]
  simp [String.toList_ofList, hidx]

/-- an unknown type name is an error of the primitive-type mapping (one of the ungeneratable elements) -/
theorem unknown_type_fails (cfg : Config) (t fmt : String) (ptr : Bool) (n : NodeF Schema) (st : GenSt)
    (h : t ≠ "string" ∧ t ≠ "number" ∧ t ≠ "integer" ∧ t ≠ "boolean" ∧ t ≠ "null" ∧ t ≠ "object" ∧ t ≠ "array") :
    (primitiveType cfg t fmt ptr n).run st = .error (.unknownType t) := by
  obtain ⟨h1, h2, h3, h4, h5, h6, h7⟩ := h
  unfold primitiveType
  simp only [bind, StateT.bind, StateT.run, get, getThe, MonadStateOf.get, StateT.get, pure, Except.pure, Except.bind]
  rfl

/-- a `null` where a sub-schema is expected is a parse error (fix R5), never a nil sub-schema -/
theorem null_subschema_is_parse_error (f : Nat) (what k : String) (rest : List (String × Json)) :
    parseEntries (f + 1) what ((k, .null) :: rest) = .error (.nullSub what) := rfl

/-- parsing is total: every JSON value yields a schema document or an error -/
theorem parse_is_total (j : Json) : (∃ d, parseSchema j = .ok d) ∨ (∃ e, parseSchema j = .error e) := by
  cases h : parseSchema j with
  | ok d => exact .inl ⟨d, rfl⟩
  | error e => exact .inr ⟨e, rfl⟩

end GJS.Props.C18

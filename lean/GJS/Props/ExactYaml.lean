import GJS.Props.Exact
import GJS.Props.C17
/-
  C17 ∘ C02: what `UnmarshalYAML` accepts on the certified fragment.

  `certified_exact` (Props/Exact.lean) says that for a certified program the JSON method accepts exactly the valid
  documents; `yaml_json_agree` (Props/C17.lean) says that on wire-compatible documents the two methods are the same
  function.  Together: on the certified fragment the YAML method accepts exactly the valid documents too — for
  documents of every size and depth that are clean (`DocClean`) and wire-compatible (`WC`, decided by `wcB`, which
  the driver evaluates for every compared document).
-/
namespace GJS.Props.C17
open GJS GJS.Props.C02

/-- acceptance does not depend on the wire for wire-compatible documents -/
theorem acc_yaml_iff_json (env : Env) (ty : GoTy) (j : Json) (h : WC env ty j) :
    Acc .yaml env ty j ↔ Acc .json env ty j := by
  constructor
  · rintro ⟨f, v, hv⟩; exact ⟨f, v, by rw [← yaml_json_agree env ty j h f]; exact hv⟩
  · rintro ⟨f, v, hv⟩; exact ⟨f, v, by rw [yaml_json_agree env ty j h f]; exact hv⟩

/-- **the YAML method is exact on the certified fragment**: accepted through `UnmarshalYAML` ⇔ valid under the schema -/
theorem certified_exact_yaml (env : Env) (defs : Spec.Defs) (f : Nat) (ty : GoTy) (s : Schema)
    (hA : certAll env defs f ty s = true) (hC : certCov env defs f ty s = true)
    (hroot : s.node.ref = "") (htop : topFree s = true)
    (j : Json) (hclean : DocClean env j) (hwc : WC env ty j) :
    Acc .yaml env ty j ↔ ∃ F, Spec.valid F defs s j = true :=
  (acc_yaml_iff_json env ty j hwc).trans (certified_exact env defs f ty s hA hC hroot htop j hclean)

/-- the same with the decidable check the driver evaluates -/
theorem certified_exact_yaml_wcB (env : Env) (defs : Spec.Defs) (f g : Nat) (ty : GoTy) (s : Schema)
    (hA : certAll env defs f ty s = true) (hC : certCov env defs f ty s = true)
    (hroot : s.node.ref = "") (htop : topFree s = true)
    (j : Json) (hclean : DocClean env j) (hwc : wcB env g ty j = true) :
    Acc .yaml env ty j ↔ ∃ F, Spec.valid F defs s j = true :=
  certified_exact_yaml env defs f ty s hA hC hroot htop j hclean (wcB_sound env g ty j hwc)

/-- and whenever both wires are certified and compatible, they accept the same documents AND decode them to the same
    value (the value half is `yaml_json_agree` itself) -/
theorem certified_yaml_json_same_set (env : Env) (defs : Spec.Defs) (f : Nat) (ty : GoTy) (s : Schema)
    (hA : certAll env defs f ty s = true) (hC : certCov env defs f ty s = true)
    (hroot : s.node.ref = "") (htop : topFree s = true)
    (j : Json) (hclean : DocClean env j) (hwc : WC env ty j) :
    (Acc .yaml env ty j ↔ Acc .json env ty j) ∧ (Acc .json env ty j ↔ ∃ F, Spec.valid F defs s j = true) :=
  ⟨acc_yaml_iff_json env ty j hwc, certified_exact env defs f ty s hA hC hroot htop j hclean⟩

/-- non-vacuity: a document of the example program is wire-compatible (and the program is certified: Exact.lean) -/
example : wcB exEnvA 20 (.named "Root") (.obj [("name", .str "abc"), ("age", .num 3), ("tags", .arr [.str "t"])]) = true := by
  decide +kernel

end GJS.Props.C17

import GJS.Props.TreeGen
import GJS.Props.FlatExact
/-
  END TO END on trees of objects: generator model + run-time model against the reference semantics for every schema
  that is a tree of objects with constrained scalar leaves, every document — `tree_end_to_end` (JSON),
  `tree_end_to_end_yaml`; both certificates hold for the whole tree by induction on the depth (`certAll_tree`,
  `certCov_tree`); `treeFullB_sound` ties the decidable check the driver evaluates (FlatCert.lean) to the fragment.
-/
namespace GJS.Props.Tree
open GJS GJS.Props.Flat GJS.Props.C02

/-- an array member states only what the generated code checks: item counts on the array, nothing on the items -/
def ArrFull (p : Schema) : Prop :=
  p.node.hasNot = false ∧ p.node.multipleOf = none ∧ p.node.format = "" ∧ hasNumTop p = false ∧ hasStrTop p = false ∧
  0 ≤ p.node.maxItems ∧ (itemsOf p).node.hasNot = false ∧ topFree (itemsOf p) = true

/-- per node: what the end-to-end theorem needs beyond `TreeOK` -/
structure NodeFull (t : Schema) : Prop where
  hasNot : t.node.hasNot = false
  multipleOf : t.node.multipleOf = none
  format : t.node.format = ""
  keysNodup : (akeys t.node.props).Nodup
  reqDeclared : ∀ k ∈ t.node.required, k ∈ akeys t.node.props
  free : topFree t = true
  kws : ∀ p ∈ t.node.props, isObj p.2 = false → isArr p.2 = false → kwOK p.2
  arrs : ∀ p ∈ t.node.props, isArr p.2 = true → ArrFull p.2

/-- a tree of objects with scalar leaves in which every node states only what the generated code checks -/
def TreeFull : Nat → Schema → Prop
  | 0, _ => False
  | d + 1, t => ObjShape t ∧ NodeFull t ∧ ∀ n ∈ sortedKeys t.node.props, MemberName t n ∧
      (FlatProp (propOf t n) ∨ (isObj (propOf t n) = true ∧ TreeFull d (propOf t n)) ∨ ArrProp (propOf t n))

theorem TreeFull.ok : ∀ {d : Nat} {t : Schema}, TreeFull d t → TreeOK d t := by
  intro d
  induction d with
  | zero => intro t h; exact absurd h (by simp [TreeFull])
  | succ d ih =>
    intro t h
    refine ⟨h.1, fun n hn => ⟨(h.2.2 n hn).1, ?_⟩⟩
    rcases (h.2.2 n hn).2 with hf | ⟨ho, ht⟩ | ha
    · exact Or.inl hf
    · exact Or.inr (Or.inl ⟨ho, ih ht⟩)
    · exact Or.inr (Or.inr ha)

/-- in an environment with pairwise distinct names a struct declaration is what its name resolves to -/
theorem resolve_mem (env : Env) (hnd : (env.map (·.name)).Nodup) (dd : Decl) (hm : dd ∈ env)
    (hb : ∃ vs m, dd.body = .plain vs m) : Env.resolve env 8 dd.name = some dd := by
  have hfind : Env.find env dd.name = some dd := by
    induction env with
    | nil => cases hm
    | cons x rest ih =>
      simp only [List.map_cons, List.nodup_cons] at hnd
      rcases List.mem_cons.mp hm with e | e
      · subst e; simp [Env.find]
      · have hne : x.name ≠ dd.name := by
          intro he; exact hnd.1 (he ▸ List.mem_map_of_mem e)
        simp only [Env.find, hne, if_false]
        exact ih hnd.2 e
  obtain ⟨vs, m, hbody⟩ := hb
  simp [Env.resolve, hfind, hbody]

theorem nodeDecl_plain (cfg : Config) (scope : String) (t : Schema) : ∃ vs m, (nodeDecl cfg scope t).body = .plain vs m := by
  simp only [nodeDecl]
  split
  · exact ⟨_, _, rfl⟩
  · exact ⟨_, _, rfl⟩

/-- the declarations of a sub-tree are among those of the tree -/
theorem sub_decls (cfg : Config) (d : Nat) (scope : String) (t : Schema) (n : String) (hn : n ∈ sortedKeys t.node.props)
    (ho : isObj (propOf t n) = true) : ∀ dd ∈ treeDecls cfg d (scope ++ fname n) (propOf t n), dd ∈ treeDecls cfg (d + 1) scope t := by
  intro dd hdd
  rw [treeDecls_succ]
  refine List.mem_append_left _ (List.mem_flatMap.mpr ⟨n, hn, ?_⟩)
  simpa [memDecls, ho] using hdd

theorem findT_key (cfg : Config) (hT : cfg.tags = ["json", "yaml", "mapstructure"]) (scope : String) (t : Schema) (k : String) :
    ∀ ns : List String, k ∈ ns → (ns.map (fieldT cfg scope t)).find? (fun f => f.jsonKey = k) = some (fieldT cfg scope t k) := by
  intro ns
  induction ns with
  | nil => intro h; cases h
  | cons n rest ih =>
    intro hk
    by_cases hn : n = k
    · subst hn; simp [List.find?, fieldT, hT]
    · have : k ∈ rest := by rcases List.mem_cons.mp hk with e | e; exact absurd e.symm hn; exact e
      have h2 := ih this
      simp [List.find?, fieldT, hT, hn]
      simpa [fieldT, hT] using h2

theorem findT_name (cfg : Config) (scope : String) (t : Schema) (k : String) : ∀ ns : List String, k ∈ ns → (ns.map fname).Nodup →
    (ns.map (fieldT cfg scope t)).find? (fun f => f.name = fname k) = some (fieldT cfg scope t k) := by
  intro ns
  induction ns with
  | nil => intro h; cases h
  | cons n rest ih =>
    intro hk hnd
    by_cases hn : n = k
    · subst hn; simp [List.find?, fieldT]
    · have hkr : k ∈ rest := by rcases List.mem_cons.mp hk with e | e; exact absurd e.symm hn; exact e
      have hne : fname n ≠ fname k := by
        intro he
        exact (List.nodup_cons.mp hnd).1 (by rw [he]; exact List.mem_map_of_mem hkr)
      have := ih hkr (List.nodup_cons.mp hnd).2
      simp [List.find?, fieldT, hne]
      simpa [fieldT] using this

theorem bindT (cfg : Config) (hT : cfg.tags = ["json", "yaml", "mapstructure"]) (scope : String) (t : Schema) (k : String)
    (hk : k ∈ sortedKeys t.node.props) :
    bindKey ((sortedKeys t.node.props).map (fieldT cfg scope t)) k = some (fieldT cfg scope t k) := by
  unfold bindKey
  rw [findT_key cfg hT scope t k _ hk]

/-- the node-level facts of a member, collected -/
theorem member_facts (d : Nat) (t : Schema) (h : TreeFull (d + 1) t) (n : String) (hn : n ∈ sortedKeys t.node.props) :
    alookup n t.node.props = some (propOf t n) ∧ (n, propOf t n) ∈ t.node.props := by
  obtain ⟨⟨prop, hprop⟩, _⟩ := (h.2.2 n hn).1
  have hp : propOf t n = prop := by simp [propOf, hprop]
  rw [hp]
  exact ⟨hprop, alookup_mem n prop _ hprop⟩

theorem valJ_T (cfg : Config) (hT : cfg.tags = ["json", "yaml", "mapstructure"]) (scope : String) (d : Nat) (t : Schema) (h : TreeFull (d + 1) t) (env : Env) (n : String)
    (hn : n ∈ sortedKeys t.node.props) (v : Validator) (hv : v ∈ memVs t n) :
    valJustified env ((sortedKeys t.node.props).map (fieldT cfg scope t)) t v = true := by
  obtain ⟨hlk, hmem⟩ := member_facts d t h n hn
  rcases (h.2.2 n hn).2 with hflat | ⟨hobj, _⟩ | harr
  · have hno := flat_not_obj _ hflat
    have hna := flat_not_arr _ hflat
    have hkw := h.2.1.kws (n, propOf t n) hmem hno hna
    have hfind := findT_name cfg scope t n _ hn h.1.distinct
    have hne := fname_ne_empty n
    obtain ⟨ht, href, _, _, _, _, _, _, _, hmul⟩ := hflat
    simp only [memVs, hno, hna, Bool.false_eq_true, if_false] at hv
    unfold propVs at hv
    rcases ht with ht | ht | ht | ht
    · simp only [ht] at hv
      split at hv
      · simp only [List.mem_singleton] at hv; subst hv
        by_cases hr : n ∈ t.node.required <;>
          simp [valJustified, strJustified, hfind, hne, fieldT, hT, hlk, href, memFty, memTy, hno, hna, scalarTy, ht, strBase, hr]
      · cases hv
    · simp only [ht] at hv
      split at hv
      · simp only [List.mem_singleton] at hv; subst hv
        obtain ⟨_, _, hx1, hx2, _⟩ := hkw.2.2.2 (Or.inl ht)
        by_cases hr : n ∈ t.node.required <;>
          simp [valJustified, numJustified, hfind, hne, fieldT, hT, hlk, href, memFty, memTy, hno, hna, scalarTy, ht, numBase, hr, hx1, hx2]
      · cases hv
    · simp only [ht] at hv
      split at hv
      · simp only [List.mem_singleton] at hv; subst hv
        obtain ⟨_, _, hx1, hx2, _⟩ := hkw.2.2.2 (Or.inr ht)
        by_cases hr : n ∈ t.node.required <;>
          simp [valJustified, numJustified, hfind, hne, fieldT, hT, hlk, href, memFty, memTy, hno, hna, scalarTy, ht, numBase, hr, hx1, hx2]
      · cases hv
    · simp [ht] at hv
  · simp [memVs, hobj] at hv
  · have hno := arr_not_obj _ harr
    have hya := arr_is_arr _ harr
    have hfull := h.2.1.arrs (n, propOf t n) hmem hya
    have hfind := findT_name cfg scope t n _ hn h.1.distinct
    have hne := fname_ne_empty n
    simp only [memVs, hno, hya, Bool.false_eq_true, if_false, if_true] at hv
    split at hv
    · simp only [List.mem_singleton] at hv; subst hv
      have hmx : 0 ≤ (propOf t n).node.maxItems := hfull.2.2.2.2.2.1
      rcases harr.2.2.2.2.2.2.2.2.1 with hit | hit | hit | hit <;>
        simp [valJustified, arrJustified, hfind, hne, fieldT, hT, hlk, harr.2.1, harr.1, memFty, memTy, hno, hya, sliceElemOK, elemOK, scalarTy, hit, hmx]
    · cases hv

theorem TreeFull.shape {d : Nat} {t : Schema} (h : TreeFull d t) : ObjShape t := h.ok.shape

theorem certAll_memScalar (env : Env) (defs : Spec.Defs) (scope : String) (t : Schema) (k : String) (hp : FlatProp (propOf t k)) (f : Nat) :
    certAll env defs (f + 2) (memFty scope t k) (propOf t k) = true := by
  have hno := flat_not_obj _ hp
  have hna := flat_not_arr _ hp
  simp only [memFty, memTy, hno, hna, Bool.false_eq_true, if_false, Bool.or_false]
  split
  · exact certAll_scalar env defs _ hp (f + 1)
  · rw [certAll]; simp only [hp.2.1, ne_eq, not_true_eq_false, if_false]; exact certAll_scalar env defs _ hp f

theorem elemOK_scalar (env : Env) (p : Schema) (hp : FlatProp p) : elemOK env (scalarTy p) = true := by
  rcases hp.1 with h | h | h | h <;> simp [elemOK, scalarTy, h]

theorem certAll_memArr (env : Env) (defs : Spec.Defs) (scope : String) (t : Schema) (k : String) (hp : ArrProp (propOf t k))
    (hn : (propOf t k).node.hasNot = false) (f : Nat) :
    certAll env defs (f + 2) (memFty scope t k) (propOf t k) = true := by
  have hno := arr_not_obj _ hp
  have hya := arr_is_arr _ hp
  obtain ⟨hat, haref, haenum, _, haany, haall, _, ⟨it, hit⟩, hitflat⟩ := hp
  have hio : itemsOf (propOf t k) = it := by simp [itemsOf, hit]
  rw [hio] at hitflat
  simp only [memFty, memTy, hno, hya, Bool.or_true, if_true, Bool.false_eq_true, if_false, hio]
  rw [certAll]
  simp [haref, hat, haenum, haall, haany, hn, hit, elemOK_scalar env it hitflat, certAll_scalar env defs it hitflat f]

theorem certAll_tree (cfg : Config) (hc : stdCfg cfg) (env : Env) (hnd : (env.map (·.name)).Nodup) :
    ∀ (d : Nat) (scope : String) (t : Schema) (f : Nat), TreeFull d t → (∀ dd ∈ treeDecls cfg d scope t, dd ∈ env) → 3 * d ≤ f →
      certAll env [] f (.named scope) t = true := by
  have hT : cfg.tags = ["json", "yaml", "mapstructure"] := hc.1
  have hom : cfg.onlyModels = false := hc.2.2.1
  intro d
  induction d with
  | zero => intro _ _ _ h; exact absurd h (by simp [TreeFull])
  | succ d ih =>
    intro scope t f h hin hf
    obtain ⟨g, rfl⟩ : ∃ g, f = g + 1 := ⟨f - 1, by omega⟩
    obtain ⟨hs, hfull, hmem⟩ := h
    have hres : Env.resolve env 8 scope = some (nodeDecl cfg scope t) :=
      resolve_mem env hnd (nodeDecl cfg scope t) (hin _ (treeDecls_last cfg d scope t)) (nodeDecl_plain cfg scope t)
    have hkeysEq : ((sortedKeys t.node.props).map (fieldT cfg scope t)).map (·.jsonKey) = sortedKeys t.node.props := by
      simp [List.map_map, Function.comp_def, fieldT, hT]
    have hlen : ((sortedKeys t.node.props).map (fieldT cfg scope t)).length ≤ 31 := by
      simp only [List.length_map, (sortedKeys_perm' t.node.props).length_eq, akeys]; exact hs.small
    have hnames : (((sortedKeys t.node.props).map (fieldT cfg scope t)).map (·.name)).Nodup := by
      have : ((sortedKeys t.node.props).map (fieldT cfg scope t)).map (·.name) = (sortedKeys t.node.props).map fname := by
        simp [List.map_map, Function.comp_def, fieldT]
      rw [this]; exact hs.distinct
    have hkeys : (((sortedKeys t.node.props).map (fieldT cfg scope t)).map (·.jsonKey)).Nodup := by
      rw [hkeysEq]; exact (sortedKeys_perm' t.node.props).nodup_iff.mpr hfull.keysNodup
    have haddl : (((sortedKeys t.node.props).map (fieldT cfg scope t)).find? (fun fl => fl.name = "AdditionalProperties")) = none := by
      rw [List.find?_eq_none]
      intro fl hfl
      simp only [List.mem_map] at hfl
      obtain ⟨n, hn, rfl⟩ := hfl
      simpa [fieldT] using (hmem n hn).1.2.2.2
    have hjust : (nodeVs t).all (valJustified env ((sortedKeys t.node.props).map (fieldT cfg scope t)) t) = true := by
      rw [List.all_eq_true]
      intro v hv
      unfold nodeVs at hv
      rcases List.mem_append.mp hv with hv | hv
      · simp only [List.mem_map, flatReq, List.mem_filter] at hv
        obtain ⟨k, ⟨_, hk⟩, rfl⟩ := hv
        simpa [valJustified] using hk
      · obtain ⟨n, hn, hvn⟩ := List.mem_flatMap.mp hv
        exact valJ_T cfg hT scope d t ⟨hs, hfull, hmem⟩ env n hn v hvn
    rw [certAll]
    simp only [hs.ref, ne_eq, not_true_eq_false, if_false, hres]
    simp only [nodeDecl, Decl.hasMethod, hom] at hjust ⊢
    simp [GoTy.isFmt, hs.types, hs.enum, hs.allOf, hs.anyOf, hfull.hasNot, hs.addl, haddl, hlen, hnames, hkeys, hjust]
    have hlen' : (sortedKeys t.node.props).length ≤ 31 := by simpa using hlen
    have hnames' : (List.map ((fun x => x.name) ∘ fieldT cfg scope t) (sortedKeys t.node.props)).Nodup := by
      rw [← List.map_map]; exact hnames
    have hkeys' : (List.map ((fun x => x.jsonKey) ∘ fieldT cfg scope t) (sortedKeys t.node.props)).Nodup := by
      rw [← List.map_map]; exact hkeys
    refine ⟨⟨⟨⟨hlen', hnames'⟩, hkeys'⟩, ?_⟩, ?_⟩
    · intro n hn
      simpa [fieldT, hT] using (mem_sortedKeys _ _).mp hn
    · intro a b hab
      have ha : a ∈ sortedKeys t.node.props := (mem_sortedKeys _ _).mpr (List.mem_map_of_mem (f := (·.1)) hab)
      have hb : propOf t a = b := by simp [propOf, alookup_of_mem a b t.node.props hfull.keysNodup hab]
      rw [bindT cfg hT scope t a ha]
      have hcert : certAll env [] g (memFty scope t a) b = true := by
        rcases (hmem a ha).2 with hflat | ⟨hobj, htree⟩ | harr
        · obtain ⟨g', rfl⟩ : ∃ g', g = g' + 2 := ⟨g - 2, by omega⟩
          have := certAll_memScalar env [] scope t a hflat g'
          rwa [hb] at this
        rotate_left
        · obtain ⟨g', rfl⟩ : ∃ g', g = g' + 2 := ⟨g - 2, by omega⟩
          have hfa := hfull.arrs (a, b) hab (by rw [← hb]; exact arr_is_arr _ harr)
          have := certAll_memArr env [] scope t a harr (by rw [hb]; exact hfa.1) g'
          rwa [hb] at this
        · have hsub : ∀ dd ∈ treeDecls cfg d (scope ++ fname a) (propOf t a), dd ∈ env :=
            fun dd hdd => hin dd (sub_decls cfg d scope t a ha hobj dd hdd)
          have hnaO := obj_not_arr _ hobj
          simp only [memFty, memTy, hobj, hnaO, if_true, Bool.or_false]
          rw [hb] at htree hsub
          split
          · exact ih (scope ++ fname a) b g htree hsub (by omega)
          · obtain ⟨g', rfl⟩ : ∃ g', g = g' + 1 := ⟨g - 1, by omega⟩
            rw [certAll]
            simp only [htree.shape.ref, ne_eq, not_true_eq_false, if_false]
            exact ih (scope ++ fname a) b g' htree hsub (by omega)
      simp [fieldT, hT, hcert]

theorem mem_nodeVs (t : Schema) (n : String) (hn : n ∈ sortedKeys t.node.props) (v : Validator) (hv : v ∈ memVs t n) : v ∈ nodeVs t := by
  unfold nodeVs
  exact List.mem_append_right _ (List.mem_flatMap.mpr ⟨n, hn, hv⟩)

theorem covered_T (d : Nat) (t : Schema) (h : TreeFull (d + 1) t) (n : String) (hn : n ∈ sortedKeys t.node.props)
    (hflat : FlatProp (propOf t n)) : topCovered (nodeVs t) (fname n) (propOf t n) = true := by
  obtain ⟨_, hmemp⟩ := member_facts d t h n hn
  have hno := flat_not_obj _ hflat
  have hna := flat_not_arr _ hflat
  have hkw := h.2.1.kws (n, propOf t n) hmemp hno hna
  obtain ⟨ht, _, _, _, _, _, _, _, _, hmul⟩ := hflat
  have hmem := mem_nodeVs t n hn
  simp only [memVs, hno, hna, Bool.false_eq_true, if_false] at hmem
  unfold propVs at hmem
  unfold topCovered
  rcases ht with ht | ht | ht | ht
  · obtain ⟨h1, h2⟩ := hkw.2.1 ht
    simp only [ht] at hmem
    by_cases hs : hasStrTop (propOf t n) = true
    · have hcond : (propOf t n).node.minLength ≠ 0 ∨ (propOf t n).node.maxLength ≠ 0 ∨ (propOf t n).node.pattern ≠ "" := by
        simp only [hasStrTop, Bool.not_eq_true', Bool.and_eq_false_iff, beq_eq_false_iff_ne, ne_eq] at hs
        rcases hs with (hs | hs) | hs
        · exact Or.inl hs
        · exact Or.inr (Or.inl hs)
        · exact Or.inr (Or.inr hs)
      simp only [hcond, if_true] at hmem
      have := hmem _ (List.mem_singleton.mpr rfl)
      simp only [h1, h2, hs, Bool.not_false, Bool.true_or, Bool.not_true, Bool.false_or, Bool.true_and, Bool.and_true]
      exact List.any_eq_true.mpr ⟨_, this, by simp⟩
    · have hs' : hasStrTop (propOf t n) = false := by simpa using hs
      simp [h1, h2, hs']
  · obtain ⟨h1, h2, _, _, hem⟩ := hkw.2.2.2 (Or.inl ht)
    simp only [ht] at hmem
    by_cases hs : hasNumTop (propOf t n) = true
    · have hcond : ({ mult := none, lo := (propOf t n).node.minimum, hi := (propOf t n).node.maximum, xlo := (propOf t n).node.xmin, xhi := (propOf t n).node.xmax, roundToInt := false } : NumCheck).emitsSomething = true := by
        simp only [NumCheck.emitsSomething, Option.isSome_none, Bool.false_or, Bool.or_eq_true]; exact hem hs
      simp only [hcond, if_true] at hmem
      have := hmem _ (List.mem_singleton.mpr rfl)
      simp only [h1, h2, hs, Bool.not_false, Bool.true_or, Bool.not_true, Bool.false_or, Bool.true_and, Bool.and_true]
      exact List.any_eq_true.mpr ⟨_, this, by simp⟩
    · have hs' : hasNumTop (propOf t n) = false := by simpa using hs
      simp [h1, h2, hs']
  · obtain ⟨h1, h2, _, _, hem⟩ := hkw.2.2.2 (Or.inr ht)
    simp only [ht] at hmem
    by_cases hs : hasNumTop (propOf t n) = true
    · have hcond : ({ mult := none, lo := (propOf t n).node.minimum, hi := (propOf t n).node.maximum, xlo := (propOf t n).node.xmin, xhi := (propOf t n).node.xmax, roundToInt := true } : NumCheck).emitsSomething = true := by
        simp only [NumCheck.emitsSomething, Option.isSome_none, Bool.false_or, Bool.or_eq_true]; exact hem hs
      simp only [hcond, if_true] at hmem
      have := hmem _ (List.mem_singleton.mpr rfl)
      simp only [h1, h2, hs, Bool.not_false, Bool.true_or, Bool.not_true, Bool.false_or, Bool.true_and, Bool.and_true]
      exact List.any_eq_true.mpr ⟨_, this, by simp⟩
    · have hs' : hasNumTop (propOf t n) = false := by simpa using hs
      simp [h1, h2, hs']
  · have htf := hkw.2.2.1 ht
    simp only [topFree, Bool.and_eq_true, Bool.not_eq_true'] at htf
    simp [htf.1.1, htf.1.2, htf.2]

theorem certCov_memScalar (env : Env) (defs : Spec.Defs) (scope : String) (t : Schema) (k : String) (hp : FlatProp (propOf t k))
    (hn : (propOf t k).node.hasNot = false) (f : Nat) :
    certCov env defs (f + 2) (memFty scope t k) (propOf t k) = true := by
  have hno := flat_not_obj _ hp
  have hna := flat_not_arr _ hp
  simp only [memFty, memTy, hno, hna, Bool.false_eq_true, if_false, Bool.or_false]
  split
  · exact certCov_scalar env defs _ hp hn (f + 1)
  · rw [certCov]
    simp only [hp.2.1, ne_eq, not_true_eq_false, if_false, hp.2.2.2.2.2.2.2.2.2, hp.2.2.2.2.2.2.1, Option.isNone_none, beq_self_eq_true, Bool.true_and]
    exact certCov_scalar env defs _ hp hn f

theorem covered_arr (d : Nat) (t : Schema) (h : TreeFull (d + 1) t) (n : String) (hn : n ∈ sortedKeys t.node.props)
    (harr : ArrProp (propOf t n)) : topCovered (nodeVs t) (fname n) (propOf t n) = true := by
  obtain ⟨_, hmemp⟩ := member_facts d t h n hn
  have hno := arr_not_obj _ harr
  have hya := arr_is_arr _ harr
  have hfull := h.2.1.arrs (n, propOf t n) hmemp hya
  have hmem := mem_nodeVs t n hn
  simp only [memVs, hno, hya, Bool.false_eq_true, if_false, if_true] at hmem
  unfold topCovered
  by_cases hs : hasArrTop (propOf t n) = true
  · have hcond : (propOf t n).node.minItems ≠ 0 ∨ (propOf t n).node.maxItems ≠ 0 := by
      simp only [hasArrTop, Bool.not_eq_true', Bool.and_eq_false_iff, beq_eq_false_iff_ne, ne_eq] at hs
      exact hs
    simp only [hcond, if_true] at hmem
    have := hmem _ (List.mem_singleton.mpr rfl)
    simp only [hfull.2.2.2.1, hfull.2.2.2.2.1, hs, Bool.not_false, Bool.true_or, Bool.not_true, Bool.false_or, Bool.true_and]
    exact List.any_eq_true.mpr ⟨_, this, by simp⟩
  · have hs' : hasArrTop (propOf t n) = false := by simpa using hs
    simp [hfull.2.2.2.1, hfull.2.2.2.2.1, hs']

theorem certCov_memArr (env : Env) (defs : Spec.Defs) (scope : String) (t : Schema) (k : String) (hp : ArrProp (propOf t k))
    (hf : ArrFull (propOf t k)) (f : Nat) :
    certCov env defs (f + 2) (memFty scope t k) (propOf t k) = true := by
  have hno := arr_not_obj _ hp
  have hya := arr_is_arr _ hp
  obtain ⟨hat, haref, haenum, _, haany, haall, _, ⟨it, hit⟩, hitflat⟩ := hp
  obtain ⟨hn, hmul, hfmt, _, _, _, hitn, hitf⟩ := hf
  have hio : itemsOf (propOf t k) = it := by simp [itemsOf, hit]
  rw [hio] at hitflat hitn hitf
  simp only [memFty, memTy, hno, hya, Bool.or_true, if_true, Bool.false_eq_true, if_false, hio]
  rw [certCov]
  simp [haref, hmul, hfmt, leafPlain, haenum, haall, haany, hn, hit, hitf, certCov_scalar env defs it hitflat hitn f]

theorem certCov_tree (cfg : Config) (hc : stdCfg cfg) (env : Env) (hnd : (env.map (·.name)).Nodup) :
    ∀ (d : Nat) (scope : String) (t : Schema) (f : Nat), TreeFull d t → (∀ dd ∈ treeDecls cfg d scope t, dd ∈ env) → 3 * d ≤ f →
      certCov env [] f (.named scope) t = true := by
  have hT : cfg.tags = ["json", "yaml", "mapstructure"] := hc.1
  have hom : cfg.onlyModels = false := hc.2.2.1
  intro d
  induction d with
  | zero => intro _ _ _ h; exact absurd h (by simp [TreeFull])
  | succ d ih =>
    intro scope t f h hin hf
    obtain ⟨g, rfl⟩ : ∃ g, f = g + 1 := ⟨f - 1, by omega⟩
    have h0 := h
    obtain ⟨hs, hfull, hmem⟩ := h
    have hres : Env.resolve env 8 scope = some (nodeDecl cfg scope t) :=
      resolve_mem env hnd (nodeDecl cfg scope t) (hin _ (treeDecls_last cfg d scope t)) (nodeDecl_plain cfg scope t)
    rw [certCov]
    simp only [hs.ref, ne_eq, not_true_eq_false, if_false, hres, hfull.multipleOf, hfull.format]
    simp only [nodeDecl, hom]
    simp
    refine ⟨?_, ?_⟩
    · intro k hk
      refine ⟨.required k, ?_, by simp⟩
      unfold nodeVs
      refine List.mem_append_left _ (List.mem_map.mpr ⟨k, ?_, rfl⟩)
      simp only [flatReq, List.mem_filter]
      exact ⟨(mem_sortedKeys _ _).mpr (hfull.reqDeclared k hk), by simpa using hk⟩
    · intro a b hab
      have ha : a ∈ sortedKeys t.node.props := (mem_sortedKeys _ _).mpr (List.mem_map_of_mem (f := (·.1)) hab)
      have hb : propOf t a = b := by simp [propOf, alookup_of_mem a b t.node.props hfull.keysNodup hab]
      rw [bindT cfg hT scope t a ha]
      rcases (hmem a ha).2 with hflat | ⟨hobj, htree⟩ | harr
      · have hno := flat_not_obj _ hflat
        have hna := flat_not_arr _ hflat
        have hkw := hfull.kws (a, b) hab (by rw [← hb]; exact hno) (by rw [← hb]; exact hna)
        obtain ⟨g', rfl⟩ : ∃ g', g = g' + 2 := ⟨g - 2, by omega⟩
        have hc1 := certCov_memScalar env [] scope t a hflat (by rw [hb]; exact hkw.1) g'
        have hc2 := covered_T d t h0 a ha hflat
        rw [hb] at hc1 hc2
        simp [fieldT, hc1, hc2]
      · have hsub : ∀ dd ∈ treeDecls cfg d (scope ++ fname a) (propOf t a), dd ∈ env :=
          fun dd hdd => hin dd (sub_decls cfg d scope t a ha hobj dd hdd)
        rw [hb] at htree hsub hobj
        have hchild : NodeFull b := by
          cases d with
          | zero => exact absurd htree (by simp [TreeFull])
          | succ d' => exact htree.2.1
        have htf := hchild.free
        simp only [topFree, Bool.and_eq_true, Bool.not_eq_true'] at htf
        have hcov : topCovered (nodeVs t) (fname a) b = true := by simp [topCovered, htf.1.1, htf.1.2, htf.2]
        have hcert : certCov env [] g (memFty scope t a) b = true := by
          have hnaO := obj_not_arr _ hobj
          simp only [memFty, memTy, hb, hobj, hnaO, if_true, Bool.or_false]
          split
          · exact ih (scope ++ fname a) b g htree hsub (by omega)
          · obtain ⟨g', rfl⟩ : ∃ g', g = g' + 1 := ⟨g - 1, by omega⟩
            rw [certCov]
            simp only [htree.shape.ref, ne_eq, not_true_eq_false, if_false, hchild.multipleOf, hchild.format, Option.isNone_none,
              beq_self_eq_true, Bool.true_and]
            exact ih (scope ++ fname a) b g' htree hsub (by omega)
        simp [fieldT, hcert, hcov]
      · have hfa := hfull.arrs (a, b) hab (by rw [← hb]; exact arr_is_arr _ harr)
        obtain ⟨g', rfl⟩ : ∃ g', g = g' + 2 := ⟨g - 2, by omega⟩
        have hc1 := certCov_memArr env [] scope t a harr (by rw [hb]; exact hfa) g'
        have hc2 := covered_arr d t h0 a ha harr
        rw [hb] at hc1 hc2
        simp [fieldT, hc1, hc2]

/-- **END TO END for trees of objects**: for every schema that is a tree of objects (up to five levels) whose leaves are
    scalars with numeric bounds, string limits and patterns, the model generator succeeds and the program it emits — one
    struct per object, each with its own presence checks and validators — accepts through `UnmarshalJSON` EXACTLY the
    documents that are valid under the schema, at every level.  No certificate is evaluated. -/
theorem tree_end_to_end (cfg : Config) (hc : stdCfg cfg) (d : Nat) (t : Schema) (h : TreeFull d t)
    (hnd : (scopes d "Root" t).Nodup) (hd : d ≤ 5) (id : String) :
    ∃ out, Gen.run cfg { id := id, hasRoot := true, root := t, defs := [] } = .ok out ∧
      ∀ j, DocClean out.decls j → (Acc .json out.decls (.named "Root") j ↔ ∃ F, Spec.valid F [] t j = true) := by
  have hroot : cfg.rootType = "Root" := hc.2.2.2.2.1
  obtain ⟨out, hrun, hdecls⟩ := run_tree cfg hc.gen d t h.ok (by rw [hroot]; exact hnd) hd id
  rw [hroot] at hdecls
  refine ⟨out, hrun, ?_⟩
  intro j hclean
  rw [hdecls] at hclean ⊢
  have hnames : ((treeDecls cfg d "Root" t).map (·.name)).Nodup := by rw [scopes_names]; exact hnd
  have hfree : topFree t = true := by
    cases d with
    | zero => exact absurd h (by simp [TreeFull])
    | succ d' => exact h.2.1.free
  exact certified_exact (treeDecls cfg d "Root" t) [] (3 * d) (.named "Root") t
    (certAll_tree cfg hc _ hnames d "Root" t (3 * d) h (fun _ hdd => hdd) (Nat.le_refl _))
    (certCov_tree cfg hc _ hnames d "Root" t (3 * d) h (fun _ hdd => hdd) (Nat.le_refl _))
    h.shape.ref hfree j hclean

theorem tree_end_to_end_yaml (cfg : Config) (hc : stdCfg cfg) (d : Nat) (t : Schema) (h : TreeFull d t)
    (hnd : (scopes d "Root" t).Nodup) (hd : d ≤ 5) (id : String) :
    ∃ out, Gen.run cfg { id := id, hasRoot := true, root := t, defs := [] } = .ok out ∧
      ∀ j, DocClean out.decls j → C17.WC out.decls (.named "Root") j →
        (Acc .yaml out.decls (.named "Root") j ↔ ∃ F, Spec.valid F [] t j = true) := by
  have hroot : cfg.rootType = "Root" := hc.2.2.2.2.1
  obtain ⟨out, hrun, hdecls⟩ := run_tree cfg hc.gen d t h.ok (by rw [hroot]; exact hnd) hd id
  rw [hroot] at hdecls
  refine ⟨out, hrun, ?_⟩
  intro j hclean hwc
  rw [hdecls] at hclean hwc ⊢
  have hnames : ((treeDecls cfg d "Root" t).map (·.name)).Nodup := by rw [scopes_names]; exact hnd
  have hfree : topFree t = true := by
    cases d with
    | zero => exact absurd h (by simp [TreeFull])
    | succ d' => exact h.2.1.free
  exact C17.certified_exact_yaml (treeDecls cfg d "Root" t) [] (3 * d) (.named "Root") t
    (certAll_tree cfg hc _ hnames d "Root" t (3 * d) h (fun _ hdd => hdd) (Nat.le_refl _))
    (certCov_tree cfg hc _ hnames d "Root" t (3 * d) h (fun _ hdd => hdd) (Nat.le_refl _))
    h.shape.ref hfree j hclean hwc

/-! ### the decidable check -/

theorem objShapeB_sound (t : Schema) (h : objShapeB t = true) : ObjShape t := by
  simp only [objShapeB, Bool.and_eq_true, beq_iff_eq, Option.isNone_iff_eq_none, List.isEmpty_iff, Bool.not_eq_true',
    decide_eq_true_eq] at h
  obtain ⟨⟨⟨⟨⟨⟨⟨⟨⟨⟨⟨⟨h1, h2⟩, h3⟩, h4⟩, h5⟩, h6⟩, h7⟩, h8⟩, h9⟩, h10⟩, h11⟩, h12⟩, h13⟩ := h
  exact { types := h1, ref := h2, enum := h3, ext := h4, anyOf := h5, allOf := h6, addl := h7, anyOfCount := h8, subElem := h9,
          props := by intro he; rw [he] at h10; simp at h10
          dflt := h11, small := h12, distinct := h13 }

theorem memberNameB_sound (t : Schema) (n : String) (h : memberNameB t n = true) : MemberName t n := by
  simp only [memberNameB, Bool.and_eq_true, bne_iff_ne, ne_eq] at h
  obtain ⟨⟨⟨h1, h2⟩, h3⟩, h4⟩ := h
  refine ⟨?_, h2, h3, h4⟩
  cases hl : alookup n t.node.props with
  | none => rw [hl] at h1; cases h1
  | some prop => exact ⟨prop, rfl⟩

theorem arrMemberB_sound (p : Schema) (h : arrMemberB p = true) : ArrProp p ∧ ArrFull p := by
  simp only [arrMemberB, Bool.and_eq_true, beq_iff_eq, Option.isNone_iff_eq_none, List.isEmpty_iff, Bool.not_eq_true',
    decide_eq_true_eq] at h
  obtain ⟨⟨⟨⟨⟨⟨⟨⟨⟨⟨⟨⟨⟨⟨⟨⟨h1, h2⟩, h3⟩, h4⟩, h5⟩, h6⟩, h7⟩, h8⟩, h9⟩, h10⟩, h11⟩, h12⟩, h13⟩, h14⟩, h15⟩, h16⟩, h17⟩ := h
  have hsome : ∃ it, p.node.items = some it := by
    cases hi : p.node.items with
    | none => rw [hi] at h8; cases h8
    | some it => exact ⟨it, rfl⟩
  exact ⟨⟨h1, h2, h3, h4, h5, h6, h7, hsome, flatPropB_sound _ h9⟩, ⟨h10, h11, h12, h13, h14, h15, h16, h17⟩⟩

theorem treeFullB_sound : ∀ (d : Nat) (t : Schema), treeFullB d t = true → TreeFull d t := by
  intro d
  induction d with
  | zero => intro t h; simp [treeFullB] at h
  | succ d ih =>
    intro t h
    simp only [treeFullB, Bool.and_eq_true, List.all_eq_true, Bool.or_eq_true] at h
    obtain ⟨⟨hshape, hnode⟩, hmem⟩ := h
    have hs := objShapeB_sound t hshape
    simp only [nodeFullB, Bool.and_eq_true, beq_iff_eq, Option.isNone_iff_eq_none, Bool.not_eq_true', decide_eq_true_eq,
      List.all_eq_true, Bool.or_eq_true] at hnode
    obtain ⟨⟨⟨⟨⟨⟨n1, n2⟩, n3⟩, n4⟩, n5⟩, n6⟩, n7⟩ := hnode
    have hmemS : ∀ n ∈ sortedKeys t.node.props, MemberName t n ∧
        (FlatProp (propOf t n) ∨ (isObj (propOf t n) = true ∧ TreeFull d (propOf t n)) ∨ ArrProp (propOf t n)) := by
      intro n hn
      obtain ⟨hm1, hm2⟩ := hmem n hn
      refine ⟨memberNameB_sound t n hm1, ?_⟩
      rcases hm2 with (hf | hf) | hf
      · exact Or.inl (flatPropB_sound _ hf)
      · exact Or.inr (Or.inl ⟨hf.1, ih _ hf.2⟩)
      · exact Or.inr (Or.inr (arrMemberB_sound _ hf).1)
    refine ⟨hs, ?_, hmemS⟩
    exact {
      hasNot := n1, multipleOf := n2, format := n3, keysNodup := n4
      reqDeclared := fun k hk => by simpa using n5 k hk
      free := n6
      kws := fun p hp hno hna => by
        have hk' : p.1 ∈ sortedKeys t.node.props := (mem_sortedKeys _ _).mpr (List.mem_map_of_mem (f := (·.1)) hp)
        have hpo : propOf t p.1 = p.2 := by simp [propOf, alookup_of_mem p.1 p.2 t.node.props n4 hp]
        rcases n7 p hp with (hobj | harr) | hk
        · rw [hno] at hobj; cases hobj
        · rw [hna] at harr; cases harr
        · rcases (hmemS p.1 hk').2 with hflat | ⟨ho, _⟩ | harr
          · rw [hpo] at hflat; exact kwOKB_sound _ hflat hk
          · rw [hpo, hno] at ho; cases ho
          · rw [hpo] at harr; have := arr_is_arr _ harr; rw [hna] at this; cases this
      arrs := fun p hp hya => by
        have hk' : p.1 ∈ sortedKeys t.node.props := (mem_sortedKeys _ _).mpr (List.mem_map_of_mem (f := (·.1)) hp)
        have hpo : propOf t p.1 = p.2 := by simp [propOf, alookup_of_mem p.1 p.2 t.node.props n4 hp]
        obtain ⟨_, hm2⟩ := hmem p.1 hk'
        rw [hpo] at hm2
        rcases hm2 with (hf | hf) | hf
        · have := flat_not_arr _ (flatPropB_sound _ hf); rw [hya] at this; cases this
        · have := obj_not_arr _ hf.1; rw [hya] at this; cases this
        · exact (arrMemberB_sound _ hf).2 }

/-- the form the driver's count (`CERT tree=`) refers to -/
theorem tree_end_to_end_checked (cfg : Config) (t : Schema) (id : String) (hc : stdCfgB cfg = true)
    (h : treeFullB 5 t = true) (hnd : decide ((scopes 5 "Root" t).Nodup) = true) :
    ∃ out, Gen.run cfg { id := id, hasRoot := true, root := t, defs := [] } = .ok out ∧
      ∀ j, DocClean out.decls j → (Acc .json out.decls (.named "Root") j ↔ ∃ F, Spec.valid F [] t j = true) :=
  tree_end_to_end cfg (stdCfgB_sound cfg hc) 5 t (treeFullB_sound 5 t h) (by simpa using hnd) (Nat.le_refl 5) id

def exAddr : Schema := .mk { types := ["object"], required := ["city"], props := [
  ("city", .mk { types := ["string"], minLength := 1 }), ("zip", .mk { types := ["integer"], minimum := some 0 })] }
def exTree : Schema := .mk { types := ["object"], required := ["name"], props := [
  ("name", .mk { types := ["string"] }), ("address", exAddr)] }

theorem exTree_keys : sortedKeys exTree.node.props = ["address", "name"] := by
  simp [exTree, Schema.node, sortedKeys, List.mergeSort]
theorem exAddr_keys : sortedKeys exAddr.node.props = ["city", "zip"] := by
  simp [exAddr, Schema.node, sortedKeys, List.mergeSort]
theorem exTree_addr : propOf exTree "address" = exAddr := by
  simp [propOf, exTree, Schema.node, alookup]

/-- non-vacuity: a two-level schema with constrained leaves is inside `tree_end_to_end` -/
example : treeFullB 5 exTree = true ∧ (scopes 5 "Root" exTree).Nodup := by
  constructor
  · simp only [treeFullB, objShapeB, nodeFullB, exTree_keys, List.all_cons, List.all_nil, exTree_addr, exAddr_keys]
    decide +kernel
  · simp only [scopes, exTree_keys, List.flatMap_cons, List.flatMap_nil, exTree_addr, exAddr_keys]
    decide +kernel

end GJS.Props.Tree

import GJS.FactsExpected
/-
  C12 (and every property stated of "the tool" as a function of its inputs) — the model `Gen.run` is a FUNCTION of the
  configuration and the files: it has nowhere to keep anything from one output file, one generator or one run to the
  next.  The source is entitled to that reading as long as its library packages declare no package-level variables
  (other than error sentinels, which hold no state).  The fact group `packageVars` lists every package-level variable
  of /repo's non-test sources, regenerated on every run and tied by `GJS.FactsTie.packageVars`; this theorem says what
  the list is: the flag holders of the command, nothing in `pkg/…` or `internal/…`.
  (Round-10 change C12-10 added `var wrapped sync.Map` to pkg/codegen: a memo of wrapped comments shared by every
  emitter of the process.)
-/
namespace GJS.Props.NoPackageState

/-- every package-level variable of the source lives in the command package (`.`): the libraries are stateless -/
theorem library_has_no_package_state :
    ∀ v ∈ GJS.FactsExpected.packageVars, v.toList.take 7 = ".: var ".toList := by
  decide

/-- the list is not empty (the statement above is not vacuous) and holds the flag variables one expects -/
theorem command_flags_listed :
    ".: var tags []string" ∈ GJS.FactsExpected.packageVars ∧ ".: var schemaOutputs []string" ∈ GJS.FactsExpected.packageVars := by
  decide

end GJS.Props.NoPackageState

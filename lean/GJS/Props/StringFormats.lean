import GJS.Props.C03
import GJS.Model.Gen
import GJS.FactsExpected
/-
  C03, the `format` keyword on strings — for EVERY format text (the specification's names, OpenAPI's, any other), the Go type
  chosen by the string branch of `PrimitiveTypeFromJSONSchemaType` is string-shaped: `string` itself or one of the library
  types that decode from a JSON string only.  It is never a slice, a number or a struct, so no array of small integers, no
  number and no object is admitted where a string is declared.  (Round-10 change C03-10 added a `byte` case returning
  `[]byte`; the correspondence family "string formats" ties this table to the source on 34 names.)
-/
namespace GJS.Props.StringFormats
open GJS GJS.Proofs GJS.Props.C03

/-- the table has four library types and the default; every entry is string-shaped -/
theorem stringType_top (format : String) : topMatches "string" (stringType format).1 = true := by
  unfold stringType
  split <;> simp [topMatches]

/-- the imports of an entry are those of its library type, nothing for a plain string -/
theorem stringType_plain_no_imports (format : String) (h : (stringType format).1 = .string) :
    (stringType format).2 = [] := by
  unfold stringType at h ⊢
  split <;> simp_all

/-- a format outside the five library names is a plain string -/
theorem stringType_other (format : String)
    (h : format ≠ "ipv4" ∧ format ≠ "ipv6" ∧ format ≠ "date-time" ∧ format ≠ "date" ∧ format ≠ "time") :
    stringType format = (.string, []) := by
  obtain ⟨h1, h2, h3, h4, h5⟩ := h
  unfold stringType
  split <;> simp_all

/-- whatever the format says: a non-null value that is not a JSON string is rejected by the type chosen for it -/
theorem formatted_string_rejects_non_string (env : Env) (format : String) (d : Json)
    (hd : Spec.hasType "string" d = false) (hn : d ≠ .null) : FailsAt env (stringType format).1 d :=
  top_mismatch env "string" _ d (stringType_top format) hd hn

/-- and so is it behind a pointer (the nullable spelling `["string","null"]`) -/
theorem formatted_string_rejects_non_string_ptr (env : Env) (format : String) (d : Json)
    (hd : Spec.hasType "string" d = false) (hn : d ≠ .null) : FailsAt env (.ptr (stringType format).1) d :=
  FailsAt.ptr (formatted_string_rejects_non_string env format d hd hn)

/-- the model's table, entry by entry: labels, the library type's kind in the model, package name, import path, Go type name -/
def modelTable : List (List String × FmtKind × String × String × String) := [
  (["date"], .date, "types", "github.com/atombender/go-jsonschema/pkg/types", "SerializableDate"),
  (["date-time"], .dateTime, "time", "time", "Time"),
  (["ipv4", "ipv6"], .addr, "net/netip", "net/netip", "Addr"),
  (["time"], .time, "types", "github.com/atombender/go-jsonschema/pkg/types", "SerializableTime")]

def quote (s : String) : String := "\"" ++ s ++ "\""

/-- one entry as the fact extractor prints a clause of the source's switch -/
def render (e : List String × FmtKind × String × String × String) : String :=
  "case " ++ ", ".intercalate (e.1.map quote) ++ ": NamedType " ++ quote e.2.2.1 ++ " " ++ quote e.2.2.2.1 ++ " " ++ quote e.2.2.2.2

/-- the clauses of the source's format switch (regenerated on every run, `GJS.FactsTie.stringFormats`) are exactly the model's
    table: the same labels, each building a named library type — no clause builds a slice or any other kind of type -/
theorem table_is_the_source_table : GJS.FactsExpected.stringFormats = modelTable.map render := by
  decide

/-- and the model function is that table: every label of an entry gives the entry's library type and import -/
theorem table_entries_are_library_types :
    ∀ e ∈ modelTable, ∀ l ∈ e.1, stringType l = (.fmt e.2.1, [e.2.2.2.1]) := by
  intro e he l hl
  simp [modelTable] at he
  rcases he with rfl | rfl | rfl | rfl <;> simp at hl <;> (try rcases hl with rfl | rfl) <;> (try subst hl) <;> simp [stringType]

-- the premises are met by the inputs the seeded change admitted
example : Spec.hasType "string" (.arr [.num 104, .num 105]) = false ∧ (Json.arr [.num 104, .num 105]) ≠ .null := by
  simp [Spec.hasType]
example : stringType "byte" = (.string, []) := stringType_other "byte" (by decide)
example : (stringType "date").1 = .fmt .date := by simp [stringType]

end GJS.Props.StringFormats

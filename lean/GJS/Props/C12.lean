import GJS.Model.Gen
import GJS.Model.Files
/-
  C12 — output is a deterministic function of schema content and options.
  Go maps become association lists in the model; the generator reads them only through `alookup` and
  `sortedKeys`.  These theorems say that neither observes the order of the entries: permuting the keys of any
  JSON object (or changing Go's map iteration order) cannot change which (name, sub-schema) sequence the
  generator visits.  The sites where the real code ranges over a map are a regenerated fact (`mapRanges`).
-/
namespace GJS.Props.C12
open GJS

/-- `sortedKeys` (sort.Strings over the collected keys) does not depend on the order of the entries -/
theorem sortedKeys_perm {β : Type} (m m' : List (String × β)) (h : m.Perm m') :
    sortedKeys m = sortedKeys m' := by
  unfold sortedKeys
  have hp : ((m.map (·.1)).mergeSort (fun a b => decide (a ≤ b))).Perm
            ((m'.map (·.1)).mergeSort (fun a b => decide (a ≤ b))) :=
    (List.mergeSort_perm _ _).trans ((h.map _).trans (List.mergeSort_perm _ _).symm)
  have tr : ∀ (a b c : String), decide (a ≤ b) = true → decide (b ≤ c) = true → decide (a ≤ c) = true := by
    intro a b c h1 h2; simp at *; exact String.le_trans h1 h2
  have tot : ∀ (a b : String), (decide (a ≤ b) || decide (b ≤ a)) = true := by
    intro a b; simp; exact String.le_total a b
  have s1 := List.pairwise_mergeSort tr tot (m.map (·.1))
  have s2 := List.pairwise_mergeSort tr tot (m'.map (·.1))
  apply List.Perm.eq_of_pairwise (le := fun a b => decide (a ≤ b) = true) _ s1 s2 hp
  intro a b _ _ h1 h2
  simp at h1 h2
  exact String.le_antisymm h1 h2

/-- a lookup in a duplicate-free object does not depend on the order of the entries -/
theorem alookup_perm {β : Type} (k : String) (m m' : List (String × β)) (h : m.Perm m')
    (hn : (akeys m).Nodup) : alookup k m = alookup k m' := by
  induction h with
  | nil => rfl
  | cons x _ ih =>
    obtain ⟨k', v⟩ := x
    simp only [alookup]
    split
    · rfl
    · apply ih
      simp only [akeys, List.map_cons, List.nodup_cons] at hn
      exact hn.2
  | swap x y l =>
    obtain ⟨kx, vx⟩ := x; obtain ⟨ky, vy⟩ := y
    simp only [akeys, List.map_cons, List.nodup_cons, List.mem_cons, not_or] at hn
    simp only [alookup]
    by_cases h1 : k = ky <;> by_cases h2 : k = kx <;> simp [h1, h2]
    · subst h1; subst h2; exact absurd rfl hn.1.1
    · intro he; exact absurd he hn.1.1
    · intro he; exact absurd he.symm hn.1.1
  | @trans l1 l2 l3 h1 _ ih1 ih2 =>
    rw [ih1 hn]
    apply ih2
    have hp : (akeys l1).Perm (akeys l2) := by unfold akeys; exact h1.map _
    exact hp.nodup_iff.mp hn

/-- the sequence of (name, sub-schema) pairs the generator visits for an object: sorted keys, each looked up -/
def visited {β : Type} (m : List (String × β)) : List (String × β) :=
  (sortedKeys m).filterMap (fun k => (alookup k m).map (fun v => (k, v)))

/-- **C12 core**: the visiting order of properties and definitions is a function of the object as a finite
    map — every permutation of a duplicate-free object gives the same sequence -/
theorem visited_perm {β : Type} (m m' : List (String × β)) (h : m.Perm m') (hn : (akeys m).Nodup) :
    visited m = visited m' := by
  unfold visited
  rw [sortedKeys_perm m m' h]
  congr 1
  funext k
  rw [alookup_perm k m m' h hn]

/-- the schema parser reads the `type` keyword through a lookup only -/
theorem parseTypeList_order_free (m m' : List (String × Json)) (h : m.Perm m') (hn : (akeys m).Nodup) :
    parseTypeList m = parseTypeList m' := by
  unfold parseTypeList
  rw [alookup_perm "type" m m' h hn]

example : visited [("b", 1), ("a", 2)] = visited [("a", 2), ("b", 1)] :=
  visited_perm _ _ (List.Perm.swap _ _ _) (by decide)


/-! ### schema mappings: main.go assembles `SchemaMappings` by ranging over maps keyed by schema id, so the
    slice reaches the generator in a random order, one mapping per id.  The lookups are "first match wins";
    they are order-independent because a match is an exact equality of ids and ids are unique. -/

theorem find_perm_of_unique {α : Type} (p : α → Bool) (l l' : List α) (h : l.Perm l')
    (hu : ∀ a ∈ l, ∀ b ∈ l, p a = true → p b = true → a = b) : l.find? p = l'.find? p := by
  induction h with
  | nil => rfl
  | cons x _ ih =>
    simp only [List.find?_cons]
    split
    · rfl
    · exact ih (fun a ha b hb => hu a (List.mem_cons_of_mem _ ha) b (List.mem_cons_of_mem _ hb))
  | swap x y l =>
    simp only [List.find?_cons]
    cases hx : p x <;> cases hy : p y <;> simp
    have := hu y (by simp) x (by simp) hy hx
    exact this
  | trans h1 _ ih1 ih2 =>
    rw [ih1 hu]
    exact ih2 (fun a ha b hb => hu a (h1.mem_iff.mpr ha) b (h1.mem_iff.mpr hb))

/-- mappings with pairwise distinct ids (what main.go builds: one per key of the flag maps) -/
def UniqueIds (ms : List SchemaMapping) : Prop := ∀ a ∈ ms, ∀ b ∈ ms, a.schemaID = b.schemaID → a = b

/-- **C12, mapping order**: the routed output (file, package) of a schema id does not depend on the order in
    which the mappings reach the generator -/
theorem route_perm (ms ms' : List SchemaMapping) (dO dP id : String) (h : ms.Perm ms') (hu : UniqueIds ms) :
    route ms dO dP id = route ms' dO dP id := by
  unfold route
  rw [find_perm_of_unique _ ms ms' h]
  intro a ha b hb pa pb
  have ea : a.schemaID = id := by simpa using pa
  have eb : b.schemaID = id := by simpa using pb
  exact hu a ha b hb (ea.trans eb.symm)

/-- … nor does the root-type override -/
theorem rootOverride_perm (ms ms' : List SchemaMapping) (id : String) (h : ms.Perm ms') (hu : UniqueIds ms) :
    rootOverride ms id = rootOverride ms' id := by
  unfold rootOverride
  rw [find_perm_of_unique _ ms ms' h]
  intro a ha b hb pa pb
  have ea : a.schemaID = id := by have := pa; simp at this; exact this.1
  have eb : b.schemaID = id := by have := pb; simp at this; exact this.1
  exact hu a ha b hb (ea.trans eb.symm)

/-- the hypothesis is met by a non-trivial mapping list, and the conclusion is not vacuous -/
example : UniqueIds [{ schemaID := "urn:a", packageName := "p", outputName := "a.go" }, { schemaID := "urn:a#", packageName := "q", outputName := "b.go" }] := by
  intro a ha b hb h
  simp at ha hb
  rcases ha with rfl | rfl <;> rcases hb with rfl | rfl <;> first | rfl | (exfalso; revert h; decide)

/-- an id that differs from a mapping's id only by a trailing `#` is NOT matched by it: exact equality -/
theorem route_exact : route [{ schemaID := "urn:a", packageName := "q", outputName := "b.go" }] "-" "p" "urn:a#" = { fileName := "-", pkg := "p" } := by
  decide

end GJS.Props.C12

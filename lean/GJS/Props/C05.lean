import GJS.Model.Bounds
import GJS.Spec
import Mathlib.Tactic.Linarith
import Mathlib.Tactic.FieldSimp
import Mathlib.Tactic.Tauto
import Mathlib.Algebra.Order.Field.Rat
/-
  C05 — numeric bounds and multipleOf are enforced exactly as stated.
  Property theorems only; every theorem is about the definitions the driver executes
  (GJS.normLo / normHi / NumCheck.*) against the reference semantics (GJS.Spec.boundsOK / multipleOK).
-/
namespace GJS.Props.C05
open GJS

/-- acceptance by a normalised lower bound -/
def okLo (b : Option Rat × Bool) (v : Rat) : Bool :=
  match b with
  | (none, _) => true
  | (some m, true) => decide (m < v)
  | (some m, false) => decide (m ≤ v)

def okHi (b : Option Rat × Bool) (v : Rat) : Bool :=
  match b with
  | (none, _) => true
  | (some m, true) => decide (v < m)
  | (some m, false) => decide (v ≤ m)

/-- what the schema states about the lower side: `minimum` (exclusive iff the draft-4 flag is true) and
    the draft-6 numeric `exclusiveMinimum` as a strict bound of its own -/
def specLo (minimum : Option Rat) (x : XB) (v : Rat) : Prop :=
  (∀ m, minimum = some m → (match x with | .flag true => m < v | _ => m ≤ v)) ∧
  (∀ q, x = .num q → q < v)

def specHi (maximum : Option Rat) (x : XB) (v : Rat) : Prop :=
  (∀ m, maximum = some m → (match x with | .flag true => v < m | _ => v ≤ m)) ∧
  (∀ q, x = .num q → v < q)

/-- NormalizeBounds, lower side: the normalised bound accepts exactly the values every stated lower bound
    admits — the tighter bound wins, exclusive wins a tie (this is the statement fix R1 made true).
    `x ≠ .other`: a non-boolean, non-numeric exclusiveMinimum is outside JSON Schema. -/
theorem normLo_spec (minimum : Option Rat) (x : XB) (v : Rat) (hx : x ≠ .other) :
    okLo (normLo minimum x) v = true ↔ specLo minimum x v := by
  unfold specLo
  rcases minimum with _ | m <;> rcases x with _ | b | q | _
  · simp [normLo, okLo]
  · cases b <;> simp [normLo, okLo]
  · simp [normLo, okLo]
  · exact absurd rfl hx
  · simp [normLo, okLo]
  · cases b <;> simp [normLo, okLo]
  · by_cases h : m ≤ q
    · simp [normLo, okLo, h]; intro hq; linarith
    · simp [normLo, okLo, h]; intro hm; linarith
  · exact absurd rfl hx

theorem normHi_spec (maximum : Option Rat) (x : XB) (v : Rat) (hx : x ≠ .other) :
    okHi (normHi maximum x) v = true ↔ specHi maximum x v := by
  unfold specHi
  rcases maximum with _ | m <;> rcases x with _ | b | q | _
  · simp [normHi, okHi]
  · cases b <;> simp [normHi, okHi]
  · simp [normHi, okHi]
  · exact absurd rfl hx
  · simp [normHi, okHi]
  · cases b <;> simp [normHi, okHi]
  · by_cases h : q ≤ m
    · simp [normHi, okHi, h]; intro hq; linarith
    · simp [normHi, okHi, h]; intro hm; linarith
  · exact absurd rfl hx

/-- the reference semantics says the same thing as specLo ∧ specHi -/
theorem boundsOK_iff (minimum maximum : Option Rat) (xmin xmax : XB) (v : Rat) :
    Spec.boundsOK minimum maximum xmin xmax v = true ↔ specLo minimum xmin v ∧ specHi maximum xmax v := by
  unfold Spec.boundsOK specLo specHi
  have hl : ((match minimum with
      | none => true
      | some m => (match xmin with | .flag true => decide (m < v) | _ => decide (m ≤ v))) &&
      (match xmin with | .num q => decide (q < v) | _ => true)) = true ↔
      ((∀ m, minimum = some m → (match xmin with | .flag true => m < v | _ => m ≤ v)) ∧ (∀ q, xmin = .num q → q < v)) := by
    rcases minimum with _ | m <;> rcases xmin with _ | b | q | _ <;> (try cases b) <;> simp
  have hh : ((match maximum with
      | none => true
      | some m => (match xmax with | .flag true => decide (v < m) | _ => decide (v ≤ m))) &&
      (match xmax with | .num q => decide (v < q) | _ => true)) = true ↔
      ((∀ m, maximum = some m → (match xmax with | .flag true => v < m | _ => v ≤ m)) ∧ (∀ q, xmax = .num q → v < q)) := by
    rcases maximum with _ | m <;> rcases xmax with _ | b | q | _ <;> (try cases b) <;> simp
  rw [← hl, ← hh]
  simp only [Bool.and_eq_true]; tauto

theorem decide_lt_eq_not_le (b x : Rat) : decide (b < x) = !decide (x ≤ b) := by
  by_cases h : b < x
  · have : ¬ x ≤ b := not_le.mpr h
    simp [h, this]
  · have : x ≤ b := not_lt.mp h
    simp [h, this]

theorem decide_le_eq_not_lt (b x : Rat) : decide (b ≤ x) = !decide (x < b) := by
  by_cases h : b ≤ x
  · have : ¬ x < b := not_lt.mpr h
    simp [h, this]
  · have : x < b := not_le.mp h
    simp [h, this]

/-- the emitted upper test (float form: bounds printed as they are) -/
theorem hiPasses_float (c : NumCheck) (x : Rat) (hr : c.roundToInt = false) :
    c.hiPasses x = okHi (normHi c.hi c.xhi) x := by
  unfold NumCheck.hiPasses okHi NumCheck.boundOf
  rcases normHi c.hi c.xhi with ⟨_ | b, e⟩
  · rfl
  · cases e
    · simp only [hr, Bool.false_eq_true, ↓reduceIte]; exact (decide_le_eq_not_lt x b).symm
    · simp only [hr, Bool.false_eq_true, ↓reduceIte]; exact (decide_lt_eq_not_le x b).symm

theorem loPasses_float (c : NumCheck) (x : Rat) (hr : c.roundToInt = false) :
    c.loPasses x = okLo (normLo c.lo c.xlo) x := by
  unfold NumCheck.loPasses okLo NumCheck.boundOf
  rcases normLo c.lo c.xlo with ⟨_ | b, e⟩
  · rfl
  · cases e
    · simp only [hr, Bool.false_eq_true, ↓reduceIte, ge_iff_le, gt_iff_lt]; exact (decide_le_eq_not_lt b x).symm
    · simp only [hr, Bool.false_eq_true, ↓reduceIte, ge_iff_le, gt_iff_lt]; exact (decide_lt_eq_not_le b x).symm

/-- **C05, `number` positions, bounds**: the emitted comparisons accept `x` iff `x` satisfies every stated
    bound, for every combination of presence, kind and relative order of the four keywords. -/
theorem float_bounds_exact (c : NumCheck) (x : Rat) (hr : c.roundToInt = false) (hm : c.mult = none)
    (h1 : c.xlo ≠ .other) (h2 : c.xhi ≠ .other) :
    c.passes x = true ↔ Spec.boundsOK c.lo c.hi c.xlo c.xhi x = true := by
  rw [boundsOK_iff, ← normLo_spec _ _ _ h1, ← normHi_spec _ _ _ h2]
  unfold NumCheck.passes NumCheck.multPasses
  rw [hiPasses_float c x hr, loPasses_float c x hr, hm]
  simp [Bool.and_eq_true, and_comm]

/-- an absent or null optional value is never checked -/
theorem absent_or_null_unchecked (c : NumCheck) : c.accepts none = true := rfl

/-- truncation does nothing to an integral bound -/
theorem truncRat_int (i : Int) : truncRat (i : Rat) = i := by
  unfold truncRat
  simp [Rat.num_intCast, Rat.den_intCast]

/-- Go's `%` on integers (truncated remainder) tests divisibility -/
theorem int_multiple (v m : Int) (hm : m ≠ 0) : (Int.tmod v m == 0) = true ↔ m ∣ v := by
  simp only [beq_iff_eq]
  constructor
  · intro h; exact Int.dvd_of_tmod_eq_zero h
  · intro h; exact Int.tmod_eq_zero_of_dvd h

/-- integral bounds: what `F05` requires of an `integer` position -/
def IntegralBounds (c : NumCheck) : Prop :=
  (∀ m, c.lo = some m → m.den = 1) ∧ (∀ m, c.hi = some m → m.den = 1) ∧
  (∀ q, c.xlo = .num q → q.den = 1) ∧ (∀ q, c.xhi = .num q → q.den = 1)

theorem den_one_cast (q : Rat) (h : q.den = 1) : ((q.num : Int) : Rat) = q := by
  have := Rat.num_div_den q
  rw [h] at this
  simpa using this

theorem normLo_den (lo : Option Rat) (x : XB) (b : Rat) (e : Bool)
    (h1 : ∀ m, lo = some m → m.den = 1) (h2 : ∀ q, x = .num q → q.den = 1)
    (h : normLo lo x = (some b, e)) : b.den = 1 := by
  rcases lo with _ | m <;> rcases x with _ | fb | q | _
  · simp [normLo] at h
  · simp [normLo] at h
  · simp [normLo] at h; obtain ⟨rfl, _⟩ := h; exact h2 _ rfl
  · simp [normLo] at h
  · simp [normLo] at h; obtain ⟨rfl, _⟩ := h; exact h1 _ rfl
  · simp [normLo] at h; obtain ⟨rfl, _⟩ := h; exact h1 _ rfl
  · by_cases hc : m ≤ q
    · simp [normLo, hc] at h; obtain ⟨rfl, _⟩ := h; exact h2 _ rfl
    · simp [normLo, hc] at h; obtain ⟨rfl, _⟩ := h; exact h1 _ rfl
  · simp [normLo] at h; obtain ⟨rfl, _⟩ := h; exact h1 _ rfl

theorem normHi_den (hi : Option Rat) (x : XB) (b : Rat) (e : Bool)
    (h1 : ∀ m, hi = some m → m.den = 1) (h2 : ∀ q, x = .num q → q.den = 1)
    (h : normHi hi x = (some b, e)) : b.den = 1 := by
  rcases hi with _ | m <;> rcases x with _ | fb | q | _
  · simp [normHi] at h
  · simp [normHi] at h
  · simp [normHi] at h; obtain ⟨rfl, _⟩ := h; exact h2 _ rfl
  · simp [normHi] at h
  · simp [normHi] at h; obtain ⟨rfl, _⟩ := h; exact h1 _ rfl
  · simp [normHi] at h; obtain ⟨rfl, _⟩ := h; exact h1 _ rfl
  · by_cases hc : q ≤ m
    · simp [normHi, hc] at h; obtain ⟨rfl, _⟩ := h; exact h2 _ rfl
    · simp [normHi, hc] at h; obtain ⟨rfl, _⟩ := h; exact h1 _ rfl
  · simp [normHi] at h; obtain ⟨rfl, _⟩ := h; exact h1 _ rfl

/-- the emitted upper test on an INTEGER value, whatever the (rational) bound: the moved literal admits exactly
    the integers the stated bound admits -/
theorem hiPasses_int (c : NumCheck) (v : Int) (hr : c.roundToInt = true) :
    c.hiPasses (v : Rat) = okHi (normHi c.hi c.xhi) v := by
  unfold NumCheck.hiPasses okHi NumCheck.boundOf
  rcases normHi c.hi c.xhi with ⟨_ | b, e⟩
  · rfl
  · cases e
    · -- inclusive: literal ⌊b⌋, rejected iff ⌊b⌋ < v
      simp only [hr, ↓reduceIte, Bool.true_eq_false, beq_iff_eq]
      have h : ((b.floor : Int) : Rat) < (v : Rat) ↔ ¬ ((v : Rat) ≤ b) := by
        rw [Int.cast_lt, ← Rat.le_floor_iff]; omega
      by_cases hv : (v : Rat) ≤ b
      · simp [hv, h]
      · simp [hv, h]
    · -- exclusive: literal ⌈b⌉, rejected iff ⌈b⌉ ≤ v
      simp only [hr, ↓reduceIte, beq_self_eq_true]
      have h : ((b.ceil : Int) : Rat) ≤ (v : Rat) ↔ ¬ ((v : Rat) < b) := by
        rw [Int.cast_le, ← Rat.lt_ceil_iff]; omega
      by_cases hv : (v : Rat) < b
      · simp [hv, h]
      · simp [hv, h]

theorem loPasses_int (c : NumCheck) (v : Int) (hr : c.roundToInt = true) :
    c.loPasses (v : Rat) = okLo (normLo c.lo c.xlo) v := by
  unfold NumCheck.loPasses okLo NumCheck.boundOf
  rcases normLo c.lo c.xlo with ⟨_ | b, e⟩
  · rfl
  · cases e
    · -- inclusive: literal ⌈b⌉, rejected iff ⌈b⌉ > v
      simp only [hr, ↓reduceIte, beq_self_eq_true, gt_iff_lt, ge_iff_le]
      have h : (v : Rat) < ((b.ceil : Int) : Rat) ↔ ¬ (b ≤ (v : Rat)) := by
        rw [Int.cast_lt, ← Rat.ceil_le_iff]; omega
      by_cases hv : b ≤ (v : Rat)
      · simp [hv, h]
      · simp [hv, h]
    · -- exclusive: literal ⌊b⌋, rejected iff ⌊b⌋ ≥ v
      simp only [hr, ↓reduceIte, Bool.false_eq_true, beq_iff_eq, gt_iff_lt, ge_iff_le]
      have h : (v : Rat) ≤ ((b.floor : Int) : Rat) ↔ ¬ (b < (v : Rat)) := by
        rw [Int.cast_le, ← Rat.floor_lt_iff]; omega
      by_cases hv : b < (v : Rat)
      · simp [hv, h]
      · simp [hv, h]

/-- **C05, `integer` positions, bounds** (after fix R11): for EVERY rational bound — integral or fractional,
    positive or negative — the emitted integer comparisons accept the integer `v` iff `v` satisfies every stated
    bound, for every combination of presence, kind and relative order of the four keywords -/
theorem int_bounds_exact (c : NumCheck) (v : Int) (hr : c.roundToInt = true) (hm : c.mult = none)
    (h1 : c.xlo ≠ .other) (h2 : c.xhi ≠ .other) :
    c.passes (v : Rat) = true ↔ Spec.boundsOK c.lo c.hi c.xlo c.xhi (v : Rat) = true := by
  rw [boundsOK_iff, ← normLo_spec _ _ _ h1, ← normHi_spec _ _ _ h2]
  unfold NumCheck.passes NumCheck.multPasses
  rw [hiPasses_int c v hr, loPasses_int c v hr, hm]
  simp [Bool.and_eq_true, and_comm]

/-- **C05, `integer` positions, multipleOf** with an integral non-zero multipleOf -/
theorem int_multiple_exact (c : NumCheck) (v m : Int) (hr : c.roundToInt = true) (hm : c.mult = some (m : Rat))
    (hm0 : m ≠ 0) : c.multPasses (v : Rat) = true ↔ m ∣ v := by
  unfold NumCheck.multPasses
  rw [hm]
  simp only [hr, ↓reduceIte, truncRat_int, Rat.num_intCast, Bool.and_eq_true, bne_iff_ne, ne_eq]
  rw [int_multiple v m hm0]
  exact ⟨fun h => h.2, fun h => ⟨hm0, h⟩⟩

/-- the reference semantics of multipleOf on integers is divisibility -/
theorem spec_multiple_int (v m : Int) (hm0 : m ≠ 0) :
    Spec.multipleOK (some (m : Rat)) (v : Rat) = true ↔ m ∣ v := by
  unfold Spec.multipleOK
  have hmq : (m : Rat) ≠ 0 := by exact_mod_cast hm0
  simp only [bne_iff_ne, ne_eq, hmq, not_false_eq_true, Bool.and_eq_true, decide_eq_true_eq, true_and]
  constructor
  · intro h
    have hq : (((v : Rat) / (m : Rat)).num : Rat) = (v : Rat) / (m : Rat) := den_one_cast _ h
    refine ⟨((v : Rat) / (m : Rat)).num, ?_⟩
    have : (v : Rat) = (m : Rat) * (((v : Rat) / (m : Rat)).num : Rat) := by
      rw [hq]; field_simp
    exact_mod_cast this
  · rintro ⟨k, rfl⟩
    have : ((m * k : Int) : Rat) / (m : Rat) = (k : Rat) := by
      push_cast; field_simp
    rw [this]; simp

/-! non-vacuity: concrete checks that meet the hypotheses and exercise both verdicts -/
example : ({ lo := some 5, xlo := .num 5 } : NumCheck).passes 5 = false := by decide +kernel
example : ({ lo := some 5, xlo := .num 5 } : NumCheck).passes 6 = true := by decide +kernel
example : IntegralBounds { lo := some 2, hi := some 9, xlo := .flag true, xhi := .num 8, roundToInt := true } := by
  refine ⟨?_, ?_, ?_, ?_⟩ <;> intro m h <;> simp at h <;> subst h <;> rfl
/-- fractional bounds on an integer (the former findings K3): minimum 1.5 rejects 1 and accepts 2;
    exclusiveMinimum -0.5 accepts 0 -/
example : ({ lo := some (3/2), roundToInt := true } : NumCheck).passes (1 : Int) = false := by decide +kernel
example : ({ lo := some (3/2), roundToInt := true } : NumCheck).passes (2 : Int) = true := by decide +kernel
example : ({ xlo := .num (-1/2), roundToInt := true } : NumCheck).passes (0 : Int) = true := by decide +kernel
example : ({ mult := some 3, roundToInt := true } : NumCheck).multPasses (-9 : Int) = true := by decide +kernel

end GJS.Props.C05

import GJS.Model.Run
/-
  C17 — UnmarshalYAML enforces the same rules as UnmarshalJSON.
  The two emitters print the same validator statements; in the model this is the fact that `runAfter` and
  (without anyOf) `runBefore` do not depend on the wire at all, and that the whole method is the same
  statement sequence around the one decode call.  The decode primitives agree on values of the type their
  position expects (rules G1–G8 vs Y1–Y6).
-/
namespace GJS.Props.C17
open GJS

/-- the validators emitted after the shadow decode mean the same in both methods -/
theorem runAfter_wire_independent (env : Env) (ty : GoTy) (raw : Option (List (String × Json))) :
    ∀ (f : Nat) (vs : List Validator) (plain : GoVal),
      runAfter .yaml env f ty vs raw plain = runAfter .json env f ty vs raw plain := by
  intro f
  induction f with
  | zero => intro vs plain; rfl
  | succ f ih =>
    intro vs plain
    cases vs with
    | nil => rfl
    | cons v rest =>
      cases v <;> simp only [runAfter, ih]

def noAnyOf (vs : List Validator) : Bool := vs.all (fun v => match v with | .anyOf _ => false | _ => true)

/-- the presence checks mean the same in both methods -/
theorem runBefore_wire_independent (env : Env) (dn : String) (raw : Option (List (String × Json))) (j : Json) :
    ∀ (f : Nat) (vs : List Validator), noAnyOf vs = true →
      runBefore .yaml env f dn vs raw j = runBefore .json env f dn vs raw j := by
  intro f
  induction f with
  | zero => intro vs _; rfl
  | succ f ih =>
    intro vs h
    cases vs with
    | nil => rfl
    | cons v rest =>
      have hrest : noAnyOf rest = true := by
        simp only [noAnyOf, List.all_cons, Bool.and_eq_true] at h; exact h.2
      cases v with
      | anyOf n => simp [noAnyOf] at h
      | required k => simp only [runBefore]; cases raw <;> simp [ih rest hrest]
      | _ => simp only [runBefore]; exact ih rest hrest

/-- the decode primitives agree on a value of the JSON type the position expects -/
theorem prim_decode_agree (env : Env) (f : Nat) :
    (∀ s, decode .yaml env (f + 1) .string (.str s) = decode .json env (f + 1) .string (.str s)) ∧
    (∀ b, decode .yaml env (f + 1) .bool (.bool b) = decode .json env (f + 1) .bool (.bool b)) ∧
    (∀ q, decode .yaml env (f + 1) .float64 (.num q) = decode .json env (f + 1) .float64 (.num q)) ∧
    (∀ k (i : Int), decode .yaml env (f + 1) (.int k) (.num (i : Rat)) = decode .json env (f + 1) (.int k) (.num (i : Rat))) ∧
    (∀ t, decode .yaml env (f + 1) (.ptr t) .null = decode .json env (f + 1) (.ptr t) .null) := by
  refine ⟨?_, ?_, ?_, ?_, ?_⟩
  · intro s; simp [decode]
  · intro b; simp [decode]
  · intro q; simp [decode]
  · intro k i; simp [decode, truncRat, Rat.den_intCast, Rat.num_intCast] <;> rfl
  · intro t; simp [decode, zeroOf]

/-- **same statements**: for a plain (non-enum) declaration without anyOf, if the shadow decode gives the same
    result on both wires then so does the whole method — verdict and value (including defaults) -/
theorem method_same_statements (env : Env) (f : Nat) (d : Decl) (vs : List Validator) (m : Bool) (j : Json)
    (hb : d.body = .plain vs m) (hno : noAnyOf vs = true)
    (hdec : decode .yaml env f d.ty j = decode .json env f d.ty j) :
    runMethod .yaml env (f + 1) d j = runMethod .json env (f + 1) d j := by
  simp only [runMethod, hb, hdec]
  have hB := runBefore_wire_independent env d.name
  have hA := runAfter_wire_independent env d.ty
  simp only [hB _ _ f vs hno, hA]
  rfl

/-- known finding K9: a member `1` of a mixed enum is `int` under yaml.v3 and `float64` in the value table -/
theorem KF_yaml_int_in_mixed_enum :
    [Json.str "a", Json.num 1].any (enumEq .json false .iface (jsonToIface (.num 1))) = true ∧
    [Json.str "a", Json.num 1].any (enumEq .yaml false .iface (jsonToIface (.num 1))) = false := by
  refine ⟨by decide +kernel, by decide +kernel⟩

/-- outside the property's fault list but worth knowing (Y3): yaml.v3 truncates 1.5 into an integer field -/
theorem KF_yaml_truncates_fraction :
    (match decode .yaml [] 1 (.int .int) (.num (3/2)) with | .ok (.int 1) => true | _ => false) = true ∧
    (match decode .json [] 1 (.int .int) (.num (3/2)) with | .error .type => true | _ => false) = true := by
  refine ⟨by decide +kernel, by decide +kernel⟩

end GJS.Props.C17

import GJS.Model.Run
import GJS.Cert
/-
  C17 — UnmarshalYAML enforces the same rules as UnmarshalJSON.
  The two emitters print the same validator statements; in the model this is the fact that `runAfter` and
  (without anyOf) `runBefore` do not depend on the wire at all, and that the whole method is the same
  statement sequence around the one decode call.  The decode primitives agree on values of the type their
  position expects (rules G1–G8 vs Y1–Y6).
-/
namespace GJS.Props.C17
open GJS

/-- the validators emitted after the shadow decode mean the same in both methods -/
theorem runAfter_wire_independent (env : Env) (ty : GoTy) (raw : Option (List (String × Json))) :
    ∀ (f : Nat) (vs : List Validator) (plain : GoVal),
      runAfter .yaml env f ty vs raw plain = runAfter .json env f ty vs raw plain := by
  intro f
  induction f with
  | zero => intro vs plain; rfl
  | succ f ih =>
    intro vs plain
    cases vs with
    | nil => rfl
    | cons v rest =>
      cases v <;> simp only [runAfter, ih]

def noAnyOf (vs : List Validator) : Bool := vs.all (fun v => match v with | .anyOf _ => false | _ => true)

/-- the presence checks mean the same in both methods -/
theorem runBefore_wire_independent (env : Env) (dn : String) (raw : Option (List (String × Json))) (j : Json) :
    ∀ (f : Nat) (vs : List Validator), noAnyOf vs = true →
      runBefore .yaml env f dn vs raw j = runBefore .json env f dn vs raw j := by
  intro f
  induction f with
  | zero => intro vs _; rfl
  | succ f ih =>
    intro vs h
    cases vs with
    | nil => rfl
    | cons v rest =>
      have hrest : noAnyOf rest = true := by
        simp only [noAnyOf, List.all_cons, Bool.and_eq_true] at h; exact h.2
      cases v with
      | anyOf n => simp [noAnyOf] at h
      | required k => simp only [runBefore]; cases raw <;> simp [ih rest hrest]
      | _ => simp only [runBefore]; exact ih rest hrest

/-- the decode primitives agree on a value of the JSON type the position expects -/
theorem prim_decode_agree (env : Env) (f : Nat) :
    (∀ s, decode .yaml env (f + 1) .string (.str s) = decode .json env (f + 1) .string (.str s)) ∧
    (∀ b, decode .yaml env (f + 1) .bool (.bool b) = decode .json env (f + 1) .bool (.bool b)) ∧
    (∀ q, decode .yaml env (f + 1) .float64 (.num q) = decode .json env (f + 1) .float64 (.num q)) ∧
    (∀ k (i : Int), decode .yaml env (f + 1) (.int k) (.num (i : Rat)) = decode .json env (f + 1) (.int k) (.num (i : Rat))) ∧
    (∀ t, decode .yaml env (f + 1) (.ptr t) .null = decode .json env (f + 1) (.ptr t) .null) := by
  refine ⟨?_, ?_, ?_, ?_, ?_⟩
  · intro s; simp [decode]
  · intro b; simp [decode]
  · intro q; simp [decode]
  · intro k i; simp [decode, truncRat, Rat.den_intCast, Rat.num_intCast] <;> rfl
  · intro t; simp [decode, zeroOf]

/-- **same statements**: for a plain (non-enum) declaration without anyOf, if the shadow decode gives the same
    result on both wires then so does the whole method — verdict and value (including defaults) -/
theorem method_same_statements (env : Env) (f : Nat) (d : Decl) (vs : List Validator) (m : Bool) (j : Json)
    (hb : d.body = .plain vs m) (hno : noAnyOf vs = true)
    (hdec : decode .yaml env f d.ty j = decode .json env f d.ty j) :
    runMethod .yaml env (f + 1) d j = runMethod .json env (f + 1) d j := by
  simp only [runMethod, hb, hdec]
  have hB := runBefore_wire_independent env d.name
  have hA := runAfter_wire_independent env d.ty
  simp only [hB _ _ f vs hno, hA]
  rfl

/-- known finding K9: a member `1` of a mixed enum is `int` under yaml.v3 and `float64` in the value table -/
theorem KF_yaml_int_in_mixed_enum :
    [Json.str "a", Json.num 1].any (enumEq .json false .iface (jsonToIface (.num 1))) = true ∧
    [Json.str "a", Json.num 1].any (enumEq .yaml false .iface (jsonToIface (.num 1))) = false := by
  refine ⟨by decide +kernel, by decide +kernel⟩

/-- outside the property's fault list but worth knowing (Y3): yaml.v3 truncates 1.5 into an integer field -/
theorem KF_yaml_truncates_fraction :
    (match decode .yaml [] 1 (.int .int) (.num (3/2)) with | .ok (.int 1) => true | _ => false) = true ∧
    (match decode .json [] 1 (.int .int) (.num (3/2)) with | .error .type => true | _ => false) = true := by
  refine ⟨by decide +kernel, by decide +kernel⟩

/-! ### whole documents: the two decoders agree on every wire-compatible (type, document) pair -/

theorem mapstructureElem_flag (ty : GoTy) (j : Json) (a b : Bool) :
    mapstructureElem ty j a = mapstructureElem ty j b := by
  unfold mapstructureElem
  split <;> rfl

/-- a (type, document) pair on which the two decoders are proved to agree: the document has the JSON type its
    position expects (no null, no number or boolean at a string position, integral numbers at integer
    positions), keys bind to the same field under both binding rules, named types are plain, have a generated
    method without anyOf, or are enums with a primitive carrier; no format-typed strings (K9) -/
inductive WC (env : Env) : GoTy → Json → Prop where
  | str {s} : WC env .string (.str s)
  | bool {b} : WC env .bool (.bool b)
  | float {q} : WC env .float64 (.num q)
  | int {k q} : q.den = 1 → WC env (.int k) (.num q)
  | iface {j} : j ≠ .null → WC env .iface j
  | ptr {t j} : WC env t j → WC env (.ptr t) j
  | slice {t xs} : (∀ k, t ≠ .int k) → (∀ n, t ≠ .named n) → (∀ x ∈ xs, WC env t x) → WC env (.slice t) (.arr xs)
  | sliceNamed {n xs} : (∀ x ∈ xs, WC env (.named n) x) → WC env (.slice (.named n)) (.arr xs)
  | map {t kvs} : (∀ p ∈ kvs, WC env t p.2) → WC env (.map t) (.obj kvs)
  | strct {fs kvs} :
      (∀ p ∈ kvs, bindKey fs p.1 = fs.find? (fun fl => fl.yamlKey = p.1)) →
      (∀ p ∈ kvs, ∀ fld, bindKey fs p.1 = some fld → WC env fld.ty p.2) → WC env (.strct fs) (.obj kvs)
  | namedPlain {n d j} : env.resolve 8 n = some d → d.hasMethod = false → d.ty.isFmt = false →
      WC env d.ty j → WC env (.named n) j
  | namedMethod {n d vs j} : env.resolve 8 n = some d → d.hasMethod = true → d.body = .plain vs true →
      noAnyOf vs = true → WC env d.ty j → WC env (.named n) j
  | namedEnum {n d vals wr ic cs m carrier j} : env.resolve 8 n = some d → d.hasMethod = true →
      d.body = .enum vals wr ic cs m → enumCarrierOf d.ty = carrier →
      (carrier = .string ∨ carrier = .float64 ∨ carrier = .bool ∨ ∃ k, carrier = .int k) →
      WC env carrier j → WC env (.named n) j

theorem WC.ne_null {env : Env} {t : GoTy} {j : Json} (h : WC env t j) : j ≠ .null := by
  induction h with
  | str | bool | float | int _ | slice _ _ _ | sliceNamed _ | map _ | strct _ _ => intro h; cases h
  | iface h => exact h
  | ptr _ ih => exact ih
  | namedPlain _ _ _ _ ih => exact ih
  | namedMethod _ _ _ _ _ ih => exact ih
  | namedEnum _ _ _ _ _ _ ih => exact ih


theorem filter_nonnull {env : Env} {t : GoTy} {xs : List Json} (h : ∀ x ∈ xs, WC env t x) :
    xs.filter (fun x => !x.isNull) = xs := by
  apply List.filter_eq_self.mpr
  intro x hx
  have := (h x hx).ne_null
  cases x <;> simp_all [Json.isNull]

theorem truncRat_den_one (q : Rat) (h : q.den = 1) : truncRat q = q.num := by
  unfold truncRat; rw [h]; simp

structure Agree (env : Env) (f : Nat) : Prop where
  dec : ∀ ty j, WC env ty j → decode .yaml env f ty j = decode .json env f ty j
  elems : ∀ t xs, (∀ x ∈ xs, WC env t x) → decodeElems .yaml env f t xs = decodeElems .json env f t xs
  mapv : ∀ t (kvs : List (String × Json)), (∀ p ∈ kvs, WC env t p.2) → decodeMap .yaml env f t kvs = decodeMap .json env f t kvs
  strct : ∀ fs (kvs : List (String × Json)) acc,
      (∀ p ∈ kvs, bindKey fs p.1 = fs.find? (fun fl => fl.yamlKey = p.1)) →
      (∀ p ∈ kvs, ∀ fld, bindKey fs p.1 = some fld → WC env fld.ty p.2) →
      decodeStruct .yaml env f fs kvs acc = decodeStruct .json env f fs kvs acc
  meth : ∀ (d : Decl) vs j, d.body = .plain vs true → noAnyOf vs = true → WC env d.ty j →
      runMethod .yaml env f d j = runMethod .json env f d j
  enum : ∀ (d : Decl) vals wr ic cs m carrier j, d.body = .enum vals wr ic cs m →
      enumCarrierOf d.ty = carrier →
      (carrier = .string ∨ carrier = .float64 ∨ carrier = .bool ∨ ∃ k, carrier = .int k) →
      WC env carrier j → runMethod .yaml env f d j = runMethod .json env f d j

theorem agree_zero (env : Env) : Agree env 0 := by
  refine ⟨?_, ?_, ?_, ?_, ?_, ?_⟩ <;> intros <;> simp [decode, decodeElems, decodeMap, decodeStruct, runMethod]


theorem step_elems {env : Env} {f : Nat} (ih : Agree env f) :
    ∀ t xs, (∀ x ∈ xs, WC env t x) → decodeElems .yaml env (f + 1) t xs = decodeElems .json env (f + 1) t xs := by
  intro t xs h
  cases xs with
  | nil => rfl
  | cons x xs =>
    simp only [decodeElems]
    rw [ih.dec t x (h x (by simp)), ih.elems t xs (fun y hy => h y (by simp [hy]))]

theorem step_map {env : Env} {f : Nat} (ih : Agree env f) :
    ∀ t (kvs : List (String × Json)), (∀ p ∈ kvs, WC env t p.2) →
      decodeMap .yaml env (f + 1) t kvs = decodeMap .json env (f + 1) t kvs := by
  intro t kvs h
  cases kvs with
  | nil => rfl
  | cons p rest =>
    obtain ⟨k, x⟩ := p
    simp only [decodeMap]
    rw [ih.dec t x (h (k, x) (by simp)), ih.mapv t rest (fun y hy => h y (by simp [hy]))]

theorem step_strct {env : Env} {f : Nat} (ih : Agree env f) :
    ∀ fs (kvs : List (String × Json)) acc,
      (∀ p ∈ kvs, bindKey fs p.1 = fs.find? (fun fl => fl.yamlKey = p.1)) →
      (∀ p ∈ kvs, ∀ fld, bindKey fs p.1 = some fld → WC env fld.ty p.2) →
      decodeStruct .yaml env (f + 1) fs kvs acc = decodeStruct .json env (f + 1) fs kvs acc := by
  intro fs kvs acc hb hw
  cases kvs with
  | nil => rfl
  | cons p rest =>
    obtain ⟨k, x⟩ := p
    have hbk := hb (k, x) (by simp)
    have hrest := fun acc' => ih.strct fs rest acc' (fun y hy => hb y (by simp [hy])) (fun y hy => hw y (by simp [hy]))
    simp only [decodeStruct]
    simp only at hbk
    rw [← hbk]
    cases hbind : bindKey fs k with
    | none => simp only; exact hrest acc
    | some fld =>
      simp only
      rw [ih.dec fld.ty x (hw (k, x) (by simp) fld hbind)]
      cases decode .json env f fld.ty x with
      | error e => rfl
      | ok v => simp only [bind, Except.bind]; exact hrest _


theorem step_meth {env : Env} {f : Nat} (ih : Agree env f) :
    ∀ (d : Decl) vs j, d.body = .plain vs true → noAnyOf vs = true → WC env d.ty j →
      runMethod .yaml env (f + 1) d j = runMethod .json env (f + 1) d j := by
  intro d vs j hb hn hw
  simp only [runMethod, hb]
  simp only [fun raw => runBefore_wire_independent env d.name raw j f vs hn, ih.dec d.ty j hw,
    runAfter_wire_independent]
  have e1 : (Wire.yaml = Wire.yaml) = True := by simp
  have e2 : (Wire.json = Wire.yaml) = False := by simp
  simp only [e1, e2, mapstructureElem_flag _ _ (decide True) (decide False)]


theorem enumEq_wire (ic : Bool) (carrier : GoTy) (v : GoVal) (e : Json)
    (hv : ∀ j, v ≠ .iface j) : enumEq .yaml ic carrier v e = enumEq .json ic carrier v e := by
  unfold enumEq
  cases v <;> cases e <;> simp_all

/-- decoding into a primitive carrier never yields an interface value -/
theorem prim_decode_not_iface {env : Env} {w : Wire} {f : Nat} {carrier : GoTy} {j : Json} {v : GoVal}
    (hc : carrier = .string ∨ carrier = .float64 ∨ carrier = .bool ∨ ∃ k, carrier = .int k)
    (h : decode w env f carrier j = .ok v) : ∀ x, v ≠ .iface x := by
  intro x hx
  subst hx
  cases f with
  | zero => simp [decode] at h
  | succ f =>
    rcases hc with rfl | rfl | rfl | ⟨k, rfl⟩ <;> cases w <;> cases j <;>
      simp [decode, zeroOf] at h <;>
      first
        | done
        | (split at h <;> first | (simp at h; done) | (split at h <;> simp at h))


theorem any_enumEq_wire (vals : List Json) (ic : Bool) (carrier : GoTy) (v : GoVal) (hv : ∀ j, v ≠ .iface j) :
    vals.any (enumEq .yaml ic carrier v) = vals.any (enumEq .json ic carrier v) := by
  induction vals with
  | nil => rfl
  | cons e rest ih => simp only [List.any_cons, ih, enumEq_wire ic carrier v e hv]

theorem step_enum {env : Env} {f : Nat} (ih : Agree env f) :
    ∀ (d : Decl) vals wr ic cs m carrier j, d.body = .enum vals wr ic cs m →
      enumCarrierOf d.ty = carrier →
      (carrier = .string ∨ carrier = .float64 ∨ carrier = .bool ∨ ∃ k, carrier = .int k) →
      WC env carrier j → runMethod .yaml env (f + 1) d j = runMethod .json env (f + 1) d j := by
  intro d vals wr ic cs m carrier j hb hcar hc hw
  simp only [runMethod, hb, hcar]
  rw [ih.dec carrier j hw]
  cases hd : decode .json env f carrier j with
  | error e => rfl
  | ok v =>
    simp only
    rw [any_enumEq_wire vals ic carrier v (prim_decode_not_iface hc hd)]


theorem step_dec {env : Env} {f : Nat} (ih : Agree env f) :
    ∀ ty j, WC env ty j → decode .yaml env (f + 1) ty j = decode .json env (f + 1) ty j := by
  intro ty j h
  cases h with
  | str => simp [decode]
  | bool => simp [decode]
  | float => simp [decode]
  | @int k q hq => simp [decode, truncRat_den_one q hq, hq]
  | iface hn => cases j <;> simp_all [decode]
  | @ptr t j hw =>
    have hn := hw.ne_null
    cases j <;> simp_all [decode] <;> rw [ih.dec _ _ hw]
  | @slice t xs hk hnm hw =>
    have hf := filter_nonnull hw
    cases t with
    | int k => exact absurd rfl (hk k)
    | named n => exact absurd rfl (hnm n)
    | _ => simp only [decode, hf, ite_self]; rw [ih.elems _ _ hw]
  | @sliceNamed n xs hw =>
    have hf := filter_nonnull hw
    simp only [decode, hf, ite_self]
    rw [ih.elems _ _ hw]
  | @map t kvs hw => simp only [decode]; rw [ih.mapv t kvs hw]
  | @strct fs kvs hb hw => simp only [decode]; rw [ih.strct fs kvs _ hb hw]
  | @namedPlain n d j hres hm hfmt hw =>
    have hn := hw.ne_null
    cases j <;> simp_all [decode] <;> rw [ih.dec _ _ hw]
  | @namedMethod n d vs j hres hm hb hna hw =>
    have hn := hw.ne_null
    cases j <;> simp_all [decode] <;> exact ih.meth d vs _ hb hna hw
  | @namedEnum n d vals wr ic cs m carrier j hres hm hb hcar hc hw =>
    have hn := hw.ne_null
    cases j <;> simp_all [decode] <;> exact ih.enum d vals wr ic cs m carrier _ hb hcar hc hw


theorem agree_all (env : Env) : ∀ f, Agree env f := by
  intro f
  induction f with
  | zero => exact agree_zero env
  | succ f ih =>
    exact ⟨step_dec ih, step_elems ih, step_map ih, step_strct ih, step_meth ih, step_enum ih⟩

/-- **C17, whole documents**: for ANY generated program (any declaration environment), any type and any
    document of any size and depth that is wire-compatible with it (`WC`), `UnmarshalYAML` and `UnmarshalJSON`
    return the same result — the same decoded value, or the same error — whatever the fuel -/
theorem yaml_json_agree (env : Env) (ty : GoTy) (j : Json) (h : WC env ty j) :
    ∀ fuel, decode .yaml env fuel ty j = decode .json env fuel ty j :=
  fun fuel => (agree_all env fuel).dec ty j h

/-- in particular the verdicts agree -/
theorem yaml_json_same_verdict (env : Env) (ty : GoTy) (j : Json) (h : WC env ty j) (fuel : Nat) :
    (decode .yaml env fuel ty j).isOk = (decode .json env fuel ty j).isOk := by
  rw [yaml_json_agree env ty j h fuel]

/-- non-vacuity: a struct with an integer and a string list, and a document for it, are wire-compatible -/
example :
    let fa : Field := { name := "A", jsonName := "a", ty := .int .int, tags := "", jsonKey := "a", yamlKey := "a", omitEmpty := false, comment := "" }
    let fx : Field := { name := "Xs", jsonName := "xs", ty := .slice .string, tags := "", jsonKey := "xs", yamlKey := "xs", omitEmpty := true, comment := "" }
    WC [] (.strct [fa, fx]) (.obj [("a", .num 5), ("xs", .arr [.str "p", .str "q"])]) := by
  intro fa fx
  have ba : bindKey [fa, fx] "a" = some fa := by simp [bindKey, fa, fx]
  have bx : bindKey [fa, fx] "xs" = some fx := by simp [bindKey, fa, fx]
  refine .strct ?_ ?_
  · intro p hp
    simp at hp
    rcases hp with rfl | rfl
    · rw [ba]; simp [fa, fx]
    · rw [bx]; simp [fa, fx]
  · intro p hp fld hb
    simp at hp
    rcases hp with rfl | rfl
    · rw [ba] at hb; cases hb; exact .int rfl
    · rw [bx] at hb; cases hb
      refine .slice (by intro k h; cases h) (by intro n h; cases h) ?_
      intro x hx
      simp at hx
      rcases hx with rfl | rfl <;> exact .str


/-! ### the decidable check the driver evaluates (`wcB`, Cert.lean) is sound for `WC` -/

theorem noAnyOfB_eq (vs : List Validator) : noAnyOfB vs = noAnyOf vs := rfl

theorem find_congr {α : Type} (p q : α → Bool) (l : List α) (h : ∀ a ∈ l, p a = q a) : l.find? p = l.find? q := by
  induction l with
  | nil => rfl
  | cons a l ih =>
    simp only [List.find?_cons]
    rw [h a (by simp), ih (fun b hb => h b (by simp [hb]))]

theorem bindsAlike_sound {fs : List Field} {k : String} (h : bindsAlike fs k = true) :
    bindKey fs k = fs.find? (fun fl => fl.yamlKey = k) := by
  unfold bindsAlike at h
  simp only [Bool.and_eq_true, Bool.or_eq_true, List.all_eq_true, beq_iff_eq] at h
  obtain ⟨hkeys, hm⟩ := h
  have hfind : fs.find? (fun fl => decide (fl.jsonKey = k)) = fs.find? (fun fl => decide (fl.yamlKey = k)) := by
    apply find_congr
    intro a ha
    rw [hkeys a ha]
  unfold bindKey
  rcases hm with hex | hno
  · cases hf : fs.find? (fun f => decide (f.jsonKey = k)) with
    | none => simp [hf] at hex
    | some fl => simp only [hf] at hfind ⊢; exact hfind
  · cases hf : fs.find? (fun f => decide (f.jsonKey = k)) with
    | some fl => simp only [hf] at hfind ⊢; exact hfind
    | none =>
      simp only [hf] at hfind ⊢
      rw [← hfind]
      apply List.find?_eq_none.mpr
      intro a ha
      have := hno a ha
      simpa using this

structure Sound (env : Env) (f : Nat) : Prop where
  one : ∀ ty j, wcB env f ty j = true → WC env ty j
  all : ∀ t xs, wcBAll env f t xs = true → ∀ x ∈ xs, WC env t x
  vals : ∀ t (kvs : List (String × Json)), wcBVals env f t kvs = true → ∀ p ∈ kvs, WC env t p.2
  flds : ∀ fs (kvs : List (String × Json)), wcBFields env f fs kvs = true →
      (∀ p ∈ kvs, bindKey fs p.1 = fs.find? (fun fl => fl.yamlKey = p.1)) ∧
      (∀ p ∈ kvs, ∀ fld, bindKey fs p.1 = some fld → WC env fld.ty p.2)

theorem sound_zero (env : Env) : Sound env 0 := by
  constructor <;> intros <;> simp_all [wcB, wcBAll, wcBVals, wcBFields]


theorem sound_step {env : Env} {f : Nat} (ih : Sound env f) : Sound env (f + 1) := by
  refine ⟨?_, ?_, ?_, ?_⟩
  · intro ty j h
    unfold wcB at h
    split at h
    · exact .str
    · exact .bool
    · exact .float
    · exact .int (by simpa using h)
    · rename_i j'
      exact .iface (by intro hn; subst hn; simp [Json.isNull] at h)
    · exact .ptr (ih.one _ _ h)
    · cases h
    · -- a slice that is not a slice of ints
      rename_i t xs hnot
      cases t with
      | int k => exact absurd rfl (hnot k)
      | named n => exact .sliceNamed (ih.all _ _ h)
      | _ => exact .slice (by intro k hk; cases hk) (by intro n hn; cases hn) (ih.all _ _ h)
    · exact .map (ih.vals _ _ h)
    · obtain ⟨hb, hw⟩ := ih.flds _ _ h
      exact .strct hb hw
    · -- a named type
      split at h
      · cases h
      · rename_i d hres
        split at h
        · rename_i hm
          simp only [Bool.and_eq_true, Bool.not_eq_true'] at h
          exact .namedPlain hres (by simpa using hm) h.1 (ih.one _ _ h.2)
        · rename_i hm
          have hm' : d.hasMethod = true := by simpa using hm
          split at h
          · rename_i vs hb
            simp only [Bool.and_eq_true] at h
            exact .namedMethod hres hm' hb (by rw [← noAnyOfB_eq]; exact h.1) (ih.one _ _ h.2)
          · rename_i vals wr ic cs m hb
            simp only [Bool.and_eq_true] at h
            have hc : enumCarrierOf d.ty = .string ∨ enumCarrierOf d.ty = .float64 ∨ enumCarrierOf d.ty = .bool ∨
                ∃ k, enumCarrierOf d.ty = .int k := by
              have := h.1
              cases hcar : enumCarrierOf d.ty <;> simp_all [primCarrier]
            exact .namedEnum hres hm' hb rfl hc (ih.one _ _ h.2)
          · cases h
    · cases h
  · intro t xs h
    cases xs with
    | nil => intro x hx; cases hx
    | cons x xs =>
      simp only [wcBAll, Bool.and_eq_true] at h
      intro y hy
      rcases List.mem_cons.mp hy with rfl | hy
      · exact ih.one _ _ h.1
      · exact ih.all _ _ h.2 y hy
  · intro t kvs h
    cases kvs with
    | nil => intro p hp; cases hp
    | cons p rest =>
      obtain ⟨k, x⟩ := p
      simp only [wcBVals, Bool.and_eq_true] at h
      intro q hq
      rcases List.mem_cons.mp hq with rfl | hq
      · exact ih.one _ _ h.1
      · exact ih.vals _ _ h.2 q hq
  · intro fs kvs h
    cases kvs with
    | nil =>
      constructor
      · intro p hp; cases hp
      · intro p hp; cases hp
    | cons p rest =>
      obtain ⟨k, x⟩ := p
      simp only [wcBFields, Bool.and_eq_true] at h
      obtain ⟨⟨hba, hfld⟩, hrest⟩ := h
      obtain ⟨hb, hw⟩ := ih.flds _ _ hrest
      refine ⟨?_, ?_⟩
      · intro q hq
        rcases List.mem_cons.mp hq with rfl | hq
        · exact bindsAlike_sound hba
        · exact hb q hq
      · intro q hq fld hbind
        rcases List.mem_cons.mp hq with rfl | hq
        · simp only at hbind
          simp only [hbind] at hfld
          exact ih.one _ _ hfld
        · exact hw q hq fld hbind

/-- **`wcB` is sound**: what the driver's decidable check admits is wire-compatible, so `yaml_json_agree` applies -/
theorem wcB_sound (env : Env) (fuel : Nat) (ty : GoTy) (j : Json) (h : wcB env fuel ty j = true) : WC env ty j := by
  have : ∀ f, Sound env f := by
    intro f; induction f with
    | zero => exact sound_zero env
    | succ f ih => exact sound_step ih
  exact (this fuel).one ty j h

/-- the checked form of C17: a document the driver certifies is decoded identically by both methods -/
theorem certified_yaml_json_agree (env : Env) (cf : Nat) (ty : GoTy) (j : Json) (h : wcB env cf ty j = true) :
    ∀ fuel, decode .yaml env fuel ty j = decode .json env fuel ty j :=
  yaml_json_agree env ty j (wcB_sound env cf ty j h)


end GJS.Props.C17

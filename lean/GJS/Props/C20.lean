import GJS.Model.Files
/-
  C20 — each schema's code lands once, in the file and package mapped to its id.
-/
namespace GJS.Props.C20
open GJS

/-- a mapped id goes to its mapping's file and package -/
theorem route_by_mapping (ms : List SchemaMapping) (dO dP id : String) (m : SchemaMapping)
    (h : ms.find? (fun m => m.schemaID = id) = some m) :
    route ms dO dP id = { fileName := m.outputName, pkg := m.packageName } := by
  simp [route, h]

/-- an unmapped id goes to the defaults -/
theorem route_default (ms : List SchemaMapping) (dO dP id : String)
    (h : ∀ m ∈ ms, m.schemaID ≠ id) : route ms dO dP id = { fileName := dO, pkg := dP } := by
  have : ms.find? (fun m => m.schemaID = id) = none := by
    apply List.find?_eq_none.mpr
    intro m hm; simpa using h m hm
  simp [route, this]

/-- **adding or reordering mappings for OTHER ids does not change where an id is routed** -/
theorem route_independent_of_other_mappings (ms ms' : List SchemaMapping) (dO dP id : String)
    (h : ms.filter (fun m => m.schemaID = id) = ms'.filter (fun m => m.schemaID = id)) :
    route ms dO dP id = route ms' dO dP id := by
  have key : ∀ l : List SchemaMapping,
      l.find? (fun m => decide (m.schemaID = id)) = (l.filter (fun m => decide (m.schemaID = id))).head? := by
    intro l
    induction l with
    | nil => rfl
    | cons a t ih =>
      by_cases ha : a.schemaID = id
      · rw [List.find?_cons_of_pos (by simpa using ha), List.filter_cons_of_pos (by simpa using ha)]; rfl
      · rw [List.find?_cons_of_neg (by simpa using ha), List.filter_cons_of_neg (by simpa using ha)]; exact ih
  unfold route
  rw [key ms, key ms', h]

/-- two ids mapped to the same file and the same package share the output (both are accepted) -/
theorem begin_same_file_same_pkg_shares (id1 id2 : String) (o : OutRef) (h : o.pkg ≠ "") :
    ∃ outs, beginOutput [] id1 o = .ok outs ∧ ∃ outs', beginOutput outs id2 o = .ok outs' := by
  refine ⟨[(id1, o)], by simp [beginOutput, h], ?_⟩
  refine ⟨[(id1, o), (id2, o)], ?_⟩
  simp [beginOutput, h]

/-- the same file mapped to two different packages is a conflict -/
theorem begin_same_file_other_pkg_conflicts (id1 id2 file p1 p2 : String) (hf : file ≠ "") (h1 : p1 ≠ "") (h2 : p2 ≠ "") (hne : p1 ≠ p2) :
    beginOutput [(id1, ⟨file, p1⟩)] id2 ⟨file, p2⟩ = .error (.conflictSameFile file p1 p2) := by
  simp [beginOutput, h2, hne, hf]

/-- fix R15: two schemas WITHOUT an output file (their types live elsewhere) never conflict, whatever their packages -/
theorem begin_external_never_conflicts (id1 id2 p1 p2 : String) (h2 : p2 ≠ "") :
    beginOutput [(id1, ⟨"", p1⟩)] id2 ⟨"", p2⟩ = .ok [(id1, ⟨"", p1⟩), (id2, ⟨"", p2⟩)] := by
  simp [beginOutput, h2]

/-- … whichever of the two schemas comes first: the run fails for both argument orders -/
theorem begin_conflict_symmetric (id1 id2 file p1 p2 : String) (hf : file ≠ "") (h1 : p1 ≠ "") (h2 : p2 ≠ "") (hne : p1 ≠ p2) :
    (∃ e, beginOutput [(id1, ⟨file, p1⟩)] id2 ⟨file, p2⟩ = .error e) ∧
    (∃ e, beginOutput [(id2, ⟨file, p2⟩)] id1 ⟨file, p1⟩ = .error e) := by
  constructor
  · exact ⟨_, begin_same_file_other_pkg_conflicts id1 id2 file p1 p2 hf h1 h2 hne⟩
  · exact ⟨_, begin_same_file_other_pkg_conflicts id2 id1 file p2 p1 hf h2 h1 (Ne.symm hne)⟩

/-- a reference is qualified (and the other package imported) exactly when it crosses packages -/
theorem qualified_iff_other_package (fromPkg toPkg name : String) :
    ((qualify fromPkg toPkg name).2 = none ↔ toPkg = fromPkg) ∧
    (toPkg ≠ fromPkg → (qualify fromPkg toPkg name).2 = some toPkg) := by
  unfold qualify
  by_cases h : toPkg = fromPkg <;> simp [h]




/-! ### from the three flag maps to the landing place (what the driver op `cliroute` computes and the C20
    partial-mappings stream compares with the real command line) -/

theorem find_assembled (pkgs outs roots : List (String × String)) (dP dO id : String) :
    ∀ ids : List String, id ∈ ids →
      (assembleAll pkgs outs roots dP dO ids).find? (fun m => m.schemaID = id) = some (assembleMapping pkgs outs roots dP dO id) := by
  intro ids
  induction ids with
  | nil => intro h; cases h
  | cons a rest ih =>
    intro h
    simp only [assembleAll, List.map_cons]
    by_cases e : a = id
    · subst e; simp [List.find?, assembleMapping]
    · have hin : id ∈ rest := by
        rcases List.mem_cons.mp h with h | h
        · exact absurd h.symm e
        · exact h
      have : (assembleMapping pkgs outs roots dP dO a).schemaID ≠ id := by simpa [assembleMapping] using e
      rw [List.find?_cons_of_neg (by simpa using this)]
      exact ih hin

theorem find_unassembled (pkgs outs roots : List (String × String)) (dP dO id : String) :
    ∀ ids : List String, id ∉ ids →
      (assembleAll pkgs outs roots dP dO ids).find? (fun m => m.schemaID = id) = none := by
  intro ids h
  rw [List.find?_eq_none]
  intro m hm
  simp only [assembleAll, List.mem_map] at hm
  obtain ⟨a, ha, rfl⟩ := hm
  simp only [assembleMapping]
  intro e
  have e' : a = id := of_decide_eq_true e
  subst e'; exact h ha

/-- **where a schema lands, in terms of the flags alone** (any list of ids, in any order, with or without repeats):
    an id no flag names goes to the defaults; an id with `--schema-output` goes to that file; an id with a package and no
    output goes NOWHERE ("these types live elsewhere"), whatever the package is — also the default package; an id with
    only a root type goes to the default output -/
theorem cliroute_file (pkgs outs roots : List (String × String)) (dP dO id : String) (ids : List String) :
    (route (assembleAll pkgs outs roots dP dO ids) dO dP id).fileName =
      if id ∈ ids then
        (match lookupS id outs with
         | some o => o
         | none => if (lookupS id pkgs).isSome then "" else dO)
      else dO := by
  unfold route
  by_cases h : id ∈ ids
  · rw [find_assembled pkgs outs roots dP dO id ids h]
    simp only [h, ↓reduceIte, assembleMapping]
    cases lookupS id outs <;> rfl
  · rw [find_unassembled pkgs outs roots dP dO id ids h]; simp [h]

/-- … and under which package clause -/
theorem cliroute_pkg (pkgs outs roots : List (String × String)) (dP dO id : String) (ids : List String) :
    (route (assembleAll pkgs outs roots dP dO ids) dO dP id).pkg =
      if id ∈ ids then (lookupS id pkgs).getD dP else dP := by
  unfold route
  by_cases h : id ∈ ids
  · rw [find_assembled pkgs outs roots dP dO id ids h]; simp [h, assembleMapping]
  · rw [find_unassembled pkgs outs roots dP dO id ids h]; simp [h]

/-- the order in which main.go's map iteration yields the ids is unobservable -/
theorem cliroute_order_free (pkgs outs roots : List (String × String)) (dP dO id : String) (ids ids' : List String)
    (h : ∀ x, x ∈ ids ↔ x ∈ ids') :
    route (assembleAll pkgs outs roots dP dO ids) dO dP id = route (assembleAll pkgs outs roots dP dO ids') dO dP id := by
  have hf := cliroute_file pkgs outs roots dP dO id
  have hp := cliroute_pkg pkgs outs roots dP dO id
  have e1 := hf ids; have e2 := hf ids'; have e3 := hp ids; have e4 := hp ids'
  simp only [h id] at e1 e3
  cases hr : route (assembleAll pkgs outs roots dP dO ids) dO dP id with
  | mk f1 p1 =>
    cases hr' : route (assembleAll pkgs outs roots dP dO ids') dO dP id with
    | mk f2 p2 =>
      rw [hr] at e1 e3; rw [hr'] at e2 e4
      simp only at e1 e2 e3 e4
      rw [e1, e2, e3, e4]


end GJS.Props.C20

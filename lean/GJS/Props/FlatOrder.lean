import GJS.Props.FlatGen
import GJS.Props.C12
/-
  C12 / C13 at generator level (flat fragment): the order in which a schema document lists its properties is unobservable
  in the generator's output — sorted keys (C12.sortedKeys_perm), lookups by key (C12.alookup_perm) and the closed form of
  run_flat_gen.
-/
namespace GJS.Props.Flat
open GJS

/-- two schemas that state the same thing with their properties listed in another order -/
structure SameUpToKeyOrder (t t' : Schema) : Prop where
  props : t.node.props.Perm t'.node.props
  nodup : (akeys t.node.props).Nodup
  required : t.node.required = t'.node.required
  description : t.node.description = t'.node.description

theorem propOf_perm (t t' : Schema) (h : SameUpToKeyOrder t t') (n : String) : propOf t n = propOf t' n := by
  unfold propOf
  rw [C12.alookup_perm n _ _ h.props h.nodup]

/-- **C12 / C13 at generator level**: the ORDER in which a schema document lists its properties is unobservable in what
    the generator emits for a flat object — same name, same fields in the same order with the same types and tags, same
    validators in the same order, same comment -/
theorem key_order_unobservable (cfg : Config) (t t' : Schema) (h : SameUpToKeyOrder t t') :
    (rootDeclG cfg t).name = (rootDeclG cfg t').name ∧ (rootDeclG cfg t).ty = (rootDeclG cfg t').ty ∧
    (rootDeclG cfg t).body = (rootDeclG cfg t').body ∧ (rootDeclG cfg t).comment = (rootDeclG cfg t').comment := by
  have hk : sortedKeys t.node.props = sortedKeys t'.node.props := C12.sortedKeys_perm _ _ h.props
  have hp := propOf_perm t t' h
  have hfields : flatFieldsG cfg t = flatFieldsG cfg t' := by
    unfold flatFieldsG; rw [hk]
    apply List.map_congr_left; intro n _
    simp [fieldOfG, ftyOf, hp n, h.required]
  have hvs : flatAllVs t = flatAllVs t' := by
    unfold flatAllVs flatReq flatVs; rw [hk, h.required]
    congr 1
    have : (fun n => propVs (fname n) (propOf t n) (!t'.node.required.contains n)) =
        (fun n => propVs (fname n) (propOf t' n) (!t'.node.required.contains n)) := by
      funext n; rw [hp n]
    rw [this]
  refine ⟨rfl, ?_, ?_, ?_⟩
  · simp [rootDeclG, hfields]
  · simp [rootDeclG, hvs]
  · simp [rootDeclG, h.description]

/-- … hence for two flat schemas that differ only in key order the generator's outputs have the same declarations up to
    the schema node kept for later comparisons -/
theorem run_key_order (cfg : Config) (hc : genCfg cfg) (t t' : Schema) (h : FlatObj t) (h' : FlatObj t')
    (hs : SameUpToKeyOrder t t') (id : String) (hlen : (sortedKeys t.node.props).length ≤ 190) :
    ∃ o o' d d', Gen.run cfg { id := id, hasRoot := true, root := t, defs := [] } = .ok o ∧
      Gen.run cfg { id := id, hasRoot := true, root := t', defs := [] } = .ok o' ∧ o.decls = [d] ∧ o'.decls = [d'] ∧
      d.name = d'.name ∧ d.ty = d'.ty ∧ d.body = d'.body ∧ d.comment = d'.comment := by
  have hk : sortedKeys t.node.props = sortedKeys t'.node.props := C12.sortedKeys_perm _ _ hs.props
  obtain ⟨o, h1, e1⟩ := run_flat_gen cfg hc t h id hlen
  obtain ⟨o', h2, e2⟩ := run_flat_gen cfg hc t' h' id (by rw [← hk]; exact hlen)
  obtain ⟨a, b, c, d⟩ := key_order_unobservable cfg t t' hs
  exact ⟨o, o', _, _, h1, h2, e1, e2, a, b, c, d⟩
end GJS.Props.Flat

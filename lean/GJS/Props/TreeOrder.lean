import GJS.Props.TreeOptions
import GJS.Props.C12
/-
  C12 / C13 at generator level for TREES of objects: the order in which the schema document lists its properties, at
  any level, is unobservable in the generator's output (`key_order_unobservable_tree`, `run_tree_key_order`).
-/
namespace GJS.Props.Tree
open GJS GJS.Props.Flat

/-- everything of a declaration that reaches the generated file -/
def declText (d : Decl) : String × GoTy × DeclBody × String := (d.name, d.ty, d.body, d.comment)

/-- two trees that state the same thing, their properties possibly listed in another order at every level: same sorted
    keys, same required list and description at every node, members equal or (objects) the same up to key order -/
def TreeSame : Nat → Schema → Schema → Prop
  | 0, _, _ => True
  | d + 1, t, t' =>
    sortedKeys t.node.props = sortedKeys t'.node.props ∧ t.node.required = t'.node.required ∧
    t.node.description = t'.node.description ∧
    ∀ n ∈ sortedKeys t.node.props,
      propOf t n = propOf t' n ∨
      (isObj (propOf t n) = true ∧ isObj (propOf t' n) = true ∧
       (propOf t n).node.description = (propOf t' n).node.description ∧ TreeSame d (propOf t n) (propOf t' n))

/-- a permutation of the properties of ONE node gives the same tree up to key order (the members themselves unchanged) -/
theorem TreeSame.of_perm (d : Nat) (t t' : Schema) (hp : t.node.props.Perm t'.node.props) (hn : (akeys t.node.props).Nodup)
    (hr : t.node.required = t'.node.required) (hd : t.node.description = t'.node.description) : TreeSame (d + 1) t t' := by
  refine ⟨C12.sortedKeys_perm _ _ hp, hr, hd, fun n _ => Or.inl ?_⟩
  unfold propOf
  rw [C12.alookup_perm n _ _ hp hn]

theorem key_order_unobservable_tree (cfg : Config) : ∀ (d : Nat) (scope : String) (t t' : Schema), TreeSame d t t' →
    (treeDecls cfg d scope t).map declText = (treeDecls cfg d scope t').map declText := by
  intro d
  induction d with
  | zero => intro _ _ _ _; rfl
  | succ d ih =>
    intro scope t t' h
    obtain ⟨hk, hr, hd, hm⟩ := h
    -- members: same type and same validators for every key
    have hty : ∀ n ∈ sortedKeys t.node.props, memFty scope t n = memFty scope t' n ∧ memVs t n = memVs t' n ∧
        (propOf t n).node.description = (propOf t' n).node.description := by
      intro n hn
      rcases hm n hn with he | ⟨ho, ho', hdesc, _⟩
      · simp [memFty, memTy, memVs, he, hr]
      · have hna := obj_not_arr _ ho
        have hna' := obj_not_arr _ ho'
        simp [memFty, memTy, memVs, ho, ho', hna, hna', hr, hdesc]
    have hfields : (sortedKeys t.node.props).map (fieldT cfg scope t) = (sortedKeys t'.node.props).map (fieldT cfg scope t') := by
      rw [← hk]
      apply List.map_congr_left
      intro n hn
      obtain ⟨h1, _, h3⟩ := hty n hn
      simp [fieldT, h1, hr, h3]
    have hvs : nodeVs t = nodeVs t' := by
      unfold nodeVs flatReq
      rw [← hk, hr]
      congr 1
      apply flatMap_congr'
      intro n hn
      exact (hty n hn).2.1
    simp only [treeDecls, List.map_append, List.map_flatMap, List.map_cons, List.map_nil]
    congr 1
    · rw [← hk]
      apply flatMap_congr'
      intro n hn
      rcases hm n hn with he | ⟨ho, ho', _, hsame⟩
      · rw [he]
      · simp only [ho, ho', if_true]
        exact ih _ _ _ hsame
    · simp [declText, nodeDecl, hfields, hvs, hd]

/-- **C12 / C13 for trees**: whatever order the schema document lists the properties in, at any level, the generator emits
    the same declarations — same names, fields, types, tags, validators in the same order, comments -/
theorem run_tree_key_order (cfg : Config) (hc : genCfg cfg) (d : Nat) (t t' : Schema) (h : TreeOK d t) (h' : TreeOK d t')
    (hs : TreeSame d t t') (hnd : (scopes d cfg.rootType t).Nodup) (hnd' : (scopes d cfg.rootType t').Nodup) (hd : d ≤ 5) (id : String) :
    ∃ o o', Gen.run cfg { id := id, hasRoot := true, root := t, defs := [] } = .ok o ∧
      Gen.run cfg { id := id, hasRoot := true, root := t', defs := [] } = .ok o' ∧ o.decls.map declText = o'.decls.map declText := by
  obtain ⟨o, h1, e1⟩ := run_tree cfg hc d t h hnd hd id
  obtain ⟨o', h2, e2⟩ := run_tree cfg hc d t' h' hnd' hd id
  exact ⟨o, o', h1, h2, by rw [e1, e2]; exact key_order_unobservable_tree cfg d _ t t' hs⟩
end GJS.Props.Tree

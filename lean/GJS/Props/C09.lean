import GJS.Model.Run
/-
  C09 — absent properties take their schema default; present values win.
  Run-time level: the meaning of the emitted `if v, ok := raw["k"]; !ok || v == nil { plain.F = <literal> }`.
-/
namespace GJS.Props.C09
open GJS

/-- **absent ⇒ default**: when the raw map lacks the key, the field is set to the default literal's value and
    the remaining validators run on the updated value -/
theorem absent_gets_default (w : Wire) (env : Env) (f : Nat) (ty : GoTy) (field k : String) (dv : Json)
    (rest : List Validator) (kvs : List (String × Json)) (plain x : GoVal)
    (habs : alookup k kvs = none) (hok : literalOK env 32 (fieldTyOf ty field) dv = true)
    (hlit : literal env f (fieldTyOf ty field) dv = .ok x) :
    runAfter w env (f + 1) ty (.dflt field k dv :: rest) (some kvs) plain =
      runAfter w env f ty rest (some kvs) (setField plain field x) := by
  simp only [runAfter, dfltAbsent, habs, ↓reduceIte]
  simp [hok, hlit]

/-- **null ⇒ default** -/
theorem null_gets_default (w : Wire) (env : Env) (f : Nat) (ty : GoTy) (field k : String) (dv : Json)
    (rest : List Validator) (kvs : List (String × Json)) (plain x : GoVal)
    (hnull : alookup k kvs = some .null) (hok : literalOK env 32 (fieldTyOf ty field) dv = true)
    (hlit : literal env f (fieldTyOf ty field) dv = .ok x) :
    runAfter w env (f + 1) ty (.dflt field k dv :: rest) (some kvs) plain =
      runAfter w env f ty rest (some kvs) (setField plain field x) := by
  simp only [runAfter, dfltAbsent, hnull, ↓reduceIte]
  simp [hok, hlit]

/-- **present wins**: a present non-null value is never overwritten by the default -/
theorem present_wins (w : Wire) (env : Env) (f : Nat) (ty : GoTy) (field k : String) (dv v : Json)
    (rest : List Validator) (kvs : List (String × Json)) (plain : GoVal)
    (hpres : alookup k kvs = some v) (hnn : v ≠ .null) :
    runAfter w env (f + 1) ty (.dflt field k dv :: rest) (some kvs) plain =
      runAfter w env f ty rest (some kvs) plain := by
  simp only [runAfter, dfltAbsent, hpres]
  cases v <;> simp_all

/-- **the literal has the field's type and the default's value** (scalar fields): what `literalOK` admits is
    what `literal` evaluates, to exactly the JSON value of the default -/
theorem literal_value_typed (env : Env) (f : Nat) :
    (∀ s, literalOK env (f + 1) .string (.str s) = true ∧ literal env (f + 1) .string (.str s) = .ok (.str s)) ∧
    (∀ b, literalOK env (f + 1) .bool (.bool b) = true ∧ literal env (f + 1) .bool (.bool b) = .ok (.bool b)) ∧
    (∀ q, literalOK env (f + 1) .float64 (.num q) = true ∧ literal env (f + 1) .float64 (.num q) = .ok (.float q)) ∧
    (∀ k (i : Int), k.inRangeB i = true →
        literalOK env (f + 1) (.int k) (.num (i : Rat)) = true ∧ literal env (f + 1) (.int k) (.num (i : Rat)) = .ok (.int i)) ∧
    -- an ill-typed literal is refused: a string default for an integer field, a fraction for an integer field
    (∀ k s, literalOK env (f + 1) (.int k) (.str s) = false) ∧
    (∀ k (q : Rat), q.den ≠ 1 → literalOK env (f + 1) (.int k) (.num q) = false) := by
  refine ⟨?_, ?_, ?_, ?_, ?_, ?_⟩
  · intro s; simp [literalOK, literal]
  · intro b; simp [literalOK, literal]
  · intro q; simp [literalOK, literal]
  · intro k i h
    simp [literalOK, literal, intInRange, h, Rat.den_intCast, Rat.num_intCast]
  · intro k s; simp [literalOK]
  · intro k q h; simp [literalOK, h]

end GJS.Props.C09

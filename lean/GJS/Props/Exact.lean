import GJS.Props.Whole
import GJS.Proofs.SpecMono
import GJS.Cert
/-
  Exactness on the certified fragment (C02–C07): `certSound` (an accepted clean document is valid) and, with
  `certAll_accepts` (Props/Whole.lean), `certified_exact`: accepted ⇔ valid, for whole documents.
-/
namespace GJS.Props.C02
open GJS

/-! ### soundness of acceptance: the top-level value constraints of a node, split off -/

/-- the node without its own numeric / string / item-count constraints -/
def dropTop (s : Schema) : Schema :=
  .mk { s.node with minimum := none, maximum := none, xmin := .absent, xmax := .absent,
                    minLength := 0, maxLength := 0, pattern := "", minItems := 0, maxItems := 0 }

/-- … and those constraints on their own -/
def topOK (s : Schema) : Json → Bool
  | .num v => Spec.boundsOK s.node.minimum s.node.maximum s.node.xmin s.node.xmax v
  | .str t => Spec.lengthOK s.node.minLength s.node.maxLength t && Spec.patternOK s.node.pattern t
  | .arr xs => Spec.itemsCountOK s.node.minItems s.node.maxItems xs.length
  | _ => true

theorem node_mk' (n : NodeF Schema) : (Schema.mk n).node = n := rfl

theorem boundsOK_none (v : Rat) : Spec.boundsOK none none .absent .absent v = true := by simp [Spec.boundsOK]
theorem lengthOK_zero (t : String) : Spec.lengthOK 0 0 t = true := by simp [Spec.lengthOK]
theorem patternOK_empty (t : String) : Spec.patternOK "" t = true := by simp [Spec.patternOK]
theorem itemsCountOK_zero (n : Nat) : Spec.itemsCountOK 0 0 n = true := by simp [Spec.itemsCountOK]

/-- a node without reference, multipleOf and format: valid = valid without the top constraints ∧ the top constraints -/
theorem valid_split (defs : Spec.Defs) (s : Schema) (j : Json) (F : Nat) (hr : s.node.ref = "")
    (hm : s.node.multipleOf = none) (hf : s.node.format = "") :
    Spec.valid F defs s j = (Spec.valid F defs (dropTop s) j && topOK s j) := by
  cases F with
  | zero => simp [Spec.valid]
  | succ F =>
    obtain ⟨n⟩ := s
    simp only [node_mk'] at hr hm hf
    have hr' : (dropTop (.mk n)).node.ref = "" := hr
    cases j with
    | num v =>
      simp only [Spec.valid, hr, hr', ne_eq, not_true_eq_false, ↓reduceIte, dropTop, node_mk', topOK, hm, boundsOK_none,
        Spec.multipleOK, Bool.and_true]
    | str t =>
      simp only [Spec.valid, hr, hr', ne_eq, not_true_eq_false, ↓reduceIte, dropTop, node_mk', topOK, hf, lengthOK_zero,
        patternOK_empty, Bool.true_and]
      generalize Spec.formatOK "" t = fo
      generalize Spec.lengthOK n.minLength n.maxLength t = a
      generalize Spec.patternOK n.pattern t = b
      cases fo <;> cases a <;> cases b <;> simp
    | arr xs =>
      simp only [Spec.valid, hr, hr', ne_eq, not_true_eq_false, ↓reduceIte, dropTop, node_mk', topOK, itemsCountOK_zero,
        Bool.true_and]
      generalize Spec.itemsCountOK n.minItems n.maxItems xs.length = a
      cases a <;> simp
    | obj kvs => simp only [Spec.valid, hr, hr', ne_eq, not_true_eq_false, ↓reduceIte, dropTop, node_mk', topOK, Bool.and_true]
    | null => simp only [Spec.valid, hr, hr', ne_eq, not_true_eq_false, ↓reduceIte, dropTop, node_mk', topOK, Bool.and_true]
    | bool b => simp only [Spec.valid, hr, hr', ne_eq, not_true_eq_false, ↓reduceIte, dropTop, node_mk', topOK, Bool.and_true]

/-! ### the emitted checks on what a value decodes to, as equivalences -/

theorem num_check_iff (env : Env) (ty : GoTy) (nl : Bool) (c : NumCheck) (q : Rat) (g : Nat) (v : GoVal)
    (hb : numBase ty = some (nl, c.roundToInt)) (hm : c.mult = none) (h1 : c.xlo ≠ .other) (h2 : c.xhi ≠ .other)
    (hden : c.roundToInt = true → q.den = 1)
    (hd : decode .json env g ty (.num q) = .ok v) :
    checkNumeric v nl c = true ↔ Spec.boundsOK c.lo c.hi c.xlo c.xhi q = true := by
  cases hrt : c.roundToInt with
  | true =>
    have hden1 : q.den = 1 := hden hrt
    have hiff : c.passes q = true ↔ Spec.boundsOK c.lo c.hi c.xlo c.xhi q = true := by
      have := C05.int_bounds_exact c q.num hrt hm h1 h2
      rwa [num_cast_of_den_one q hden1] at this
    rw [hrt] at hb
    cases ty with
    | int k =>
      cases k <;> simp [numBase] at hb
      subst hb
      cases g with
      | zero => simp [decode] at hd
      | succ g =>
        simp only [decode, hden1, ne_eq, not_true_eq_false, ↓reduceIte] at hd
        split at hd
        · injection hd with hd; subst hd
          simpa [checkNumeric, derefIf, numOf, NumCheck.accepts, num_cast_of_den_one q hden1] using hiff
        · cases hd
    | ptr t =>
      cases t with
      | int k =>
        cases k <;> simp [numBase] at hb
        subst hb
        cases g with
        | zero => simp [decode] at hd
        | succ g =>
          have : decode .json env (g + 1) (.ptr (.int .int)) (.num q) = (decode .json env g (.int .int) (.num q)).map .ptrTo := by
            simp [decode]
          rw [this] at hd
          cases g with
          | zero => simp [decode, Except.map] at hd
          | succ g =>
            simp only [decode, hden1, ne_eq, not_true_eq_false, ↓reduceIte] at hd
            split at hd
            · simp only [Except.map] at hd
              injection hd with hd; subst hd
              simpa [checkNumeric, derefIf, numOf, NumCheck.accepts, num_cast_of_den_one q hden1] using hiff
            · simp [Except.map] at hd
      | _ => simp [numBase] at hb
    | _ => simp [numBase] at hb
  | false =>
    have hiff : c.passes q = true ↔ Spec.boundsOK c.lo c.hi c.xlo c.xhi q = true := C05.float_bounds_exact c q hrt hm h1 h2
    rw [hrt] at hb
    cases ty with
    | float64 =>
      simp [numBase] at hb
      subst hb
      cases g with
      | zero => simp [decode] at hd
      | succ g =>
        simp only [decode] at hd
        injection hd with hd; subst hd
        simpa [checkNumeric, derefIf, numOf, NumCheck.accepts] using hiff
    | ptr t =>
      cases t with
      | float64 =>
        simp [numBase] at hb
        subst hb
        cases g with
        | zero => simp [decode] at hd
        | succ g =>
          have : decode .json env (g + 1) (.ptr .float64) (.num q) = (decode .json env g .float64 (.num q)).map .ptrTo := by
            simp [decode]
          rw [this] at hd
          cases g with
          | zero => simp [decode, Except.map] at hd
          | succ g =>
            simp only [decode, Except.map] at hd
            injection hd with hd; subst hd
            simpa [checkNumeric, derefIf, numOf, NumCheck.accepts] using hiff
      | int k => cases k <;> simp [numBase] at hb
      | _ => simp [numBase] at hb
    | int k => cases k <;> simp [numBase] at hb
    | _ => simp [numBase] at hb

theorem str_check_iff (env : Env) (ty : GoTy) (nl : Bool) (mn mx : Int) (pat t : String) (g : Nat) (v : GoVal)
    (hb : strBase ty = some nl) (hascii : C06.IsAscii t)
    (hd : decode .json env g ty (.str t) = .ok v) :
    checkString v mn mx pat nl = true ↔ (Spec.lengthOK mn mx t = true ∧ Spec.patternOK pat t = true) := by
  have hiff := C06.string_check_exact_ascii mn mx pat t hascii
  cases ty with
  | string =>
    simp [strBase] at hb; subst hb
    cases g with
    | zero => simp [decode] at hd
    | succ g =>
      simp only [decode] at hd
      injection hd with hd; subst hd
      simpa [checkString, derefIf] using hiff
  | ptr t' =>
    cases t' with
    | string =>
      simp [strBase] at hb; subst hb
      cases g with
      | zero => simp [decode] at hd
      | succ g =>
        have : decode .json env (g + 1) (.ptr .string) (.str t) = (decode .json env g .string (.str t)).map .ptrTo := by
          simp [decode]
        rw [this] at hd
        cases g with
        | zero => simp [decode, Except.map] at hd
        | succ g =>
          simp only [decode, Except.map] at hd
          injection hd with hd; subst hd
          simpa [checkString, derefIf] using hiff
    | _ => simp [strBase] at hb
  | _ => simp [strBase] at hb

theorem arr_check_eq (env : Env) (t : GoTy) (mn mx : Int) (xs : List Json) (g : Nat) (v : GoVal)
    (he : elemOK env t = true)
    (hd : decode .json env g (.slice t) (.arr xs) = .ok v) :
    checkArray 1 v mn mx = Spec.itemsCountOK mn mx xs.length := by
  cases g with
  | zero => simp [decode] at hd
  | succ g =>
    have hdec : decode .json env (g + 1) (.slice t) (.arr xs) = (decodeElems .json env g t xs).map .slice :=
      decode_slice_eq env t xs g he
    rw [hdec] at hd
    cases hr' : decodeElems .json env g t xs with
    | error e => rw [hr'] at hd; cases hd
    | ok vs =>
      rw [hr'] at hd
      simp only [Except.map] at hd
      injection hd with hd; subst hd
      rw [C07.depth1_exact, decodeElems_length .json env t xs g vs hr']

/-! ### documents for the soundness direction, and the coverage certificate -/

inductive NullIn : Json → Prop
  | here : NullIn .null
  | inObj (kvs : List (String × Json)) (p : String × Json) (hp : p ∈ kvs) (h : NullIn p.2) : NullIn (.obj kvs)
  | inArr (xs : List Json) (x : Json) (hx : x ∈ xs) (h : NullIn x) : NullIn (.arr xs)

/-- the object `kvs` occurs somewhere in the document -/
inductive ObjIn (kvs : List (String × Json)) : Json → Prop
  | here : ObjIn kvs (.obj kvs)
  | inObj (kvs' : List (String × Json)) (p : String × Json) (hp : p ∈ kvs') (h : ObjIn kvs p.2) : ObjIn kvs (.obj kvs')
  | inArr (xs : List Json) (x : Json) (hx : x ∈ xs) (h : ObjIn kvs x) : ObjIn kvs (.arr xs)

/-- for the converse direction the document must also be free of `null` (encoding/json treats it as "leave the zero
    value": the null convention of DESIGN §1.3) and of repeated keys (the last one wins, earlier ones go unchecked) -/
structure DocClean (env : Env) (j : Json) : Prop where
  oks : DocOKS env j
  nonull : ¬ NullIn j
  nodup : ∀ kvs, ObjIn kvs j → (akeys kvs).Nodup

theorem DocClean.ofMember {env : Env} {kvs : List (String × Json)} (h : DocClean env (.obj kvs)) (p : String × Json) (hp : p ∈ kvs) :
    DocClean env p.2 :=
  ⟨h.oks.ofMember p hp, fun hn => h.nonull (.inObj kvs p hp hn), fun k hk => h.nodup k (.inObj kvs p hp hk)⟩

theorem DocClean.ofElem {env : Env} {xs : List Json} (h : DocClean env (.arr xs)) (x : Json) (hx : x ∈ xs) : DocClean env x :=
  ⟨h.oks.ofElem x hx, fun hn => h.nonull (.inArr xs x hx hn), fun k hk => h.nodup k (.inArr xs x hx hk)⟩

theorem topOK_of_topFree (s : Schema) (j : Json) (h : topFree s = true) : topOK s j = true := by
  simp only [topFree, hasNumTop, hasStrTop, hasArrTop, Bool.and_eq_true, Bool.not_eq_true', Bool.not_eq_false', beq_iff_eq,
    Option.isNone_iff_eq_none, decide_eq_true_eq, Bool.not_not] at h
  obtain ⟨⟨⟨⟨⟨h1, h2⟩, h3⟩, h4⟩, ⟨⟨h5, h6⟩, h7⟩⟩, ⟨h8, h9⟩⟩ := h
  cases j <;> simp [topOK, h1, h2, h3, h4, h5, h6, h7, h8, h9, boundsOK_none, lengthOK_zero, patternOK_empty, itemsCountOK_zero]

/-! ### shapes: what an accepted, null-free value must look like -/

theorem runMethod_ok_mono (w : Wire) (env : Env) (d : Decl) (j : Json) (v : GoVal) (f g : Nat) (hfg : f ≤ g)
    (h : runMethod w env f d j = .ok v) : runMethod w env g d j = .ok v := by
  induction g with
  | zero => have : f = 0 := by omega
            subst this; exact h
  | succ g ih =>
    by_cases hc : f = g + 1
    · subst hc; exact h
    · exact (Proofs.okMono env g).meth _ _ _ _ (ih (by omega))

theorem decode_struct_obj (env : Env) (fs : List Field) (j : Json) (g : Nat) (v : GoVal)
    (h : decode .json env g (.strct fs) j = .ok v) : j = .null ∨ ∃ kvs, j = .obj kvs := by
  cases g with
  | zero => simp [decode] at h
  | succ g => cases j <;> simp [decode] at h ⊢

theorem decode_slice_arr (env : Env) (t : GoTy) (j : Json) (g : Nat) (v : GoVal)
    (hb : t ≠ .int .u8) (hi : t ≠ .iface)
    (h : decode .json env g (.slice t) j = .ok v) : j = .null ∨ ∃ xs, j = .arr xs := by
  cases g with
  | zero => simp [decode] at h
  | succ g =>
    cases j with
    | null => exact Or.inl rfl
    | arr xs => exact Or.inr ⟨xs, rfl⟩
    | bool b => exfalso; cases t <;> first | (exact hi rfl) | (rename_i k; cases k <;> first | exact hb rfl | simp [decode] at h) | simp [decode] at h
    | num q => exfalso; cases t <;> first | (exact hi rfl) | (rename_i k; cases k <;> first | exact hb rfl | simp [decode] at h) | simp [decode] at h
    | str q => exfalso; cases t <;> first | (exact hi rfl) | (rename_i k; cases k <;> first | exact hb rfl | simp [decode] at h) | simp [decode] at h
    | obj q => exfalso; cases t <;> first | (exact hi rfl) | (rename_i k; cases k <;> first | exact hb rfl | simp [decode] at h) | simp [decode] at h

/-- the method of a plain declaration decodes its shadow value -/
theorem runMethod_plain_decode (env : Env) (d : Decl) (vs : List Validator) (m : Bool) (j : Json) (f : Nat) (v : GoVal)
    (hbody : d.body = .plain vs m) (h : runMethod .json env (f + 1) d j = .ok v) :
    ∃ p, decode .json env f d.ty j = .ok p := by
  cases hdj : decode .json env f d.ty j with
  | ok p => exact ⟨p, rfl⟩
  | error e =>
    exfalso
    simp only [runMethod, hbody, bind, Except.bind, hdj] at h
    repeat (first | (split at h) | (cases h))

/-! ### helpers for the struct case -/

theorem bindKey_fold (fs : List Field) (k : String) (fld : Field) (h : bindKey fs k = some fld) :
    foldKey fld.jsonKey = foldKey k := by
  unfold bindKey at h
  cases h1 : fs.find? (fun f => f.jsonKey = k) with
  | some f1 =>
    rw [h1] at h; injection h with h; subst h
    have := List.find?_some h1
    simp only [decide_eq_true_eq] at this
    rw [this]
  | none =>
    rw [h1] at h
    have := List.find?_some h
    simpa using this

theorem nodup_keys_unique {α : Type} (k : String) (x x' : α) :
    ∀ kvs : List (String × α), (akeys kvs).Nodup → (k, x) ∈ kvs → (k, x') ∈ kvs → x = x' := by
  intro kvs
  induction kvs with
  | nil => intro _ h; cases h
  | cons q rest ih =>
    intro hnd h1 h2
    simp only [akeys, List.map_cons, List.nodup_cons] at hnd
    rcases List.mem_cons.mp h1 with e1 | e1 <;> rcases List.mem_cons.mp h2 with e2 | e2
    · rw [← e1] at e2; injection e2 with _ e; exact e.symm
    · exfalso; apply hnd.1; rw [← e1]; exact List.mem_map.mpr ⟨(k, x'), e2, rfl⟩
    · exfalso; apply hnd.1; rw [← e2]; exact List.mem_map.mpr ⟨(k, x), e1, rfl⟩
    · exact ih hnd.2 e1 e2

theorem validProps_of_all (defs : Spec.Defs) (props : List (String × Schema)) (all : List (String × Json)) (G : Nat) :
    ∀ kvs : List (String × Json), (∀ p ∈ kvs, ∀ ps, alookup p.1 props = some ps → Spec.valid G defs ps p.2 = true) →
      Spec.validProps (G + kvs.length + 1) defs props none all kvs = true := by
  intro kvs
  induction kvs with
  | nil => intro _; simp [Spec.validProps]
  | cons q rest ih =>
    obtain ⟨k, x⟩ := q
    intro h
    have e : G + ((k, x) :: rest).length + 1 = (G + rest.length + 1) + 1 := by simp; omega
    rw [e]
    simp only [Spec.validProps, Bool.and_eq_true]
    refine ⟨?_, ih (fun p hp => h p (List.mem_cons_of_mem _ hp))⟩
    cases hl : alookup k props with
    | none => rfl
    | some ps =>
      simp only
      exact Spec.valid_mono defs ps x G _ (by omega) (h (k, x) (List.mem_cons_self ..) ps hl)

theorem common_valid (defs : Spec.Defs) (props : List (String × Schema)) :
    ∀ kvs : List (String × Json), (∀ p ∈ kvs, ∀ ps, alookup p.1 props = some ps → ∃ F, Spec.valid F defs ps p.2 = true) →
      ∃ G, ∀ p ∈ kvs, ∀ ps, alookup p.1 props = some ps → Spec.valid G defs ps p.2 = true := by
  intro kvs
  induction kvs with
  | nil => intro _; exact ⟨0, fun p hp => by cases hp⟩
  | cons q rest ih =>
    intro h
    obtain ⟨G, hG⟩ := ih (fun p hp => h p (List.mem_cons_of_mem _ hp))
    cases hl : alookup q.1 props with
    | none =>
      refine ⟨G, ?_⟩
      intro p hp ps hps
      rcases List.mem_cons.mp hp with e | e
      · subst e; rw [hl] at hps; cases hps
      · exact hG p e ps hps
    | some ps0 =>
      obtain ⟨F, hF⟩ := h q (List.mem_cons_self ..) ps0 hl
      refine ⟨max G F, ?_⟩
      intro p hp ps hps
      rcases List.mem_cons.mp hp with e | e
      · subst e; rw [hl] at hps; injection hps with hps; subst hps
        exact Spec.valid_mono defs _ _ F _ (Nat.le_max_right ..) hF
      · exact Spec.valid_mono defs _ _ G _ (Nat.le_max_left ..) (hG p e ps hps)

theorem validElems_of_all (defs : Spec.Defs) (it : Schema) (G : Nat) :
    ∀ xs : List Json, (∀ x ∈ xs, Spec.valid G defs it x = true) → Spec.validElems (G + xs.length + 1) defs it xs = true := by
  intro xs
  induction xs with
  | nil => intro _; simp [Spec.validElems]
  | cons x rest ih =>
    intro h
    have e : G + (x :: rest).length + 1 = (G + rest.length + 1) + 1 := by simp; omega
    rw [e]
    simp only [Spec.validElems, Bool.and_eq_true]
    exact ⟨Spec.valid_mono defs it x G _ (by omega) (h x (List.mem_cons_self ..)), ih (fun y hy => h y (List.mem_cons_of_mem _ hy))⟩

theorem common_valid_elems (defs : Spec.Defs) (it : Schema) :
    ∀ xs : List Json, (∀ x ∈ xs, ∃ F, Spec.valid F defs it x = true) → ∃ G, ∀ x ∈ xs, Spec.valid G defs it x = true := by
  intro xs
  induction xs with
  | nil => intro _; exact ⟨0, fun x hx => by cases hx⟩
  | cons y rest ih =>
    intro h
    obtain ⟨G, hG⟩ := ih (fun x hx => h x (List.mem_cons_of_mem _ hx))
    obtain ⟨F, hF⟩ := h y (List.mem_cons_self ..)
    refine ⟨max G F, ?_⟩
    intro x hx
    rcases List.mem_cons.mp hx with e | e
    · subst e; exact Spec.valid_mono defs _ _ F _ (Nat.le_max_right ..) hF
    · exact Spec.valid_mono defs _ _ G _ (Nat.le_max_left ..) (hG x e)

theorem valid_scalar_dropTop (defs : Spec.Defs) (s : Schema) (j : Json) (T : String) (hr : s.node.ref = "")
    (ht : s.node.types = [T]) (hl : leafPlain s = true) (hm : s.node.multipleOf = none) (hf : s.node.format = "")
    (hty : Spec.hasType T j = true) (hk : ∀ xs, j ≠ .arr xs) (hk2 : ∀ kvs, j ≠ .obj kvs) :
    Spec.valid 2 defs (dropTop s) j = true := by
  obtain ⟨n⟩ := s
  simp only [node_mk'] at hr ht hm hf
  simp only [leafPlain, node_mk', Bool.and_eq_true, Option.isNone_iff_eq_none, List.isEmpty_iff, Bool.not_eq_true'] at hl
  obtain ⟨⟨⟨h1, h2⟩, h3⟩, h4⟩ := hl
  cases j with
  | arr xs => exact absurd rfl (hk xs)
  | obj kvs => exact absurd rfl (hk2 kvs)
  | null => simp [Spec.valid, dropTop, node_mk', hr, ht, h1, h2, h3, h4, Spec.validAll, hty]
  | bool b => simp [Spec.valid, dropTop, node_mk', hr, ht, h1, h2, h3, h4, Spec.validAll, hty]
  | num q => simp [Spec.valid, dropTop, node_mk', hr, ht, h1, h2, h3, h4, Spec.validAll, hty, hm, boundsOK_none, Spec.multipleOK]
  | str t => simp [Spec.valid, dropTop, node_mk', hr, ht, h1, h2, h3, h4, Spec.validAll, hty, hf, lengthOK_zero, patternOK_empty, Spec.formatOK]

theorem certCov_node (env : Env) (defs : Spec.Defs) (f : Nat) (ty : GoTy) (s : Schema) (hr : s.node.ref = "")
    (h : certCov env defs f ty s = true) : s.node.multipleOf = none ∧ s.node.format = "" := by
  cases f with
  | zero => simp [certCov] at h
  | succ f =>
    simp only [certCov, hr, ne_eq, not_true_eq_false, ↓reduceIte, Bool.and_eq_true, beq_iff_eq, Option.isNone_iff_eq_none] at h
    exact ⟨h.1.1, h.1.2⟩

/-- a reference node is valid exactly when its target is: its own (ignored) siblings do not matter -/
theorem valid_dropTop_ref (defs : Spec.Defs) (s : Schema) (j : Json) (F : Nat) (hr : s.node.ref ≠ "") :
    Spec.valid F defs (dropTop s) j = Spec.valid F defs s j := by
  obtain ⟨n⟩ := s
  simp only [node_mk'] at hr
  cases F with
  | zero => simp [Spec.valid]
  | succ F => cases j <;> simp [Spec.valid, dropTop, node_mk', hr]

/-- no schema certifies an `interface{}` position -/
theorem certAll_iface (env : Env) (defs : Spec.Defs) : ∀ f s, certAll env defs f .iface s = false := by
  intro f
  induction f with
  | zero => intro s; simp [certAll]
  | succ f ih =>
    intro s
    simp only [certAll]
    split
    · cases Spec.refName s.node.ref with
      | none => rfl
      | some name =>
        cases hl : alookup name defs with
        | none => simp [hl]
        | some t => simp [hl, ih t]
    · rfl

/-- **C02–C07, whole documents, SOUNDNESS of acceptance**: for a program both certificates admit (`certAll`: every
    validator is what the schema states; `certCov`: every stated constraint has its validator, and nothing outside the
    fragment is stated), a clean document (no null, no repeated keys, ordinary keys, ASCII strings) that the generated
    code ACCEPTS is valid under the schema, at every level: types, required keys, numeric bounds, string limits and
    patterns, array item counts.  (Stated for the node without its own top-level constraints, which its parent checks;
    `certified_exact` below closes it for object roots.) -/
theorem certSound (env : Env) (defs : Spec.Defs) :
    ∀ (f : Nat) (ty : GoTy) (s : Schema), certAll env defs f ty s = true → certCov env defs f ty s = true →
      ∀ (j : Json), Acc .json env ty j → DocClean env j → ∃ F, Spec.valid F defs (dropTop s) j = true := by
  intro f
  induction f with
  | zero => intro ty s h; simp [certAll] at h
  | succ f ih =>
    intro ty s hc hcov j hacc hclean
    by_cases hr : s.node.ref = ""
    case neg =>
      -- a reference: the target is an inline node without scalar constraints of its own
      simp only [certAll, ne_eq, hr, not_false_eq_true, ↓reduceIte] at hc
      simp only [certCov, ne_eq, hr, not_false_eq_true, ↓reduceIte] at hcov
      cases hn : Spec.refName s.node.ref with
      | none => simp [hn] at hc
      | some name =>
        simp only [hn] at hc hcov
        cases hl : alookup name defs with
        | none => simp [hl] at hc
        | some t =>
          simp only [hl, Bool.and_eq_true, beq_iff_eq] at hc hcov
          obtain ⟨⟨hrT, htf⟩, hcT⟩ := hcov
          obtain ⟨F, hF⟩ := ih ty t hc hcT j hacc hclean
          obtain ⟨hmT, hfT⟩ := certCov_node env defs f ty t hrT hcT
          have hvt : Spec.valid F defs t j = true := by
            rw [valid_split defs t j F hrT hmT hfT, hF, topOK_of_topFree t j htf]; rfl
          refine ⟨F + 1, ?_⟩
          rw [valid_dropTop_ref defs s j (F + 1) hr]
          cases j <;> simp [Spec.valid, hr, hn, hl, hvt]
    obtain ⟨hmS, hfS⟩ := certCov_node env defs _ ty s hr hcov
    have hjnn : j ≠ .null := fun e => hclean.nonull (e ▸ .here)
    simp only [certAll, hr, ne_eq, not_true_eq_false, ↓reduceIte] at hc
    simp only [certCov, hr, ne_eq, not_true_eq_false, ↓reduceIte, hmS, hfS, beq_self_eq_true, Option.isNone_none, Bool.and_self, Bool.true_and] at hcov
    cases ty with
    | ptr t =>
      rcases (acc_ptr_iff env t j).mp hacc with e | h
      · exact absurd e hjnn
      · exact ih t s hc hcov j h hclean
    | string =>
      rcases (acc_string_iff env j).mp hacc with e | ⟨t, rfl⟩
      · exact absurd e hjnn
      · simp only [Bool.and_eq_true, beq_iff_eq] at hc
        exact ⟨2, valid_scalar_dropTop defs s _ "string" hr hc.1 hcov hmS hfS rfl (by intro xs e; cases e) (by intro xs e; cases e)⟩
    | bool =>
      rcases (acc_bool_iff env j).mp hacc with e | ⟨t, rfl⟩
      · exact absurd e hjnn
      · exact ⟨2, valid_scalar_dropTop defs s _ "boolean" hr (by simpa using hc) hcov hmS hfS rfl (by intro xs e; cases e) (by intro xs e; cases e)⟩
    | float64 =>
      rcases (acc_float_iff env j).mp hacc with e | ⟨t, rfl⟩
      · exact absurd e hjnn
      · exact ⟨2, valid_scalar_dropTop defs s _ "number" hr (by simpa using hc) hcov hmS hfS rfl (by intro xs e; cases e) (by intro xs e; cases e)⟩
    | int k =>
      cases k <;> simp at hc
      rcases (acc_int_iff env .int j).mp hacc with e | ⟨q, rfl, hden, _⟩
      · exact absurd e hjnn
      · exact ⟨2, valid_scalar_dropTop defs s _ "integer" hr hc hcov hmS hfS (by simpa [Spec.hasType] using hden) (by intro xs e; cases e) (by intro xs e; cases e)⟩
    | slice t =>
      simp only [Bool.and_eq_true, beq_iff_eq] at hc hcov
      obtain ⟨⟨⟨⟨⟨⟨htypes, henum⟩, hall⟩, hany⟩, hnot⟩, htn⟩, hit⟩ := hc
      obtain ⟨hleaf, hcovIt⟩ := hcov
      cases hitems : s.node.items with
      | none => simp [hitems] at hit
      | some it =>
        simp only [hitems, Bool.and_eq_true] at hit hcovIt
        have hb : t ≠ .int .u8 := by intro e; subst e; simp [elemOK] at htn
        have hi : t ≠ .iface := by
          intro e; subst e
          rw [certAll_iface] at hit; cases hit
        obtain ⟨g, v, hd⟩ := hacc
        rcases decode_slice_arr env t j g v hb hi hd with e | ⟨xs, rfl⟩
        · exact absurd e hjnn
        · have helems := (acc_slice_iff env t xs htn).mp ⟨g, v, hd⟩
          have hvalid : ∀ x ∈ xs, ∃ F, Spec.valid F defs it x = true := by
            intro x hx
            obtain ⟨F, hF⟩ := ih t it hit hcovIt.2 x (helems x hx) (hclean.ofElem x hx)
            refine ⟨F, ?_⟩
            by_cases hrI : it.node.ref = ""
            · obtain ⟨hmI, hfI⟩ := certCov_node env defs f t it hrI hcovIt.2
              rw [valid_split defs it x F hrI hmI hfI, hF, topOK_of_topFree it x hcovIt.1]; rfl
            · rw [← valid_dropTop_ref defs it x F hrI]; exact hF
          obtain ⟨G, hG⟩ := common_valid_elems defs it xs hvalid
          have hve := validElems_of_all defs it G xs hG
          refine ⟨(G + xs.length + 1) + 1, ?_⟩
          obtain ⟨n⟩ := s
          simp only [node_mk'] at hr htypes henum hall hany hnot hitems
          simp only [Option.isNone_iff_eq_none, List.isEmpty_iff, Bool.not_eq_true'] at henum hall hany hnot
          simp [Spec.valid, dropTop, node_mk', hr, htypes, henum, hall, hany, hnot, hitems, Spec.hasType, Spec.validAll,
            itemsCountOK_zero, hve]
    | named nm =>
      simp only at hc hcov
      cases hres : env.resolve 8 nm with
      | none => simp [hres] at hc
      | some d =>
        simp only [hres] at hc hcov
        cases hbody : d.body with
        | enum vals wr ic cs ms =>
          cases hty : d.ty <;> simp only [hbody, hty] at hc <;> try (simp at hc; done)
          cases wr <;> simp only at hc <;> try (simp at hc; done)
          simp only [Bool.and_eq_true, Bool.or_eq_true, beq_iff_eq, List.isEmpty_iff, Bool.not_eq_true'] at hc
          obtain ⟨⟨⟨⟨⟨hmeth, htypes⟩, hj⟩, hallOf⟩, hanyOf⟩, hnot⟩ := hc
          obtain ⟨l, hl, he⟩ := strEnumJustified_eq vals s hj
          rw [acc_named_iff env nm d j hres] at hacc
          simp only [hmeth, ↓reduceIte] at hacc
          obtain ⟨f0, v, h⟩ := hacc
          -- the method needs two units of fuel, and only looks at strings
          obtain ⟨f2, rfl⟩ : ∃ f2, f0 = f2 + 2 := by
            cases f0 with
            | zero => simp [runMethod] at h
            | succ f1 =>
              cases f1 with
              | zero => simp [runMethod, hbody, decode] at h
              | succ f2 => exact ⟨f2, rfl⟩
          obtain ⟨x, rfl⟩ : ∃ x, j = .str x := by
            cases j with
            | str x => exact ⟨x, rfl⟩
            | null => exact absurd rfl hjnn
            | bool b =>
              obtain ⟨e, he'⟩ := C08.string_enum_method_rejects_other_types env d vals ic cs ms (.bool b) f2 hbody hty (by intro s e; cases e) (by intro e; cases e)
              rw [he'] at h; cases h
            | num q =>
              obtain ⟨e, he'⟩ := C08.string_enum_method_rejects_other_types env d vals ic cs ms (.num q) f2 hbody hty (by intro s e; cases e) (by intro e; cases e)
              rw [he'] at h; cases h
            | arr xs =>
              obtain ⟨e, he'⟩ := C08.string_enum_method_rejects_other_types env d vals ic cs ms (.arr xs) f2 hbody hty (by intro s e; cases e) (by intro e; cases e)
              rw [he'] at h; cases h
            | obj kvs =>
              obtain ⟨e, he'⟩ := C08.string_enum_method_rejects_other_types env d vals ic cs ms (.obj kvs) f2 hbody hty (by intro s e; cases e) (by intro e; cases e)
              rw [he'] at h; cases h
          have hmem := (C08.string_enum_method_exact .json env d vals ic cs ms x f2 hbody hty).mp ⟨v, h⟩
          refine ⟨2, ?_⟩
          obtain ⟨n⟩ := s
          simp only [node_mk'] at hr htypes he hallOf hanyOf hnot hfS
          rcases htypes with ht | ht <;>
            simp [Spec.valid, dropTop, node_mk', hr, ht, he, hmem, hallOf, hanyOf, hnot, Spec.validAll, Spec.hasType,
              lengthOK_zero, patternOK_empty, Spec.formatOK, hfS]
        | «alias» t => simp [hbody] at hc
        | plain vs m =>
          cases hty : d.ty with
          | strct fs =>
            simp only [hbody, hty, Bool.and_eq_true, beq_iff_eq, Bool.or_eq_true, Bool.not_eq_true', Option.isNone_iff_eq_none,
              List.isEmpty_iff, List.all_eq_true, decide_eq_true_eq] at hc hcov
            obtain ⟨⟨⟨⟨⟨⟨⟨⟨⟨⟨⟨⟨⟨⟨⟨hmeth, hmv⟩, _⟩, htypes⟩, henum⟩, hallOf⟩, hanyOf⟩, hnot⟩, haddl⟩, hnoaddl⟩, hlen⟩, hndN⟩, hndK⟩, hvs⟩, hfields⟩, hprops⟩ := hc
            obtain ⟨hreqCov, hpropsCov⟩ := hcov
            -- (a) the document is an object
            have hobj : ∃ kvs, j = .obj kvs := by
              rw [acc_named_iff env nm d j hres] at hacc
              by_cases hm' : d.hasMethod = true
              · simp only [hm', ↓reduceIte] at hacc
                obtain ⟨f0, v, h⟩ := hacc
                cases f0 with
                | zero => simp [runMethod] at h
                | succ f1 =>
                  obtain ⟨p, hp⟩ := runMethod_plain_decode env d vs m j f1 v hbody h
                  rw [hty] at hp
                  rcases decode_struct_obj env fs j f1 p hp with e | h'
                  · exact absurd e hjnn
                  · exact h'
              · have hm'' : d.hasMethod = false := by simpa using hm'
                simp only [hm'', Bool.false_eq_true, ↓reduceIte] at hacc
                obtain ⟨_, g, v, h⟩ := hacc
                rw [hty] at h
                rcases decode_struct_obj env fs j g v h with e | h'
                · exact absurd e hjnn
                · exact h'
            obtain ⟨kvs, rfl⟩ := hobj
            -- (b) required keys, the decoded struct, the validators
            have hparts : (∀ k, Validator.required k ∈ vs → ahas k kvs = true) ∧
                ∃ g r, decodeStruct .json env g fs kvs (zeroOf.zeroFields env 32 fs) = .ok r ∧ ∀ x ∈ vs, afterPasses (.strct r) x = true := by
              rw [acc_named_iff env nm d _ hres] at hacc
              by_cases hm' : d.hasMethod = true
              · simp only [hm', ↓reduceIte] at hacc
                obtain ⟨f0, v, h⟩ := hacc
                let g := max f0 (vs.length + 1)
                have h' := runMethod_ok_mono .json env d _ v f0 (g + 1) (by have : f0 ≤ g := Nat.le_max_left ..; omega) h
                have hjust1 : ∀ x ∈ vs, NoAnyOf x = true := by
                  intro x hx; have := hvs x hx; cases x <;> simp [valJustified] at this <;> rfl
                have hjust2 : ∀ x ∈ vs, Checkable x = true := by
                  intro x hx
                  have hj := hvs x hx
                  cases x with
                  | numeric field nl c =>
                    simp only [valJustified, Bool.and_eq_true] at hj
                    obtain ⟨_, hj⟩ := hj
                    unfold numJustified at hj
                    cases hfind : fs.find? (fun fl => fl.name = field) with
                    | none => simp [hfind] at hj
                    | some fl =>
                      cases hl : alookup fl.jsonKey s.node.props with
                      | none => simp [hfind, hl] at hj
                      | some ps =>
                        simp only [hfind, hl, Bool.and_eq_true, Option.isNone_iff_eq_none] at hj
                        have hmu : c.mult = none := hj.1.1.1.1.1.1.1.2
                        simp [Checkable, nonDyadicFloat, hmu]
                  | dflt a b c => simp [valJustified] at hj
                  | _ => rfl
                rw [struct_method_ok_iff .json env d vs m fs kvs g hbody hty hnoaddl
                  (by have : vs.length + 1 ≤ g := Nat.le_max_right ..; omega) hjust1 hjust2] at h'
                obtain ⟨hR, hdec, hpass⟩ := h'
                refine ⟨hR, ?_⟩
                rw [hty] at hdec
                obtain ⟨g1, hg1⟩ : ∃ g1, g = g1 + 1 := ⟨g - 1, by have : vs.length + 1 ≤ g := Nat.le_max_right ..; omega⟩
                rw [hg1] at hdec
                cases Nat.zero_le 0 with
                | refl =>
                  have hdecS : decode .json env (g1 + 1) (.strct fs) (.obj kvs) =
                      (decodeStruct .json env g1 fs kvs (zeroOf.zeroFields env 32 fs)).map .strct := by simp [decode]
                  rw [hdecS] at hdec
                  cases hr0 : decodeStruct .json env g1 fs kvs (zeroOf.zeroFields env 32 fs) with
                  | error e => rw [hr0] at hdec; cases hdec
                  | ok r =>
                    rw [hr0] at hdec
                    have hv0 : v = .strct r := by simp only [Except.map] at hdec; injection hdec with h; exact h.symm
                    subst hv0
                    exact ⟨g1, r, hr0, hpass⟩
              · have hm'' : d.hasMethod = false := by simpa using hm'
                simp only [hm'', Bool.false_eq_true, ↓reduceIte] at hacc
                obtain ⟨_, g, v, h⟩ := hacc
                have hmF : m = false := by rw [← hmeth]; exact hm''
                have hvsE : vs = [] := by rcases hmv with h1 | h1 <;> simp_all
                subst hvsE
                refine ⟨(fun k hk => by cases hk), ?_⟩
                rw [hty] at h
                cases g with
                | zero => simp [decode] at h
                | succ g1 =>
                  have hdecS : decode .json env (g1 + 1) (.strct fs) (.obj kvs) =
                      (decodeStruct .json env g1 fs kvs (zeroOf.zeroFields env 32 fs)).map .strct := by simp [decode]
                  rw [hdecS] at h
                  cases hr0 : decodeStruct .json env g1 fs kvs (zeroOf.zeroFields env 32 fs) with
                  | error e => rw [hr0] at h; cases h
                  | ok r => exact ⟨g1, r, hr0, (fun x hx => by cases hx)⟩
            obtain ⟨hR, g1, r, hr0, hpass⟩ := hparts
            -- what the certificates say about one declared property
            have hprop : ∀ k ps, alookup k s.node.props = some ps →
                ∃ fld, bindKey fs k = some fld ∧ fld.jsonKey = k ∧ certAll env defs f fld.ty ps = true ∧
                  topCovered vs fld.name ps = true ∧ certCov env defs f fld.ty ps = true := by
              intro k ps hl
              have hmem := alookup_mem k ps s.node.props hl
              have hp' := hprops (k, ps) hmem
              have hq' := hpropsCov (k, ps) hmem
              cases hb : bindKey fs k with
              | none => simp [hb] at hp'
              | some fld =>
                simp only [hb, Bool.and_eq_true, beq_iff_eq] at hp' hq'
                exact ⟨fld, rfl, hp'.1, hp'.2, hq'.1, hq'.2⟩
            have hentriesAcc := all_of_struct .json env fs kvs g1 _ r hr0
            -- the field values
            let Good : String → GoVal → Prop := fun name v =>
              ∃ p ∈ kvs, ∃ fld g, bindW .json fs p.1 = some fld ∧ fld.name = name ∧ decode .json env g fld.ty p.2 = .ok v
            have hfield := decodeStruct_field .json env fs Good kvs g1 _ r
              (by intro p hp fld hb g v hd; exact ⟨p, hp, fld, g, hb, rfl, hd⟩)
              (by
                intro p hp fld hb
                obtain ⟨g, hg⟩ := zeroFields_lookup env fs 32 (by omega) hndN fld (mem_of_bindKey fs p.1 fld hb)
                rw [hg]; rfl) hr0
            -- the value the field of a bound entry holds is the decode of THAT entry
            have hval : ∀ p ∈ kvs, ∀ fld, bindKey fs p.1 = some fld → fld.jsonKey = p.1 →
                ∃ v g, alookup fld.name r = some v ∧ decode .json env g fld.ty p.2 = .ok v := by
              intro p hp fld hb hk
              rcases hfield fld.name with ⟨_, v, hlv, p', hp', fld', g, hb', hn', hd'⟩ | ⟨hnb, _⟩
              · have hfe : fld' = fld := eq_of_mem_same_name fs (·.name) hndN fld' fld (mem_of_bindKey fs _ fld' hb') (mem_of_bindKey fs _ fld hb) hn'
                subst hfe
                have hk' : fld'.jsonKey = p'.1 :=
                  hclean.oks.base.keys p'.1 (.here kvs (by simp only [akeys, List.mem_map]; exact ⟨p', hp', rfl⟩)) nm d fs fld' hres hty
                    (mem_of_bindKey fs _ fld' hb') (bindKey_fold fs p'.1 fld' hb')
                have hkeq : p'.1 = p.1 := by rw [← hk', hk]
                have hxe : p'.2 = p.2 := by
                  have h1 : (p.1, p'.2) ∈ kvs := by rw [← hkeq]; exact hp'
                  exact nodup_keys_unique p.1 p'.2 p.2 kvs (hclean.nodup kvs .here) h1 hp
                rw [hxe] at hd'
                exact ⟨v, g, hlv, hd'⟩
              · exact absurd ⟨p, hp, fld, hb, rfl⟩ hnb
            have hentry : ∀ p ∈ kvs, ∀ ps, alookup p.1 s.node.props = some ps → ∃ F, Spec.valid F defs ps p.2 = true := by
              intro p hp ps hl
              obtain ⟨fld, hb, hk, hcA, htc, hcC⟩ := hprop p.1 ps hl
              have haccE : Acc .json env fld.ty p.2 := hentriesAcc p hp fld hb
              obtain ⟨F1, hF1⟩ := ih fld.ty ps hcA hcC p.2 haccE (hclean.ofMember p hp)
              refine ⟨F1, ?_⟩
              by_cases hrP : ps.node.ref = ""
              case neg => rw [← valid_dropTop_ref defs ps p.2 F1 hrP]; exact hF1
              obtain ⟨hmP, hfP⟩ := certCov_node env defs f fld.ty ps hrP hcC
              rw [valid_split defs ps p.2 F1 hrP hmP hfP, hF1, Bool.true_and]
              obtain ⟨v, g, hlv, hd⟩ := hval p hp fld hb hk
              have hfldmem := mem_of_bindKey fs p.1 fld hb
              simp only [topCovered, Bool.and_eq_true, Bool.or_eq_true, Bool.not_eq_true', List.any_eq_true] at htc
              obtain ⟨⟨hcN, hcS⟩, hcA'⟩ := htc
              cases hx : p.2 with
              | num q =>
                rw [hx] at hd hF1
                show Spec.boundsOK ps.node.minimum ps.node.maximum ps.node.xmin ps.node.xmax q = true
                rcases hcN with hno | ⟨x, hxvs, hxm⟩
                · simp only [hasNumTop, Bool.not_eq_false', Bool.and_eq_true, Option.isNone_iff_eq_none, decide_eq_true_eq] at hno
                  rw [hno.1.1.1, hno.1.1.2, hno.1.2, hno.2]; exact boundsOK_none q
                · cases x with
                  | numeric field nl c =>
                    simp only [beq_iff_eq] at hxm; subst hxm
                    have hj := hvs _ hxvs
                    simp only [valJustified, Bool.and_eq_true, bne_iff_ne, ne_eq] at hj
                    obtain ⟨hfne, hj⟩ := hj
                    unfold numJustified at hj
                    cases hfind : fs.find? (fun fl => fl.name = fld.name) with
                    | none => simp [hfind] at hj
                    | some fl =>
                      have hflEq : fl = fld := eq_of_mem_same_name fs (·.name) hndN fl fld (List.mem_of_find?_eq_some hfind) hfldmem (by simpa using List.find?_some hfind)
                      subst hflEq
                      simp only [hfind, hk, hl, Bool.and_eq_true, beq_iff_eq, decide_eq_true_eq, Option.isNone_iff_eq_none, Bool.or_eq_true] at hj
                      obtain ⟨⟨⟨⟨⟨⟨⟨⟨⟨⟨_, hnb⟩, hpt⟩, hmu⟩, hlo⟩, hhi⟩, hxlo⟩, hxhi⟩, hx1⟩, hx2⟩, _⟩ := hj
                      have hchk : checkNumeric v nl c = true := by
                        have := hpass _ hxvs
                        simpa [afterPasses, fieldOf, hfne, hlv] using this
                      have hden : c.roundToInt = true → q.den = 1 := by
                        intro hrt
                        have ht' : (dropTop ps).node.types = ["integer"] := by simpa [dropTop, node_mk', hrt] using hpt
                        have := valid_scalar defs (dropTop ps) (.num q) F1 hrP "integer" ht' hF1
                        simpa [Spec.hasType] using this
                      have := (num_check_iff env fl.ty nl c q g v hnb hmu hx1 hx2 hden hd).mp hchk
                      rw [hlo, hhi, hxlo, hxhi] at this
                      exact this
                  | _ => simp at hxm
              | str t =>
                rw [hx] at hd hF1
                show (Spec.lengthOK ps.node.minLength ps.node.maxLength t && Spec.patternOK ps.node.pattern t) = true
                rcases hcS with hno | ⟨x, hxvs, hxm⟩
                · simp only [hasStrTop, Bool.not_eq_false', Bool.and_eq_true, beq_iff_eq] at hno
                  rw [hno.1.1, hno.1.2, hno.2, lengthOK_zero, patternOK_empty]; rfl
                · cases x with
                  | string field mn mx pat nl =>
                    simp only [beq_iff_eq] at hxm; subst hxm
                    have hj := hvs _ hxvs
                    simp only [valJustified, Bool.and_eq_true, bne_iff_ne, ne_eq] at hj
                    obtain ⟨hfne, hj⟩ := hj
                    unfold strJustified at hj
                    cases hfind : fs.find? (fun fl => fl.name = fld.name) with
                    | none => simp [hfind] at hj
                    | some fl =>
                      have hflEq : fl = fld := eq_of_mem_same_name fs (·.name) hndN fl fld (List.mem_of_find?_eq_some hfind) hfldmem (by simpa using List.find?_some hfind)
                      subst hflEq
                      simp only [hfind, hk, hl, Bool.and_eq_true, beq_iff_eq, decide_eq_true_eq, Bool.or_eq_true] at hj
                      obtain ⟨⟨⟨⟨⟨⟨_, hsb⟩, _⟩, hmn⟩, hmx⟩, hpa⟩, _⟩ := hj
                      have hchk : checkString v mn mx pat nl = true := by
                        have := hpass _ hxvs
                        simpa [afterPasses, fieldOf, hfne, hlv] using this
                      have hasc : C06.IsAscii t := hclean.oks.strs t (.inObj kvs p hp (by rw [hx]; exact .here))
                      have := (str_check_iff env fl.ty nl mn mx pat t g v hsb hasc hd).mp hchk
                      rw [hmn, hmx, hpa] at this
                      simp [this.1, this.2]
                  | _ => simp at hxm
              | arr xs =>
                rw [hx] at hd hF1
                show Spec.itemsCountOK ps.node.minItems ps.node.maxItems xs.length = true
                rcases hcA' with hno | ⟨x, hxvs, hxm⟩
                · simp only [hasArrTop, Bool.not_eq_false', Bool.and_eq_true, beq_iff_eq] at hno
                  rw [hno.1, hno.2]; exact itemsCountOK_zero _
                · cases x with
                  | array field depth mn mx =>
                    simp only [beq_iff_eq] at hxm; subst hxm
                    have hj := hvs _ hxvs
                    simp only [valJustified, Bool.and_eq_true, bne_iff_ne, ne_eq, beq_iff_eq] at hj
                    obtain ⟨⟨hfne, hdep⟩, hj⟩ := hj
                    subst hdep
                    unfold arrJustified at hj
                    cases hfind : fs.find? (fun fl => fl.name = fld.name) with
                    | none => simp [hfind] at hj
                    | some fl =>
                      have hflEq : fl = fld := eq_of_mem_same_name fs (·.name) hndN fl fld (List.mem_of_find?_eq_some hfind) hfldmem (by simpa using List.find?_some hfind)
                      subst hflEq
                      simp only [hfind, hk, hl, Bool.and_eq_true, beq_iff_eq, decide_eq_true_eq] at hj
                      obtain ⟨⟨⟨⟨⟨_, hsl⟩, _⟩, hmn⟩, hmx⟩, _⟩ := hj
                      have hchk : checkArray 1 v mn mx = true := by
                        have := hpass _ hxvs
                        simpa [afterPasses, fieldOf, hfne, hlv] using this
                      cases hfty : fl.ty with
                      | slice t' =>
                        rw [hfty] at hd hsl
                        simp only [sliceElemOK] at hsl
                        have := arr_check_eq env t' mn mx xs g v hsl hd
                        rw [this, hmn, hmx] at hchk
                        exact hchk
                      | _ => rw [hfty] at hsl; simp [sliceElemOK] at hsl
                  | _ => simp at hxm
              | null => rfl
              | bool b => rfl
              | obj o => rfl
            -- assemble
            obtain ⟨G, hG⟩ := common_valid defs s.node.props kvs hentry
            have hvp := validProps_of_all defs s.node.props kvs G kvs hG
            have hreqAll : s.node.required.all (fun k => ahas k kvs) = true := by
              rw [List.all_eq_true]
              intro k hk
              have := hreqCov k hk
              rw [List.any_eq_true] at this
              obtain ⟨x, hxvs, hxm⟩ := this
              cases x with
              | required k' => simp only [beq_iff_eq] at hxm; subst hxm; exact hR _ hxvs
              | _ => simp at hxm
            refine ⟨(G + kvs.length + 1) + 1, ?_⟩
            obtain ⟨n⟩ := s
            simp only [node_mk'] at hr htypes henum hallOf hanyOf hnot haddl hreqAll hvp
            simp [Spec.valid, dropTop, node_mk', hr, htypes, henum, hallOf, hanyOf, hnot, haddl, Spec.hasType, Spec.validAll,
              hreqAll, hvp]
          | _ => simp [hbody, hty] at hc
    | iface => simp at hc
    | nullTy => simp at hc
    | map t => simp at hc
    | qual a b => simp at hc
    | custom a b => simp at hc
    | fmt k => simp at hc
    | strct fs => simp at hc

/-- **EXACTNESS (C02–C07 on the certified fragment)**: for a program both certificates admit and a root schema without
    scalar constraints of its own, a clean document is accepted by the generated code IF AND ONLY IF it is valid under the
    schema — whole documents, every size and nesting depth; types, required keys, numeric bounds, string length limits
    and patterns, array item counts. -/
theorem certified_exact (env : Env) (defs : Spec.Defs) (f : Nat) (ty : GoTy) (s : Schema)
    (hA : certAll env defs f ty s = true) (hC : certCov env defs f ty s = true)
    (hroot : s.node.ref = "") (htop : topFree s = true)
    (j : Json) (hclean : DocClean env j) :
    Acc .json env ty j ↔ ∃ F, Spec.valid F defs s j = true := by
  constructor
  · intro hacc
    obtain ⟨F, hF⟩ := certSound env defs f ty s hA hC j hacc hclean
    obtain ⟨hm, hf⟩ := certCov_node env defs f ty s hroot hC
    exact ⟨F, by rw [valid_split defs s j F hroot hm hf, hF, topOK_of_topFree s j htop]; rfl⟩
  · rintro ⟨F, hF⟩
    exact certAll_accepts env defs f ty s hA F j hF hclean.oks

/-- both certificates admit ordinary generated programs (non-vacuity of `certified_exact`) -/
example : certAll exEnvA [] 4 (.named "Root") exSchemaA = true ∧ certCov exEnvA [] 4 (.named "Root") exSchemaA = true ∧
    topFree exSchemaA = true := by decide

/-- … and programs whose properties are references to object definitions -/
def exEnvR : Env := [
  { name := "Root", ty := .strct [
      { name := "Owner", jsonName := "owner", ty := .named "Person", tags := "", jsonKey := "owner", yamlKey := "owner", omitEmpty := false },
      { name := "Backup", jsonName := "backup", ty := .ptr (.named "Person"), tags := "", jsonKey := "backup", yamlKey := "backup", omitEmpty := true }],
    body := .plain [.required "owner"] true },
  { name := "Person", ty := .strct [
      { name := "Name", jsonName := "name", ty := .string, tags := "", jsonKey := "name", yamlKey := "name", omitEmpty := false },
      { name := "Age", jsonName := "age", ty := .ptr (.int .int), tags := "", jsonKey := "age", yamlKey := "age", omitEmpty := true }],
    body := .plain [.required "name", .numeric "Age" true { lo := some 0, hi := none, roundToInt := true }] true }]

def exDefsR : Spec.Defs := [("Person", .mk { types := ["object"], required := ["name"], props := [
  ("name", .mk { types := ["string"] }),
  ("age", .mk { types := ["integer"], minimum := some 0 })] })]

def exSchemaR : Schema := .mk { types := ["object"], required := ["owner"], props := [
  ("owner", .mk { ref := "#/definitions/Person" }),
  ("backup", .mk { ref := "#/definitions/Person" })] }


example : certAll exEnvR exDefsR 6 (.named "Root") exSchemaR = true ∧
    certCov exEnvR exDefsR 6 (.named "Root") exSchemaR = true ∧ topFree exSchemaR = true := by decide +kernel

/-- … and arrays of objects -/
def exEnvO : Env := [
  { name := "Root", ty := .strct [
      { name := "People", jsonName := "people", ty := .slice (.named "Person"), tags := "", jsonKey := "people", yamlKey := "people", omitEmpty := true }],
    body := .plain [.array "People" 1 0 5] true },
  { name := "Person", ty := .strct [
      { name := "Name", jsonName := "name", ty := .string, tags := "", jsonKey := "name", yamlKey := "name", omitEmpty := false }],
    body := .plain [.required "name"] true }]

def exSchemaO : Schema := .mk { types := ["object"], props := [
  ("people", .mk { types := ["array"], maxItems := 5, items := some (.mk { ref := "#/definitions/Person" }) })] }

def exDefsO : Spec.Defs := [("Person", .mk { types := ["object"], required := ["name"], props := [
  ("name", .mk { types := ["string"] })] })]

example : certAll exEnvO exDefsO 6 (.named "Root") exSchemaO = true ∧
    certCov exEnvO exDefsO 6 (.named "Root") exSchemaO = true ∧ topFree exSchemaO = true := by decide +kernel

/-- … and string enums -/
def exEnvE : Env := [
  { name := "Root", ty := .strct [
      { name := "Colour", jsonName := "colour", ty := .named "RootColour", tags := "", jsonKey := "colour", yamlKey := "colour", omitEmpty := false },
      { name := "Shades", jsonName := "shades", ty := .slice (.named "RootColour"), tags := "", jsonKey := "shades", yamlKey := "shades", omitEmpty := true }],
    body := .plain [.required "colour"] true },
  { name := "RootColour", ty := .string, body := .enum [.str "red", .str "green"] false false [] true }]

def exSchemaE : Schema := .mk { types := ["object"], required := ["colour"], props := [
  ("colour", .mk { types := ["string"], enum := some [.str "red", .str "green"] }),
  ("shades", .mk { types := ["array"], items := some (.mk { enum := some [.str "red", .str "green"] }) })] }

example : certAll exEnvE [] 6 (.named "Root") exSchemaE = true ∧
    certCov exEnvE [] 6 (.named "Root") exSchemaE = true ∧ topFree exSchemaE = true := by decide +kernel

end GJS.Props.C02

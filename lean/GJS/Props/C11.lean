import GJS.Model.Gen
import GJS.Model.Run
/-
  C11 — allOf is conjunction and anyOf is disjunction for object schemas.
  What decides the property inside the tool: (1) the emitted anyOf statement "try every branch type, fail only
  if all fail"; (2) the merge of the branch schemas (mergo as used) from which the outer type is generated.
-/
namespace GJS.Props.C11
open GJS

/-- **anyOf = disjunction over the branch types**: the emitted statement passes iff at least one of the `n`
    branch types `T_i … T_{i+n-1}` accepts the same bytes -/
theorem anyBranch_iff (w : Wire) (env : Env) (dn : String) (j : Json) :
    ∀ (n f i : Nat), n ≤ f →
      (anyBranch w env f dn n i j = true ↔ ∃ k, k < n ∧ branchAccepts w env (f - 1 - k) dn (i + k) j = true) := by
  intro n
  induction n with
  | zero =>
    intro f i _
    cases f <;> simp [anyBranch]
  | succ n ih =>
    intro f i hf
    cases f with
    | zero => omega
    | succ f =>
      simp only [anyBranch, Bool.or_eq_true]
      have := ih f (i + 1) (by omega)
      rw [this]
      constructor
      · rintro (h | ⟨k, hk, hb⟩)
        · exact ⟨0, by omega, by simpa using h⟩
        · refine ⟨k + 1, by omega, ?_⟩
          have e1 : f + 1 - 1 - (k + 1) = f - 1 - k := by omega
          have e2 : i + (k + 1) = i + 1 + k := by omega
          rw [e1, e2]; exact hb
      · rintro ⟨k, hk, hb⟩
        cases k with
        | zero => left; simpa using hb
        | succ k =>
          right
          refine ⟨k, by omega, ?_⟩
          have e1 : f + 1 - 1 - (k + 1) = f - 1 - k := by omega
          have e2 : i + (k + 1) = i + 1 + k := by omega
          rw [e1, e2] at hb; exact hb

/-- the anyOf validator rejects exactly when every branch type rejects -/
theorem anyOf_validator_rejects_iff (w : Wire) (env : Env) (dn : String) (j : Json) (n f : Nat)
    (raw : Option (List (String × Json))) (hf : n ≤ f) :
    runBefore w env (f + 1) dn [.anyOf n] raw j = .error .anyOf ↔
      ∀ k, k < n → branchAccepts w env (f - 1 - k) dn k j = false := by
  have h := anyBranch_iff w env dn j n f 0 hf
  simp only [Nat.zero_add] at h
  simp only [runBefore]
  cases hb : anyBranch w env f dn n 0 j with
  | true =>
    have := h.mp hb
    obtain ⟨k, hk, hacc⟩ := this
    cases f with
    | zero => omega
    | succ f =>
      simp only [runBefore, ↓reduceIte]
      constructor
      · intro hh; cases hh
      · intro hall; have := hall k hk; rw [this] at hacc; cases hacc
  | false =>
    simp only [Bool.false_eq_true, ↓reduceIte, true_iff]
    intro k hk
    cases hbk : branchAccepts w env (f - 1 - k) dn k j with
    | false => rfl
    | true => have := h.mpr ⟨k, hk, hbk⟩; rw [hb] at this; cases this

/-! ### the merge -/

/-- `required` lists are appended: the merged type requires what every branch requires -/
theorem merge_required (f : Nat) (d s : Schema) :
    (mergeNode (f + 1) d s).node.required = d.node.required ++ s.node.required := rfl

/-- the merged type exposes the union of the branches' properties -/
theorem mergeEntry_keys (k k' : String) (v : Schema) (d : List (String × Schema)) (f : Nat) :
    k ∈ akeys (mergeEntry (f + 1) d k' v) ↔ (k ∈ akeys d ∨ k = k') := by
  simp only [mergeEntry]
  cases hl : alookup k' d with
  | none => simp [akeys]
  | some old =>
    have hin : k' ∈ akeys d := (alookup_isSome_iff_mem k' d).mp (by simp [hl])
    simp only [akeys, List.map_map, List.mem_map, Function.comp]
    constructor
    · rintro ⟨q, hq, rfl⟩
      by_cases hqk : q.1 = k'
      · simp [hqk]
      · simp only [hqk, ↓reduceIte]; left; exact ⟨q, hq, rfl⟩
    · rintro (⟨q, hq, rfl⟩ | rfl)
      · refine ⟨q, hq, ?_⟩
        by_cases hqk : q.1 = k'
        · simp [hqk]
        · simp [hqk]
      · simp only [akeys, List.mem_map] at hin
        obtain ⟨q, hq, hqk⟩ := hin
        exact ⟨q, hq, by simp [hqk]⟩

theorem mergeKvs_keys (k : String) :
    ∀ (s d : List (String × Schema)) (f : Nat), s.length < f →
      (k ∈ akeys (mergeKvs f d s) ↔ k ∈ akeys d ∨ k ∈ akeys s) := by
  intro s
  induction s with
  | nil => intro d f _; cases f <;> simp [mergeKvs, akeys]
  | cons p rest ih =>
    obtain ⟨k', v⟩ := p
    intro d f hf
    cases f with
    | zero => simp at hf
    | succ f =>
      simp only [mergeKvs]
      rw [ih _ f (by simp at hf; omega)]
      cases f with
      | zero => simp at hf
      | succ f =>
        rw [mergeEntry_keys]
        simp only [akeys, List.map_cons, List.mem_cons]
        constructor
        · rintro ((h | h) | h)
          · left; exact h
          · right; left; exact h
          · right; right; exact h
        · rintro (h | h | h)
          · left; left; exact h
          · left; right; exact h
          · right; exact h

/-- a property only one branch declares is taken over unchanged (disjoint branches lose nothing) -/
theorem mergeKvs_disjoint_lookup (k : String) (v : Schema) (d : List (String × Schema)) (f : Nat)
    (hnot : alookup k d = none) : mergeKvs (f + 2) d [(k, v)] = d ++ [(k, v)] := by
  simp [mergeKvs, mergeEntry, hnot]

/-- known finding K8: for a property two branches both declare, the FIRST branch's scalar constraint wins — the
    merged type of `allOf [x ≥ 1, x ≥ 5]` checks `x ≥ 1`, so 3 is accepted although the second branch rejects it -/
theorem KF_allOf_overlap_first_wins :
    (mergeNode 4 (.mk { minimum := some 1 }) (.mk { minimum := some 5 })).node.minimum = some 1 := by
  decide +kernel

example : (mergeNode 4 (.mk { required := ["a"] }) (.mk { required := ["b"] })).node.required = ["a", "b"] := rfl

end GJS.Props.C11

import GJS.Model.Gen
import GJS.Model.Run
import GJS.Spec
/-
  C11 — allOf is conjunction and anyOf is disjunction for object schemas.
  What decides the property inside the tool: (1) the emitted anyOf statement "try every branch type, fail only
  if all fail"; (2) the merge of the branch schemas (mergo as used) from which the outer type is generated.
-/
namespace GJS.Props.C11
open GJS

/-- **anyOf = disjunction over the branch types**: the emitted statement passes iff at least one of the `n`
    branch types `T_i … T_{i+n-1}` accepts the same bytes -/
theorem anyBranch_iff (w : Wire) (env : Env) (dn : String) (j : Json) :
    ∀ (n f i : Nat), n ≤ f →
      (anyBranch w env f dn n i j = true ↔ ∃ k, k < n ∧ branchAccepts w env (f - 1 - k) dn (i + k) j = true) := by
  intro n
  induction n with
  | zero =>
    intro f i _
    cases f <;> simp [anyBranch]
  | succ n ih =>
    intro f i hf
    cases f with
    | zero => omega
    | succ f =>
      simp only [anyBranch, Bool.or_eq_true]
      have := ih f (i + 1) (by omega)
      rw [this]
      constructor
      · rintro (h | ⟨k, hk, hb⟩)
        · exact ⟨0, by omega, by simpa using h⟩
        · refine ⟨k + 1, by omega, ?_⟩
          have e1 : f + 1 - 1 - (k + 1) = f - 1 - k := by omega
          have e2 : i + (k + 1) = i + 1 + k := by omega
          rw [e1, e2]; exact hb
      · rintro ⟨k, hk, hb⟩
        cases k with
        | zero => left; simpa using hb
        | succ k =>
          right
          refine ⟨k, by omega, ?_⟩
          have e1 : f + 1 - 1 - (k + 1) = f - 1 - k := by omega
          have e2 : i + (k + 1) = i + 1 + k := by omega
          rw [e1, e2] at hb; exact hb

/-- the anyOf validator rejects exactly when every branch type rejects -/
theorem anyOf_validator_rejects_iff (w : Wire) (env : Env) (dn : String) (j : Json) (n f : Nat)
    (raw : Option (List (String × Json))) (hf : n ≤ f) :
    runBefore w env (f + 1) dn [.anyOf n] raw j = .error .anyOf ↔
      ∀ k, k < n → branchAccepts w env (f - 1 - k) dn k j = false := by
  have h := anyBranch_iff w env dn j n f 0 hf
  simp only [Nat.zero_add] at h
  simp only [runBefore]
  cases hb : anyBranch w env f dn n 0 j with
  | true =>
    have := h.mp hb
    obtain ⟨k, hk, hacc⟩ := this
    cases f with
    | zero => omega
    | succ f =>
      simp only [runBefore, ↓reduceIte]
      constructor
      · intro hh; cases hh
      · intro hall; have := hall k hk; rw [this] at hacc; cases hacc
  | false =>
    simp only [Bool.false_eq_true, ↓reduceIte, true_iff]
    intro k hk
    cases hbk : branchAccepts w env (f - 1 - k) dn k j with
    | false => rfl
    | true => have := h.mpr ⟨k, hk, hbk⟩; rw [hb] at this; cases this

/-! ### the merge -/

/-- `required` lists are appended: the merged type requires what every branch requires -/
theorem merge_required (f : Nat) (d s : Schema) :
    (mergeNode (f + 1) d s).node.required = d.node.required ++ s.node.required := rfl

/-- the merged type exposes the union of the branches' properties -/
theorem mergeEntry_keys (k k' : String) (v : Schema) (d : List (String × Schema)) (f : Nat) :
    k ∈ akeys (mergeEntry (f + 1) d k' v) ↔ (k ∈ akeys d ∨ k = k') := by
  simp only [mergeEntry]
  cases hl : alookup k' d with
  | none => simp [akeys]
  | some old =>
    have hin : k' ∈ akeys d := (alookup_isSome_iff_mem k' d).mp (by simp [hl])
    simp only [akeys, List.map_map, List.mem_map, Function.comp]
    constructor
    · rintro ⟨q, hq, rfl⟩
      by_cases hqk : q.1 = k'
      · simp [hqk]
      · simp only [hqk, ↓reduceIte]; left; exact ⟨q, hq, rfl⟩
    · rintro (⟨q, hq, rfl⟩ | rfl)
      · refine ⟨q, hq, ?_⟩
        by_cases hqk : q.1 = k'
        · simp [hqk]
        · simp [hqk]
      · simp only [akeys, List.mem_map] at hin
        obtain ⟨q, hq, hqk⟩ := hin
        exact ⟨q, hq, by simp [hqk]⟩

theorem mergeKvs_keys (k : String) :
    ∀ (s d : List (String × Schema)) (f : Nat), s.length < f →
      (k ∈ akeys (mergeKvs f d s) ↔ k ∈ akeys d ∨ k ∈ akeys s) := by
  intro s
  induction s with
  | nil => intro d f _; cases f <;> simp [mergeKvs, akeys]
  | cons p rest ih =>
    obtain ⟨k', v⟩ := p
    intro d f hf
    cases f with
    | zero => simp at hf
    | succ f =>
      simp only [mergeKvs]
      rw [ih _ f (by simp at hf; omega)]
      cases f with
      | zero => simp at hf
      | succ f =>
        rw [mergeEntry_keys]
        simp only [akeys, List.map_cons, List.mem_cons]
        constructor
        · rintro ((h | h) | h)
          · left; exact h
          · right; left; exact h
          · right; right; exact h
        · rintro (h | h | h)
          · left; left; exact h
          · left; right; exact h
          · right; exact h

/-- a property only one branch declares is taken over unchanged (disjoint branches lose nothing) -/
theorem mergeKvs_disjoint_lookup (k : String) (v : Schema) (d : List (String × Schema)) (f : Nat)
    (hnot : alookup k d = none) : mergeKvs (f + 2) d [(k, v)] = d ++ [(k, v)] := by
  simp [mergeKvs, mergeEntry, hnot]

/-- known finding K8: for a property two branches both declare, the FIRST branch's scalar constraint wins — the
    merged type of `allOf [x ≥ 1, x ≥ 5]` checks `x ≥ 1`, so 3 is accepted although the second branch rejects it -/
theorem KF_allOf_overlap_first_wins :
    (mergeNode 4 (.mk { minimum := some 1 }) (.mk { minimum := some 5 })).node.minimum = some 1 := by
  decide +kernel

example : (mergeNode 4 (.mk { required := ["a"] }) (.mk { required := ["b"] })).node.required = ["a", "b"] := rfl

/-! ### allOf = conjunction, on the reference semantics: the schema the outer type is generated from (the mergo
    fold of the branches) admits exactly the objects every branch admits -/

/-- an object branch the theorem speaks about: a plain inline object schema (references are resolved before the
    merge; nested composition, enum, not and additionalProperties are outside this statement) -/
structure PlainObj (s : Schema) : Prop where
  noRef : s.node.ref = ""
  noNot : s.node.hasNot = false
  types : s.node.types = [] ∨ s.node.types = ["object"]
  noEnum : s.node.enum = none
  noAll : s.node.allOf = []
  noAny : s.node.anyOf = []
  noAddl : s.node.addl = none
  nodup : (akeys s.node.props).Nodup

theorem alookup_append {α : Type} (k : String) (d s : List (String × α)) :
    alookup k (d ++ s) = (match alookup k d with | some v => some v | none => alookup k s) := by
  induction d with
  | nil => simp [alookup]
  | cons p rest ih =>
    obtain ⟨k', v⟩ := p
    simp only [List.cons_append, alookup]
    by_cases h : k = k'
    · simp [h]
    · simp [h, ih]

/-- disjoint, duplicate-free maps merge to their concatenation (nothing is merged INTO anything) -/
theorem mergeKvs_disjoint :
    ∀ (s d : List (String × Schema)) (f : Nat), s.length < f → (∀ k ∈ akeys s, k ∉ akeys d) → (akeys s).Nodup →
      mergeKvs f d s = d ++ s := by
  intro s
  induction s with
  | nil => intro d f _ _ _; cases f <;> simp [mergeKvs]
  | cons p rest ih =>
    obtain ⟨k, v⟩ := p
    intro d f hf hdis hnd
    cases f with
    | zero => simp at hf
    | succ f =>
      simp only [List.length_cons] at hf
      cases f with
      | zero => omega
      | succ f =>
        have hk : alookup k d = none := (alookup_none_iff_not_mem k d).mpr (hdis k (by simp [akeys]))
        simp only [mergeKvs, mergeEntry, hk]
        simp only [akeys, List.map_cons, List.nodup_cons] at hnd
        rw [ih (d ++ [(k, v)]) (f + 1) (by omega) ?_ hnd.2]
        · simp
        · intro k' hk'
          have h1 : k' ∉ akeys d := hdis k' (by simp only [akeys, List.map_cons, List.mem_cons]; right; exact hk')
          have h2 : k' ≠ k := by
            intro e; subst e; exact hnd.1 hk'
          simp only [akeys, List.map_append, List.map_cons, List.map_nil, List.mem_append, List.mem_singleton] at h1 ⊢
          intro h; rcases h with h | h
          · exact h1 h
          · exact h2 h

/-- the per-entry check of an object splits over two property maps with disjoint keys -/
theorem validProps_append (defs : Spec.Defs) (pa pb : List (String × Schema)) (all : List (String × Json))
    (hdis : ∀ k ∈ akeys pb, k ∉ akeys pa) :
    ∀ (kvs : List (String × Json)) (F : Nat),
      Spec.validProps F defs (pa ++ pb) none all kvs =
        (Spec.validProps F defs pa none all kvs && Spec.validProps F defs pb none all kvs) := by
  intro kvs
  induction kvs with
  | nil => intro F; cases F <;> simp [Spec.validProps]
  | cons p rest ih =>
    obtain ⟨k, v⟩ := p
    intro F
    cases F with
    | zero => simp [Spec.validProps]
    | succ F =>
      simp only [Spec.validProps, ih F, alookup_append]
      cases ha : alookup k pa with
      | some ps =>
        have hb : alookup k pb = none := by
          rw [alookup_none_iff_not_mem]
          intro hin
          exact hdis k hin ((alookup_isSome_iff_mem k pa).mp (by simp [ha]))
        simp only [hb]
        cases Spec.valid F defs ps v <;> cases Spec.validProps F defs pa none all rest <;> cases Spec.validProps F defs pb none all rest <;> rfl
      | none =>
        cases alookup k pb with
        | none => simp
        | some ps =>
          simp only [Bool.true_and]
          cases Spec.valid F defs ps v <;> cases Spec.validProps F defs pa none all rest <;> cases Spec.validProps F defs pb none all rest <;> rfl

theorem hasType_object (kvs : List (String × Json)) : Spec.hasType "object" (.obj kvs) = true := rfl

/-- what `valid` reads of a plain object schema, on an object -/
theorem valid_plainObj (defs : Spec.Defs) (s : Schema) (h : PlainObj s) (kvs : List (String × Json)) (F : Nat) :
    Spec.valid (F + 2) defs s (.obj kvs) =
      (s.node.required.all (fun k => ahas k kvs) && Spec.validProps (F + 1) defs s.node.props none kvs kvs) := by
  have ht : (s.node.types.isEmpty || s.node.types.any (fun tn => Spec.hasType tn (.obj kvs))) = true := by
    rcases h.types with e | e <;> simp [e, hasType_object]
  simp only [Spec.valid, h.noRef, h.noNot, h.noEnum, h.noAll, h.noAny, h.noAddl, ht, Spec.validAll]
  simp

/-- with too little fuel nothing is valid (so statements "for every fuel" are not vacuous at the bottom) -/
theorem valid_low (defs : Spec.Defs) (s : Schema) (h : PlainObj s) (d : Json) : Spec.valid 0 defs s d = false ∧ Spec.valid 1 defs s d = false := by
  constructor
  · simp [Spec.valid]
  · simp [Spec.valid, h.noRef, Spec.validAll]

@[simp] theorem node_mk (n : NodeF Schema) : (Schema.mk n).node = n := rfl

/-- the merge of two plain object schemas with disjoint properties is again one, with both key sets -/
theorem merge_plainObj (a b : Schema) (g : Nat) (ha : PlainObj a) (hb : PlainObj b)
    (hdis : ∀ k ∈ akeys b.node.props, k ∉ akeys a.node.props) (hg : b.node.props.length < g) :
    PlainObj (mergeNode (g + 1) a b) ∧ (mergeNode (g + 1) a b).node.props = a.node.props ++ b.node.props ∧
    (mergeNode (g + 1) a b).node.required = a.node.required ++ b.node.required := by
  obtain ⟨na⟩ := a
  obtain ⟨nb⟩ := b
  obtain ⟨a1, a2, a3, a4, a5, a6, a7, a8⟩ := ha
  obtain ⟨b1, b2, b3, b4, b5, b6, b7, b8⟩ := hb
  simp only [node_mk] at *
  have hp : (mergeNode (g + 1) (.mk na) (.mk nb)).node.props = na.props ++ nb.props := by
    simp only [mergeNode, node_mk]
    exact mergeKvs_disjoint _ _ g hg hdis b8
  refine ⟨⟨?_, ?_, ?_, ?_, ?_, ?_, ?_, ?_⟩, hp, ?_⟩
  · simp [mergeNode, firstStr, a1, b1]
  · simp [mergeNode, a2, b2]
  · simp only [mergeNode, node_mk]
    rcases a3 with e | e <;> rcases b3 with e' | e' <;> simp [e, e']
  · simp [mergeNode, a4, b4]
  · simp [mergeNode, a5, b5]
  · simp [mergeNode, a6, b6]
  · simp [mergeNode, a7, b7, mergeOpt]
  · rw [hp]
    simp only [akeys, List.map_append]
    rw [List.nodup_append]
    refine ⟨a8, b8, ?_⟩
    intro x hx y hy e
    subst e
    exact hdis x hy hx
  · simp [mergeNode]

/-- **two branches**: the merged schema admits an object iff both branches do -/
theorem merge_valid_conj (defs : Spec.Defs) (a b : Schema) (g : Nat) (ha : PlainObj a) (hb : PlainObj b)
    (hdis : ∀ k ∈ akeys b.node.props, k ∉ akeys a.node.props) (hg : b.node.props.length < g)
    (kvs : List (String × Json)) (F : Nat) :
    Spec.valid F defs (mergeNode (g + 1) a b) (.obj kvs) =
      (Spec.valid F defs a (.obj kvs) && Spec.valid F defs b (.obj kvs)) := by
  obtain ⟨hm, hp, hr⟩ := merge_plainObj a b g ha hb hdis hg
  match F with
  | 0 => simp [(valid_low defs _ hm _).1, (valid_low defs _ ha _).1]
  | 1 => simp [(valid_low defs _ hm _).2, (valid_low defs _ ha _).2]
  | F + 2 =>
    rw [valid_plainObj defs _ hm, valid_plainObj defs _ ha, valid_plainObj defs _ hb, hp, hr,
      validProps_append defs _ _ kvs hdis, List.all_append]
    generalize a.node.required.all _ = r1
    generalize b.node.required.all _ = r2
    cases r1 <;> cases r2 <;> cases Spec.validProps (F + 1) defs a.node.props none kvs kvs <;>
      cases Spec.validProps (F + 1) defs b.node.props none kvs kvs <;> rfl

theorem plainObj_empty : PlainObj (.mk {}) :=
  ⟨rfl, rfl, Or.inl rfl, rfl, rfl, rfl, rfl, by simp [akeys]⟩

/-- the branches' property names are pairwise disjoint -/
def Disjoint (a b : Schema) : Prop := ∀ k ∈ akeys b.node.props, k ∉ akeys a.node.props

/-- **any number of branches**, folded the way `schemas.MergeTypes` folds them (from the accumulator `acc`) -/
theorem fold_valid_conj (defs : Spec.Defs) (kvs : List (String × Json)) (F : Nat) :
    ∀ (bs : List Schema) (acc : Schema), PlainObj acc → (∀ b ∈ bs, PlainObj b) → (∀ b ∈ bs, b.node.props.length < 63) →
      (∀ b ∈ bs, Disjoint acc b) → bs.Pairwise Disjoint →
      Spec.valid F defs (bs.foldl (fun acc b => mergeNode 64 acc b) acc) (.obj kvs) =
        (Spec.valid F defs acc (.obj kvs) && bs.all (fun b => Spec.valid F defs b (.obj kvs))) := by
  intro bs
  induction bs with
  | nil => intro acc _ _ _ _ _; simp
  | cons b rest ih =>
    intro acc hacc hall hlen hdis hpw
    have hb := hall b (List.mem_cons_self ..)
    obtain ⟨hm, hp, _⟩ := merge_plainObj acc b 63 hacc hb (hdis b (List.mem_cons_self ..)) (hlen b (List.mem_cons_self ..))
    rw [List.pairwise_cons] at hpw
    simp only [List.foldl_cons, List.all_cons]
    rw [ih (mergeNode 64 acc b) hm (fun x hx => hall x (List.mem_cons_of_mem _ hx)) (fun x hx => hlen x (List.mem_cons_of_mem _ hx)) ?_ hpw.2,
      merge_valid_conj defs acc b 63 hacc hb (hdis b (List.mem_cons_self ..)) (hlen b (List.mem_cons_self ..)), Bool.and_assoc]
    intro x hx k hk
    rw [hp]
    simp only [akeys, List.map_append, List.mem_append]
    intro h
    rcases h with h | h
    · exact hdis x (List.mem_cons_of_mem _ hx) k hk h
    · exact hpw.1 x hx k hk h

theorem fold_fst (z : Schema → Schema → Bool) :
    ∀ (bs : List Schema) (a : Schema) (w : Bool),
      (bs.foldl (fun (acc : Schema × Bool) b => (mergeNode 64 acc.1 b, acc.2 || z acc.1 b)) (a, w)).1 =
        bs.foldl (fun acc b => mergeNode 64 acc b) a := by
  intro bs
  induction bs with
  | nil => intro a w; rfl
  | cons b rest ih => intro a w; simp only [List.foldl_cons]; exact ih _ _

/-- the generator's private flags are invisible to the reference semantics -/
theorem valid_flags (defs : Spec.Defs) (r : Schema) (d : Json) (F : Nat) :
    Spec.valid F defs (.mk { r.node with subElem := false, anyOfCount := 0, isAllOf := false }) d = Spec.valid F defs r d := by
  obtain ⟨n⟩ := r
  cases F with
  | zero => simp [Spec.valid]
  | succ F => simp only [Spec.valid, node_mk]; cases d <;> rfl

/-- an object some plain branch admits is admitted by the empty schema at the same fuel -/
theorem valid_empty_of_valid (defs : Spec.Defs) (b : Schema) (hb : PlainObj b) (kvs : List (String × Json)) (F : Nat)
    (h : Spec.valid F defs b (.obj kvs) = true) : Spec.valid F defs (.mk {}) (.obj kvs) = true := by
  match F with
  | 0 => rw [(valid_low defs _ hb _).1] at h; cases h
  | 1 => rw [(valid_low defs _ hb _).2] at h; cases h
  | F + 2 =>
    rw [valid_plainObj defs _ hb] at h
    rw [valid_plainObj defs _ plainObj_empty]
    have := validProps_append defs [] b.node.props kvs (by simp [akeys]) kvs (F + 1)
    simp only [List.nil_append] at this
    simp only [Bool.and_eq_true] at h
    rw [h.2] at this
    simp only [node_mk, List.all_nil, Bool.true_and]
    cases hx : Spec.validProps (F + 1) defs [] none kvs kvs with
    | true => rfl
    | false => rw [hx] at this; cases this

/-- **C11, allOf = conjunction** (reference semantics of the schema the outer type is generated from): for plain
    object branches with pairwise disjoint property names, the schema `schemas.MergeTypes` folds them into admits an
    object iff every branch admits it — for every fuel, every definition table, any number of branches -/
theorem allOf_is_conjunction (defs : Spec.Defs) (bs : List Schema) (m : Schema)
    (hplain : ∀ b ∈ bs, PlainObj b) (hlen : ∀ b ∈ bs, b.node.props.length < 63) (hpw : bs.Pairwise Disjoint)
    (hprim : isPrimitiveTypeList bs = false) (hm : mergeTypes bs = .ok m)
    (kvs : List (String × Json)) (F : Nat) :
    Spec.valid F defs m (.obj kvs) = bs.all (fun b => Spec.valid F defs b (.obj kvs)) := by
  unfold mergeTypes at hm
  cases bs with
  | nil => simp at hm
  | cons b0 rest =>
    simp only [List.isEmpty_cons, Bool.false_eq_true, ↓reduceIte, hprim] at hm
    split at hm
    · cases hm
    · injection hm with hm
      subst hm
      rw [valid_flags, fold_fst,
        fold_valid_conj defs kvs F (b0 :: rest) (.mk {}) plainObj_empty hplain hlen (by intro b _ k _; simp [akeys]) hpw]
      cases hall : (b0 :: rest).all (fun b => Spec.valid F defs b (.obj kvs)) with
      | false => simp
      | true =>
        have h0 : Spec.valid F defs b0 (.obj kvs) = true := by
          simp only [List.all_cons, Bool.and_eq_true] at hall; exact hall.1
        rw [valid_empty_of_valid defs b0 (hplain b0 (List.mem_cons_self ..)) kvs F h0]; rfl

/-- the hypotheses are satisfiable, and the theorem is not about the empty merge: two branches, one requiring `port` -/
example : PlainObj (.mk { types := ["object"], required := ["port"], props := [("port", .mk { types := ["integer"] })] }) ∧
    PlainObj (.mk { props := [("tls", .mk { types := ["boolean"] })] }) :=
  ⟨⟨rfl, rfl, Or.inr rfl, rfl, rfl, rfl, rfl, by simp [akeys]⟩, ⟨rfl, rfl, Or.inl rfl, rfl, rfl, rfl, rfl, by simp [akeys]⟩⟩


/-! ### … also when branches OVERLAP in properties they declare identically (C11: "overlapping or disjoint property sets") -/

/-- two property maps agree where they overlap: a key both declare has the same schema in both, and merging that schema
    with itself changes nothing (true of every scalar leaf: `leaf_idem`) -/
def Compat (a b : List (String × Schema)) : Prop :=
  ∀ k va vb, alookup k a = some va → alookup k b = some vb → va = vb ∧ ∀ g, mergeNode (g + 1) va vb = va

theorem map_replace_same (k : String) (old : Schema) :
    ∀ d : List (String × Schema), (akeys d).Nodup → alookup k d = some old →
      d.map (fun (p : String × Schema) => if p.1 = k then (k, old) else p) = d := by
  intro d
  induction d with
  | nil => intro _ h; simp [alookup] at h
  | cons q rest ih =>
    obtain ⟨k', v'⟩ := q
    intro hnd hl
    simp only [akeys, List.map_cons, List.nodup_cons] at hnd
    simp only [alookup] at hl
    by_cases e : k = k'
    · subst e
      simp only [↓reduceIte] at hl
      injection hl with hl; subst hl
      simp only [List.map_cons, ↓reduceIte]
      congr 1
      -- no other entry has the key
      have : ∀ p ∈ rest, p.1 ≠ k := by
        intro p hp e; apply hnd.1; simp only [List.mem_map]; exact ⟨p, hp, e⟩
      calc rest.map _ = rest.map id := List.map_congr_left (fun p hp => by simp [this p hp])
        _ = rest := List.map_id _
    · simp only [e, ↓reduceIte] at hl
      have e' : ¬ k' = k := fun h => e h.symm
      simp only [List.map_cons, e', ↓reduceIte]
      congr 1
      exact ih hnd.2 hl

/-- the merged map, through its lookups: the destination's entry where there is one, else the source's -/
theorem mergeKvs_compat :
    ∀ (s d : List (String × Schema)) (f : Nat), s.length + 2 < f → Compat d s → (akeys d).Nodup → (akeys s).Nodup →
      (∀ k, alookup k (mergeKvs f d s) = (match alookup k d with | some v => some v | none => alookup k s)) ∧
      (akeys (mergeKvs f d s)).Nodup := by
  intro s
  induction s with
  | nil =>
    intro d f _ _ hd _
    refine ⟨fun k => ?_, by cases f <;> simpa [mergeKvs] using hd⟩
    cases f <;> simp only [mergeKvs, alookup] <;> cases alookup k d <;> rfl
  | cons p rest ih =>
    obtain ⟨k, v⟩ := p
    intro d f hf hc hd hs
    simp only [List.length_cons] at hf
    obtain ⟨f, rfl⟩ : ∃ f', f = f' + 2 := ⟨f - 2, by omega⟩
    simp only [akeys, List.map_cons, List.nodup_cons] at hs
    have hkrest : alookup k rest = none := (alookup_none_iff_not_mem k rest).mpr hs.1
    simp only [mergeKvs, mergeEntry]
    cases hk : alookup k d with
    | some old =>
      -- the key is already there with the same schema: nothing changes
      obtain ⟨e, hidem⟩ := hc k old v hk (by simp [alookup])
      subst e
      obtain ⟨f', rfl⟩ : ∃ f', f = f' + 1 := ⟨f - 1, by omega⟩
      simp only [hidem f', map_replace_same k old d hd hk]
      have hc' : Compat d rest := by
        intro k0 va vb h1 h2
        apply hc k0 va vb h1
        simp only [alookup]
        by_cases e0 : k0 = k
        · subst e0; rw [hkrest] at h2; cases h2
        · simp [e0, h2]
      obtain ⟨hl, hn⟩ := ih d (f' + 2) (by omega) hc' hd hs.2
      refine ⟨fun k0 => ?_, hn⟩
      rw [hl k0]
      cases h0 : alookup k0 d with
      | some x => rfl
      | none =>
        have : k0 ≠ k := by intro e0; subst e0; rw [hk] at h0; cases h0
        simp [alookup, this]
    | none =>
      have hknot : k ∉ akeys d := (alookup_none_iff_not_mem k d).mp hk
      have hd' : (akeys (d ++ [(k, v)])).Nodup := by
        simp only [akeys, List.map_append, List.map_cons, List.map_nil]
        rw [List.nodup_append]
        refine ⟨hd, by simp, ?_⟩
        intro x hx y hy e; simp at hy; subst hy; subst e; exact hknot hx
      have hc' : Compat (d ++ [(k, v)]) rest := by
        intro k0 va vb h1 h2
        rw [alookup_append] at h1
        cases h0 : alookup k0 d with
        | some x =>
          rw [h0] at h1; injection h1 with h1; subst h1
          apply hc k0 x vb h0
          simp only [alookup]
          by_cases e0 : k0 = k
          · subst e0; rw [hk] at h0; cases h0
          · simp [e0, h2]
        | none =>
          rw [h0] at h1
          simp only [alookup] at h1
          by_cases e0 : k0 = k
          · subst e0; rw [hkrest] at h2; cases h2
          · simp [e0] at h1
      obtain ⟨hl, hn⟩ := ih (d ++ [(k, v)]) (f + 1) (by omega) hc' hd' hs.2
      refine ⟨fun k0 => ?_, hn⟩
      rw [hl k0, alookup_append]
      cases h0 : alookup k0 d with
      | some x => rfl
      | none =>
        simp only [alookup]
        by_cases e0 : k0 = k
        · simp [e0]
        · simp [e0]

/-- `validProps` sees a property map only through its lookups -/
theorem validProps_congr (defs : Spec.Defs) (p p' : List (String × Schema)) (all : List (String × Json))
    (h : ∀ k, alookup k p = alookup k p') :
    ∀ (kvs : List (String × Json)) (F : Nat), Spec.validProps F defs p none all kvs = Spec.validProps F defs p' none all kvs := by
  intro kvs
  induction kvs with
  | nil => intro F; cases F <;> simp [Spec.validProps]
  | cons q rest ih =>
    obtain ⟨k, v⟩ := q
    intro F
    cases F with
    | zero => simp [Spec.validProps]
    | succ F => simp only [Spec.validProps, h k, ih F]

/-- the per-entry check splits over two compatible property maps -/
theorem validProps_compat (defs : Spec.Defs) (pa pb pm : List (String × Schema)) (all : List (String × Json))
    (hc : Compat pa pb)
    (hm : ∀ k, alookup k pm = (match alookup k pa with | some v => some v | none => alookup k pb)) :
    ∀ (kvs : List (String × Json)) (F : Nat),
      Spec.validProps F defs pm none all kvs =
        (Spec.validProps F defs pa none all kvs && Spec.validProps F defs pb none all kvs) := by
  intro kvs
  induction kvs with
  | nil => intro F; cases F <;> simp [Spec.validProps]
  | cons q rest ih =>
    obtain ⟨k, v⟩ := q
    intro F
    cases F with
    | zero => simp [Spec.validProps]
    | succ F =>
      simp only [Spec.validProps, ih F, hm k]
      cases ha : alookup k pa with
      | some x =>
        cases hb : alookup k pb with
        | some y =>
          obtain ⟨e, _⟩ := hc k x y ha hb
          subst e
          simp only
          cases Spec.valid F defs x v <;> cases Spec.validProps F defs pa none all rest <;> cases Spec.validProps F defs pb none all rest <;> rfl
        | none =>
          simp only
          cases Spec.valid F defs x v <;> cases Spec.validProps F defs pa none all rest <;> cases Spec.validProps F defs pb none all rest <;> rfl
      | none =>
        simp only
        cases alookup k pb with
        | none => simp
        | some y =>
          simp only [Bool.true_and]
          cases Spec.valid F defs y v <;> cases Spec.validProps F defs pa none all rest <;> cases Spec.validProps F defs pb none all rest <;> rfl

/-- branches agree where they overlap -/
def CompatS (a b : Schema) : Prop := Compat a.node.props b.node.props

theorem merge_plainObj_compat (a b : Schema) (g : Nat) (ha : PlainObj a) (hb : PlainObj b)
    (hc : CompatS a b) (hg : b.node.props.length + 2 < g) :
    PlainObj (mergeNode (g + 1) a b) ∧
    (∀ k, alookup k (mergeNode (g + 1) a b).node.props =
      (match alookup k a.node.props with | some v => some v | none => alookup k b.node.props)) ∧
    (mergeNode (g + 1) a b).node.required = a.node.required ++ b.node.required := by
  obtain ⟨na⟩ := a
  obtain ⟨nb⟩ := b
  obtain ⟨a1, a2, a3, a4, a5, a6, a7, a8⟩ := ha
  obtain ⟨b1, b2, b3, b4, b5, b6, b7, b8⟩ := hb
  simp only [CompatS, node_mk] at *
  obtain ⟨hl, hn⟩ := mergeKvs_compat nb.props na.props g hg hc a8 b8
  have hp : (mergeNode (g + 1) (.mk na) (.mk nb)).node.props = mergeKvs g na.props nb.props := by
    simp only [mergeNode, node_mk]
  refine ⟨⟨?_, ?_, ?_, ?_, ?_, ?_, ?_, ?_⟩, ?_, ?_⟩
  · simp [mergeNode, firstStr, a1, b1]
  · simp [mergeNode, a2, b2]
  · simp only [mergeNode, node_mk]
    rcases a3 with e | e <;> rcases b3 with e' | e' <;> simp [e, e']
  · simp [mergeNode, a4, b4]
  · simp [mergeNode, a5, b5]
  · simp [mergeNode, a6, b6]
  · simp [mergeNode, a7, b7, mergeOpt]
  · rw [hp]; exact hn
  · rw [hp]; exact hl
  · simp [mergeNode]

/-- two branches that may overlap: the merged schema admits an object iff both branches do -/
theorem merge_valid_conj_compat (defs : Spec.Defs) (a b : Schema) (g : Nat) (ha : PlainObj a) (hb : PlainObj b)
    (hc : CompatS a b) (hg : b.node.props.length + 2 < g) (kvs : List (String × Json)) (F : Nat) :
    Spec.valid F defs (mergeNode (g + 1) a b) (.obj kvs) =
      (Spec.valid F defs a (.obj kvs) && Spec.valid F defs b (.obj kvs)) := by
  obtain ⟨hm, hp, hr⟩ := merge_plainObj_compat a b g ha hb hc hg
  match F with
  | 0 => simp [(valid_low defs _ hm _).1, (valid_low defs _ ha _).1]
  | 1 => simp [(valid_low defs _ hm _).2, (valid_low defs _ ha _).2]
  | F + 2 =>
    rw [valid_plainObj defs _ hm, valid_plainObj defs _ ha, valid_plainObj defs _ hb, hr,
      validProps_compat defs a.node.props b.node.props _ kvs hc hp, List.all_append]
    generalize a.node.required.all _ = r1
    generalize b.node.required.all _ = r2
    cases r1 <;> cases r2 <;> cases Spec.validProps (F + 1) defs a.node.props none kvs kvs <;>
      cases Spec.validProps (F + 1) defs b.node.props none kvs kvs <;> rfl

/-- compatibility with a merge follows from compatibility with both parts -/
theorem compat_merge (a b x : Schema) (g : Nat) (ha : PlainObj a) (hb : PlainObj b) (hc : CompatS a b)
    (hg : b.node.props.length + 2 < g) (hax : CompatS a x) (hbx : CompatS b x) : CompatS (mergeNode (g + 1) a b) x := by
  obtain ⟨_, hp, _⟩ := merge_plainObj_compat a b g ha hb hc hg
  intro k va vb h1 h2
  rw [hp k] at h1
  cases h0 : alookup k a.node.props with
  | some y => rw [h0] at h1; injection h1 with h1; subst h1; exact hax k y vb h0 h2
  | none => rw [h0] at h1; exact hbx k va vb h1 h2

theorem fold_valid_conj_compat (defs : Spec.Defs) (kvs : List (String × Json)) (F : Nat) :
    ∀ (bs : List Schema) (acc : Schema), PlainObj acc → (∀ b ∈ bs, PlainObj b) → (∀ b ∈ bs, b.node.props.length < 60) →
      (∀ b ∈ bs, CompatS acc b) → bs.Pairwise CompatS →
      Spec.valid F defs (bs.foldl (fun acc b => mergeNode 64 acc b) acc) (.obj kvs) =
        (Spec.valid F defs acc (.obj kvs) && bs.all (fun b => Spec.valid F defs b (.obj kvs))) := by
  intro bs
  induction bs with
  | nil => intro acc _ _ _ _ _; simp
  | cons b rest ih =>
    intro acc hacc hall hlen hdis hpw
    have hb := hall b (List.mem_cons_self ..)
    have hcb := hdis b (List.mem_cons_self ..)
    have hg : b.node.props.length + 2 < 63 := by have := hlen b (List.mem_cons_self ..); omega
    obtain ⟨hm, _, _⟩ := merge_plainObj_compat acc b 63 hacc hb hcb hg
    rw [List.pairwise_cons] at hpw
    simp only [List.foldl_cons, List.all_cons]
    rw [ih (mergeNode 64 acc b) hm (fun x hx => hall x (List.mem_cons_of_mem _ hx)) (fun x hx => hlen x (List.mem_cons_of_mem _ hx))
        (fun x hx => compat_merge acc b x 63 hacc hb hcb hg (hdis x (List.mem_cons_of_mem _ hx)) (hpw.1 x hx)) hpw.2,
      merge_valid_conj_compat defs acc b 63 hacc hb hcb hg, Bool.and_assoc]

/-- **C11, allOf = conjunction, overlapping branches included**: plain object branches that agree on every property two
    of them declare (same schema, merge-idempotent — e.g. any scalar leaf, `leaf_idem`): the schema `schemas.MergeTypes`
    folds them into admits an object iff every branch admits it -/
theorem allOf_is_conjunction_overlap (defs : Spec.Defs) (bs : List Schema) (m : Schema)
    (hplain : ∀ b ∈ bs, PlainObj b) (hlen : ∀ b ∈ bs, b.node.props.length < 60) (hpw : bs.Pairwise CompatS)
    (hprim : isPrimitiveTypeList bs = false) (hm : mergeTypes bs = .ok m)
    (kvs : List (String × Json)) (F : Nat) :
    Spec.valid F defs m (.obj kvs) = bs.all (fun b => Spec.valid F defs b (.obj kvs)) := by
  unfold mergeTypes at hm
  cases bs with
  | nil => simp at hm
  | cons b0 rest =>
    simp only [List.isEmpty_cons, Bool.false_eq_true, ↓reduceIte, hprim] at hm
    split at hm
    · cases hm
    · injection hm with hm
      subst hm
      rw [valid_flags, fold_fst,
        fold_valid_conj_compat defs kvs F (b0 :: rest) (.mk {}) plainObj_empty hplain hlen
          (by intro b _ k va vb h _; simp [alookup] at h) hpw]
      cases hall : (b0 :: rest).all (fun b => Spec.valid F defs b (.obj kvs)) with
      | false => simp
      | true =>
        have h0 : Spec.valid F defs b0 (.obj kvs) = true := by
          simp only [List.all_cons, Bool.and_eq_true] at hall; exact hall.1
        rw [valid_empty_of_valid defs b0 (hplain b0 (List.mem_cons_self ..)) kvs F h0]; rfl

/-- a scalar leaf (no required / enum / composition / members / items / additionalProperties, no bound that is 0 next
    to … itself) merges with itself to itself: what `Compat` asks of a shared property -/
theorem leaf_idem (n : NodeF Schema) (g : Nat)
    (h1 : n.enum = none) (h2 : n.required = []) (h3 : n.props = []) (h4 : n.defs = []) (h5 : n.allOf = []) (h6 : n.anyOf = [])
    (h7 : n.items = none) (h8 : n.addl = none) :
    mergeNode (g + 1) (.mk n) (.mk n) = .mk n := by
  have r : ∀ x : Option Rat, firstRat x x = x := by
    intro x; cases x with
    | none => rfl
    | some q => simp [firstRat]
  have xb : ∀ x : XB, firstXB x x = x := by intro x; cases x <;> rfl
  simp only [mergeNode, node_mk, h1, h2, h3, h4, h5, h6, h7, h8, r, xb, firstStr, firstInt, mergeOpt, ite_self,
    List.append_nil, Bool.or_self]
  have i1 : ∀ x : String, (if x = "" then x else x) = x := fun x => ite_self x
  have i2 : ∀ x : Int, (if x = 0 then x else x) = x := fun x => ite_self x
  have i3 : ∀ x : Option Json, (match x with | none => x | some v => some v) = x := by intro x; cases x <;> rfl
  have i4 : ∀ x : Option GoExt, (match x with | none => x | some e => some e) = x := by intro x; cases x <;> rfl
  cases g <;> simp [mergeKvs] <;> (cases n; simp_all) <;>
    (refine ⟨?_, ?_, ?_, ?_, ?_, ?_, ?_, ?_, ?_, ?_, ?_⟩ <;> first | exact ite_self _ | (split <;> rfl))


end GJS.Props.C11

import GJS.Model.Gen
import GJS.Model.Files
/-
  C16 — output-shaping options change only what they name.
  Model level: each option is consulted at the modelled sites only (the sites in the source are a regenerated
  fact, `optionReads`), and at those sites it has exactly the named effect.
-/
namespace GJS.Props.C16
open GJS

/-- without `--min-sized-ints` the integer type is `int` and no bound is touched -/
theorem minSized_off_is_identity (b : IntBounds) : primitiveInt false b = (.int, b) := rfl

/-- `--schema-root-type` decides the root name whatever the title and the file name are -/
theorem rootName_mapping_wins (cfg : Config) (t1 t2 : String) (h : cfg.rootType ≠ "") :
    getRootTypeName cfg t1 = getRootTypeName { cfg with fileName := "other.json", structNameFromTitle := !cfg.structNameFromTitle } t2 := by
  simp [getRootTypeName, h]

/-- the title reaches the root name only with `--struct-name-from-title` -/
theorem rootName_title_only_with_flag (cfg : Config) (t1 t2 : String) (h : cfg.structNameFromTitle = false) :
    getRootTypeName cfg t1 = getRootTypeName cfg t2 := by
  simp [getRootTypeName, h]

/-- `--tags` enters only the tag text of a field: two configurations with the same tag list print the same
    tags, whatever else differs -/
theorem tags_only_in_tag_text (c1 c2 : Config) (name : String) (req : Bool) (h : c1.tags = c2.tags) :
    mkTags c1 name req = mkTags c2 name req := by
  simp [mkTags, h]

/-- the yaml import is registered by exactly one call, and adding an import twice changes nothing -/
theorem yaml_import_iff_extraImports (st : GenSt) (p a : String) :
    ((addImport p a).run st).map (fun r => r.2.imports.any (·.path == p)) = .ok true := by
  simp only [addImport, modify, modifyGet, MonadStateOf.modifyGet, StateT.modifyGet, StateT.run, pure, Except.pure, Except.map]
  by_cases h : st.imports.any (·.path == p) = true
  · simp [h]
  · simp [h, List.any_append]

/-- with `--only-models` an enum declaration has no methods (so it decodes like its underlying type) -/
theorem onlyModels_enum_has_no_methods (d : Decl) (vals : List Json) (w ic : Bool) (cs : List (String × String))
    (h : d.body = .enum vals w ic cs false) : d.hasMethod = false := by
  simp [Decl.hasMethod, h]

/-! ### --schema-root-type names the root type and nothing else (main.go's mapping assembly, fix R12) -/

/-- where a schema goes never depends on the --schema-root-type flags -/
theorem rootType_flag_never_changes_routing (pkgs outs roots roots' : List (String × String)) (dP dO id : String) :
    let m := assembleMapping pkgs outs roots dP dO id
    let m' := assembleMapping pkgs outs roots' dP dO id
    m.outputName = m'.outputName ∧ m.packageName = m'.packageName := by
  simp [assembleMapping]

/-- naming ONLY the root type of a schema leaves it where an unmapped schema goes (before R12 its output name
    was empty and the schema was not written at all) -/
theorem rootType_alone_keeps_routing (roots : List (String × String)) (dP dO id : String) :
    route [assembleMapping [] [] roots dP dO id] dO dP id = route [] dO dP id := by
  simp [route, assembleMapping, lookupS]

/-- … and it does set the root type -/
theorem rootType_alone_sets_root (dP dO id name : String) (h : name ≠ "") :
    rootOverride [assembleMapping [] [] [(id, name)] dP dO id] id = some name := by
  simp [rootOverride, assembleMapping, lookupS, h]

/-- a package without an output still means "emit nothing" -/
theorem package_without_output_is_external (roots : List (String × String)) (dP dO id pkg : String) :
    (assembleMapping [(id, pkg)] [] roots dP dO id).outputName = "" := by
  simp [assembleMapping, lookupS]

end GJS.Props.C16

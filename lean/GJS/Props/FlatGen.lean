import GJS.FlatCert
/-
  The generator on the flat fragment, in closed form (C02–C04; DESIGN §9.2): for EVERY object schema whose members
  are plain scalars the model generator `Gen.run` succeeds and emits exactly one declaration, `rootDecl` — by
  symbolic evaluation of the generator model (state monad, fuel) with inductions over the property list.
  Core Lean only.
-/
namespace GJS.Props.Flat
open GJS

/-- a scalar member of the flat fragment: one plain JSON type, value constraints allowed, nothing else -/
def FlatProp (p : Schema) : Prop :=
  (p.node.types = ["string"] ∨ p.node.types = ["number"] ∨ p.node.types = ["integer"] ∨ p.node.types = ["boolean"]) ∧
  p.node.ref = "" ∧ p.node.enum = none ∧ p.node.ext = none ∧ p.node.anyOf = [] ∧ p.node.allOf = [] ∧
  p.node.format = "" ∧ p.node.default = none ∧ p.node.subElem = false ∧ p.node.multipleOf = none

def scalarTy (p : Schema) : GoTy :=
  match p.node.types with
  | ["string"] => .string
  | ["number"] => .float64
  | ["integer"] => .int .int
  | _ => .bool

def stdCfg (cfg : Config) : Prop :=
  cfg.tags = ["json", "yaml", "mapstructure"] ∧ cfg.caps = [] ∧ cfg.onlyModels = false ∧ cfg.minSizedInts = false ∧
  cfg.rootType = "Root" ∧ cfg.pkg ≠ ""

def flatRes (p : Schema) : TyRes :=
  { ty := scalarTy p, bounds := if p.node.types = ["integer"] then some (nodeBounds p.node) else none }

/-- what the generator-level theorems need of the options: default capitalizations, no `--min-sized-ints`, a root type
    name given by the mapping, a package; `--tags`, `--only-models`, `--extra-imports` are free -/
def genCfg (cfg : Config) : Prop :=
  cfg.caps = [] ∧ cfg.minSizedInts = false ∧ cfg.rootType ≠ "" ∧ cfg.pkg ≠ ""

theorem stdCfg.gen {cfg : Config} (h : stdCfg cfg) : genCfg cfg :=
  ⟨h.2.1, h.2.2.2.1, by rw [h.2.2.2.2.1]; decide, h.2.2.2.2.2⟩

theorem inline_flat (cfg : Config) (doc : SchemaDoc) (hc : genCfg cfg) (f : Nat) (p : Schema) (scope : String)
    (hp : FlatProp p) (st : GenSt) :
    (generateTypeInline cfg doc (f + 1) p scope none).run st = .ok (flatRes p, st) := by
  obtain ⟨ht, href, henum, hext, hany, hall, hfmt, hdef, hsub, hmul⟩ := hp
  obtain ⟨_, hms, _, _⟩ := hc
  rw [generateTypeInline]
  rcases ht with ht | ht | ht | ht <;>
  simp [ht, href, henum, hext, hany, hall, hfmt, hsub, hms, scalarTy, flatRes, isPrimitiveTypeName, primitiveType, stringType,
    primitiveInt, StateT.run, bind, StateT.bind, pure, StateT.pure, get, getThe, MonadStateOf.get, StateT.get, modify, modifyGet, MonadStateOf.modifyGet, StateT.modifyGet, Except.bind, Except.pure, Except.map]



def ftyOf (t : Schema) (name : String) : GoTy :=
  if t.node.required.contains name then scalarTy (propOf t name) else .ptr (scalarTy (propOf t name))

def fieldOf (cfg : Config) (t : Schema) (name : String) : Field :=
  let prop := propOf t name
  let isRequired := t.node.required.contains name
  { name := fname name, jsonName := name, ty := ftyOf t name, tags := mkTags cfg name isRequired,
    jsonKey := name, yamlKey := name, omitEmpty := !isRequired,
    comment := if prop.node.description = "" then s!"{fname name} corresponds to the JSON schema field \"{name}\"." else prop.node.description }

/-- the struct field of a property under ANY tag list (`--tags`): the tag text and which key each wire binds depend on it,
    name and type do not -/
def fieldOfG (cfg : Config) (t : Schema) (name : String) : Field :=
  let prop := propOf t name
  let isRequired := t.node.required.contains name
  { name := fname name, jsonName := name, ty := ftyOf t name, tags := mkTags cfg name isRequired,
    jsonKey := if cfg.tags.contains "json" then name else fname name,
    yamlKey := if cfg.tags.contains "yaml" then name else (fname name).toLower,
    omitEmpty := !isRequired && cfg.tags.contains "json",
    comment := if prop.node.description = "" then s!"{fname name} corresponds to the JSON schema field \"{name}\"." else prop.node.description }

theorem fieldOfG_std (cfg : Config) (t : Schema) (name : String) (h : cfg.tags = ["json", "yaml", "mapstructure"]) :
    fieldOfG cfg t name = fieldOf cfg t name := by
  simp [fieldOfG, fieldOf, h]

def metaOf (t : Schema) (name : String) : FieldMeta :=
  { name := fname name, jsonName := name, sch := propOf t name, dflt := none, ty := ftyOf t name }

/-- what a property name has to satisfy in the flat fragment -/
def NameOK (t : Schema) (name : String) : Prop :=
  (∃ prop, alookup name t.node.props = some prop ∧ FlatProp prop) ∧ tagNameOK name = true ∧ isAsciiStr name = true ∧
  fname name ≠ "AdditionalProperties"

theorem withBounds_self (p : Schema) : withBounds p (nodeBounds p.node) = p := by
  cases p; rfl

theorem alookup_snoc_none {α : Type} (k k' : String) (v : α) (l : List (String × α))
    (h : alookup k l = none) (hne : k ≠ k') : alookup k (l ++ [(k', v)]) = none := by
  induction l with
  | nil => simp [alookup, hne]
  | cons p l ih =>
    obtain ⟨a, b⟩ := p
    simp only [alookup, List.cons_append] at h ⊢
    split at h
    · cases h
    · rename_i hka; simp [hka, ih h]

theorem fields_flat (cfg : Config) (doc : SchemaDoc) (hc : genCfg cfg) (t : Schema) (scope : String) (st : GenSt) :
    ∀ (ns : List String) (f : Nat) (unique : List (String × Nat)) (fs : List Field) (ms : List FieldMeta) (req : List String),
      (∀ n ∈ ns, NameOK t n) → (ns.map fname).Nodup → (∀ n ∈ ns, alookup (fname n) unique = none) → ns.length + 2 ≤ f →
      (addStructFields cfg doc f t scope ns unique fs ms req).run st =
        .ok ((fs ++ ns.map (fieldOfG cfg t), ms ++ ns.map (metaOf t), req ++ ns.filter (fun n => t.node.required.contains n)), st) := by
  intro ns
  induction ns with
  | nil =>
    intro f unique fs ms req _ _ _ hf
    obtain ⟨g, rfl⟩ : ∃ g, f = g + 1 := ⟨f - 1, by omega⟩
    simp [addStructFields, StateT.run, pure, StateT.pure, Except.pure]
  | cons n rest ih =>
    intro f unique fs ms req hok hnd hun hf
    obtain ⟨g, rfl⟩ : ∃ g, f = g + 2 := ⟨f - 2, by simp at hf; omega⟩
    obtain ⟨⟨prop, hprop, hflat⟩, htag, hascii, _⟩ := hok n (by simp)
    have hcaps : cfg.caps = [] := hc.1
    have hu : alookup (fname n) unique = none := hun n (by simp)
    rw [addStructFields]
    have hinl := inline_flat cfg doc hc g prop (scope ++ fname n) hflat
    simp only [StateT.run, fname] at hinl hu
    have hnil : ∀ st', isNillable st' (flatRes prop).ty = false := by
      intro st'; rcases hflat.1 with h | h | h | h <;> simp [flatRes, scalarTy, h, isNillable]
    have hwrap : ∀ st', wrapPtr st' (flatRes prop).ty = .ptr (scalarTy prop) := by
      intro st'; rcases hflat.1 with h | h | h | h <;> simp [flatRes, scalarTy, h, wrapPtr]
    have hsch : (match (flatRes prop).bounds with | some b => withBounds prop b | none => prop) = prop := by
      rcases hflat.1 with h | h | h | h <;> simp [flatRes, h, withBounds_self]
    have hrest : (addStructFields cfg doc (g + 1) t scope rest (unique ++ [(identifierizeStr [] n, 1)])
        (fs ++ [fieldOfG cfg t n]) (ms ++ [metaOf t n]) (req ++ (if t.node.required.contains n then [n] else []))).run st = _ :=
      ih (g + 1) _ _ _ _ (fun m hm => hok m (by simp [hm])) (by simpa using (List.nodup_cons.mp hnd).2)
        (by
          intro m hm
          have hne : fname m ≠ fname n := by
            intro he; exact (List.nodup_cons.mp hnd).1 (by rw [← he]; exact List.mem_map_of_mem hm)
          exact alookup_snoc_none _ _ _ _ (hun m (by simp [hm])) hne)
        (by simp at hf ⊢; omega)
    simp only [StateT.run] at hrest
    simp [hprop, htag, identifierizeM, hascii, hcaps, hflat.2.2.2.1, nextFieldName, fname, hu, hflat.2.2.2.2.2.2.2.1,
      StateT.run, bind, StateT.bind, pure, StateT.pure, get, getThe, MonadStateOf.get, StateT.get, Except.bind, Except.pure, hinl,
      hnil, hwrap, hsch]
    simp only [fieldOfG, metaOf, ftyOf, propOf, hprop, fname, Option.getD] at hrest
    by_cases hr : n ∈ t.node.required <;> rcases hflat.1 with h | h | h | h <;>
      simp [hr, flatRes, h, withBounds_self] at hrest ⊢ <;>
      (rw [hrest]; simp [fieldOfG, metaOf, ftyOf, propOf, hprop, fname, hr])

structure FlatObj (t : Schema) : Prop where
  types : t.node.types = ["object"]
  ref : t.node.ref = ""
  enum : t.node.enum = none
  ext : t.node.ext = none
  anyOf : t.node.anyOf = []
  allOf : t.node.allOf = []
  addl : t.node.addl = none
  anyOfCount : t.node.anyOfCount = 0
  subElem : t.node.subElem = false
  props : t.node.props ≠ []
  names : ∀ n ∈ sortedKeys t.node.props, NameOK t n
  distinct : ((sortedKeys t.node.props).map fname).Nodup

def flatFields (cfg : Config) (t : Schema) : List Field := (sortedKeys t.node.props).map (fieldOf cfg t)
def flatFieldsG (cfg : Config) (t : Schema) : List Field := (sortedKeys t.node.props).map (fieldOfG cfg t)

theorem flatFieldsG_std (cfg : Config) (t : Schema) (h : cfg.tags = ["json", "yaml", "mapstructure"]) :
    flatFieldsG cfg t = flatFields cfg t := by
  unfold flatFieldsG flatFields
  exact List.map_congr_left (fun n _ => fieldOfG_std cfg t n h)

def flatMetas (t : Schema) : List FieldMeta := (sortedKeys t.node.props).map (metaOf t)
def flatReq (t : Schema) : List String := (sortedKeys t.node.props).filter (fun n => t.node.required.contains n)

theorem type_flat (cfg : Config) (doc : SchemaDoc) (hc : genCfg cfg) (t : Schema) (scope : String) (st : GenSt)
    (h : FlatObj t) (f : Nat) (hf : (sortedKeys t.node.props).length + 4 ≤ f) :
    (generateType cfg doc f t scope).run st =
      .ok ({ ty := .strct (flatFieldsG cfg t), smeta := some { required := flatReq t, fields := flatMetas t } }, st) := by
  obtain ⟨g, rfl⟩ : ∃ g, f = g + 2 := ⟨f - 2, by omega⟩
  have hfs := fields_flat cfg doc hc t scope st (sortedKeys t.node.props) g [] [] [] [] h.names h.distinct
    (fun _ _ => rfl) (by omega)
  simp only [StateT.run] at hfs
  have hpe : t.node.props.isEmpty = false := by
    cases hp : t.node.props with
    | nil => exact absurd hp h.props
    | cons _ _ => rfl
  rw [generateType]
  simp [h.ext, h.enum, h.ref, h.types, determineTypeName, generateStructType, hpe, h.anyOf, h.allOf, h.addl,
    StateT.run, bind, StateT.bind, pure, StateT.pure, Except.bind, Except.pure, hfs, flatFieldsG, flatMetas, flatReq]

/-- states that differ only in bookkeeping the declarations do not depend on (imports, issues, warnings, used packages) -/
structure Same (a b : GenSt) : Prop where
  decls : b.decls = a.decls
  inProgress : b.inProgress = a.inProgress
  hidden : b.hidden = a.hidden

theorem Same.rfl' (a : GenSt) : Same a a := ⟨rfl, rfl, rfl⟩
theorem Same.trans {a b c : GenSt} (h1 : Same a b) (h2 : Same b c) : Same a c :=
  ⟨h2.decls.trans h1.decls, h2.inProgress.trans h1.inProgress, h2.hidden.trans h1.hidden⟩

macro "same_tac" : tactic => `(tactic| first
  | exact ⟨rfl, rfl, rfl⟩
  | (constructor <;> split <;> rfl)
  | (constructor <;> split <;> split <;> rfl)
  | (constructor <;> split <;> split <;> split <;> rfl))

/-- the validators of one scalar member -/
def propVs (field : String) (p : Schema) (nillable : Bool) : List Validator :=
  match p.node.types with
  | ["string"] =>
    if p.node.minLength ≠ 0 ∨ p.node.maxLength ≠ 0 ∨ p.node.pattern ≠ "" then
      [.string field p.node.minLength p.node.maxLength p.node.pattern nillable] else []
  | ["number"] =>
    let c : NumCheck := { mult := none, lo := p.node.minimum, hi := p.node.maximum, xlo := p.node.xmin, xhi := p.node.xmax, roundToInt := false }
    if c.emitsSomething then [.numeric field nillable c] else []
  | ["integer"] =>
    let c : NumCheck := { mult := none, lo := p.node.minimum, hi := p.node.maximum, xlo := p.node.xmin, xhi := p.node.xmax, roundToInt := true }
    if c.emitsSomething then [.numeric field nillable c] else []
  | _ => []

theorem sfv_scalar (field : String) (p : Schema) (hp : FlatProp p) (nl : Bool) (f : Nat) (st : GenSt) :
    ∃ st', (structFieldValidators field p.node (f + 1) (scalarTy p) nl).run st = .ok (propVs field p nl, st') ∧ Same st st' := by
  obtain ⟨ht, href, henum, hext, hany, hall, hfmt, hdef, hsub, hmul⟩ := hp
  rcases ht with ht | ht | ht | ht
  · simp only [scalarTy, ht, propVs, structFieldValidators]
    by_cases hpat : p.node.pattern = "" <;> by_cases hmn : p.node.minLength = 0 <;> by_cases hmx : p.node.maxLength = 0 <;>
      simp [hpat, hmn, hmx, addImport, StateT.run, bind, StateT.bind, pure, StateT.pure, modify, modifyGet, MonadStateOf.modifyGet, StateT.modifyGet, Except.bind, Except.pure] <;>
      same_tac
  · simp [scalarTy, ht, propVs, structFieldValidators, hmul, StateT.run, bind, StateT.bind, pure, StateT.pure, Except.bind, Except.pure]
    split <;> exact ⟨st, rfl, Same.rfl' st⟩
  · simp only [scalarTy, ht, propVs, structFieldValidators, hmul]
    generalize intLiteralsFit _ _ = c
    cases c <;>
    simp [issue, StateT.run, bind, StateT.bind, pure, StateT.pure, Except.bind, Except.pure,
      modify, modifyGet, MonadStateOf.modifyGet, StateT.modifyGet] <;>
    split <;> exact ⟨_, rfl, by same_tac⟩
  · simp [scalarTy, ht, propVs, structFieldValidators, StateT.run, pure, StateT.pure, Except.pure]; exact ⟨rfl, rfl, rfl⟩


theorem sfv_field (t : Schema) (n : String) (hn : NameOK t n) (st : GenSt) :
    ∃ st', (structFieldValidators (fname n) (propOf t n).node 16 (ftyOf t n) false).run st =
      .ok (propVs (fname n) (propOf t n) (!t.node.required.contains n), st') ∧ Same st st' := by
  obtain ⟨⟨prop, hprop, hflat⟩, _, _, _⟩ := hn
  have hp : propOf t n = prop := by simp [propOf, hprop]
  rw [hp]
  by_cases hr : t.node.required.contains n = true
  · simp only [ftyOf, hr, hp, if_true, Bool.not_true]
    exact sfv_scalar (fname n) prop hflat false 15 st
  · have hr' : t.node.required.contains n = false := by simpa using hr
    simp only [ftyOf, hr', hp, Bool.not_false, Bool.false_eq_true, if_false]
    rw [structFieldValidators]
    exact sfv_scalar (fname n) prop hflat true 14 st

def flatVs (t : Schema) (ns : List String) : List Validator :=
  ns.flatMap (fun n => propVs (fname n) (propOf t n) (!t.node.required.contains n))

theorem loop_flat (t : Schema) : ∀ (ns : List String) (vs : List Validator) (st : GenSt), (∀ n ∈ ns, NameOK t n) →
    ∃ st', (fieldValidatorsLoop (ns.map (metaOf t)) vs false).run st = .ok ((vs ++ flatVs t ns, false), st') ∧ Same st st' := by
  intro ns
  induction ns with
  | nil => intro vs st _; exact ⟨st, by simp [fieldValidatorsLoop, flatVs, StateT.run, pure, StateT.pure, Except.pure], Same.rfl' st⟩
  | cons n rest ih =>
    intro vs st hok
    obtain ⟨st1, h1, hs1⟩ := sfv_field t n (hok n (by simp)) st
    obtain ⟨st2, h2, hs2⟩ := ih (vs ++ propVs (fname n) (propOf t n) (!t.node.required.contains n)) st1 (fun m hm => hok m (by simp [hm]))
    refine ⟨st2, ?_, hs1.trans hs2⟩
    have hne : fname n ≠ "AdditionalProperties" := (hok n (by simp)).2.2.2
    have hb : (fname n == "AdditionalProperties") = false := by simp [hne]
    simp only [StateT.run] at h1 h2
    simp [flatVs] at h2
    simp [fieldValidatorsLoop, metaOf, hb, StateT.run, bind, StateT.bind, pure, StateT.pure, Except.bind, Except.pure, h1, h2, flatVs]

theorem addImport_same (p a : String) (st : GenSt) : ∃ st', (addImport p a).run st = .ok ((), st') ∧ Same st st' := by
  refine ⟨if (st.imports.any fun x => x.path == p) = true then st else { st with imports := st.imports ++ [{ path := p, alias := a }] }, rfl, ?_⟩
  constructor <;> (split <;> rfl)

theorem umi_go_same (vs : List Validator) : ∀ (st : GenSt), ∃ st', (unmarshalerImports.go vs).run st = .ok ((), st') ∧ Same st st' := by
  induction vs with
  | nil => intro st; exact ⟨st, rfl, Same.rfl' st⟩
  | cons v rest ih =>
    intro st
    obtain ⟨sf, hf, hsf⟩ := addImport_same "fmt" "" st
    obtain ⟨se, he, hse⟩ := addImport_same "errors" "" st
    obtain ⟨sef, hef, hsef⟩ := addImport_same "fmt" "" se
    obtain ⟨sr, hr, hsr⟩ := ih st
    simp only [StateT.run] at hf he hef hr
    cases v
    case dflt => exact ⟨sr, by simp [unmarshalerImports.go, Validator.hasError, StateT.run, bind, StateT.bind, Except.bind, pure, StateT.pure, Except.pure, hr], hsr⟩
    case anyOf => exact ⟨sef, by simp [unmarshalerImports.go, Validator.hasError, StateT.run, bind, StateT.bind, Except.bind, he, hef], hse.trans hsef⟩
    all_goals exact ⟨sf, by simp [unmarshalerImports.go, Validator.hasError, StateT.run, bind, StateT.bind, Except.bind, pure, StateT.pure, Except.pure, hf], hsf⟩

theorem umi_same (cfg : Config) (vs : List Validator) (st : GenSt) :
    ∃ st', (unmarshalerImports cfg vs).run st = .ok ((), st') ∧ Same st st' := by
  obtain ⟨st1, h1, hs1⟩ := umi_go_same vs st
  obtain ⟨st2, h2, hs2⟩ := addImport_same "encoding/json" "" st1
  simp only [StateT.run] at h1 h2
  by_cases hx : cfg.extraImports = true
  · obtain ⟨st3, h3, hs3⟩ := addImport_same "gopkg.in/yaml.v3" "yaml" st2
    simp only [StateT.run] at h3
    exact ⟨st3, by simp [unmarshalerImports, hx, StateT.run, bind, StateT.bind, Except.bind, h1, h2, h3], (hs1.trans hs2).trans hs3⟩
  · exact ⟨st2, by simp [unmarshalerImports, hx, StateT.run, bind, StateT.bind, Except.bind, h1, h2, pure, StateT.pure, Except.pure], hs1.trans hs2⟩

theorem finish_fresh (cfg : Config) (name : String) (t tEff : Schema) (rty : GoTy) (body : DeclBody) (st : GenSt)
    (h : st.decls = []) :
    ∃ st', (finishDecl cfg name t tEff rty body).run st = .ok (.named name, st') ∧
      st'.decls = [{ name, ty := rty, comment := t.node.description, body, schema := keptSchema cfg tEff }] := by
  simp [finishDecl, declNames, h, StateT.run, bind, StateT.bind, pure, StateT.pure, get, getThe, MonadStateOf.get, StateT.get,
    set, StateT.set, Except.bind, Except.pure]

def flatAllVs (t : Schema) : List Validator :=
  (flatReq t).map Validator.required ++ flatVs t (sortedKeys t.node.props)

def rootDecl (cfg : Config) (t : Schema) : Decl :=
  { name := "Root", ty := .strct (flatFields cfg t), comment := t.node.description,
    body := .plain (flatAllVs t) (!(flatAllVs t).isEmpty), schema := keptSchema cfg t }

/-- the one declaration the generator emits for a flat object, under any `--tags`, `--only-models`, `--extra-imports`
    and root type name -/
def rootDeclG (cfg : Config) (t : Schema) : Decl :=
  { name := cfg.rootType, ty := .strct (flatFieldsG cfg t), comment := t.node.description,
    body := if cfg.onlyModels then .plain [] false else .plain (flatAllVs t) (!(flatAllVs t).isEmpty),
    schema := keptSchema cfg t }

theorem rootDeclG_std (cfg : Config) (t : Schema) (h : stdCfg cfg) : rootDeclG cfg t = rootDecl cfg t := by
  simp [rootDeclG, rootDecl, h.2.2.2.2.1, h.2.2.1, flatFieldsG_std cfg t h.1]

theorem declared_flat (cfg : Config) (doc : SchemaDoc) (hc : genCfg cfg) (t : Schema)
    (h : FlatObj t) (f : Nat) (hf : (sortedKeys t.node.props).length + 5 ≤ f) :
    ∃ st', (generateDeclaredType cfg doc f t cfg.rootType none).run {} = .ok (.named cfg.rootType, st') ∧
      st'.decls = [rootDeclG cfg t] := by
  obtain ⟨g, rfl⟩ : ∃ g, f = g + 1 := ⟨f - 1, by omega⟩
  have hty := fun st => type_flat cfg doc hc t cfg.rootType st h g (by omega)
  obtain ⟨st1, h1, hs1⟩ := loop_flat t (sortedKeys t.node.props) ((flatReq t).map Validator.required) { inProgress := [(cfg.rootType, t)] } h.names
  obtain ⟨st2, h2, hs2⟩ := umi_same cfg (flatAllVs t) st1
  obtain ⟨st3, h3, hd3⟩ := finish_fresh cfg cfg.rootType t t (.strct (flatFieldsG cfg t)) (.plain (flatAllVs t) true) st2 (by rw [hs2.decls, hs1.decls])
  obtain ⟨st4, h4, hd4⟩ := finish_fresh cfg cfg.rootType t t (.strct (flatFieldsG cfg t)) (.plain (flatAllVs t) false) st1 (by rw [hs1.decls])
  obtain ⟨st5, h5, hd5⟩ := finish_fresh cfg cfg.rootType t t (.strct (flatFieldsG cfg t)) (.plain [] false) { inProgress := [(cfg.rootType, t)] } rfl
  simp only [StateT.run] at hty h1 h2 h3 h4 h5
  rw [generateDeclaredType]
  by_cases hom : cfg.onlyModels = true
  · refine ⟨st5, ?_, by simp [hd5, rootDeclG, hom]⟩
    simp [isUniqueTypeName, visibleNames, declNames, h.enum, uniqueTypeName, hty, isNamedType, hom,
      StateT.run, bind, StateT.bind, pure, StateT.pure, get, getThe, MonadStateOf.get, StateT.get, modify, modifyGet, MonadStateOf.modifyGet, StateT.modifyGet, Except.bind, Except.pure, h5]
  have hom' : cfg.onlyModels = false := by simpa using hom
  by_cases hv : flatAllVs t = []
  · refine ⟨st4, ?_, by simp [hd4, rootDeclG, hv, hom']⟩
    simp only [flatAllVs] at hv h4
    simp [isUniqueTypeName, visibleNames, declNames, h.enum, uniqueTypeName, hty, isNamedType, hom', h.anyOfCount, h.subElem,
      StateT.run, bind, StateT.bind, pure, StateT.pure, get, getThe, MonadStateOf.get, StateT.get, modify, modifyGet, MonadStateOf.modifyGet, StateT.modifyGet, Except.bind, Except.pure,
      flatMetas, h1, hv]
    rw [hv] at h4; exact h4
  · refine ⟨st3, ?_, by simp [hd3, rootDeclG, hv, hom']⟩
    simp only [flatAllVs] at hv h3 h2
    simp [isUniqueTypeName, visibleNames, declNames, h.enum, uniqueTypeName, hty, isNamedType, hom', h.anyOfCount, h.subElem,
      StateT.run, bind, StateT.bind, pure, StateT.pure, get, getThe, MonadStateOf.get, StateT.get, modify, modifyGet, MonadStateOf.modifyGet, StateT.modifyGet, Except.bind, Except.pure,
      flatMetas, h1, hv, h2, h3]

/-- **the generator on the flat fragment, for every option set of `genCfg`**: for EVERY flat object schema the model
    generator succeeds and emits exactly one declaration, in closed form -/
theorem run_flat_gen (cfg : Config) (hc : genCfg cfg) (t : Schema) (h : FlatObj t) (id : String)
    (hlen : (sortedKeys t.node.props).length ≤ 190) :
    ∃ out, Gen.run cfg { id := id, hasRoot := true, root := t, defs := [] } = .ok out ∧ out.decls = [rootDeclG cfg t] := by
  obtain ⟨st', hd, hdecls⟩ := declared_flat cfg { id := id, hasRoot := true, root := t, defs := [] } hc t h 200 (by omega)
  simp only [StateT.run] at hd
  have hroot : cfg.rootType ≠ "" := hc.2.2.1
  have hpkg : cfg.pkg ≠ "" := hc.2.2.2
  have hrun : (generateRootType cfg { id := id, hasRoot := true, root := t, defs := [] }).run {} = .ok ((), st') := by
    simp [generateRootType, hpkg, sortedKeys, h.types, getRootTypeName, hroot, byNameKeys, visibleNames, declNames,
      StateT.run, bind, StateT.bind, pure, StateT.pure, get, getThe, MonadStateOf.get, StateT.get, Except.bind, Except.pure, hd,
      forIn, ForIn.forIn, List.forIn'_nil]
  unfold Gen.run
  rw [hrun]
  exact ⟨_, rfl, hdecls⟩

/-- the default option set -/
theorem run_flat (cfg : Config) (hc : stdCfg cfg) (t : Schema) (h : FlatObj t) (id : String)
    (hlen : (sortedKeys t.node.props).length ≤ 190) :
    ∃ out, Gen.run cfg { id := id, hasRoot := true, root := t, defs := [] } = .ok out ∧ out.decls = [rootDecl cfg t] := by
  obtain ⟨out, h1, h2⟩ := run_flat_gen cfg hc.gen t h id hlen
  exact ⟨out, h1, by rw [h2, rootDeclG_std cfg t hc]⟩

/-! ### C16 at generator level: what the output-shaping options change, for every flat schema -/

/-- `--extra-imports` changes no declaration -/
theorem extra_imports_same_decls (cfg : Config) (hc : genCfg cfg) (t : Schema) (h : FlatObj t) (id : String) (b : Bool)
    (hlen : (sortedKeys t.node.props).length ≤ 190) :
    ∃ o1 o2, Gen.run cfg { id := id, hasRoot := true, root := t, defs := [] } = .ok o1 ∧
      Gen.run { cfg with extraImports := b } { id := id, hasRoot := true, root := t, defs := [] } = .ok o2 ∧ o1.decls = o2.decls := by
  obtain ⟨o1, h1, d1⟩ := run_flat_gen cfg hc t h id hlen
  obtain ⟨o2, h2, d2⟩ := run_flat_gen { cfg with extraImports := b } hc t h id hlen
  exact ⟨o1, o2, h1, h2, by rw [d1, d2]; rfl⟩

/-- `--only-models` keeps the type declaration — name, fields, field types, tags — and drops exactly the validators and
    the method -/
theorem only_models_keeps_type (cfg : Config) (hc : genCfg cfg) (t : Schema) (h : FlatObj t) (id : String)
    (hlen : (sortedKeys t.node.props).length ≤ 190) :
    ∃ o1 o2 d1 d2, Gen.run { cfg with onlyModels := false } { id := id, hasRoot := true, root := t, defs := [] } = .ok o1 ∧
      Gen.run { cfg with onlyModels := true } { id := id, hasRoot := true, root := t, defs := [] } = .ok o2 ∧
      o1.decls = [d1] ∧ o2.decls = [d2] ∧ d1.name = d2.name ∧ d1.ty = d2.ty ∧ d1.comment = d2.comment ∧
      d2.body = .plain [] false := by
  obtain ⟨o1, h1, e1⟩ := run_flat_gen { cfg with onlyModels := false } hc t h id hlen
  obtain ⟨o2, h2, e2⟩ := run_flat_gen { cfg with onlyModels := true } hc t h id hlen
  exact ⟨o1, o2, _, _, h1, h2, e1, e2, rfl, rfl, rfl, rfl⟩

/-- the root type name given by the mapping (`--schema-root-type`) changes only the declaration's name -/
theorem root_type_changes_only_name (cfg : Config) (hc : genCfg cfg) (t : Schema) (h : FlatObj t) (id : String) (r : String)
    (hr : r ≠ "") (hlen : (sortedKeys t.node.props).length ≤ 190) :
    ∃ o1 o2 d1 d2, Gen.run cfg { id := id, hasRoot := true, root := t, defs := [] } = .ok o1 ∧
      Gen.run { cfg with rootType := r } { id := id, hasRoot := true, root := t, defs := [] } = .ok o2 ∧
      o1.decls = [d1] ∧ o2.decls = [d2] ∧ d2.name = r ∧ d1.ty = d2.ty ∧ d1.body = d2.body ∧ d1.comment = d2.comment := by
  obtain ⟨o1, h1, e1⟩ := run_flat_gen cfg hc t h id hlen
  obtain ⟨o2, h2, e2⟩ := run_flat_gen { cfg with rootType := r } ⟨hc.1, hc.2.1, hr, hc.2.2.2⟩ t h id hlen
  exact ⟨o1, o2, _, _, h1, h2, e1, e2, rfl, rfl, rfl, rfl⟩

/-- `--tags` changes only the tag text and the keys bound through it: field names, field types, validators and the method
    are the same for every tag list -/
theorem tags_change_only_tags (cfg : Config) (hc : genCfg cfg) (t : Schema) (h : FlatObj t) (id : String) (tags : List String)
    (hlen : (sortedKeys t.node.props).length ≤ 190) :
    ∃ o1 o2 d1 d2 fs1 fs2, Gen.run cfg { id := id, hasRoot := true, root := t, defs := [] } = .ok o1 ∧
      Gen.run { cfg with tags := tags } { id := id, hasRoot := true, root := t, defs := [] } = .ok o2 ∧
      o1.decls = [d1] ∧ o2.decls = [d2] ∧ d1.name = d2.name ∧ d1.body = d2.body ∧
      d1.ty = .strct fs1 ∧ d2.ty = .strct fs2 ∧ fs1.map (·.name) = fs2.map (·.name) ∧ fs1.map (·.ty) = fs2.map (·.ty) ∧
      fs1.map (·.jsonName) = fs2.map (·.jsonName) := by
  obtain ⟨o1, h1, e1⟩ := run_flat_gen cfg hc t h id hlen
  obtain ⟨o2, h2, e2⟩ := run_flat_gen { cfg with tags := tags } hc t h id hlen
  refine ⟨o1, o2, _, _, _, _, h1, h2, e1, e2, rfl, rfl, rfl, rfl, ?_, ?_, ?_⟩ <;>
    simp [flatFieldsG, List.map_map, Function.comp_def, fieldOfG]

end GJS.Props.Flat

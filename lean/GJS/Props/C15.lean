import GJS.Model.MinInt
import GJS.Model.Gen
import GJS.Spec
import GJS.Props.C05
import Mathlib.Tactic.Linarith
import Mathlib.Tactic.NormNum
import Mathlib.Algebra.Order.Field.Rat
import Mathlib.Data.Rat.Cast.Order
import Mathlib.Tactic.Tauto
/-
  C15 — `--min-sized-ints` never changes which documents are accepted.
  Stated for integral bounds (scope F15); the theorems are about GJS.getMinIntType / primitiveInt /
  intAccepts, i.e. about the definitions the driver runs, as the tree stands (with fix R2).
-/
namespace GJS.Props.C15
open GJS

/-! ### integral bounds -/

inductive XBZ where
  | absent | flag (b : Bool) | num (i : Int)
deriving DecidableEq

def XBZ.toXB : XBZ → XB
  | .absent => .absent | .flag b => .flag b | .num i => .num (i : Rat)

structure ZBounds where
  lo : Option Int := none
  hi : Option Int := none
  xlo : XBZ := .absent
  xhi : XBZ := .absent

def ZBounds.toIB (z : ZBounds) : IntBounds :=
  { lo := z.lo.map (fun i => (i : Rat)), hi := z.hi.map (fun i => (i : Rat)), xlo := z.xlo.toXB, xhi := z.xhi.toXB }

/-- least integer admitted by the stated lower bounds (none: unbounded below) -/
def effLo (z : ZBounds) : Option Int :=
  match z.lo, z.xlo with
  | none, .num q => some (q + 1)
  | none, _ => none
  | some m, .absent => some m
  | some m, .flag b => some (if b then m + 1 else m)
  | some m, .num q => some (if q ≥ m then q + 1 else m)

def effHi (z : ZBounds) : Option Int :=
  match z.hi, z.xhi with
  | none, .num q => some (q - 1)
  | none, _ => none
  | some m, .absent => some m
  | some m, .flag b => some (if b then m - 1 else m)
  | some m, .num q => some (if q ≤ m then q - 1 else m)

/-- what the schema admits among the integers -/
def specZ (z : ZBounds) (v : Int) : Prop :=
  (∀ l, effLo z = some l → l ≤ v) ∧ (∀ h, effHi z = some h → v ≤ h)

/-! ### the selection, on effective integer bounds -/

def chooseZ (lo hi : Option Int) : MinIntChoice :=
  match lo, hi with
  | some l, hi =>
    if l ≥ 0 then
      match hi with
      | none => ⟨.u64, l == 0, false⟩
      | some h => unsignedChoice (l == 0) h
    else
      match hi with
      | none => ⟨.i64, l == IntKind.i64.lo, false⟩
      | some h => signedChoice l h
  | none, none => ⟨.i64, false, false⟩
  | none, some h => ⟨.i64, false, h == IntKind.i64.hiCmp⟩

/-! ### bridge: the model's Rat computation on integral bounds is `chooseZ` on the effective bounds -/

theorem floor_int_add_half (i : Int) : Rat.floor ((i : Rat) + 1/2) = i := by
  apply Int.le_antisymm
  · have : Rat.floor ((i : Rat) + 1/2) < i + 1 := by
      rw [Rat.floor_lt_iff]; push_cast; linarith
    omega
  · rw [Rat.le_floor_iff]; linarith

theorem roundRat_int (i : Int) : roundRat (i : Rat) = i := by
  unfold roundRat
  by_cases h : (i : Rat) ≥ 0
  · simp only [h, ↓reduceIte]; exact floor_int_add_half i
  · simp only [h, ↓reduceIte]
    have : (-(i : Rat) + 1/2) = ((-i : Int) : Rat) + 1/2 := by push_cast; rfl
    rw [this, floor_int_add_half]; omega

/-- the adjusted lower bound `nMin` of getMinIntType: the least admitted integer -/
def adjLo (lo : Option Rat) (x : XB) : Option Rat :=
  let r := normLo lo x
  r.1.map (fun m => if r.2 then ((Rat.floor m : Int) : Rat) + 1 else ((Rat.ceil m : Int) : Rat))

def adjHi (hi : Option Rat) (x : XB) : Option Rat :=
  let r := normHi hi x
  r.1.map (fun m => if r.2 then ((Rat.ceil m : Int) : Rat) - 1 else ((Rat.floor m : Int) : Rat))

theorem adjLo_int (z : ZBounds) :
    adjLo (z.lo.map (fun i => (i : Rat))) z.xlo.toXB = (effLo z).map (fun i => (i : Rat)) := by
  rcases z with ⟨lo, hi, xlo, xhi⟩
  rcases lo with _ | m <;> rcases xlo with _ | b | q
  · simp [adjLo, normLo, effLo, XBZ.toXB]
  · cases b <;> simp [adjLo, normLo, effLo, XBZ.toXB]
  · simp [adjLo, normLo, effLo, XBZ.toXB, Rat.floor_intCast]
  · simp [adjLo, normLo, effLo, XBZ.toXB, Rat.ceil_intCast]
  · cases b <;> simp [adjLo, normLo, effLo, XBZ.toXB, Rat.ceil_intCast, Rat.floor_intCast]
  · by_cases h : q ≥ m
    · have h' : (q : Rat) ≥ (m : Rat) := by exact_mod_cast h
      simp [adjLo, normLo, effLo, XBZ.toXB, h, h', Rat.ceil_intCast, Rat.floor_intCast]
    · have h' : ¬ (q : Rat) ≥ (m : Rat) := by exact_mod_cast h
      simp [adjLo, normLo, effLo, XBZ.toXB, h, h', Rat.ceil_intCast, Rat.floor_intCast]

theorem adjHi_int (z : ZBounds) :
    adjHi (z.hi.map (fun i => (i : Rat))) z.xhi.toXB = (effHi z).map (fun i => (i : Rat)) := by
  rcases z with ⟨lo, hi, xlo, xhi⟩
  rcases hi with _ | m <;> rcases xhi with _ | b | q
  · simp [adjHi, normHi, effHi, XBZ.toXB]
  · cases b <;> simp [adjHi, normHi, effHi, XBZ.toXB]
  · simp [adjHi, normHi, effHi, XBZ.toXB, Rat.ceil_intCast]
  · simp [adjHi, normHi, effHi, XBZ.toXB, Rat.floor_intCast]
  · cases b <;> simp [adjHi, normHi, effHi, XBZ.toXB, Rat.ceil_intCast, Rat.floor_intCast]
  · by_cases h : q ≤ m
    · have h' : (q : Rat) ≤ (m : Rat) := by exact_mod_cast h
      simp [adjHi, normHi, effHi, XBZ.toXB, h, h', Rat.ceil_intCast, Rat.floor_intCast]
    · have h' : ¬ (q : Rat) ≤ (m : Rat) := by exact_mod_cast h
      simp [adjHi, normHi, effHi, XBZ.toXB, h, h', Rat.ceil_intCast, Rat.floor_intCast]

theorem getMinIntType_eq_adj (lo hi : Option Rat) (xlo xhi : XB) :
    getMinIntType lo hi xlo xhi =
      (match adjLo lo xlo with
       | some m => if m ≥ 0 then adjustUnsigned (adjLo lo xlo) (adjHi hi xhi) else adjustSigned (adjLo lo xlo) (adjHi hi xhi)
       | none => adjustSigned (adjLo lo xlo) (adjHi hi xhi)) := by
  unfold getMinIntType adjLo adjHi
  rcases normLo lo xlo with ⟨a, b⟩
  rcases normHi hi xhi with ⟨c, d⟩
  rfl
theorem adjustSigned_int (lo hi : Option Int) (hneg : ∀ l, lo = some l → l < 0) :
    adjustSigned (lo.map (fun i => (i : Rat))) (hi.map (fun i => (i : Rat))) = chooseZ lo hi := by
  rcases lo with _ | l <;> rcases hi with _ | h
  · rfl
  · simp [adjustSigned, chooseZ, roundRat_int]
  · have := hneg l rfl
    have hl : ¬ l ≥ 0 := by omega
    simp [adjustSigned, chooseZ, roundRat_int, hl]
  · have := hneg l rfl
    have hl : ¬ l ≥ 0 := by omega
    simp [adjustSigned, chooseZ, roundRat_int, hl]

theorem adjustUnsigned_int (l : Int) (hi : Option Int) (hl : l ≥ 0) :
    adjustUnsigned (some (l : Rat)) (hi.map (fun i => (i : Rat))) = chooseZ (some l) hi := by
  have h0 : ((l : Rat) == 0) = (l == 0) := by
    by_cases h : l = 0
    · subst h; simp
    · have : (l : Rat) ≠ 0 := by exact_mod_cast h
      simp [h, this]
  rcases hi with _ | h
  · simp [adjustUnsigned, chooseZ, hl, h0]
  · simp [adjustUnsigned, chooseZ, roundRat_int, hl, h0]

/-- **bridge**: on integral bounds the model's selection is `chooseZ` of the effective integer bounds -/
theorem getMinIntType_int (z : ZBounds) :
    getMinIntType z.toIB.lo z.toIB.hi z.toIB.xlo z.toIB.xhi = chooseZ (effLo z) (effHi z) := by
  rw [getMinIntType_eq_adj]
  simp only [ZBounds.toIB]
  rw [adjLo_int, adjHi_int]
  rcases hl : effLo z with _ | l
  · exact adjustSigned_int none (effHi z) (by intro l h; cases h)
  · show (match (some (l : Rat)) with
       | some m => if m ≥ 0 then adjustUnsigned (some (l : Rat)) ((effHi z).map (fun i => (i : Rat)))
                   else adjustSigned (some (l : Rat)) ((effHi z).map (fun i => (i : Rat)))
       | none => adjustSigned (some (l : Rat)) ((effHi z).map (fun i => (i : Rat)))) = chooseZ (some l) (effHi z)
    by_cases h : l ≥ 0
    · have h' : (l : Rat) ≥ 0 := by exact_mod_cast h
      simp only [h', ↓reduceIte]
      exact adjustUnsigned_int l (effHi z) h
    · have h' : ¬ (l : Rat) ≥ 0 := by exact_mod_cast h
      simp only [h', ↓reduceIte]
      exact adjustSigned_int (some l) (effHi z) (by intro l' hl'; cases hl'; omega)

/-! ### the selection is right (integer arithmetic only) -/

/-- scope F15: every stated constant within ±2^53 (exactly representable; far from the 64-bit limits) -/
def InF15 (z : ZBounds) : Prop :=
  (∀ l, effLo z = some l → -9007199254740993 ≤ l ∧ l ≤ 9007199254740993) ∧
  (∀ h, effHi z = some h → -9007199254740993 ≤ h ∧ h ≤ 9007199254740993)

theorem hi_of_hiCmp_small (k : IntKind) (h : Int) (hD : h ≤ 9007199254740993) (he : h = k.hiCmp) : k.hi = h := by
  cases k <;> simp only [IntKind.hiCmp, IntKind.hi] at * <;> omega

theorem unsignedChoice_spec (rm : Bool) (h : Int) :
    (unsignedChoice rm h).rmLo = rm ∧ (unsignedChoice rm h).kind.lo = 0 ∧
    ((unsignedChoice rm h).rmHi = true → h = (unsignedChoice rm h).kind.hiCmp) := by
  unfold unsignedChoice
  (repeat' split) <;> simp [IntKind.lo, IntKind.hi, IntKind.hiCmp]

theorem signedChoice_spec (l h : Int) :
    ((signedChoice l h).rmLo = true → l = (signedChoice l h).kind.lo) ∧
    ((signedChoice l h).rmHi = true → h = (signedChoice l h).kind.hiCmp) := by
  unfold signedChoice
  (repeat' split) <;> simp [IntKind.lo, IntKind.hi, IntKind.hiCmp]

/-- **a dropped lower bound is implied by the type**: if the minimum is removed, the chosen kind's least
    value IS the least admitted integer -/
theorem rmLo_implied (lo hi : Option Int) (l : Int) (h : lo = some l) (hr : (chooseZ lo hi).rmLo = true) :
    (chooseZ lo hi).kind.lo = l := by
  subst h
  unfold chooseZ at *
  by_cases hc : l ≥ 0 <;> rcases hi with _ | hh <;> simp only [hc, ↓reduceIte, beq_iff_eq] at hr ⊢
  · simp only [IntKind.lo]; omega
  · have := unsignedChoice_spec (l == 0) hh
    rw [this.1] at hr; rw [this.2.1]; simp at hr; omega
  · simp only [IntKind.lo] at *; omega
  · exact ((signedChoice_spec l hh).1 hr).symm

theorem rmLo_none (hi : Option Int) : (chooseZ none hi).rmLo = false := by
  rcases hi with _ | h <;> rfl

/-- **a dropped upper bound is implied by the type** -/
theorem rmHi_implied (lo hi : Option Int) (h : Int) (hh : hi = some h) (hD : h ≤ 9007199254740993)
    (hr : (chooseZ lo hi).rmHi = true) : (chooseZ lo hi).kind.hi = h := by
  subst hh
  unfold chooseZ at *
  rcases lo with _ | l
  · simp only [beq_iff_eq] at hr ⊢; exact hi_of_hiCmp_small _ _ hD hr
  · by_cases hc : l ≥ 0 <;> simp only [hc, ↓reduceIte] at hr ⊢
    · exact hi_of_hiCmp_small _ _ hD ((unsignedChoice_spec (l == 0) h).2.2 hr)
    · exact hi_of_hiCmp_small _ _ hD ((signedChoice_spec l h).2 hr)

theorem rmHi_none (lo : Option Int) : (chooseZ lo none).rmHi = false := by
  rcases lo with _ | l
  · rfl
  · unfold chooseZ; by_cases hc : l ≥ 0 <;> simp [hc]

theorem unsignedChoice_fits (rm : Bool) (h v : Int) (h0 : 0 ≤ v) (hv : v ≤ h) (hh : h ≤ 9007199254740993) :
    (unsignedChoice rm h).kind.inRange v := by
  unfold unsignedChoice IntKind.inRange
  (repeat' split) <;> simp only [IntKind.lo, IntKind.hi] at * <;> omega

theorem signedChoice_fits (l h v : Int) (hl : l ≤ v) (hv : v ≤ h) (h1 : -9007199254740993 ≤ l) (h2 : h ≤ 9007199254740993) :
    (signedChoice l h).kind.inRange v := by
  unfold signedChoice IntKind.inRange
  (repeat' split) <;> simp only [IntKind.lo, IntKind.hi] at * <;> omega

/-- **the chosen type can represent every admitted integer** (that an `int64` can hold at all) -/
theorem kind_fits (lo hi : Option Int) (v : Int)
    (hlo : ∀ l, lo = some l → -9007199254740993 ≤ l) (hhi : ∀ h, hi = some h → h ≤ 9007199254740993)
    (hv1 : ∀ l, lo = some l → l ≤ v) (hv2 : ∀ h, hi = some h → v ≤ h) (h64 : IntKind.int.inRange v) :
    (chooseZ lo hi).kind.inRange v := by
  have h64' := h64
  unfold IntKind.inRange at h64'
  simp only [IntKind.lo, IntKind.hi] at h64'
  rcases lo with _ | l <;> rcases hi with _ | h
  · simp only [chooseZ, IntKind.inRange, IntKind.lo, IntKind.hi]; omega
  · simp only [chooseZ, IntKind.inRange, IntKind.lo, IntKind.hi]; omega
  · have := hv1 l rfl
    unfold chooseZ
    by_cases hc : l ≥ 0 <;> simp only [hc, ↓reduceIte, IntKind.inRange, IntKind.lo, IntKind.hi] <;> omega
  · have h1 := hv1 l rfl; have h2 := hv2 h rfl; have h3 := hlo l rfl; have h4 := hhi h rfl
    unfold chooseZ
    by_cases hc : l ≥ 0 <;> simp only [hc, ↓reduceIte]
    · exact unsignedChoice_fits _ h v (by omega) h2 h4
    · exact signedChoice_fits l h v h1 h2 h3 h4

theorem unsignedChoice_minimal (rm : Bool) (h : Int) (k : IntKind)
    (hk : k = .u8 ∨ k = .u16 ∨ k = .u32 ∨ k = .u64) (hfit : h ≤ k.hi) :
    (unsignedChoice rm h).kind.hi ≤ k.hi := by
  unfold unsignedChoice
  rcases hk with rfl | rfl | rfl | rfl <;> (repeat' split) <;> simp only [IntKind.hi] at * <;> omega

theorem signedChoice_minimal (l h : Int) (k : IntKind)
    (hk : k = .i8 ∨ k = .i16 ∨ k = .i32 ∨ k = .i64) (hfit : k.lo ≤ l ∧ h ≤ k.hi) :
    (signedChoice l h).kind.hi ≤ k.hi := by
  unfold signedChoice
  rcases hk with rfl | rfl | rfl | rfl <;> (repeat' split) <;> simp only [IntKind.hi, IntKind.lo] at * <;> omega

/-- **the chosen type is the narrowest**: with both bounds present no kind of the same signedness with a
    smaller range contains the admitted interval -/
theorem kind_minimal_unsigned (l h : Int) (hl : 0 ≤ l) (k : IntKind)
    (hk : k = .u8 ∨ k = .u16 ∨ k = .u32 ∨ k = .u64) (hfit : k.inRange l ∧ k.inRange h) :
    (chooseZ (some l) (some h)).kind.hi ≤ k.hi := by
  have hc : l ≥ 0 := hl
  simp only [chooseZ, hc, ↓reduceIte]
  exact unsignedChoice_minimal _ h k hk hfit.2.2

theorem kind_minimal_signed (l h : Int) (hl : l < 0) (k : IntKind)
    (hk : k = .i8 ∨ k = .i16 ∨ k = .i32 ∨ k = .i64) (hfit : k.inRange l ∧ k.inRange h) :
    (chooseZ (some l) (some h)).kind.hi ≤ k.hi := by
  have hc : ¬ l ≥ 0 := by omega
  simp only [chooseZ, hc, ↓reduceIte]
  exact signedChoice_minimal l h k hk ⟨hfit.1.1, hfit.2.2⟩

/-! ### acceptance with and without the flag -/

/-- acceptance of an integer by the generated code, in integer terms: it must fit the kind (G2) and pass the
    bound checks that were left -/
def accOnZ (z : ZBounds) (v : Int) : Prop :=
  let r := chooseZ (effLo z) (effHi z)
  r.kind.inRange v ∧ (r.rmLo = false → ∀ l, effLo z = some l → l ≤ v) ∧ (r.rmHi = false → ∀ h, effHi z = some h → v ≤ h)

def accOffZ (z : ZBounds) (v : Int) : Prop := IntKind.int.inRange v ∧ specZ z v

/-- **C15 (integer level)**: for every integer an `int64` can hold, the flag does not change acceptance -/
theorem same_accepts_Z (z : ZBounds) (v : Int) (hD : InF15 z) (h64 : IntKind.int.inRange v) :
    accOnZ z v ↔ accOffZ z v := by
  unfold accOnZ accOffZ specZ
  constructor
  · intro ⟨hr, hl, hh⟩
    refine ⟨h64, ?_, ?_⟩
    · intro l hl'
      cases hrm : (chooseZ (effLo z) (effHi z)).rmLo
      · exact hl hrm l hl'
      · have := rmLo_implied (effLo z) (effHi z) l hl' hrm
        unfold IntKind.inRange at hr; omega
    · intro h hh'
      cases hrm : (chooseZ (effLo z) (effHi z)).rmHi
      · exact hh hrm h hh'
      · have := rmHi_implied (effLo z) (effHi z) h hh' (hD.2 h hh').2 hrm
        unfold IntKind.inRange at hr; omega
  · intro ⟨_, hl, hh⟩
    refine ⟨?_, fun _ => hl, fun _ => hh⟩
    exact kind_fits (effLo z) (effHi z) v (fun l h => (hD.1 l h).1) (fun h hh' => (hD.2 h hh').2) hl hh h64

/-- the flag-on acceptance is exactly: admitted by the schema AND representable in the chosen kind -/
theorem accOn_iff_spec (z : ZBounds) (v : Int) (hD : InF15 z) :
    accOnZ z v ↔ (specZ z v ∧ (chooseZ (effLo z) (effHi z)).kind.inRange v) := by
  unfold accOnZ specZ
  constructor
  · intro ⟨hr, hl, hh⟩
    refine ⟨⟨?_, ?_⟩, hr⟩
    · intro l hl'
      cases hrm : (chooseZ (effLo z) (effHi z)).rmLo
      · exact hl hrm l hl'
      · have := rmLo_implied (effLo z) (effHi z) l hl' hrm
        unfold IntKind.inRange at hr; omega
    · intro h hh'
      cases hrm : (chooseZ (effLo z) (effHi z)).rmHi
      · exact hh hrm h hh'
      · have := rmHi_implied (effLo z) (effHi z) h hh' (hD.2 h hh').2 hrm
        unfold IntKind.inRange at hr; omega
  · intro ⟨⟨hl, hh⟩, hr⟩
    exact ⟨hr, fun _ => hl, fun _ => hh⟩

/-- known finding K14 (the unrestricted statement is false of the feature's design): with the flag on,
    `minimum: 0` gives `uint64`, which accepts 2^63; without the flag `int` cannot hold it -/
theorem KF_uint64_wider :
    accOnZ { lo := some 0 } 9223372036854775808 ∧ ¬ accOffZ { lo := some 0 } 9223372036854775808 := by
  constructor
  · unfold accOnZ; simp [effLo, effHi, chooseZ, IntKind.inRange, IntKind.lo, IntKind.hi]
  · unfold accOffZ IntKind.inRange; simp [IntKind.lo, IntKind.hi]

example : (chooseZ (some 0) (some 255)).kind = .u8 ∧ (chooseZ (some 0) (some 255)).rmLo = true ∧
    (chooseZ (some 0) (some 255)).rmHi = true := by decide
example : InF15 { lo := some 0, hi := some 10, xhi := .flag true } := by
  constructor <;> intro l h <;> simp [effLo, effHi] at h <;> omega
example : getMinIntType (some 0) (some 10) .absent (.flag true) = ⟨.u8, true, false⟩ := by
  have := getMinIntType_int { lo := some 0, hi := some 10, xhi := .flag true }
  simpa [ZBounds.toIB, XBZ.toXB, effLo, effHi, chooseZ, unsignedChoice, IntKind.hiCmp, IntKind.hi] using this


/-! ### link to the executable `intAccepts` (what the driver runs and the harness compares) -/

theorem integralBounds_toIB (z : ZBounds) (mult : Option Rat) : C05.IntegralBounds (z.toIB.check mult) := by
  rcases z with ⟨lo, hi, xlo, xhi⟩
  refine ⟨?_, ?_, ?_, ?_⟩
  · intro m h
    rcases lo with _ | l <;> simp [ZBounds.toIB, IntBounds.check] at h
    subst h; exact Rat.den_intCast l
  · intro m h
    rcases hi with _ | l <;> simp [ZBounds.toIB, IntBounds.check] at h
    subst h; exact Rat.den_intCast l
  · intro q h
    rcases xlo with _ | b | i <;> simp [ZBounds.toIB, IntBounds.check, XBZ.toXB] at h
    subst h; exact Rat.den_intCast i
  · intro q h
    rcases xhi with _ | b | i <;> simp [ZBounds.toIB, IntBounds.check, XBZ.toXB] at h
    subst h; exact Rat.den_intCast i

theorem toXB_ne_other (x : XBZ) : x.toXB ≠ .other := by cases x <;> simp [XBZ.toXB]

/-- the stated lower bounds, on integers -/
theorem specLo_int (z : ZBounds) (v : Int) :
    C05.specLo (z.lo.map (fun i => (i : Rat))) z.xlo.toXB (v : Rat) ↔ (∀ l, effLo z = some l → l ≤ v) := by
  rcases z with ⟨lo, hi, xlo, xhi⟩
  unfold C05.specLo
  rcases lo with _ | m <;> rcases xlo with _ | b | q <;> simp [effLo, XBZ.toXB]
  · constructor <;> intro h <;> omega
  · cases b <;> simp
    · constructor <;> intro h
      · have : m < v := by exact_mod_cast h
        omega
      · have : m < v := by omega
        exact_mod_cast this
  · constructor
    · intro ⟨h1, h2⟩
      have h1' : m ≤ v := by exact_mod_cast h1
      have h2' : q < v := by exact_mod_cast h2
      split <;> omega
    · intro h
      constructor
      · have : m ≤ v := by split at h <;> omega
        exact_mod_cast this
      · have : q < v := by split at h <;> omega
        exact_mod_cast this

theorem specHi_int (z : ZBounds) (v : Int) :
    C05.specHi (z.hi.map (fun i => (i : Rat))) z.xhi.toXB (v : Rat) ↔ (∀ h, effHi z = some h → v ≤ h) := by
  rcases z with ⟨lo, hi, xlo, xhi⟩
  unfold C05.specHi
  rcases hi with _ | m <;> rcases xhi with _ | b | q <;> simp [effHi, XBZ.toXB]
  · constructor <;> intro h <;> omega
  · cases b <;> simp
    · constructor <;> intro h
      · have : v < m := by exact_mod_cast h
        omega
      · have : v < m := by omega
        exact_mod_cast this
  · constructor
    · intro ⟨h1, h2⟩
      have h1' : v ≤ m := by exact_mod_cast h1
      have h2' : v < q := by exact_mod_cast h2
      split <;> omega
    · intro h
      constructor
      · have : v ≤ m := by split at h <;> omega
        exact_mod_cast this
      · have : v < q := by split at h <;> omega
        exact_mod_cast this

/-- passing the emitted bound checks of integral bounds, in integer terms -/
theorem passes_int (z : ZBounds) (v : Int) :
    (z.toIB.check).passes (v : Rat) = true ↔ specZ z v := by
  rw [C05.int_bounds_exact _ v rfl rfl (toXB_ne_other _) (toXB_ne_other _)]
  rw [C05.boundsOK_iff]
  simp only [IntBounds.check, ZBounds.toIB]
  rw [specLo_int, specHi_int]
  rfl

theorem inRangeB_iff (k : IntKind) (v : Int) : k.inRangeB v = true ↔ k.inRange v := by
  simp [IntKind.inRangeB, IntKind.inRange]

/-- without the flag: `int` plus all stated bounds -/
theorem intAccepts_off (z : ZBounds) (v : Int) : intAccepts false z.toIB v = true ↔ accOffZ z v := by
  unfold intAccepts primitiveInt accOffZ
  simp only [Bool.not_false, ↓reduceIte, Bool.and_eq_true, inRangeB_iff, passes_int]

/-- clearing the lower side of integral bounds -/
def ZBounds.clearLo (z : ZBounds) : ZBounds := { z with lo := none, xlo := .absent }
def ZBounds.clearHi (z : ZBounds) : ZBounds := { z with hi := none, xhi := .absent }

theorem effLo_clearLo (z : ZBounds) : effLo z.clearLo = none := rfl
theorem effHi_clearLo (z : ZBounds) : effHi z.clearLo = effHi z := rfl
theorem effHi_clearHi (z : ZBounds) : effHi z.clearHi = none := rfl
theorem effLo_clearHi (z : ZBounds) : effLo z.clearHi = effLo z := rfl

/-- with the flag: the chosen kind, and the bounds that were not removed -/
theorem intAccepts_on (z : ZBounds) (v : Int) : intAccepts true z.toIB v = true ↔ accOnZ z v := by
  unfold intAccepts primitiveInt accOnZ
  simp only [Bool.not_true, Bool.false_eq_true, ↓reduceIte]
  rw [getMinIntType_int z]
  generalize hc : chooseZ (effLo z) (effHi z) = c
  rcases c with ⟨k, rl, rh⟩
  simp only [Bool.and_eq_true, inRangeB_iff]
  cases rl <;> cases rh <;> simp only [Bool.false_eq_true, ↓reduceIte]
  · have := passes_int z v
    simp only [this, specZ]; tauto
  · have h : ({ z.toIB with hi := none, xhi := .absent } : IntBounds) = z.clearHi.toIB := rfl
    rw [h, passes_int]
    simp only [specZ, effHi_clearHi, effLo_clearHi]; simp
  · have h : ({ z.toIB with lo := none, xlo := .absent } : IntBounds) = z.clearLo.toIB := rfl
    rw [h, passes_int]
    simp only [specZ, effLo_clearLo, effHi_clearLo]; simp
  · have h : ({ ({ z.toIB with lo := none, xlo := .absent } : IntBounds) with hi := none, xhi := .absent } : IntBounds)
        = z.clearLo.clearHi.toIB := rfl
    rw [h, passes_int]
    simp [specZ, effLo, effHi, ZBounds.clearLo, ZBounds.clearHi]

/-- **C15**: for integral bounds in scope and every integer document value an `int64` can hold, the
    generated code accepts the value with `--min-sized-ints` iff it accepts it without -/
theorem same_accepts (z : ZBounds) (v : Int) (hD : InF15 z) (h64 : IntKind.int.inRange v) :
    intAccepts true z.toIB v = intAccepts false z.toIB v := by
  rw [Bool.eq_iff_iff, intAccepts_on, intAccepts_off]
  exact same_accepts_Z z v hD h64

/-- the type chosen with the flag holds every admitted value an int64 can hold -/
theorem type_fits (z : ZBounds) (v : Int) (hD : InF15 z) (h64 : IntKind.int.inRange v) (hs : specZ z v) :
    (primitiveInt true z.toIB).1.inRange v := by
  unfold primitiveInt
  simp only [Bool.not_true, Bool.false_eq_true, ↓reduceIte]
  rw [getMinIntType_int z]
  exact kind_fits (effLo z) (effHi z) v (fun l h => (hD.1 l h).1) (fun h hh' => (hD.2 h hh').2) hs.1 hs.2 h64

/-! ### the flag rewrites schema nodes in place: what a finished declaration is compared by (K35, K36) -/

/-- without the flag no bound of the node a declaration is compared by is touched (what remains is the int rewrite of
    `type: integer` enum members, which does not depend on the flag) -/
theorem keptSchema_off (cfg : Config) (t : Schema) (h : cfg.minSizedInts = false) : keptSchema cfg t = ecRewriteChildren 32 t := by
  simp [keptSchema, h]

/-- the kept bounds of an integer node whose two bounds the chosen type implies: none at all -/
theorem kept_bounds_cleared (b : IntBounds)
    (hlo : (getMinIntType b.lo b.hi b.xlo b.xhi).rmLo = true) (hhi : (getMinIntType b.lo b.hi b.xlo b.xhi).rmHi = true) :
    (primitiveInt true b).2 = { lo := none, hi := none, xlo := .absent, xhi := .absent } := by
  simp [primitiveInt, hlo, hhi]

def u8Node : Schema := .mk { types := ["integer"], minimum := some 0, maximum := some 255 }
def plainIntNode : Schema := .mk { types := ["integer"] }

theorem u8_choice : getMinIntType (some 0) (some 255) .absent .absent = ⟨.u8, true, true⟩ := by
  have := getMinIntType_int { lo := some 0, hi := some 255 }
  simpa [ZBounds.toIB, XBZ.toXB, effLo, effHi, chooseZ, unsignedChoice, IntKind.hiCmp, IntKind.hi] using this

/-- **K35** (a finding about the code, which the model reproduces): `{integer, 0..255}` and `{integer}` are different
    nodes, but once `--min-sized-ints` has generated the first, the node kept for it IS the second, so the
    second reuses the first's `uint8` -/
theorem KF_rewritten_twin :
    schemaEq u8Node plainIntNode = false ∧
    withBounds u8Node (primitiveInt true (nodeBounds u8Node.node)).2 = plainIntNode := by
  constructor
  · decide
  · have h := kept_bounds_cleared (nodeBounds u8Node.node)
      (by simp [nodeBounds, u8Node, Schema.node, u8_choice]) (by simp [nodeBounds, u8Node, Schema.node, u8_choice])
    rw [h]; rfl

/-- … and an integer node is compared by exactly that rewritten node (`msRewriteNode` is what `resolveRefs` hands to the
    merge: K36) -/
theorem msRewriteNode_integer (f : Nat) (s : Schema) (h : isIntegerNode s.node = true) :
    msRewriteNode (f + 1) s = withBounds s (primitiveInt true (nodeBounds s.node)).2 := by
  simp [msRewriteNode, h]

end GJS.Props.C15

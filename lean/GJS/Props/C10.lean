import GJS.Model.Gen
import GJS.Spec
import GJS.Props.C03
import GJS.Props.C04
/-
  C10 — $ref is transparent, resolves relative to its document, and may recurse.
-/
namespace GJS.Props.C10
open GJS

/-- reference semantics: a reference means its target (an inline copy validates the same documents) -/
theorem spec_ref_is_inline (f : Nat) (defs : Spec.Defs) (s t : Schema) (name : String) (d : Json)
    (href : s.node.ref ≠ "") (hn : Spec.refName s.node.ref = some name) (hl : alookup name defs = some t) :
    Spec.valid (f + 1) defs s d = Spec.valid f defs t d := by
  simp [Spec.valid, href, hn, hl]

/-! ### reference parsing: both pointer prefixes name the same definition -/

theorem idxOf_hash_cons (rest : List Char) : ('#' :: rest).idxOf? '#' = some 0 := by
  simp [List.idxOf?, List.findIdx?_cons]

theorem lower_defs_prefix (name : List Char) :
    "/$defs/".toList.isPrefixOf (lowerChars ("/$defs/".toList ++ name)) = true := by
  simp [lowerChars]

theorem lower_definitions_prefix (name : List Char) :
    "/definitions/".toList.isPrefixOf (lowerChars ("/definitions/".toList ++ name)) = true := by
  simp [lowerChars]

theorem lower_definitions_not_defs (name : List Char) :
    "/$defs/".toList.isPrefixOf (lowerChars ("/definitions/".toList ++ name)) = false := by
  simp [lowerChars, List.isPrefixOf]

/-- `#/$defs/X` names definition X of the same document, for every X -/
theorem extractRef_defs (name : List Char) :
    extractRefNamesL ('#' :: ("/$defs/".toList ++ name)) = .ok (name, []) := by
  unfold extractRefNamesL
  rw [idxOf_hash_cons]
  simp only [List.take_zero, Nat.zero_add, List.drop_one, List.tail_cons, lower_defs_prefix, ↓reduceIte]
  simp

/-- `#/definitions/X` names definition X of the same document, for every X -/
theorem extractRef_definitions (name : List Char) :
    extractRefNamesL ('#' :: ("/definitions/".toList ++ name)) = .ok (name, []) := by
  unfold extractRefNamesL
  rw [idxOf_hash_cons]
  simp only [List.take_zero, Nat.zero_add, List.drop_one, List.tail_cons, lower_definitions_not_defs,
    lower_definitions_prefix, Bool.false_eq_true, ↓reduceIte]
  simp

/-- the two spellings are interchangeable (C13 uses this too) -/
theorem extractRef_prefix_equiv (name : List Char) :
    extractRefNamesL ('#' :: ("/$defs/".toList ++ name)) = extractRefNamesL ('#' :: ("/definitions/".toList ++ name)) := by
  rw [extractRef_defs, extractRef_definitions]

/-- a reference without `#` is a file reference to that file's root -/
theorem extractRef_file (cs : List Char) (h : '#' ∉ cs) : extractRefNamesL cs = .ok ([], cs) := by
  unfold extractRefNamesL
  have : cs.idxOf? '#' = none := by
    simp [List.idxOf?, List.findIdx?_eq_none_iff]
    intro x hx he; subst he; exact h hx
  simp [this]

/-! ### the loader cache (fix R4) -/

/-- the same relative reference used from two different directories gets two different cache entries -/
theorem cacheKey_separates_directories (d1 d2 rel : List String) (h : d1 ≠ d2) :
    cacheKeySegs false (some d1) rel ≠ cacheKeySegs false (some d2) rel := by
  simp only [cacheKeySegs]
  intro he
  exact h (List.append_cancel_right he)

/-- … and from the same directory the same entry (one parsed document, hence one set of types) -/
theorem cacheKey_same_directory (d rel : List String) :
    cacheKeySegs false (some d) rel = cacheKeySegs false (some d) rel := rfl

/-! ### the rejection theorems of C03 / C04 see through references -/

theorem missing_through_ref (defs : Spec.Defs) (s t : Schema) (name : String) (d : Json)
    (href : s.node.ref ≠ "") (hn : Spec.refName s.node.ref = some name) (hl : alookup name defs = some t)
    (h : C04.SpecMissing defs t d) : C04.SpecMissing defs s d :=
  .ref href hn hl h

theorem wrong_type_through_ref (defs : Spec.Defs) (s t : Schema) (name : String) (d : Json)
    (href : s.node.ref ≠ "") (hn : Spec.refName s.node.ref = some name) (hl : alookup name defs = some t)
    (h : C03.SpecWrongType defs t d) : C03.SpecWrongType defs s d :=
  .ref href hn hl h

example : (match extractRefNames "#/$defs/Thing" with | .ok ("Thing", "") => true | _ => false) = true := by decide +kernel
example : (match extractRefNames "other.json#/Definitions/Thing" with | .ok ("Thing", "other.json") => true | _ => false) = true := by
  decide +kernel

end GJS.Props.C10

import GJS.Model.Ident
import GJS.Model.Gen
/-
  C14 — every name maps to a valid, distinct Go identifier bound to its JSON key.
  The identifier state machine is proved over CLASSIFIED runes: Go's `unicode` tables are parameters (checked
  for all 1,114,112 code points by the harness), the machine is what is proved.
-/
namespace GJS.Props.C14
open GJS

/-! ### the splitter -/

def SInv (s : SplitSt) (seen : List Rune) : Prop :=
  (∀ p ∈ s.done, p ≠ [] ∧ ∀ r ∈ p, r.cls ≠ .delim) ∧
  (∀ r ∈ s.part, r.cls ≠ .delim) ∧
  (s.cur = some .delim → s.part = []) ∧
  (s.done.flatten ++ s.part = seen.filter (fun r => r.cls ≠ .delim))

theorem emit_flatten (a : List (List Rune)) (p : List Rune) : (emitPart a p).flatten = a.flatten ++ p := by
  unfold emitPart; split <;> simp_all

theorem emit_mem (a : List (List Rune)) (p q : List Rune) (h : q ∈ emitPart a p) : q ∈ a ∨ (q = p ∧ p ≠ []) := by
  unfold emitPart at h; split at h <;> simp_all

theorem step_inv (s : SplitSt) (seen : List Rune) (r : Rune) (h : SInv s seen) :
    SInv (splitStep s r) (seen ++ [r]) := by
  obtain ⟨h1, h2, h3, h4⟩ := h
  have hdone : ∀ p ∈ emitPart s.done s.part, p ≠ [] ∧ ∀ r ∈ p, r.cls ≠ .delim := by
    intro p hp
    rcases emit_mem _ _ _ hp with hp | ⟨rfl, hne⟩
    · exact h1 p hp
    · exact ⟨hne, h2⟩
  have hpart : ∀ x ∈ s.part ++ [r], r.cls ≠ .delim → x.cls ≠ .delim := by
    intro x hx hd; simp at hx; rcases hx with hx | rfl
    · exact h2 x hx
    · exact hd
  unfold splitStep SInv
  simp only
  by_cases hd : r.cls = .delim
  · have hf : (seen ++ [r]).filter (fun r => r.cls ≠ .delim) = seen.filter (fun r => r.cls ≠ .delim) := by
      simp [List.filter_append, hd]
    rw [hf]
    split
    · exact ⟨h1, h2, h3, h4⟩
    · split
      · rename_i hc hc2; exact absurd (hd ▸ hc2) hc
      · split
        · rename_i hc; rw [hd] at hc; exact absurd hc.2 (by decide)
        · refine ⟨hdone, by simp [hd], by simp [hd], ?_⟩
          simp only [hd, ↓reduceIte, emit_flatten, List.append_nil]; exact h4
  · have hf : (seen ++ [r]).filter (fun r => r.cls ≠ .delim) = seen.filter (fun r => r.cls ≠ .delim) ++ [r] := by
      simp [List.filter_append, hd]
    rw [hf, ← h4]
    split
    · rename_i hc
      refine ⟨h1, fun x hx => hpart x hx hd, ?_, by simp [List.append_assoc]⟩
      intro hcd; simp only at hcd; rw [hc] at hcd; injection hcd with h'; exact absurd h' hd
    · split
      · rename_i hc hc2
        refine ⟨h1, by simpa using hd, by simp; exact hd, ?_⟩
        simp [h3 hc2]
      · split
        · refine ⟨h1, fun x hx => hpart x hx hd, ?_, by simp [List.append_assoc]⟩
          intro hcd; simp only at hcd; injection hcd with h'; exact absurd h' hd
        · refine ⟨hdone, by simpa [hd] using hd, by simp [hd], ?_⟩
          simp [hd, emit_flatten, List.append_assoc]

theorem foldl_inv (rs : List Rune) (s : SplitSt) (seen : List Rune) (h : SInv s seen) :
    SInv (rs.foldl splitStep s) (seen ++ rs) := by
  induction rs generalizing s seen with
  | nil => simpa using h
  | cons r rs ih =>
    have := ih (splitStep s r) (seen ++ [r]) (step_inv s seen r h)
    simpa [List.append_assoc] using this

/-- **the splitter**: the parts are non-empty, contain no delimiter, and together are exactly the non-delimiter
    runes of the name, in order — for any alphabet and any length -/
theorem splitIdent_spec (rs : List Rune) :
    (∀ p ∈ splitIdent rs, p ≠ [] ∧ ∀ r ∈ p, r.cls ≠ .delim) ∧
    (splitIdent rs).flatten = rs.filter (fun r => r.cls ≠ .delim) := by
  have hinv : SInv (rs.foldl splitStep {}) ([] ++ rs) :=
    foldl_inv rs _ [] ⟨by simp, by simp, by simp, by simp⟩
  obtain ⟨h1, h2, _, h4⟩ := hinv
  unfold splitIdent
  simp only
  constructor
  · intro p hp
    rcases emit_mem _ _ _ hp with hp | ⟨rfl, hne⟩
    · exact h1 p hp
    · exact ⟨hne, h2⟩
  · simpa [emit_flatten] using h4

/-! ### Identifierize -/

/-- **never empty**: whatever the input (empty, `*`, only separators, anything) the identifier is non-empty -/
theorem never_empty (caps : List (List RInfo)) (rs : List Rune) : identifierize caps rs ≠ [] := by
  unfold identifierize
  split
  · simp [mkAscii]
  · split
    · simp [mkAscii]
    · unfold identifierizeRunes
      simp only
      split
      · simp [mkAscii]
      · split <;> simp_all

/-- the first rune of the result: a leading non-letter or caseless letter gets the prefix `A` -/
theorem leading_repair (caps : List (List RInfo)) (rs : List Rune) (r0 : RInfo) (rest : List RInfo)
    (h : (splitIdent rs).flatMap (capitalize caps) = r0 :: rest)
    (hbad : (!r0.letter || (!r0.upper && !r0.lower)) = true) :
    identifierizeRunes caps rs = letterA :: r0 :: rest := by
  unfold identifierizeRunes
  simp [h, hbad]

/-- … and an upper- or lower-case letter is kept as the first rune -/
theorem leading_kept (caps : List (List RInfo)) (rs : List Rune) (r0 : RInfo) (rest : List RInfo)
    (h : (splitIdent rs).flatMap (capitalize caps) = r0 :: rest)
    (hok : (!r0.letter || (!r0.upper && !r0.lower)) = false) :
    identifierizeRunes caps rs = r0 :: rest := by
  unfold identifierizeRunes
  simp [h, hok]

/-- without a matching capitalization a part starts with the upper-case image of its first rune and is
    otherwise unchanged -/
theorem capitalize_plain (r : Rune) (rest : List Rune) :
    capitalize [] (r :: rest) = r.up :: rest.map (·.self) := by
  simp [capitalize]

/-- known finding: a leading lower-case letter WITHOUT an upper-case image (`ß`) stays in front: the
    identifier is not exported and the field is silently dropped by encoding/json -/
theorem KF_no_upper_image :
    let sz : RInfo := { cp := 223, lower := true, upper := false, number := false, letter := true, digit := false, fold := 223 }
    validExported (identifierize [] [{ self := sz, up := sz }]) = false := by
  decide +kernel

/-! ### validity of the identifier, for all names over runes that satisfy the table hypotheses -/

/-- what the proof needs from Go's `unicode` tables for one rune of a name (the harness evaluates this
    predicate for all 1,114,112 code points and counts the exceptions) -/
structure TableOK (r : Rune) : Prop where
  cased_letter : (r.self.lower = true ∨ r.self.upper = true) → r.self.letter = true
  number_digit : r.self.number = true → r.self.digit = true
  up_ident : r.cls ≠ .delim → (r.up.letter = true ∨ r.up.digit = true)
  up_not_lower_only : r.up.lower = true → r.up.upper = true

/-- a rune that may appear inside a Go identifier after the first position -/
def identRune (r : RInfo) : Bool := r.letter || r.cp == 95 || r.digit

theorem nondelim_identRune (r : Rune) (h : TableOK r) (hd : r.cls ≠ .delim) : identRune r.self = true := by
  unfold Rune.cls RInfo.cls at hd
  unfold identRune
  by_cases h1 : r.self.lower = true
  · simp [h.cased_letter (Or.inl h1)]
  · by_cases h2 : r.self.upper = true
    · simp [h.cased_letter (Or.inr h2)]
    · by_cases h3 : r.self.number = true
      · simp [h.number_digit h3]
      · by_cases h4 : r.self.letter = true
        · simp [h4]
        · simp [h1, h2, h3, h4] at hd

theorem up_identRune (r : Rune) (h : TableOK r) (hd : r.cls ≠ .delim) : identRune r.up = true := by
  unfold identRune
  rcases h.up_ident hd with h1 | h1 <;> simp [h1]

theorem capitalize_all (p : List Rune) (hp : ∀ r ∈ p, TableOK r ∧ r.cls ≠ .delim) :
    (capitalize [] p).all identRune = true := by
  cases p with
  | nil => simp [capitalize]
  | cons a as =>
    simp only [capitalize_plain, List.all_cons, List.all_map, Bool.and_eq_true, List.all_eq_true]
    refine ⟨up_identRune a (hp a (by simp)).1 (hp a (by simp)).2, ?_⟩
    intro x hx
    exact nondelim_identRune x (hp x (by simp [hx])).1 (hp x (by simp [hx])).2

theorem flatMap_all (ps : List (List Rune)) (h : ∀ p ∈ ps, ∀ r ∈ p, TableOK r ∧ r.cls ≠ .delim) :
    (ps.flatMap (capitalize [])).all identRune = true := by
  induction ps with
  | nil => simp
  | cons p ps ih =>
    simp only [List.flatMap_cons, List.all_append, Bool.and_eq_true]
    exact ⟨capitalize_all p (h p (by simp)), ih (fun q hq => h q (by simp [hq]))⟩

theorem valid_blank : validExported (mkAscii "Blank") = true := by decide +kernel
theorem valid_wildcard : validExported (mkAscii "Wildcard") = true := by decide +kernel
theorem valid_undefined : validExported (mkAscii "Undefined") = true := by decide +kernel

/-- **C14, identifiers**: for every name — any length, any alphabet — whose runes satisfy the table
    hypotheses, `Identifierize` (no capitalizations) yields a valid exported Go identifier -/
theorem ident_valid (rs : List Rune) (h : ∀ r ∈ rs, TableOK r) : validExported (identifierize [] rs) = true := by
  unfold identifierize
  split
  · exact valid_blank
  · split
    · exact valid_wildcard
    · obtain ⟨hparts, hflat⟩ := splitIdent_spec rs
      have hmem : ∀ p ∈ splitIdent rs, ∀ r ∈ p, TableOK r ∧ r.cls ≠ .delim := by
        intro p hp r hr
        have hin : r ∈ (splitIdent rs).flatten := List.mem_flatten.mpr ⟨p, hp, hr⟩
        rw [hflat] at hin
        exact ⟨h r (List.mem_filter.mp hin).1, (hparts p hp).2 r hr⟩
      have hall := flatMap_all (splitIdent rs) hmem
      unfold identifierizeRunes
      simp only
      cases hps : splitIdent rs with
      | nil => simp [valid_undefined]
      | cons p0 ps =>
        have hp0 := (hparts p0 (by simp [hps])).1
        cases p0 with
        | nil => exact absurd rfl hp0
        | cons a as =>
          rw [hps] at hall
          simp only [List.flatMap_cons, capitalize_plain, List.cons_append] at hall ⊢
          have hall' := hall
          simp only [List.all_cons, Bool.and_eq_true] at hall'
          have ha := hmem (a :: as) (by simp [hps]) a (by simp)
          split
          · -- repaired with a leading `A`
            simp only [validExported, letterA, Bool.and_self, Bool.true_and]
            exact hall
          · rename_i hgood
            simp only [validExported, Bool.and_eq_true]
            refine ⟨?_, hall'.2⟩
            have hg : a.up.letter = true ∧ (a.up.upper = false → a.up.lower = true) := by
              simp at hgood
              exact hgood
            refine ⟨hg.1, ?_⟩
            cases hu : a.up.upper with
            | true => rfl
            | false => exact (hu ▸ ha.1.up_not_lower_only (hg.2 hu))

/-- the hypotheses are satisfiable by a non-trivial name, and the conclusion is what the driver computes -/
example : validExported (identifierize [] ("foo_bar 9x".toList.map asciiRune)) = true := by decide +kernel


/-- a configured capitalization (`--capitalization ID`): identifier runes, not starting with a lower-case-only letter -/
def CapOK (c : List RInfo) : Prop :=
  c.all identRune = true ∧ ∀ r0 ∈ c.head?, r0.lower = true → r0.upper = true

theorem capitalize_cases (caps : List (List RInfo)) (a : Rune) (as : List Rune) :
    (∃ c ∈ caps, c.length = (a :: as).length ∧ capitalize caps (a :: as) = c) ∨
    capitalize caps (a :: as) = a.up :: as.map (·.self) := by
  unfold capitalize
  cases hf : caps.find? (fun c => equalFold c ((a :: as).map (·.self))) with
  | none => right; rfl
  | some c =>
    left
    refine ⟨c, List.mem_of_find?_eq_some hf, ?_, rfl⟩
    have := List.find?_some hf
    unfold equalFold at this
    simp only [Bool.and_eq_true, beq_iff_eq] at this
    simpa using this.1

theorem capitalize_all' (caps : List (List RInfo)) (hc : ∀ c ∈ caps, CapOK c) (p : List Rune)
    (hp : ∀ r ∈ p, TableOK r ∧ r.cls ≠ .delim) : (capitalize caps p).all identRune = true := by
  cases p with
  | nil => simp [capitalize]
  | cons a as =>
    rcases capitalize_cases caps a as with ⟨c, hcm, _, heq⟩ | heq
    · rw [heq]; exact (hc c hcm).1
    · rw [heq, ← capitalize_plain]; exact capitalize_all (a :: as) hp

theorem flatMap_all' (caps : List (List RInfo)) (hc : ∀ c ∈ caps, CapOK c) (ps : List (List Rune))
    (h : ∀ p ∈ ps, ∀ r ∈ p, TableOK r ∧ r.cls ≠ .delim) :
    (ps.flatMap (capitalize caps)).all identRune = true := by
  induction ps with
  | nil => simp
  | cons p ps ih =>
    simp only [List.flatMap_cons, List.all_append, Bool.and_eq_true]
    exact ⟨capitalize_all' caps hc p (h p (by simp)), ih (fun q hq => h q (by simp [hq]))⟩

/-- the first rune of a capitalized non-empty part is not a lower-case-only letter -/
theorem capitalize_head (caps : List (List RInfo)) (hc : ∀ c ∈ caps, CapOK c) (a : Rune) (as : List Rune)
    (ha : TableOK a) : ∃ r0 rest, capitalize caps (a :: as) = r0 :: rest ∧ (r0.lower = true → r0.upper = true) := by
  rcases capitalize_cases caps a as with ⟨c, hcm, hlen, heq⟩ | heq
  · cases c with
    | nil => simp at hlen
    | cons r0 rest =>
      refine ⟨r0, rest, heq, ?_⟩
      exact (hc _ hcm).2 r0 (by simp)
  · exact ⟨a.up, as.map (·.self), heq, ha.up_not_lower_only⟩

/-- **C14, identifiers, with capitalizations**: for every name whose runes satisfy the table hypotheses and
    every set of well-formed capitalizations, `Identifierize` yields a valid exported Go identifier -/
theorem ident_valid_caps (caps : List (List RInfo)) (hc : ∀ c ∈ caps, CapOK c) (rs : List Rune)
    (h : ∀ r ∈ rs, TableOK r) : validExported (identifierize caps rs) = true := by
  unfold identifierize
  split
  · exact valid_blank
  · split
    · exact valid_wildcard
    · obtain ⟨hparts, hflat⟩ := splitIdent_spec rs
      have hmem : ∀ p ∈ splitIdent rs, ∀ r ∈ p, TableOK r ∧ r.cls ≠ .delim := by
        intro p hp r hr
        have hin : r ∈ (splitIdent rs).flatten := List.mem_flatten.mpr ⟨p, hp, hr⟩
        rw [hflat] at hin
        exact ⟨h r (List.mem_filter.mp hin).1, (hparts p hp).2 r hr⟩
      have hall := flatMap_all' caps hc (splitIdent rs) hmem
      unfold identifierizeRunes
      simp only
      cases hps : splitIdent rs with
      | nil => simp [valid_undefined]
      | cons p0 ps =>
        have hp0 := (hparts p0 (by simp [hps])).1
        cases p0 with
        | nil => exact absurd rfl hp0
        | cons a as =>
          rw [hps] at hall
          have ha := hmem (a :: as) (by simp [hps]) a (by simp)
          obtain ⟨r0, rest, heq, hup⟩ := capitalize_head caps hc a as ha.1
          simp only [List.flatMap_cons, heq, List.cons_append] at hall ⊢
          have hall' := hall
          simp only [List.all_cons, Bool.and_eq_true] at hall'
          split
          · simp only [validExported, letterA, Bool.and_self, Bool.true_and]
            exact hall
          · rename_i hgood
            simp only [validExported, Bool.and_eq_true]
            refine ⟨?_, hall'.2⟩
            have hg : r0.letter = true ∧ (r0.upper = false → r0.lower = true) := by
              simp at hgood
              exact hgood
            refine ⟨hg.1, ?_⟩
            cases hu : r0.upper with
            | true => rfl
            | false => exact (hu ▸ hup (hg.2 hu))

example : CapOK (mkAscii "ID") := by
  refine ⟨by decide +kernel, ?_⟩
  intro r0 h0 hl
  simp [mkAscii] at h0
  subst h0
  revert hl; decide +kernel


/-! ### the tag carries the exact property name -/

/-- every tag of a field quotes the raw property name (with `,omitempty` iff optional), whatever the name -/
theorem tag_is_raw_name (cfg : Config) (name : String) (req : Bool) (tg : String) (h : tg ∈ cfg.tags) :
    (if req then s!"{tg}:\"{name}\"" else s!"{tg}:\"{name},omitempty\"") ∈
      (cfg.tags.map fun tg => if req then s!"{tg}:\"{name}\"" else s!"{tg}:\"{name},omitempty\"") :=
  List.mem_map.mpr ⟨tg, h, rfl⟩

/-! ### fresh type names -/

/-- `uniqueTypeName` probes `name_1, name_2, …`: the name it returns is not taken, unless every candidate it
    could try within its budget is taken -/
theorem probeName_fresh (keys : List String) (name : String) :
    ∀ (f k : Nat), probeName keys name f k ∉ keys ∨ (∀ j, j ≤ f → s!"{name}_{k + j}" ∈ keys) := by
  intro f
  induction f with
  | zero =>
    intro k
    by_cases h : s!"{name}_{k}" ∈ keys
    · right; intro j hj; have : j = 0 := by omega
      subst this; simpa using h
    · left; simpa [probeName] using h
  | succ f ih =>
    intro k
    simp only [probeName]
    by_cases h : keys.contains s!"{name}_{k}" = true
    · simp only [h, ↓reduceIte]
      rcases ih (k + 1) with h' | h'
      · left; exact h'
      · right
        intro j hj
        cases j with
        | zero => simpa using h
        | succ j =>
          have := h' j (by omega)
          have e : k + 1 + j = k + (j + 1) := by omega
          rw [e] at this; exact this
    · simp only [h, Bool.false_eq_true, ↓reduceIte]
      left; simpa using h

example : (identifierizeStr [] "foo_bar") = "FooBar" := by decide +kernel
example : validExported (identifierize [] ("9lives".toList.map asciiRune)) = true := by decide +kernel

/-! ### distinct field names -/

/-- a base name without underscore: what `Identifierize` returns (separators are removed) -/
def NoUnderscore (s : String) : Prop := '_' ∉ s.toList

theorem sfx_toList (b : String) (k : Nat) :
    (b ++ "_" ++ toString k).toList = b.toList ++ '_' :: Nat.toDigits 10 k := by
  simp [String.toList_append]

theorem split_unique : ∀ (xs ys ds es : List Char), '_' ∉ xs → '_' ∉ ys →
    xs ++ '_' :: ds = ys ++ '_' :: es → xs = ys ∧ ds = es := by
  intro xs
  induction xs with
  | nil =>
    intro ys ds es _ hy h
    cases ys with
    | nil => simpa using h
    | cons y ys => simp at h; exact absurd (h.1 ▸ List.mem_cons_self) hy
  | cons x xs ih =>
    intro ys ds es hx hy h
    cases ys with
    | nil => simp at h; exact absurd (h.1 ▸ List.mem_cons_self) hx
    | cons y ys =>
      simp only [List.cons_append, List.cons.injEq] at h
      obtain ⟨r1, r2⟩ := ih ys ds es (fun m => hx (List.mem_cons_of_mem _ m)) (fun m => hy (List.mem_cons_of_mem _ m)) h.2
      exact ⟨by rw [h.1, r1], r2⟩

theorem toDigits_inj {j k : Nat} (h : Nat.toDigits 10 j = Nat.toDigits 10 k) : j = k := by
  have := congrArg (fun l => Nat.ofDigitChars 10 l 0) h
  simpa using this

/-- a suffixed name is not an underscore-free name -/
theorem sfx_ne_base (b b' : String) (k : Nat) (h' : NoUnderscore b') : b ++ "_" ++ toString k ≠ b' := by
  intro h
  have := congrArg String.toList h
  rw [sfx_toList] at this
  apply h'
  rw [← this]
  simp

/-- suffixed names are equal only if base and number are -/
theorem sfx_inj (b b' : String) (j k : Nat) (hb : NoUnderscore b) (hb' : NoUnderscore b')
    (h : b ++ "_" ++ toString j = b' ++ "_" ++ toString k) : b = b' ∧ j = k := by
  have := congrArg String.toList h
  rw [sfx_toList, sfx_toList] at this
  obtain ⟨r1, r2⟩ := split_unique _ _ _ _ hb hb' this
  exact ⟨String.toList_inj.mp r1, toDigits_inj r2⟩

/-- names the bookkeeping has handed out so far -/
def UsedBy (u : List (String × Nat)) (n : String) : Prop :=
  ∃ b c, (b, c) ∈ u ∧ (n = b ∨ ∃ k, 2 ≤ k ∧ k ≤ c ∧ n = b ++ "_" ++ toString k)

def WF (u : List (String × Nat)) : Prop :=
  (akeys u).Nodup ∧ ∀ b c, (b, c) ∈ u → 1 ≤ c ∧ NoUnderscore b

theorem alookup_mem {α : Type} {k : String} {v : α} : ∀ {kvs : List (String × α)}, alookup k kvs = some v → (k, v) ∈ kvs := by
  intro kvs
  induction kvs with
  | nil => simp [alookup]
  | cons p rest ih =>
    obtain ⟨k', v'⟩ := p
    simp only [alookup]
    split
    · rename_i hk; intro h; cases h; simp [hk]
    · intro h; exact List.mem_cons_of_mem _ (ih h)

theorem unique_value {u : List (String × Nat)} (hn : (akeys u).Nodup) {b : String} {c c' : Nat}
    (h1 : (b, c) ∈ u) (h2 : (b, c') ∈ u) : c = c' := by
  induction u with
  | nil => cases h1
  | cons p rest ih =>
    obtain ⟨k, v⟩ := p
    simp only [akeys, List.map_cons, List.nodup_cons] at hn
    have hk : ∀ x, (b, x) ∈ rest → b ∈ rest.map (·.1) := fun x hx => List.mem_map.mpr ⟨(b, x), hx, rfl⟩
    rcases List.mem_cons.mp h1 with e1 | m1 <;> rcases List.mem_cons.mp h2 with e2 | m2
    · cases e1; cases e2; rfl
    · cases e1; exact absurd (hk _ m2) hn.1
    · cases e2; exact absurd (hk _ m1) hn.1
    · exact ih hn.2 m1 m2

theorem assign_fresh : ∀ (bs : List String) (u : List (String × Nat)), WF u → (∀ b ∈ bs, NoUnderscore b) →
    (assignFieldNames u bs).Nodup ∧ ∀ n ∈ assignFieldNames u bs, ¬ UsedBy u n := by
  intro bs
  induction bs with
  | nil => intro u _ _; simp [assignFieldNames]
  | cons b bs ih =>
    intro u hwf hbs
    have hb : NoUnderscore b := hbs b (by simp)
    have hbs' : ∀ x ∈ bs, NoUnderscore x := fun x hx => hbs x (by simp [hx])
    simp only [assignFieldNames]
    cases hl : alookup b u with
    | none =>
      have hnk : b ∉ akeys u := (alookup_none_iff_not_mem b u).mp hl
      simp only [nextFieldName, hl]
      -- the new state
      have hwf' : WF (u ++ [(b, 1)]) := by
        refine ⟨?_, ?_⟩
        · simp only [akeys, List.map_append, List.map_cons, List.map_nil]
          exact List.nodup_append.mpr ⟨hwf.1, by simp, by
            intro a ha b' hb'; simp at hb'; subst hb'; intro e; subst e; exact hnk ha⟩
        · intro b' c' hm
          rcases List.mem_append.mp hm with hm | hm
          · exact hwf.2 b' c' hm
          · simp at hm; obtain ⟨rfl, rfl⟩ := hm; exact ⟨Nat.le_refl 1, hb⟩
      have hused : ∀ n, UsedBy u n ∨ n = b → UsedBy (u ++ [(b, 1)]) n := by
        intro n h
        rcases h with ⟨b', c', hm, hn⟩ | rfl
        · exact ⟨b', c', List.mem_append_left _ hm, hn⟩
        · exact ⟨n, 1, by simp, Or.inl rfl⟩
      obtain ⟨ihn, ihf⟩ := ih (u ++ [(b, 1)]) hwf' hbs'
      refine ⟨List.nodup_cons.mpr ⟨?_, ihn⟩, ?_⟩
      · intro hmem; exact ihf b hmem (hused b (Or.inr rfl))
      · intro n hn
        rcases List.mem_cons.mp hn with rfl | hn
        · rintro ⟨b', c', hm, h | ⟨k, _, _, h⟩⟩
          · subst h; exact hnk (List.mem_map.mpr ⟨(n, c'), hm, rfl⟩)
          · exact sfx_ne_base b' n k hb h.symm
        · intro hu; exact ihf n hn (hused n (Or.inl hu))
    | some c =>
      have hmem : (b, c) ∈ u := alookup_mem hl
      simp only [nextFieldName, hl]
      let u' := u.map (fun (p : String × Nat) => if p.1 = b then (p.1, c + 1) else p)
      have hkeys : akeys u' = akeys u := by
        simp only [akeys, u', List.map_map]
        apply List.map_congr_left
        intro p _; simp only [Function.comp]; split <;> rfl
      have hwf' : WF u' := by
        refine ⟨hkeys ▸ hwf.1, ?_⟩
        intro b' c' hm
        obtain ⟨p, hp, he⟩ := List.mem_map.mp hm
        split at he
        · rename_i hpb
          cases he
          exact ⟨by omega, (hwf.2 p.1 p.2 hp).2⟩
        · subst he; exact hwf.2 _ _ hp
      have hused : ∀ n, UsedBy u n ∨ n = b ++ "_" ++ toString (c + 1) → UsedBy u' n := by
        intro n h
        rcases h with ⟨b', c', hm, hn⟩ | rfl
        · by_cases hbb : b' = b
          · subst hbb
            have hc : c' = c := unique_value hwf.1 hm hmem
            subst hc
            refine ⟨b', c' + 1, List.mem_map.mpr ⟨(b', c'), hm, by simp⟩, ?_⟩
            rcases hn with h | ⟨k, h1, h2, h3⟩
            · exact Or.inl h
            · exact Or.inr ⟨k, h1, by omega, h3⟩
          · exact ⟨b', c', List.mem_map.mpr ⟨(b', c'), hm, by simp [hbb]⟩, hn⟩
        · have hc1 := (hwf.2 b c hmem).1
          exact ⟨b, c + 1, List.mem_map.mpr ⟨(b, c), hmem, by simp⟩, Or.inr ⟨c + 1, by omega, Nat.le_refl _, rfl⟩⟩
      obtain ⟨ihn, ihf⟩ := ih u' hwf' hbs'
      refine ⟨List.nodup_cons.mpr ⟨?_, ihn⟩, ?_⟩
      · intro hm; exact ihf _ hm (hused _ (Or.inr rfl))
      · intro n hn
        rcases List.mem_cons.mp hn with rfl | hn
        · rintro ⟨b', c', hm, h | ⟨k, _, hk2, h⟩⟩
          · exact sfx_ne_base b b' (c + 1) (hwf.2 b' c' hm).2 h
          · obtain ⟨e1, e2⟩ := sfx_inj b b' (c + 1) k hb (hwf.2 b' c' hm).2 h
            subst e1
            have : c' = c := unique_value hwf.1 hm hmem
            omega
        · intro hu; exact ihf n hn (hused n (Or.inl hu))

/-- **C14, distinct field names**: whatever the property names, however many of them collide after
    normalisation, the Go field names of one struct are pairwise distinct (base names are `Identifierize`
    results, which contain no underscore: separators are removed) -/
theorem field_names_distinct (bases : List String) (h : ∀ b ∈ bases, NoUnderscore b) :
    (assignFieldNames [] bases).Nodup :=
  (assign_fresh bases [] ⟨by simp [akeys], by simp⟩ h).1

example : assignFieldNames [] ["FooBar", "FooBar", "X", "FooBar"] = ["FooBar", "FooBar_2", "X", "FooBar_3"] := by decide +kernel

/-- known limit: a user-supplied identifier (`goJSONSchema.identifier`) WITH an underscore can collide -/
theorem KF_user_identifier_collides : ¬ (assignFieldNames [] ["A", "A", "A_2"]).Nodup := by decide +kernel


end GJS.Props.C14

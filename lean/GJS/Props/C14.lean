import GJS.Model.Ident
import GJS.Model.Gen
/-
  C14 — every name maps to a valid, distinct Go identifier bound to its JSON key.
  The identifier state machine is proved over CLASSIFIED runes: Go's `unicode` tables are parameters (checked
  for all 1,114,112 code points by the harness), the machine is what is proved.
-/
namespace GJS.Props.C14
open GJS

/-! ### the splitter -/

def SInv (s : SplitSt) (seen : List Rune) : Prop :=
  (∀ p ∈ s.done, p ≠ [] ∧ ∀ r ∈ p, r.cls ≠ .delim) ∧
  (∀ r ∈ s.part, r.cls ≠ .delim) ∧
  (s.cur = some .delim → s.part = []) ∧
  (s.done.flatten ++ s.part = seen.filter (fun r => r.cls ≠ .delim))

theorem emit_flatten (a : List (List Rune)) (p : List Rune) : (emitPart a p).flatten = a.flatten ++ p := by
  unfold emitPart; split <;> simp_all

theorem emit_mem (a : List (List Rune)) (p q : List Rune) (h : q ∈ emitPart a p) : q ∈ a ∨ (q = p ∧ p ≠ []) := by
  unfold emitPart at h; split at h <;> simp_all

theorem step_inv (s : SplitSt) (seen : List Rune) (r : Rune) (h : SInv s seen) :
    SInv (splitStep s r) (seen ++ [r]) := by
  obtain ⟨h1, h2, h3, h4⟩ := h
  have hdone : ∀ p ∈ emitPart s.done s.part, p ≠ [] ∧ ∀ r ∈ p, r.cls ≠ .delim := by
    intro p hp
    rcases emit_mem _ _ _ hp with hp | ⟨rfl, hne⟩
    · exact h1 p hp
    · exact ⟨hne, h2⟩
  have hpart : ∀ x ∈ s.part ++ [r], r.cls ≠ .delim → x.cls ≠ .delim := by
    intro x hx hd; simp at hx; rcases hx with hx | rfl
    · exact h2 x hx
    · exact hd
  unfold splitStep SInv
  simp only
  by_cases hd : r.cls = .delim
  · have hf : (seen ++ [r]).filter (fun r => r.cls ≠ .delim) = seen.filter (fun r => r.cls ≠ .delim) := by
      simp [List.filter_append, hd]
    rw [hf]
    split
    · exact ⟨h1, h2, h3, h4⟩
    · split
      · rename_i hc hc2; exact absurd (hd ▸ hc2) hc
      · split
        · rename_i hc; rw [hd] at hc; exact absurd hc.2 (by decide)
        · refine ⟨hdone, by simp [hd], by simp [hd], ?_⟩
          simp only [hd, ↓reduceIte, emit_flatten, List.append_nil]; exact h4
  · have hf : (seen ++ [r]).filter (fun r => r.cls ≠ .delim) = seen.filter (fun r => r.cls ≠ .delim) ++ [r] := by
      simp [List.filter_append, hd]
    rw [hf, ← h4]
    split
    · rename_i hc
      refine ⟨h1, fun x hx => hpart x hx hd, ?_, by simp [List.append_assoc]⟩
      intro hcd; simp only at hcd; rw [hc] at hcd; injection hcd with h'; exact absurd h' hd
    · split
      · rename_i hc hc2
        refine ⟨h1, by simpa using hd, by simp; exact hd, ?_⟩
        simp [h3 hc2]
      · split
        · refine ⟨h1, fun x hx => hpart x hx hd, ?_, by simp [List.append_assoc]⟩
          intro hcd; simp only at hcd; injection hcd with h'; exact absurd h' hd
        · refine ⟨hdone, by simpa [hd] using hd, by simp [hd], ?_⟩
          simp [hd, emit_flatten, List.append_assoc]

theorem foldl_inv (rs : List Rune) (s : SplitSt) (seen : List Rune) (h : SInv s seen) :
    SInv (rs.foldl splitStep s) (seen ++ rs) := by
  induction rs generalizing s seen with
  | nil => simpa using h
  | cons r rs ih =>
    have := ih (splitStep s r) (seen ++ [r]) (step_inv s seen r h)
    simpa [List.append_assoc] using this

/-- **the splitter**: the parts are non-empty, contain no delimiter, and together are exactly the non-delimiter
    runes of the name, in order — for any alphabet and any length -/
theorem splitIdent_spec (rs : List Rune) :
    (∀ p ∈ splitIdent rs, p ≠ [] ∧ ∀ r ∈ p, r.cls ≠ .delim) ∧
    (splitIdent rs).flatten = rs.filter (fun r => r.cls ≠ .delim) := by
  have hinv : SInv (rs.foldl splitStep {}) ([] ++ rs) :=
    foldl_inv rs _ [] ⟨by simp, by simp, by simp, by simp⟩
  obtain ⟨h1, h2, _, h4⟩ := hinv
  unfold splitIdent
  simp only
  constructor
  · intro p hp
    rcases emit_mem _ _ _ hp with hp | ⟨rfl, hne⟩
    · exact h1 p hp
    · exact ⟨hne, h2⟩
  · simpa [emit_flatten] using h4

/-! ### Identifierize -/

/-- **never empty**: whatever the input (empty, `*`, only separators, anything) the identifier is non-empty -/
theorem never_empty (caps : List (List RInfo)) (rs : List Rune) : identifierize caps rs ≠ [] := by
  unfold identifierize
  split
  · simp [mkAscii]
  · split
    · simp [mkAscii]
    · unfold identifierizeRunes
      simp only
      split
      · simp [mkAscii]
      · split <;> simp_all

/-- the first rune of the result: a leading non-letter or caseless letter gets the prefix `A` -/
theorem leading_repair (caps : List (List RInfo)) (rs : List Rune) (r0 : RInfo) (rest : List RInfo)
    (h : (splitIdent rs).flatMap (capitalize caps) = r0 :: rest)
    (hbad : (!r0.letter || (!r0.upper && !r0.lower)) = true) :
    identifierizeRunes caps rs = letterA :: r0 :: rest := by
  unfold identifierizeRunes
  simp [h, hbad]

/-- … and an upper- or lower-case letter is kept as the first rune -/
theorem leading_kept (caps : List (List RInfo)) (rs : List Rune) (r0 : RInfo) (rest : List RInfo)
    (h : (splitIdent rs).flatMap (capitalize caps) = r0 :: rest)
    (hok : (!r0.letter || (!r0.upper && !r0.lower)) = false) :
    identifierizeRunes caps rs = r0 :: rest := by
  unfold identifierizeRunes
  simp [h, hok]

/-- without a matching capitalization a part starts with the upper-case image of its first rune and is
    otherwise unchanged -/
theorem capitalize_plain (r : Rune) (rest : List Rune) :
    capitalize [] (r :: rest) = r.up :: rest.map (·.self) := by
  simp [capitalize]

/-- known finding: a leading lower-case letter WITHOUT an upper-case image (`ß`) stays in front: the
    identifier is not exported and the field is silently dropped by encoding/json -/
theorem KF_no_upper_image :
    let sz : RInfo := { cp := 223, lower := true, upper := false, number := false, letter := true, digit := false, fold := 223 }
    validExported (identifierize [] [{ self := sz, up := sz }]) = false := by
  decide +kernel

/-! ### the tag carries the exact property name -/

/-- every tag of a field quotes the raw property name (with `,omitempty` iff optional), whatever the name -/
theorem tag_is_raw_name (cfg : Config) (name : String) (req : Bool) (tg : String) (h : tg ∈ cfg.tags) :
    (if req then s!"{tg}:\"{name}\"" else s!"{tg}:\"{name},omitempty\"") ∈
      (cfg.tags.map fun tg => if req then s!"{tg}:\"{name}\"" else s!"{tg}:\"{name},omitempty\"") :=
  List.mem_map.mpr ⟨tg, h, rfl⟩

/-! ### fresh type names -/

/-- `uniqueTypeName` probes `name_1, name_2, …`: the name it returns is not taken, unless every candidate it
    could try within its budget is taken -/
theorem probeName_fresh (keys : List String) (name : String) :
    ∀ (f k : Nat), probeName keys name f k ∉ keys ∨ (∀ j, j ≤ f → s!"{name}_{k + j}" ∈ keys) := by
  intro f
  induction f with
  | zero =>
    intro k
    by_cases h : s!"{name}_{k}" ∈ keys
    · right; intro j hj; have : j = 0 := by omega
      subst this; simpa using h
    · left; simpa [probeName] using h
  | succ f ih =>
    intro k
    simp only [probeName]
    by_cases h : keys.contains s!"{name}_{k}" = true
    · simp only [h, ↓reduceIte]
      rcases ih (k + 1) with h' | h'
      · left; exact h'
      · right
        intro j hj
        cases j with
        | zero => simpa using h
        | succ j =>
          have := h' j (by omega)
          have e : k + 1 + j = k + (j + 1) := by omega
          rw [e] at this; exact this
    · simp only [h, Bool.false_eq_true, ↓reduceIte]
      left; simpa using h

example : (identifierizeStr [] "foo_bar") = "FooBar" := by decide +kernel
example : validExported (identifierize [] ("9lives".toList.map asciiRune)) = true := by decide +kernel

end GJS.Props.C14

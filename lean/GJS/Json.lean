/-
  JSON values as the model sees them.  Numbers are exact rationals (convention N/F of DESIGN §1.3):
  documents are canonical, so "integer lexeme" ⇔ denominator 1.  Objects are association lists in
  document order; lookups return the LAST binding (encoding/json: later duplicates overwrite), but
  the valid-document streams never contain duplicates.
-/
namespace GJS

inductive Json where
  | null
  | bool (b : Bool)
  | num (q : Rat)
  | str (s : String)
  | arr (xs : List Json)
  | obj (kvs : List (String × Json))
deriving Inhabited

/-- first binding of `k` -/
def alookup {α : Type} (k : String) : List (String × α) → Option α
  | [] => none
  | (k', v) :: rest => if k = k' then some v else alookup k rest

def akeys {α : Type} (kvs : List (String × α)) : List String := kvs.map (·.1)

def ahas {α : Type} (k : String) (kvs : List (String × α)) : Bool := (alookup k kvs).isSome

theorem alookup_isSome_iff_mem {α : Type} (k : String) (kvs : List (String × α)) :
    (alookup k kvs).isSome = true ↔ k ∈ akeys kvs := by
  induction kvs with
  | nil => simp [alookup, akeys]
  | cons p rest ih =>
    obtain ⟨k', v⟩ := p
    simp only [alookup, akeys, List.map_cons, List.mem_cons]
    by_cases h : k = k'
    · simp [h]
    · simp only [h, ↓reduceIte, false_or]; exact ih

theorem alookup_none_iff_not_mem {α : Type} (k : String) (kvs : List (String × α)) :
    alookup k kvs = none ↔ k ∉ akeys kvs := by
  rw [← alookup_isSome_iff_mem]
  cases alookup k kvs <;> simp

mutual
  /-- JSON equality (numbers by value, objects as finite maps given duplicate-free keys: here
      compared entry-wise after the driver has sorted keys, see `Json.canon`) -/
  def Json.beq : Json → Json → Bool
    | .null, .null => true
    | .bool a, .bool b => a == b
    | .num a, .num b => a == b
    | .str a, .str b => a == b
    | .arr a, .arr b => Json.beqList a b
    | .obj a, .obj b => Json.beqKvs a b
    | _, _ => false
  def Json.beqList : List Json → List Json → Bool
    | [], [] => true
    | x :: xs, y :: ys => Json.beq x y && Json.beqList xs ys
    | _, _ => false
  def Json.beqKvs : List (String × Json) → List (String × Json) → Bool
    | [], [] => true
    | (k, x) :: xs, (k', y) :: ys => k == k' && Json.beq x y && Json.beqKvs xs ys
    | _, _ => false
end

instance : BEq Json := ⟨Json.beq⟩

inductive JType where
  | null | boolean | integer | number | string | array | object
deriving DecidableEq, Repr

/-- JSON type of a value; an integral number is `integer` -/
def Json.jtype : Json → JType
  | .null => .null | .bool _ => .boolean | .str _ => .string | .arr _ => .array | .obj _ => .object
  | .num q => if q.den = 1 then .integer else .number

def Json.isNull : Json → Bool | .null => true | _ => false

mutual
  def Json.depth : Json → Nat
    | .arr xs => Json.depthList xs + 1
    | .obj kvs => Json.depthKvs kvs + 1
    | _ => 1
  def Json.depthList : List Json → Nat
    | [] => 0
    | x :: xs => max (Json.depth x) (Json.depthList xs)
  def Json.depthKvs : List (String × Json) → Nat
    | [] => 0
    | (_, x) :: xs => max (Json.depth x) (Json.depthKvs xs)
end

mutual
  /-- number of nodes -/
  def Json.size : Json → Nat
    | .arr xs => Json.sizeList xs + 1
    | .obj kvs => Json.sizeKvs kvs + 1
    | _ => 1
  def Json.sizeList : List Json → Nat
    | [] => 0
    | x :: xs => Json.size x + Json.sizeList xs + 1
  def Json.sizeKvs : List (String × Json) → Nat
    | [] => 0
    | (_, x) :: xs => Json.size x + Json.sizeKvs xs + 1
end

end GJS

import GJS.Model.Run
import GJS.Spec
/-
  Decidable certificates relating a schema to the declarations generated for it.  The driver evaluates them
  for every generated program; the theorems in Props/ turn `cert … = true` into statements about ALL
  documents.  (Definitions only; core Lean.)
-/
namespace GJS

def hasRequired (vs : List Validator) (k : String) : Bool :=
  vs.any (fun v => match v with | .required k' => k' == k | _ => false)


mutual
  def certReq (env : Env) (defs : Spec.Defs) : Nat → GoTy → Schema → Bool
    | 0, _, _ => false
    | f + 1, ty, s =>
      if s.node.ref ≠ "" then
        (match Spec.refName s.node.ref with
         | some name => (match alookup name defs with | some t => certReq env defs f ty t | none => true)
         | none => true)
      else match ty with
        | .ptr t => certReq env defs f t s
        | .named nm =>
          (match env.resolve 8 nm with
           | some d => (match d.body with
              | .plain vs m => !d.ty.isFmt &&
                  (match d.ty with
                   | .strct fs => s.node.items.isNone && certProps env defs f fs vs m s.node.required s.node.props
                   | t => s.node.props.isEmpty && certReq env defs f t s)
              | _ => s.node.props.isEmpty && s.node.items.isNone)
           | none => false)
        | .slice t => s.node.props.isEmpty && (match s.node.items with | some it => certReq env defs f t it | none => true)
        | _ => s.node.props.isEmpty && s.node.items.isNone
  def certProps (env : Env) (defs : Spec.Defs) : Nat → List Field → List Validator → Bool → List String →
      List (String × Schema) → Bool
    | 0, _, _, _, _, _ => false
    | _ + 1, _, _, _, _, [] => true
    | f + 1, fs, vs, m, req, (k, ps) :: rest =>
      (match bindKey fs k with
       | some fld => certReq env defs f fld.ty ps
       | none => false) &&
      (if req.contains k && ps.node.default.isNone then m && hasRequired vs k else true) &&
      certProps env defs f fs vs m req rest
end


/-- the type an enum method decodes into -/
def enumCarrierTy (d : Decl) : GoTy := enumCarrierOf d.ty

/-! ### C03: the Go type at every typed position matches the schema's type -/

/-- the single (non-null) type a schema states: `"T"`, `["T"]`, `["T","null"]`, `["null","T"]` -/
def singleType (s : Schema) : Option String :=
  match s.node.types with
  | [t] => if t = "null" then none else some t
  | [a, b] => if a = "null" ∧ b ≠ "null" then some b else if b = "null" ∧ a ≠ "null" then some a else none
  | _ => none

/-- peel pointers -/
def stripPtr : GoTy → GoTy
  | .ptr t => stripPtr t
  | t => t

/-- does the (pointer-free) Go type hold exactly the JSON type `T` at its top level? -/
def topMatches (T : String) : GoTy → Bool
  | .string => T == "string"
  | .fmt _ => T == "string"
  | .bool => T == "boolean"
  | .float64 => T == "number"
  | .int _ => T == "integer"
  | .slice _ => T == "array"
  | .strct _ => T == "object"
  | .map _ => T == "object"
  | _ => false

mutual
  /-- `certType env defs fuel ty s`: at every typed position below `s`, `ty` cannot hold a value of another type -/
  def certType (env : Env) (defs : Spec.Defs) : Nat → GoTy → Schema → Bool
    | 0, _, _ => false
    | f + 1, ty, s =>
      if s.node.ref ≠ "" then
        (match Spec.refName s.node.ref with
         | some name => (match alookup name defs with | some t => certType env defs f ty t | none => true)
         | none => true)
      else match ty with
        | .ptr t => certType env defs f t s
        | .named nm =>
          (match env.resolve 8 nm with
           | some d => (match d.body with
              | .plain vs m => !d.ty.isFmt && (match d.ty with
                   | .strct fs => (match singleType s with | some T => T == "object" | none => false) &&
                                  s.node.items.isNone && certTypeProps env defs f fs s.node.props
                   | .named _ => false
                   | .ptr _ => false        -- `type T *X`: a nullable definition (K16), not certified
                   | t => certType env defs f t s)
              | .enum _ _ _ _ m => m && s.node.props.isEmpty && s.node.items.isNone &&
                   (match singleType s with | some T => topMatches T (enumCarrierTy d) | none => true)
              | .alias _ => false)
           | none => false)
        | .slice t => (match singleType s with | some T => T == "array" | none => false) && s.node.props.isEmpty &&
                      (match s.node.items with | some it => certType env defs f t it | none => true)
        | .strct _ => false                 -- an anonymous struct (elements of a declared array type, K20)
        | .map _ => (match singleType s with | some T => T == "object" | none => false) &&
                    s.node.props.isEmpty && s.node.items.isNone
        | t => s.node.props.isEmpty && s.node.items.isNone &&
               (match singleType s with | some T => topMatches T t | none => true)
  def certTypeProps (env : Env) (defs : Spec.Defs) : Nat → List Field → List (String × Schema) → Bool
    | 0, _, _ => false
    | _ + 1, _, [] => true
    | f + 1, fs, (k, ps) :: rest =>
      (match bindKey fs k with
       | some fld => certType env defs f fld.ty ps
       | none => false) &&
      certTypeProps env defs f fs rest
end

/-! ### C17: a decidable sufficient condition for wire-compatibility (`Props.C17.WC`) -/

def noAnyOfB (vs : List Validator) : Bool := vs.all (fun v => match v with | .anyOf _ => false | _ => true)

def primCarrier : GoTy → Bool
  | .string | .float64 | .bool | .int _ => true
  | _ => false

/-- the key binds to the same field under both binding rules: every field has the same json and yaml key, and the
    document key matches a field exactly or matches none case-insensitively -/
def bindsAlike (fs : List Field) (k : String) : Bool :=
  fs.all (fun fl => fl.jsonKey == fl.yamlKey) &&
  ((fs.find? (fun fl => fl.jsonKey = k)).isSome || fs.all (fun fl => foldKey fl.jsonKey != foldKey k))

mutual
  /-- `wcB env fuel ty j = true` implies `WC env ty j` (theorem `Props.C17.wcB_sound`); evaluated by the driver for
      every document it decodes through both wires -/
  def wcB (env : Env) : Nat → GoTy → Json → Bool
    | 0, _, _ => false
    | f + 1, ty, j =>
      match ty, j with
      | .string, .str _ => true
      | .bool, .bool _ => true
      | .float64, .num _ => true
      | .int _, .num q => q.den = 1
      | .iface, j => !j.isNull
      | .ptr t, j => wcB env f t j
      | .slice (.int _), _ => false
      | .slice t, .arr xs => wcBAll env f t xs
      | .map t, .obj kvs => wcBVals env f t kvs
      | .strct fs, .obj kvs => wcBFields env f fs kvs
      | .named n, j =>
          (match env.resolve 8 n with
           | none => false
           | some d =>
             if !d.hasMethod then !d.ty.isFmt && wcB env f d.ty j
             else match d.body with
               | .plain vs true => noAnyOfB vs && wcB env f d.ty j
               | .enum _ _ _ _ _ => primCarrier (enumCarrierOf d.ty) && wcB env f (enumCarrierOf d.ty) j
               | _ => false)
      | _, _ => false
  def wcBAll (env : Env) : Nat → GoTy → List Json → Bool
    | 0, _, _ => false
    | _ + 1, _, [] => true
    | f + 1, t, x :: xs => wcB env f t x && wcBAll env f t xs
  def wcBVals (env : Env) : Nat → GoTy → List (String × Json) → Bool
    | 0, _, _ => false
    | _ + 1, _, [] => true
    | f + 1, t, (_, x) :: rest => wcB env f t x && wcBVals env f t rest
  def wcBFields (env : Env) : Nat → List Field → List (String × Json) → Bool
    | 0, _, _ => false
    | _ + 1, _, [] => true
    | f + 1, fs, (k, x) :: rest =>
        bindsAlike fs k &&
        (match bindKey fs k with | some fld => wcB env f fld.ty x | none => true) &&
        wcBFields env f fs rest
end


/-! ### C02–C04, completeness: the declarations are what the schema's types / properties / required lists ask for -/

/-- `certShape env defs fuel ty s`: the declarations below `ty` are what the schema `s` (types, properties, required,
    items; no value constraints) asks for: a struct with exactly the schema's properties as fields and at most
    presence checks for keys the schema requires, slices for arrays, the four scalar types -/
def certShape (env : Env) (defs : Spec.Defs) : Nat → GoTy → Schema → Bool
  | 0, _, _ => false
  | f + 1, ty, s =>
    if s.node.ref ≠ "" then
      (match Spec.refName s.node.ref with
       | some name => (match alookup name defs with | some t => certShape env defs f ty t | none => false)
       | none => false)
    else match ty with
      | .ptr t => certShape env defs f t s
      | .named nm =>
        (match env.resolve 8 nm with
         | some d => (match d.body, d.ty with
            | .plain vs m, .strct fs =>
                d.hasMethod == m && (m || vs.isEmpty) && !d.ty.isFmt &&
                s.node.types == ["object"] && s.node.enum.isNone && s.node.allOf.isEmpty && s.node.anyOf.isEmpty &&
                !s.node.hasNot && s.node.addl.isNone &&
                (fs.find? (fun fl => fl.name = "AdditionalProperties")).isNone &&
                vs.all (fun v => match v with | .required k => s.node.required.contains k | _ => false) &&
                fs.all (fun fl => (akeys s.node.props).contains fl.jsonKey) &&
                s.node.props.all (fun p => match bindKey fs p.1 with
                  | some fld => fld.jsonKey == p.1 && certShape env defs f fld.ty p.2
                  | none => false)
            | _, _ => false)
         | none => false)
      | .slice t =>
        s.node.types == ["array"] && s.node.enum.isNone && s.node.allOf.isEmpty && s.node.anyOf.isEmpty && !s.node.hasNot &&
        (match t with | .named _ => false | .int .u8 => false | _ => true) &&
        (match s.node.items with | some it => certShape env defs f t it | none => false)
      | .string => s.node.types == ["string"]
      | .bool => s.node.types == ["boolean"]
      | .float64 => s.node.types == ["number"]
      | .int .int => s.node.types == ["integer"]
      | _ => false


/-! ### … plus numeric members with bounds -/

/-- (nillable, integer-typed) of the Go types a numeric validator is attached to -/
def numBase : GoTy → Option (Bool × Bool)
  | .int .int => some (false, true)
  | .float64 => some (false, false)
  | .ptr (.int .int) => some (true, true)
  | .ptr .float64 => some (true, false)
  | _ => none

/-- the numeric validator on `field` is exactly the check the schema of that member asks for -/
def numJustified (fs : List Field) (s : Schema) (field : String) (nl : Bool) (c : NumCheck) : Bool :=
  match fs.find? (fun fl => fl.name = field) with
  | some fl => (match alookup fl.jsonKey s.node.props with
     | some ps => ps.node.ref == "" && decide (numBase fl.ty = some (nl, c.roundToInt)) &&
         ps.node.types == [if c.roundToInt then "integer" else "number"] &&
         c.mult.isNone && decide (c.lo = ps.node.minimum) && decide (c.hi = ps.node.maximum) &&
         decide (c.xlo = ps.node.xmin) && decide (c.xhi = ps.node.xmax) && decide (c.xlo ≠ .other) && decide (c.xhi ≠ .other) &&
         (nl || s.node.required.contains fl.jsonKey)
     | none => false)
  | none => false

/-- `certShape` plus numeric members with bounds: a struct may carry, besides presence checks, numeric validators that
    are exactly what the member's schema states (`numJustified`) -/
def certFull (env : Env) (defs : Spec.Defs) : Nat → GoTy → Schema → Bool
  | 0, _, _ => false
  | f + 1, ty, s =>
    if s.node.ref ≠ "" then
      (match Spec.refName s.node.ref with
       | some name => (match alookup name defs with | some t => certFull env defs f ty t | none => false)
       | none => false)
    else match ty with
      | .ptr t => certFull env defs f t s
      | .named nm =>
        (match env.resolve 8 nm with
         | some d => (match d.body, d.ty with
            | .plain vs m, .strct fs =>
                d.hasMethod == m && (m || vs.isEmpty) && !d.ty.isFmt &&
                s.node.types == ["object"] && s.node.enum.isNone && s.node.allOf.isEmpty && s.node.anyOf.isEmpty &&
                !s.node.hasNot && s.node.addl.isNone &&
                (fs.find? (fun fl => fl.name = "AdditionalProperties")).isNone &&
                decide (fs.length ≤ 31) && decide ((fs.map (·.name)).Nodup) && decide ((fs.map (·.jsonKey)).Nodup) &&
                vs.all (fun v => match v with
                  | .required k => s.node.required.contains k
                  | .numeric field nl c => field != "" && numJustified fs s field nl c
                  | _ => false) &&
                fs.all (fun fl => (akeys s.node.props).contains fl.jsonKey) &&
                s.node.props.all (fun p => match bindKey fs p.1 with
                  | some fld => fld.jsonKey == p.1 && certFull env defs f fld.ty p.2
                  | none => false)
            | _, _ => false)
         | none => false)
      | .slice t =>
        s.node.types == ["array"] && s.node.enum.isNone && s.node.allOf.isEmpty && s.node.anyOf.isEmpty && !s.node.hasNot &&
        (match t with | .named _ => false | .int .u8 => false | _ => true) &&
        (match s.node.items with | some it => certFull env defs f t it | none => false)
      | .string => s.node.types == ["string"]
      | .bool => s.node.types == ["boolean"]
      | .float64 => s.node.types == ["number"]
      | .int .int => s.node.types == ["integer"]
      | _ => false


/-! ### … plus string members (length limits, patterns) and array members (item counts) -/

/-- nillable? of the Go types a string validator is attached to -/
def strBase : GoTy → Option Bool
  | .string => some false
  | .ptr .string => some true
  | _ => none

def strJustified (fs : List Field) (s : Schema) (field : String) (mn mx : Int) (pat : String) (nl : Bool) : Bool :=
  match fs.find? (fun fl => fl.name = field) with
  | some fl => (match alookup fl.jsonKey s.node.props with
     | some ps => ps.node.ref == "" && decide (strBase fl.ty = some nl) && ps.node.types == ["string"] &&
         decide (mn = ps.node.minLength) && decide (mx = ps.node.maxLength) && pat == ps.node.pattern &&
         (nl || s.node.required.contains fl.jsonKey)
     | none => false)
  | none => false

/-- the members of an all-string enum -/
def enumStrs : List Json → Option (List String)
  | [] => some []
  | .str x :: rest => (enumStrs rest).map (x :: ·)
  | _ :: _ => none

/-- the declaration is a plain string enum whose table is exactly the schema's `enum` list -/
def strEnumJustified (vals : List Json) (s : Schema) : Bool :=
  match enumStrs vals, s.node.enum with
  | some l, some vs => enumStrs vs == some l
  | _, _ => false

/-- element types whose slices decode element by element: everything but `uint8` and named aliases of it, whose
    slices are byte strings (K22) -/
def elemOK (env : Env) : GoTy → Bool
  | .named n => (match env.resolve 8 n with
      | some d => (match d.ty with | .int .u8 => false | _ => true)
      | none => true)
  | .int .u8 => false
  | _ => true

def sliceElemOK (env : Env) : GoTy → Bool
  | .slice t => elemOK env t
  | _ => false

def arrJustified (env : Env) (fs : List Field) (s : Schema) (field : String) (mn mx : Int) : Bool :=
  match fs.find? (fun fl => fl.name = field) with
  | some fl => (match alookup fl.jsonKey s.node.props with
     | some ps => ps.node.ref == "" && sliceElemOK env fl.ty && ps.node.types == ["array"] &&
         decide (mn = ps.node.minItems) && decide (mx = ps.node.maxItems) && decide (0 ≤ mx)
     | none => false)
  | none => false

/-- every validator of the struct is what the schema asks for -/
def valJustified (env : Env) (fs : List Field) (s : Schema) : Validator → Bool
  | .required k => s.node.required.contains k
  | .numeric field nl c => field != "" && numJustified fs s field nl c
  | .string field mn mx pat nl => field != "" && strJustified fs s field mn mx pat nl
  | .array field depth mn mx => field != "" && depth == 1 && arrJustified env fs s field mn mx
  | _ => false

/-- `certFull` plus string members with length limits / patterns and array members with item counts -/
def certAll (env : Env) (defs : Spec.Defs) : Nat → GoTy → Schema → Bool
  | 0, _, _ => false
  | f + 1, ty, s =>
    if s.node.ref ≠ "" then
      (match Spec.refName s.node.ref with
       | some name => (match alookup name defs with | some t => certAll env defs f ty t | none => false)
       | none => false)
    else match ty with
      | .ptr t => certAll env defs f t s
      | .named nm =>
        (match env.resolve 8 nm with
         | some d => (match d.body, d.ty with
            | .plain vs m, .strct fs =>
                d.hasMethod == m && (m || vs.isEmpty) && !d.ty.isFmt &&
                s.node.types == ["object"] && s.node.enum.isNone && s.node.allOf.isEmpty && s.node.anyOf.isEmpty &&
                !s.node.hasNot && s.node.addl.isNone &&
                (fs.find? (fun fl => fl.name = "AdditionalProperties")).isNone &&
                decide (fs.length ≤ 31) && decide ((fs.map (·.name)).Nodup) && decide ((fs.map (·.jsonKey)).Nodup) &&
                vs.all (valJustified env fs s) &&
                fs.all (fun fl => (akeys s.node.props).contains fl.jsonKey) &&
                s.node.props.all (fun p => match bindKey fs p.1 with
                  | some fld => fld.jsonKey == p.1 && certAll env defs f fld.ty p.2
                  | none => false)
            | .enum vals false _ _ _, .string =>
                d.hasMethod && (s.node.types == ["string"] || s.node.types == []) && strEnumJustified vals s &&
                s.node.allOf.isEmpty && s.node.anyOf.isEmpty && !s.node.hasNot
            | _, _ => false)
         | none => false)
      | .slice t =>
        s.node.types == ["array"] && s.node.enum.isNone && s.node.allOf.isEmpty && s.node.anyOf.isEmpty && !s.node.hasNot &&
        elemOK env t &&
        (match s.node.items with | some it => certAll env defs f t it | none => false)
      | .string => s.node.types == ["string"] && s.node.format == ""
      | .bool => s.node.types == ["boolean"]
      | .float64 => s.node.types == ["number"]
      | .int .int => s.node.types == ["integer"]
      | _ => false


/-! ### the coverage certificate of the soundness direction (Props/Exact.lean) -/

def leafPlain (s : Schema) : Bool :=
  s.node.enum.isNone && s.node.allOf.isEmpty && s.node.anyOf.isEmpty && !s.node.hasNot

def hasNumTop (s : Schema) : Bool :=
  !(s.node.minimum.isNone && s.node.maximum.isNone && decide (s.node.xmin = .absent) && decide (s.node.xmax = .absent))
def hasStrTop (s : Schema) : Bool := !(s.node.minLength == 0 && s.node.maxLength == 0 && s.node.pattern == "")
def hasArrTop (s : Schema) : Bool := !(s.node.minItems == 0 && s.node.maxItems == 0)
def topFree (s : Schema) : Bool := !hasNumTop s && !hasStrTop s && !hasArrTop s

/-- every top-level value constraint of the member's schema has its validator -/
def topCovered (vs : List Validator) (name : String) (ps : Schema) : Bool :=
  (!hasNumTop ps || vs.any (fun v => match v with | .numeric f _ _ => f == name | _ => false)) &&
  (!hasStrTop ps || vs.any (fun v => match v with | .string f _ _ _ _ => f == name | _ => false)) &&
  (!hasArrTop ps || vs.any (fun v => match v with | .array f _ _ _ => f == name | _ => false))

/-- the coverage certificate: every required key has its presence check, every value constraint
    its validator, and nothing the fragment does not check is stated (enum, composition, not, multipleOf, format,
    constraints on array items) -/
def certCov (env : Env) (defs : Spec.Defs) : Nat → GoTy → Schema → Bool
  | 0, _, _ => false
  | f + 1, ty, s =>
    if s.node.ref ≠ "" then
      -- a reference: the target decides; it is an inline node without scalar constraints of its own
      (match Spec.refName s.node.ref with
       | some name => (match alookup name defs with
          | some t => t.node.ref == "" && topFree t && certCov env defs f ty t
          | none => false)
       | none => false)
    else
    s.node.multipleOf.isNone && s.node.format == "" &&
    match ty with
    | .ptr t => certCov env defs f t s
    | .named nm =>
      (match env.resolve 8 nm with
       | some d => (match d.body, d.ty with
          | .plain vs _, .strct fs =>
              s.node.required.all (fun k => vs.any (fun v => match v with | .required k' => k' == k | _ => false)) &&
              s.node.props.all (fun p => match bindKey fs p.1 with
                | some fld => topCovered vs fld.name p.2 && certCov env defs f fld.ty p.2
                | none => false)
          | .enum _ false _ _ _, .string => true
          | _, _ => false)
       | none => false)
    | .slice t => leafPlain s && (match s.node.items with | some it => topFree it && certCov env defs f t it | none => false)
    | _ => leafPlain s

end GJS

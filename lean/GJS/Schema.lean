import GJS.Json
import GJS.Model.Bounds
/-
  The schema tree as `pkg/schemas` holds it after decoding (schemas.Type restricted to the fields the
  generator reads), and `Parse`: Json ↦ Schema, the model of Schema.UnmarshalJSON / Type.UnmarshalJSON /
  TypeList.UnmarshalJSON (C13, C18).
-/
namespace GJS

structure GoExt where
  type : Option String := none
  identifier : Option String := none
  nillable : Bool := false
  imports : List String := []
deriving Repr, Inhabited, DecidableEq

/-- one schemas.Type node; `σ` is the type of sub-schemas -/
structure NodeF (σ : Type) where
  ref : String := ""
  types : List String := []
  enum : Option (List Json) := none
  minimum : Option Rat := none
  maximum : Option Rat := none
  multipleOf : Option Rat := none
  xmin : XB := .absent
  xmax : XB := .absent
  minLength : Int := 0
  maxLength : Int := 0
  minItems : Int := 0
  maxItems : Int := 0
  pattern : String := ""
  format : String := ""
  title : String := ""
  description : String := ""
  items : Option σ := none
  addl : Option σ := none          -- additionalProperties
  hasNot : Bool := false           -- `Not != nil` (the only thing the generator looks at)
  required : List String := []
  props : List (String × σ) := []
  defs : List (String × σ) := []   -- $defs, else definitions
  allOf : List σ := []
  anyOf : List σ := []
  default : Option Json := none    -- JSON null ↦ none (a nil interface)
  ext : Option GoExt := none
  -- flags the generator sets on nodes while it runs
  subElem : Bool := false          -- subSchemaTypeElem
  anyOfCount : Nat := 0            -- subSchemaType = anyOf with this many branches (0: not an anyOf merge)
  isAllOf : Bool := false
  dereferenced : Bool := false
  /-- keywords present with an EMPTY array / object value: Go decodes them to empty non-nil slices / maps,
      which `cmp.Equal` distinguishes from the nil of an absent keyword -/
  emptyKw : List String := []
  /-- the enum values of this node have been rewritten in place from float64 to int (`generateEnumType` on a
      `type: integer` enum): `cmp.Equal` then tells it from every freshly parsed node -/
  enumCoerced : Bool := false

inductive Schema where
  | mk (n : NodeF Schema)

instance : Inhabited Schema := ⟨.mk {}⟩

def Schema.node : Schema → NodeF Schema | .mk n => n

/-- a whole schema document: schemas.Schema -/
structure SchemaDoc where
  id : String := ""
  hasRoot : Bool := true            -- ObjectAsType ≠ nil
  root : Schema := .mk {}
  defs : List (String × Schema) := []     -- Schema.Definitions (root level)
deriving Inhabited

/-! ### Parse -/

inductive ParseErr where
  | type (what : String)        -- encoding/json type error while decoding the schema
  | nullSub (what : String)     -- fix R5
deriving Repr, Inhabited, DecidableEq

def jStr? : Json → Option String | .str s => some s | _ => none
def jInt? : Json → Option Int | .num q => if q.den = 1 then some q.num else none | _ => none

/-- a field of Go type `string`: absent or null leaves "", a string sets it, anything else is a type error -/
def getStrField (kvs : List (String × Json)) (k : String) : Except ParseErr String :=
  match alookup k kvs with
  | none | some .null => .ok ""
  | some (.str s) => .ok s
  | some _ => .error (.type k)

def getIntField (kvs : List (String × Json)) (k : String) : Except ParseErr Int :=
  match alookup k kvs with
  | none | some .null => .ok 0
  | some (.num q) => if q.den = 1 then .ok q.num else .error (.type k)
  | some _ => .error (.type k)

def getRatField (kvs : List (String × Json)) (k : String) : Except ParseErr (Option Rat) :=
  match alookup k kvs with
  | none | some .null => .ok none
  | some (.num q) => .ok (some q)
  | some _ => .error (.type k)

def getBoolField (kvs : List (String × Json)) (k : String) : Except ParseErr Bool :=
  match alookup k kvs with
  | none | some .null => .ok false
  | some (.bool b) => .ok b
  | some _ => .error (.type k)

/-- `*any` -/
def getXB (kvs : List (String × Json)) (k : String) : XB :=
  match alookup k kvs with
  | none | some .null => .absent
  | some (.bool b) => .flag b
  | some (.num q) => .num q
  | some _ => .other

def getStrList (kvs : List (String × Json)) (k : String) : Except ParseErr (List String) :=
  match alookup k kvs with
  | none | some .null => .ok []
  | some (.arr xs) => xs.mapM (fun x => match x with | .str s => .ok s | .null => .ok "" | _ => .error (.type k))
  | some _ => .error (.type k)

/-- `TypeList.UnmarshalJSON` -/
def parseTypeList (kvs : List (String × Json)) : Except ParseErr (List String) :=
  match alookup "type" kvs with
  | none | some .null => .ok []
  | some (.arr xs) => xs.mapM (fun x => match x with | .str s => .ok s | .null => .ok "" | _ => .error (.type "type"))
  | some (.str s) => .ok (if s = "" then [] else [s])
  | some _ => .error (.type "type")

def parseExt (j : Json) : Except ParseErr (Option GoExt) :=
  match j with
  | .null => .ok none
  | .obj kvs => do
      let ty ← (match alookup "type" kvs with
        | none | some .null => .ok none | some (.str s) => .ok (some s) | some _ => .error (.type "goJSONSchema.type"))
      let ident ← (match alookup "identifier" kvs with
        | none | some .null => .ok none | some (.str s) => .ok (some s) | some _ => .error (.type "goJSONSchema.identifier"))
      let nillable ← getBoolField kvs "nillable"
      let imports ← getStrList kvs "imports"
      pure (some { type := ty, identifier := ident, nillable := nillable, imports := imports })
  | _ => .error (.type "goJSONSchema")

mutual
  /-- `Type.UnmarshalJSON` (fuel = nesting depth of the document; `parseSchema` supplies enough) -/
  def parseType : Nat → Json → Except ParseErr Schema
    | 0, _ => .error (.type "fuel")
    | _ + 1, .bool true => .ok (.mk {})
    | _ + 1, .bool false => .ok (.mk { hasNot := true })
    | f + 1, .obj kvs => do
        let ref ← getStrField kvs "$ref"
        let types ← parseTypeList kvs
        let enum ← (match alookup "enum" kvs with
          | none | some .null => .ok none
          | some (.arr xs) => .ok (some xs)
          | some _ => .error (.type "enum"))
        let minimum ← getRatField kvs "minimum"
        let maximum ← getRatField kvs "maximum"
        let multipleOf ← getRatField kvs "multipleOf"
        let minLength ← getIntField kvs "minLength"
        let maxLength ← getIntField kvs "maxLength"
        let minItems ← getIntField kvs "minItems"
        let maxItems ← getIntField kvs "maxItems"
        let pattern ← getStrField kvs "pattern"
        let format ← getStrField kvs "format"
        let title ← getStrField kvs "title"
        let description ← getStrField kvs "description"
        let items ← parseOpt f (alookup "items" kvs)
        let addl ← parseOpt f (alookup "additionalProperties" kvs)
        let notS ← parseOpt f (alookup "not" kvs)
        let required ← getStrList kvs "required"
        let props ← parseMap f "properties" (alookup "properties" kvs)
        let defsNew ← parseMapOpt f "$defs" (alookup "$defs" kvs)
        let defsOld ← parseMapOpt f "definitions" (alookup "definitions" kvs)
        let allOf ← parseList f "allOf" (alookup "allOf" kvs)
        let anyOf ← parseList f "anyOf" (alookup "anyOf" kvs)
        let ext ← (match alookup "goJSONSchema" kvs with | none => .ok none | some j => parseExt j)
        pure (.mk {
          ref, types, enum, minimum, maximum, multipleOf,
          xmin := getXB kvs "exclusiveMinimum", xmax := getXB kvs "exclusiveMaximum",
          minLength, maxLength, minItems, maxItems, pattern, format, title, description,
          items, addl, hasNot := notS.isSome, required, props,
          defs := (match defsNew with | some d => d | none => defsOld.getD []),
          allOf, anyOf,
          default := (match alookup "default" kvs with | none | some .null => none | some j => some j),
          ext,
          emptyKw := ["required", "properties", "$defs", "definitions", "allOf"].filter fun k =>
            match alookup k kvs with | some (.arr []) | some (.obj []) => true | _ => false })
    | _ + 1, _ => .error (.type "schema")
  /-- a `*Type` field: absent or null ↦ nil -/
  def parseOpt : Nat → Option Json → Except ParseErr (Option Schema)
    | _, none => .ok none
    | _, some .null => .ok none
    | 0, some _ => .error (.type "fuel")
    | f + 1, some j => do let s ← parseType f j; pure (some s)
  /-- a `map[string]*Type` field; a null entry is an error (fix R5) -/
  def parseMap : Nat → String → Option Json → Except ParseErr (List (String × Schema))
    | _, _, none => .ok []
    | _, _, some .null => .ok []
    | 0, _, some _ => .error (.type "fuel")
    | f + 1, what, some (.obj kvs) => parseEntries f what kvs
    | _ + 1, what, some _ => .error (.type what)
  /-- as `parseMap`, but distinguishes a nil map (absent/null) from an empty one: `$defs` wins when non-nil -/
  def parseMapOpt : Nat → String → Option Json → Except ParseErr (Option (List (String × Schema)))
    | _, _, none => .ok none
    | _, _, some .null => .ok none
    | 0, _, some _ => .error (.type "fuel")
    | f + 1, what, some (.obj kvs) => do let m ← parseEntries f what kvs; pure (some m)
    | _ + 1, what, some _ => .error (.type what)
  def parseEntries : Nat → String → List (String × Json) → Except ParseErr (List (String × Schema))
    | _, _, [] => .ok []
    | 0, _, _ :: _ => .error (.type "fuel")
    | _ + 1, what, (_, .null) :: _ => .error (.nullSub what)
    | f + 1, what, (k, j) :: rest => do
        let s ← parseType f j
        let r ← parseEntries f what rest
        pure ((k, s) :: r)
  def parseList : Nat → String → Option Json → Except ParseErr (List Schema)
    | _, _, none => .ok []
    | _, _, some .null => .ok []
    | 0, _, some _ => .error (.type "fuel")
    | f + 1, what, some (.arr xs) => parseElems f what xs
    | _ + 1, what, some _ => .error (.type what)
  def parseElems : Nat → String → List Json → Except ParseErr (List Schema)
    | _, _, [] => .ok []
    | 0, _, _ :: _ => .error (.type "fuel")
    | _ + 1, what, .null :: _ => .error (.nullSub what)
    | f + 1, what, j :: rest => do
        let s ← parseType f j
        let r ← parseElems f what rest
        pure (s :: r)
end

/-- does the document set any field of the embedded `*ObjectAsType`?  (If not, the pointer stays nil and
    the generator answers "schema has no root".)  Conservative list of the keys the model knows. -/
def typeKeys : List String :=
  ["$schema", "$ref", "multipleOf", "maximum", "exclusiveMaximum", "minimum", "exclusiveMinimum", "maxLength",
   "minLength", "pattern", "additionalItems", "items", "maxItems", "minItems", "uniqueItems", "maxProperties",
   "minProperties", "required", "properties", "patternProperties", "additionalProperties", "enum", "type",
   "allOf", "anyOf", "oneOf", "not", "title", "description", "default", "format", "media", "binaryEncoding",
   "dependentRequired", "dependentSchemas", "goJSONSchema"]

/-- `Schema.UnmarshalJSON`: `$id` then `id`; `$defs` then `definitions` -/
def parseSchema (j : Json) : Except ParseErr SchemaDoc :=
  match j with
  | .obj kvs => do
      let fuel := Json.size j + 2
      let idNew ← getStrField kvs "$id"
      let idOld ← getStrField kvs "id"
      -- the root is decoded as a plain struct (ObjectAsType has no UnmarshalJSON), so boolean `true`
      -- is not accepted here; nested positions go through `parseType`
      let root ← parseType fuel j
      let rootN := root.node
      pure { id := if idNew = "" then idOld else idNew,
             hasRoot := kvs.any (fun (k, _) => typeKeys.contains k),
             -- the embedded struct's own `$defs` field is shadowed by Schema.Definitions
             root := .mk { rootN with defs := [] },
             defs := rootN.defs }
  | .null => .ok { hasRoot := false }
  | _ => .error (.type "schema")

end GJS

import GJS.Spec
namespace GJS.Spec
open GJS

/-- the reference semantics is monotone in its fuel: what is valid with some fuel is valid with more -/
structure ValidMono (defs : Defs) (F : Nat) : Prop where
  v : ∀ s d, valid F defs s d = true → valid (F + 1) defs s d = true
  all : ∀ ss d, validAll F defs ss d = true → validAll (F + 1) defs ss d = true
  any : ∀ ss d, validAny F defs ss d = true → validAny (F + 1) defs ss d = true
  elems : ∀ s xs, validElems F defs s xs = true → validElems (F + 1) defs s xs = true
  props : ∀ ps addl all kvs, validProps F defs ps addl all kvs = true → validProps (F + 1) defs ps addl all kvs = true

theorem validMono_zero (defs : Defs) : ValidMono defs 0 := by
  constructor <;> intros <;> simp_all [valid, validAll, validAny, validElems, validProps]

theorem validMono_succ (defs : Defs) (F : Nat) (ih : ValidMono defs F) : ValidMono defs (F + 1) := by
  constructor
  · intro s d h
    by_cases href : s.node.ref = ""
    · cases d with
      | arr xs =>
        simp only [valid, href, ne_eq, not_true_eq_false, ↓reduceIte, Bool.and_eq_true, Bool.or_eq_true] at h ⊢
        obtain ⟨⟨⟨h1, hall⟩, hany⟩, hd⟩ := h
        refine ⟨⟨⟨h1, ih.all _ _ hall⟩, ?_⟩, hd.1, ?_⟩
        · rcases hany with he | ha
          · exact Or.inl he
          · exact Or.inr (ih.any _ _ ha)
        · cases hi : s.node.items with
          | none => rfl
          | some it => simp only [hi] at hd ⊢; exact ih.elems _ _ hd.2
      | obj kvs =>
        simp only [valid, href, ne_eq, not_true_eq_false, ↓reduceIte, Bool.and_eq_true, Bool.or_eq_true] at h ⊢
        obtain ⟨⟨⟨h1, hall⟩, hany⟩, hd⟩ := h
        refine ⟨⟨⟨h1, ih.all _ _ hall⟩, ?_⟩, hd.1, ih.props _ _ _ _ hd.2⟩
        rcases hany with he | ha
        · exact Or.inl he
        · exact Or.inr (ih.any _ _ ha)
      | null =>
        simp only [valid, href, ne_eq, not_true_eq_false, ↓reduceIte, Bool.and_eq_true, Bool.or_eq_true] at h ⊢
        obtain ⟨⟨⟨h1, hall⟩, hany⟩, hd⟩ := h
        refine ⟨⟨⟨h1, ih.all _ _ hall⟩, ?_⟩, hd⟩
        rcases hany with he | ha
        · exact Or.inl he
        · exact Or.inr (ih.any _ _ ha)
      | bool b =>
        simp only [valid, href, ne_eq, not_true_eq_false, ↓reduceIte, Bool.and_eq_true, Bool.or_eq_true] at h ⊢
        obtain ⟨⟨⟨h1, hall⟩, hany⟩, hd⟩ := h
        refine ⟨⟨⟨h1, ih.all _ _ hall⟩, ?_⟩, hd⟩
        rcases hany with he | ha
        · exact Or.inl he
        · exact Or.inr (ih.any _ _ ha)
      | num q =>
        simp only [valid, href, ne_eq, not_true_eq_false, ↓reduceIte, Bool.and_eq_true, Bool.or_eq_true] at h ⊢
        obtain ⟨⟨⟨h1, hall⟩, hany⟩, hd⟩ := h
        refine ⟨⟨⟨h1, ih.all _ _ hall⟩, ?_⟩, hd⟩
        rcases hany with he | ha
        · exact Or.inl he
        · exact Or.inr (ih.any _ _ ha)
      | str t =>
        simp only [valid, href, ne_eq, not_true_eq_false, ↓reduceIte, Bool.and_eq_true, Bool.or_eq_true] at h ⊢
        obtain ⟨⟨⟨h1, hall⟩, hany⟩, hd⟩ := h
        refine ⟨⟨⟨h1, ih.all _ _ hall⟩, ?_⟩, hd⟩
        rcases hany with he | ha
        · exact Or.inl he
        · exact Or.inr (ih.any _ _ ha)
    · have key : ∀ G, valid (G + 1) defs s d = (match refName s.node.ref with
          | some name => (match alookup name defs with | some t => valid G defs t d | none => false)
          | none => false) := by
        intro G; cases d <;> simp only [valid, ne_eq, href, not_false_eq_true, ↓reduceIte] <;> rfl
      rw [key] at h ⊢
      cases hn : refName s.node.ref with
      | none => simp [hn] at h
      | some name =>
        simp only [hn] at h ⊢
        cases hl : alookup name defs with
        | none => simp [hl] at h
        | some t => simp only [hl] at h ⊢; exact ih.v _ _ h
  · intro ss d h
    cases ss with
    | nil => simp [validAll]
    | cons s rest =>
      simp only [validAll, Bool.and_eq_true] at h ⊢
      exact ⟨ih.v _ _ h.1, ih.all _ _ h.2⟩
  · intro ss d h
    cases ss with
    | nil => simp [validAny] at h
    | cons s rest =>
      simp only [validAny, Bool.or_eq_true] at h ⊢
      rcases h with h | h
      · exact Or.inl (ih.v _ _ h)
      · exact Or.inr (ih.any _ _ h)
  · intro s xs h
    cases xs with
    | nil => simp [validElems]
    | cons x rest =>
      simp only [validElems, Bool.and_eq_true] at h ⊢
      exact ⟨ih.v _ _ h.1, ih.elems _ _ h.2⟩
  · intro ps addl all kvs h
    cases kvs with
    | nil => simp [validProps]
    | cons p rest =>
      obtain ⟨k, v⟩ := p
      simp only [validProps, Bool.and_eq_true] at h ⊢
      refine ⟨?_, ih.props _ _ _ _ h.2⟩
      cases hl : alookup k ps with
      | some s => simp only [hl] at h ⊢; exact ih.v _ _ h.1
      | none =>
        simp only [hl] at h ⊢
        cases addl with
        | none => rfl
        | some a => simp only at h ⊢; exact ih.v _ _ h.1

theorem validMono (defs : Defs) : ∀ F, ValidMono defs F
  | 0 => validMono_zero defs
  | F + 1 => validMono_succ defs F (validMono defs F)

theorem valid_mono (defs : Defs) (s : Schema) (d : Json) (F G : Nat) (hFG : F ≤ G) (h : valid F defs s d = true) :
    valid G defs s d = true := by
  induction G with
  | zero => have : F = 0 := by omega
            subst this; exact h
  | succ G ih =>
    by_cases hc : F = G + 1
    · subst hc; exact h
    · exact (validMono defs G).v _ _ (ih (by omega))

end GJS.Spec

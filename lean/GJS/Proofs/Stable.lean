import GJS.Proofs.Mono
import GJS.Props.C17
namespace GJS.Proofs
open GJS

/-- errors that are verdicts of the program on the document (not artefacts of the fuel or of an uncompilable
    construct) -/
def Verdict (e : DecErr) : Prop := e ≠ .fuel ∧ ∀ w, e ≠ .uncompilable w

/-- no declaration carries an anyOf validator (whose branch trials fold a fuel shortage into "no branch") -/
def NoAnyOfEnv (env : Env) : Prop := ∀ d ∈ env, ∀ vs m, d.body = .plain vs m → Props.C17.noAnyOf vs = true

theorem bind_err {α β : Type} {x : R α} {g : α → R β} {e : DecErr} (h : (x >>= g) = .error e) :
    x = .error e ∨ ∃ a, x = .ok a ∧ g a = .error e := by
  cases x with
  | error e' => left; simpa [bind, Except.bind] using h
  | ok a => right; exact ⟨a, rfl, by simpa [bind, Except.bind] using h⟩

theorem map_err {α β : Type} {x : R α} {g : α → β} {e : DecErr} (h : x.map g = .error e) : x = .error e := by
  cases x with
  | error e' => simpa [Except.map] using h
  | ok a => simp [Except.map] at h

structure ErrMono (env : Env) (f : Nat) : Prop where
  dec : ∀ w ty j e, Verdict e → decode w env f ty j = .error e → decode w env (f + 1) ty j = .error e
  elems : ∀ w t xs e, Verdict e → decodeElems w env f t xs = .error e → decodeElems w env (f + 1) t xs = .error e
  mapv : ∀ w t kvs e, Verdict e → decodeMap w env f t kvs = .error e → decodeMap w env (f + 1) t kvs = .error e
  strct : ∀ w fs kvs acc e, Verdict e → decodeStruct w env f fs kvs acc = .error e → decodeStruct w env (f + 1) fs kvs acc = .error e
  meth : ∀ w d j e, d ∈ env → Verdict e → runMethod w env f d j = .error e → runMethod w env (f + 1) d j = .error e
  before : ∀ w dn vs raw j e, Props.C17.noAnyOf vs = true → Verdict e →
      runBefore w env f dn vs raw j = .error e → runBefore w env (f + 1) dn vs raw j = .error e
  after : ∀ w ty vs raw plain e, Verdict e → runAfter w env f ty vs raw plain = .error e →
      runAfter w env (f + 1) ty vs raw plain = .error e

theorem errMono_zero (env : Env) : ErrMono env 0 := by
  constructor <;> intros <;> rename_i hv h <;>
    simp_all [decode, decodeElems, decodeMap, decodeStruct, runMethod, runBefore, runAfter, Verdict]


theorem find_mem {env : Env} {n : String} {d : Decl} (h : env.find n = some d) : d ∈ env := by
  induction env with
  | nil => simp [Env.find] at h
  | cons x rest ih =>
    simp only [Env.find] at h
    split at h
    · cases h; simp
    · exact List.mem_cons_of_mem _ (ih h)

theorem resolve_mem {env : Env} : ∀ {f : Nat} {n : String} {d : Decl}, env.resolve f n = some d → d ∈ env := by
  intro f
  induction f with
  | zero => intro n d h; simp [Env.resolve] at h
  | succ f ih =>
    intro n d h
    simp only [Env.resolve] at h
    split at h
    · rename_i d' hf
      split at h
      · exact ih h
      · cases h; exact find_mem hf
    · cases h

theorem step_elemsE {env : Env} {f : Nat} (ok : OkMono env f) (ih : ErrMono env f) :
    ∀ w t xs e, Verdict e → decodeElems w env (f + 1) t xs = .error e → decodeElems w env (f + 2) t xs = .error e := by
  intro w t xs e hv h
  cases xs with
  | nil => simp [decodeElems] at h
  | cons x xs =>
    simp only [decodeElems] at h ⊢
    rcases bind_err h with h1 | ⟨a, ha, h2⟩
    · rw [ih.dec _ _ _ _ hv h1]; rfl
    · rw [ok.dec _ _ _ _ ha]
      rcases bind_err h2 with h3 | ⟨b, hb, h4⟩
      · rw [ih.elems _ _ _ _ hv h3]; rfl
      · simp [pure, Except.pure] at h4

theorem step_mapE {env : Env} {f : Nat} (ok : OkMono env f) (ih : ErrMono env f) :
    ∀ w t kvs e, Verdict e → decodeMap w env (f + 1) t kvs = .error e → decodeMap w env (f + 2) t kvs = .error e := by
  intro w t kvs e hv h
  cases kvs with
  | nil => simp [decodeMap] at h
  | cons p rest =>
    obtain ⟨k, x⟩ := p
    simp only [decodeMap] at h ⊢
    rcases bind_err h with h1 | ⟨a, ha, h2⟩
    · rw [ih.dec _ _ _ _ hv h1]; rfl
    · rw [ok.dec _ _ _ _ ha]
      rcases bind_err h2 with h3 | ⟨b, hb, h4⟩
      · rw [ih.mapv _ _ _ _ hv h3]; rfl
      · simp [pure, Except.pure] at h4

theorem step_strctE {env : Env} {f : Nat} (ok : OkMono env f) (ih : ErrMono env f) :
    ∀ w fs kvs acc e, Verdict e → decodeStruct w env (f + 1) fs kvs acc = .error e →
      decodeStruct w env (f + 2) fs kvs acc = .error e := by
  intro w fs kvs acc e hv h
  cases kvs with
  | nil => simp [decodeStruct] at h
  | cons p rest =>
    obtain ⟨k, x⟩ := p
    simp only [decodeStruct] at h ⊢
    split at h
    · exact ih.strct _ _ _ _ _ hv h
    · rcases bind_err h with h1 | ⟨a, ha, h2⟩
      · rw [ih.dec _ _ _ _ hv h1]; rfl
      · rw [ok.dec _ _ _ _ ha]
        exact ih.strct _ _ _ _ _ hv h2


theorem noAnyOf_tail {v : Validator} {rest : List Validator} (h : Props.C17.noAnyOf (v :: rest) = true) :
    Props.C17.noAnyOf rest = true := by
  simp only [Props.C17.noAnyOf, List.all_cons, Bool.and_eq_true] at h ⊢; exact h.2

theorem step_beforeE {env : Env} {f : Nat} (ih : ErrMono env f) :
    ∀ w dn vs raw j e, Props.C17.noAnyOf vs = true → Verdict e →
      runBefore w env (f + 1) dn vs raw j = .error e → runBefore w env (f + 2) dn vs raw j = .error e := by
  intro w dn vs raw j e hn hv h
  cases vs with
  | nil => simp [runBefore] at h
  | cons v rest =>
    have hr := noAnyOf_tail hn
    unfold runBefore at h ⊢
    split at h
    · split at h
      · split at h
        · rename_i hc
          simp only [hc, ↓reduceIte]
          exact ih.before _ _ _ _ _ _ hr hv h
        · rename_i hc
          simp only [hc]
          exact h
      · exact ih.before _ _ _ _ _ _ hr hv h
    · simp [Props.C17.noAnyOf] at hn
    · exact ih.before _ _ _ _ _ _ hr hv h

theorem step_afterE {env : Env} {f : Nat} (ih : ErrMono env f) :
    ∀ w ty vs raw plain e, Verdict e → runAfter w env (f + 1) ty vs raw plain = .error e →
      runAfter w env (f + 2) ty vs raw plain = .error e := by
  intro w ty vs raw plain e hv h
  cases vs with
  | nil => simp [runAfter] at h
  | cons v rest =>
    unfold runAfter at h ⊢
    split at h
    · exact ih.after _ _ _ _ _ _ hv h
    · exact ih.after _ _ _ _ _ _ hv h
    · -- default
      split at h
      · rename_i habs
        simp only [habs, ↓reduceIte]
        simp only [] at h
        split at h
        · cases h; exact absurd rfl (hv.2 _)
        · rename_i hlit
          simp only [hlit]
          split at h
          · rename_i x hx
            simp only [(litMono env f).lit _ _ _ hx]
            exact ih.after _ _ _ _ _ _ hv h
          · cases h; exact absurd rfl (hv.2 _)
      · rename_i habs
        simp only [habs]
        exact ih.after _ _ _ _ _ _ hv h
    · split at h
      · rename_i hc; simp only [hc, ↓reduceIte]; exact ih.after _ _ _ _ _ _ hv h
      · rename_i hc; simp only [hc]; exact h
    · split at h
      · rename_i hc; simp only [hc, ↓reduceIte]; exact ih.after _ _ _ _ _ _ hv h
      · rename_i hc; simp only [hc]; exact h
    · split at h
      · rename_i hc; simp only [hc, ↓reduceIte]; exact ih.after _ _ _ _ _ _ hv h
      · rename_i hc; simp only [hc]; exact h
    · split at h
      · rename_i hnd; simp only [hnd, ↓reduceIte]; exact h
      · rename_i hnd
        simp only [hnd]
        split at h
        · rename_i hc; simp only [hc, ↓reduceIte]; exact ih.after _ _ _ _ _ _ hv h
        · rename_i hc; simp only [hc]; exact h


theorem step_methE {env : Env} (hna : NoAnyOfEnv env) {f : Nat} (ok : OkMono env f) (ih : ErrMono env f) :
    ∀ w d j e, d ∈ env → Verdict e → runMethod w env (f + 1) d j = .error e → runMethod w env (f + 2) d j = .error e := by
  intro w d j e hd hv h
  unfold runMethod at h ⊢
  split at h
  · exact h
  · -- enum
    simp only [] at h ⊢
    cases hdec : decode w env f (enumCarrierOf d.ty) j with
    | error e' =>
      simp only [hdec] at h
      cases h
      simp only [ih.dec _ _ _ _ hv hdec]
    | ok x =>
      simp only [hdec] at h
      simp only [ok.dec _ _ _ _ hdec]
      exact h
  · -- plain
    rename_i vs m hb
    have hn : Props.C17.noAnyOf vs = true := hna d hd vs m hb
    rcases bind_err h with h1 | ⟨raw, hraw, h⟩
    · simp only [h1]; rfl
    · simp only [hraw, bind, Except.bind]
      rcases bind_err h with h1 | ⟨u, hbef, h⟩
      · simp only [ih.before _ _ _ _ _ _ hn hv h1]
      · cases u
        simp only [ok.before _ _ _ _ _ hbef]
        rcases bind_err h with h1 | ⟨plain, hdec, h⟩
        · simp only [ih.dec _ _ _ _ hv h1]
        · simp only [ok.dec _ _ _ _ hdec]
          rcases bind_err h with h1 | ⟨plain2, haft, h⟩
          · simp only [ih.after _ _ _ _ _ _ hv h1]
          · simp only [ok.after _ _ _ _ _ _ haft]
            simpa [bind, Except.bind] using h


theorem step_decE {env : Env} (_hna : NoAnyOfEnv env) {f : Nat} (_ok : OkMono env f) (ih : ErrMono env f) :
    ∀ w ty j e, Verdict e → decode w env (f + 1) ty j = .error e → decode w env (f + 2) ty j = .error e := by
  intro w ty j e hv h
  unfold decode at h ⊢
  split at h
  all_goals first
    | exact h
    | (have ha := map_err h; first
        | (rw [ih.dec _ _ _ _ hv ha]; rfl)
        | (rw [ih.elems _ _ _ _ hv ha]; rfl)
        | (rw [ih.mapv _ _ _ _ hv ha]; rfl)
        | (rw [ih.strct _ _ _ _ _ hv ha]; rfl))
    | skip
  · -- a named type
    split at h
    · exact h
    · rename_i d hres
      split at h
      · rename_i hm; simp only [hm, ↓reduceIte]; exact ih.meth _ _ _ _ (resolve_mem hres) hv h
      · rename_i hm
        split at h
        · rename_i hf; simp only [hm, hf, ↓reduceIte]; exact h
        · rename_i hf; simp only [hm, hf]; exact ih.dec _ _ _ _ hv h
  · -- a slice of a named type
    revert h
    split <;> split <;> intro h
    all_goals first
      | exact h
      | (simp only [] at h ⊢
         have ha := map_err h
         rw [ih.elems _ _ _ _ hv ha]; rfl)
  · -- any other slice
    simp only [] at h ⊢
    have ha := map_err h
    rw [ih.elems _ _ _ _ hv ha]; rfl


theorem errMono (env : Env) (hna : NoAnyOfEnv env) : ∀ f, ErrMono env f := by
  intro f
  induction f with
  | zero => exact errMono_zero env
  | succ f ih =>
    have ok := okMono env f
    exact ⟨step_decE hna ok ih, step_elemsE ok ih, step_mapE ok ih, step_strctE ok ih, step_methE hna ok ih,
      step_beforeE ih, step_afterE ih⟩

/-- **a rejection is a rejection for every larger fuel** (programs without anyOf validators; errors that are
    verdicts: not `fuel`, not `uncompilable`) -/
theorem decode_err_mono (w : Wire) (env : Env) (hna : NoAnyOfEnv env) (ty : GoTy) (j : Json) (e : DecErr)
    (hv : Verdict e) (f g : Nat) (hfg : f ≤ g) (h : decode w env f ty j = .error e) :
    decode w env g ty j = .error e := by
  induction g with
  | zero => have : f = 0 := by omega
            subst this; exact h
  | succ g ih =>
    by_cases hc : f = g + 1
    · subst hc; exact h
    · exact (errMono env hna g).dec _ _ _ _ hv (ih (by omega))

/-- **the verdict does not depend on the fuel**: once `decode` answers with a value or with a verdict error, it
    gives the same answer for every larger fuel -/
theorem decode_stable (w : Wire) (env : Env) (hna : NoAnyOfEnv env) (ty : GoTy) (j : Json) (f g : Nat) (hfg : f ≤ g)
    (hdone : ∀ e, decode w env f ty j = .error e → Verdict e) :
    decode w env g ty j = decode w env f ty j := by
  cases h : decode w env f ty j with
  | ok v => exact decode_ok_mono w env ty j v f g hfg h
  | error e => exact decode_err_mono w env hna ty j e (hdone e h) f g hfg h

end GJS.Proofs

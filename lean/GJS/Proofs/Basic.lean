/-
  Helper lemmas shared by the property files (no property statements here).
-/
namespace GJS.Proofs

/-- the emitted pair of length tests (`!= 0` guards, negated strict comparisons) is the plain interval test -/
theorem lenEquiv (mn mx : Int) (n : Nat) :
    ((mn == 0 || !decide ((n:Int) < mn)) && (mx == 0 || !decide ((n:Int) > mx))) =
    (decide (mn ≤ (n:Int)) && (mx == 0 || decide ((n:Int) ≤ mx))) := by
  rw [Bool.eq_iff_iff]
  simp only [Bool.and_eq_true, Bool.or_eq_true, beq_iff_eq, Bool.not_eq_true', decide_eq_false_iff_not, decide_eq_true_eq]
  omega

theorem sum_map_one {α : Type} (l : List α) (f : α → Nat) (h : ∀ x ∈ l, f x = 1) : (l.map f).sum = l.length := by
  induction l with
  | nil => rfl
  | cons a t ih =>
    simp only [List.map_cons, List.sum_cons, List.length_cons]
    rw [h a (List.mem_cons_self ..), ih (fun x hx => h x (List.mem_cons_of_mem _ hx))]
    omega

end GJS.Proofs

import GJS.Model.Run
import GJS.Cert
/-
  Helper lemmas about the run-time model (no property statements): how a failure somewhere below a position
  makes the whole decoding fail.  `FailsAt env ty d` collects the local reasons (a missing required key, a
  JSON value of the wrong type for a primitive, a non-array for a slice, a non-object for a struct or map)
  and propagates them along exactly the paths `decode` follows: pointers, arrays, maps, struct fields (rule
  G7), named types with or without their own emitted method.  `fails_not_accepted` is the single induction
  every "is rejected" property theorem (C03, C04) rests on.
-/
namespace GJS.Proofs
open GJS

def Accepted {α : Type} (r : R α) : Prop := ∃ v, r = .ok v

theorem not_accepted_error {α : Type} (e : DecErr) : ¬ Accepted (Except.error e : R α) := by
  intro ⟨v, h⟩; cases h

theorem accepted_map {α β : Type} (f : α → β) (r : R α) : Accepted (r.map f) → Accepted r := by
  intro ⟨v, h⟩
  cases r with
  | error e => cases h
  | ok a => exact ⟨a, rfl⟩

theorem accepted_bind_elim {α β : Type} (r : R α) (g : α → R β) : Accepted (r >>= g) → ∃ a, r = .ok a ∧ Accepted (g a) := by
  intro ⟨v, h⟩
  cases r with
  | error e => cases h
  | ok a => exact ⟨a, rfl, ⟨v, h⟩⟩

theorem accepted_bind {α β : Type} (r : R α) (g : α → R β) : Accepted (r >>= g) → Accepted r := by
  intro ⟨v, h⟩
  cases r with
  | error e => cases h
  | ok a => exact ⟨a, rfl⟩

/-- a JSON value a Go primitive cannot hold (rules G1, G2) -/
def primMismatch : GoTy → Json → Bool
  | .string, .str _ => false
  | .bool, .bool _ => false
  | .float64, .num _ => false
  | .int _, .num q => q.den ≠ 1
  | .fmt _, .str _ => false
  | .string, _ | .bool, _ | .float64, _ | .int _, _ | .fmt _, _ => true
  | _, _ => false

/-- a JSON value of the wrong kind for a composite Go type -/
def shapeMismatch : GoTy → Json → Bool
  | .slice _, .arr _ => false
  | .strct _, .obj _ => false
  | .map _, .obj _ => false
  | .slice _, _ | .strct _, _ | .map _, _ => true
  | _, _ => false


inductive FailsAt (env : Env) : GoTy → Json → Prop where
  /-- a primitive position holding a non-null value of another JSON type -/
  | prim {t j} : primMismatch t j = true → j ≠ .null → FailsAt env t j
  /-- a composite position holding a non-null value of another JSON kind -/
  | shape {t j} : shapeMismatch t j = true → j ≠ .null → FailsAt env t j
  /-- an enum type whose carrier cannot hold the value -/
  | enumUnder {n d vals wr ic cs j} : env.resolve 8 n = some d → d.body = .enum vals wr ic cs true →
      FailsAt env (enumCarrierTy d) j → FailsAt env (.named n) j
  | here {n d vs kvs k} : env.resolve 8 n = some d → d.body = .plain vs true → Validator.required k ∈ vs →
      ahas k kvs = false → FailsAt env (.named n) (.obj kvs)
  | under {n d vs m j} : env.resolve 8 n = some d → d.body = .plain vs m →
      d.ty.isFmt = false → FailsAt env d.ty j → FailsAt env (.named n) j
  | field {fs kvs k x fld} : (k, x) ∈ kvs → bindKey fs k = some fld → FailsAt env fld.ty x →
      FailsAt env (.strct fs) (.obj kvs)
  | elem {t xs x} : x ∈ xs → FailsAt env t x → FailsAt env (.slice t) (.arr xs)
  | ptr {t j} : FailsAt env t j → FailsAt env (.ptr t) j
  | mapv {t kvs k x} : (k, x) ∈ kvs → FailsAt env t x → FailsAt env (.map t) (.obj kvs)

theorem fails_not_null {env : Env} {t : GoTy} : ¬ FailsAt env t .null := by
  intro h
  generalize hj : Json.null = j at h
  induction h with
  | prim _ hn => exact hn hj.symm
  | shape _ hn => exact hn hj.symm
  | enumUnder _ _ _ ih => exact ih hj
  | here _ _ _ _ => cases hj
  | under _ _ _ _ ih => exact ih hj
  | field _ _ _ => cases hj
  | elem _ _ => cases hj
  | ptr _ ih => exact ih hj
  | mapv _ _ => cases hj

theorem runBefore_fails {w : Wire} {env : Env} {dn : String} {vs : List Validator} {kvs : List (String × Json)}
    {k : String} {j : Json} (hk : Validator.required k ∈ vs) (hl : ahas k kvs = false) :
    ∀ f, ¬ Accepted (runBefore w env f dn vs (some kvs) j) := by
  induction vs with
  | nil => cases hk
  | cons v rest ih =>
    intro f
    cases f with
    | zero => exact not_accepted_error _
    | succ f =>
      rcases List.mem_cons.mp hk with heq | hk'
      · subst heq
        simp only [runBefore, hl]
        exact not_accepted_error _
      · cases v with
        | required k' =>
          simp only [runBefore]
          split
          · exact ih hk' f
          · exact not_accepted_error _
        | anyOf n =>
          simp only [runBefore]
          split
          · exact ih hk' f
          · exact not_accepted_error _
        | nullType _ _ => simp only [runBefore]; exact ih hk' f
        | dflt _ _ _ => simp only [runBefore]; exact ih hk' f
        | array _ _ _ _ => simp only [runBefore]; exact ih hk' f
        | string _ _ _ _ _ => simp only [runBefore]; exact ih hk' f
        | numeric _ _ _ => simp only [runBefore]; exact ih hk' f

theorem decodeElems_fails {w : Wire} {env : Env} {t : GoTy} {xs : List Json} {x : Json} (hx : x ∈ xs)
    (h : ∀ f, ¬ Accepted (decode w env f t x)) : ∀ f, ¬ Accepted (decodeElems w env f t xs) := by
  induction xs with
  | nil => cases hx
  | cons y ys ih =>
    intro f
    cases f with
    | zero => exact not_accepted_error _
    | succ f =>
      simp only [decodeElems]
      rcases List.mem_cons.mp hx with rfl | hx'
      · intro hacc; exact h f (accepted_bind _ _ hacc)
      · intro hacc
        cases hd : decode w env f t y with
        | error e => rw [hd] at hacc; exact not_accepted_error _ hacc
        | ok v =>
          rw [hd] at hacc
          simp only [bind, Except.bind] at hacc
          exact ih hx' f (accepted_bind _ _ hacc)

theorem decodeMap_fails {w : Wire} {env : Env} {t : GoTy} {kvs : List (String × Json)} {k : String} {x : Json}
    (hx : (k, x) ∈ kvs) (h : ∀ f, ¬ Accepted (decode w env f t x)) : ∀ f, ¬ Accepted (decodeMap w env f t kvs) := by
  induction kvs with
  | nil => cases hx
  | cons y ys ih =>
    obtain ⟨k', y'⟩ := y
    intro f
    cases f with
    | zero => exact not_accepted_error _
    | succ f =>
      simp only [decodeMap]
      rcases List.mem_cons.mp hx with heq | hx'
      · cases heq
        intro hacc; exact h f (accepted_bind _ _ hacc)
      · intro hacc
        cases hd : decode w env f t y' with
        | error e => rw [hd] at hacc; exact not_accepted_error _ hacc
        | ok v =>
          rw [hd] at hacc
          simp only [bind, Except.bind] at hacc
          exact ih hx' f (accepted_bind _ _ hacc)

theorem decodeStruct_fails {env : Env} {fs : List Field} {kvs : List (String × Json)} {k : String} {x : Json}
    {fld : Field} (hx : (k, x) ∈ kvs) (hb : bindKey fs k = some fld)
    (h : ∀ f, ¬ Accepted (decode .json env f fld.ty x)) :
    ∀ f acc, ¬ Accepted (decodeStruct .json env f fs kvs acc) := by
  induction kvs with
  | nil => cases hx
  | cons y ys ih =>
    obtain ⟨k', y'⟩ := y
    intro f acc
    cases f with
    | zero => exact not_accepted_error _
    | succ f =>
      simp only [decodeStruct]
      rcases List.mem_cons.mp hx with heq | hx'
      · cases heq
        simp only [hb]
        intro hacc; exact h f (accepted_bind _ _ hacc)
      · cases hbk : bindKey fs k' with
        | none => simp only; exact ih hx' f acc
        | some fld' =>
          simp only
          intro hacc
          cases hd : decode .json env f fld'.ty y' with
          | error e => rw [hd] at hacc; exact not_accepted_error _ hacc
          | ok v =>
            rw [hd] at hacc
            simp only [bind, Except.bind] at hacc
            exact ih hx' f _ hacc

/-- whatever the fuel and the depth, the document is not accepted (JSON path) -/
theorem fails_not_accepted {env : Env} {ty : GoTy} {d : Json} (h : FailsAt env ty d) :
    ∀ fuel, ¬ Accepted (decode .json env fuel ty d) := by
  induction h with
  | @prim t j hp hn =>
    intro fuel
    cases fuel with
    | zero => exact not_accepted_error _
    | succ f =>
      cases t <;> cases j <;> simp_all [primMismatch, decode] <;> exact not_accepted_error _
  | @shape t j hp hn =>
    intro fuel
    cases fuel with
    | zero => exact not_accepted_error _
    | succ f =>
      cases t with
      | slice e =>
        cases j <;> simp_all [shapeMismatch]
        all_goals (cases e with
          | int k => cases k <;> simp [decode] <;> exact not_accepted_error _
          | _ => simp [decode] <;> exact not_accepted_error _)
      | strct fs => cases j <;> simp_all [shapeMismatch, decode] <;> exact not_accepted_error _
      | map e => cases j <;> simp_all [shapeMismatch, decode] <;> exact not_accepted_error _
      | _ => simp [shapeMismatch] at hp
  | @enumUnder n dd vals wr ic cs j hres hbody hsub ih =>
    intro fuel
    cases fuel with
    | zero => exact not_accepted_error _
    | succ f =>
      have hnn : j ≠ .null := by intro h; subst h; exact fails_not_null hsub
      have hm : dd.hasMethod = true := by simp [Decl.hasMethod, hbody]
      have key : decode .json env (f + 1) (.named n) j = runMethod .json env f dd j := by
        cases j <;> simp_all [decode]
      rw [key]
      cases f with
      | zero => exact not_accepted_error _
      | succ f =>
        simp only [runMethod, hbody]
        have := ih f
        unfold enumCarrierTy at this
        cases hd : decode .json env f (enumCarrierOf dd.ty) j with
        | error e => simp only; exact not_accepted_error _
        | ok v => exact absurd ⟨v, hd⟩ this
  | @here n dd vs kvs k hres hbody hk hl =>
    intro fuel
    cases fuel with
    | zero => exact not_accepted_error _
    | succ f =>
      have hm : dd.hasMethod = true := by simp [Decl.hasMethod, hbody]
      simp only [decode, hres, hm, ↓reduceIte]
      cases f with
      | zero => exact not_accepted_error _
      | succ f =>
        simp only [runMethod, hbody]
        have hneed : (vs.any fun v => v.before || v.requiresRawAfter) = true := by
          apply List.any_eq_true.mpr
          exact ⟨_, hk, by simp [Validator.before]⟩
        simp only [hneed, ↓reduceIte]
        intro hacc
        have h1 := accepted_bind _ _ hacc
        simp only [bind, Except.bind] at hacc
        have := runBefore_fails (w := .json) (env := env) (dn := dd.name) (j := .obj kvs) hk hl f
        exact this (accepted_bind _ _ hacc)
  | @under n dd vs m j hres hbody hfmt hmiss ih =>
    intro fuel
    cases fuel with
    | zero => exact not_accepted_error _
    | succ f =>
      have hnn : j ≠ .null := by intro h; subst h; exact fails_not_null hmiss
      have key : decode .json env (f + 1) (.named n) j =
          (if dd.hasMethod then runMethod .json env f dd j else decode .json env f dd.ty j) := by
        cases j <;> simp_all [decode]
      rw [key]
      cases hm : dd.hasMethod with
      | false => simp only [Bool.false_eq_true, ↓reduceIte]; exact ih f
      | true =>
        simp only [↓reduceIte]
        cases f with
        | zero => exact not_accepted_error _
        | succ f =>
          simp only [runMethod, hbody]
          intro hacc
          obtain ⟨raw, _, h2⟩ := accepted_bind_elim _ _ hacc
          obtain ⟨_, _, h3⟩ := accepted_bind_elim _ _ h2
          exact ih f (accepted_bind _ _ h3)
  | @field fs kvs k x fld hx hb hmiss ih =>
    intro fuel
    cases fuel with
    | zero => exact not_accepted_error _
    | succ f =>
      simp only [decode]
      intro hacc
      exact decodeStruct_fails hx hb ih f _ (accepted_map _ _ hacc)
  | @elem t xs x hx hmiss ih =>
    intro fuel
    cases fuel with
    | zero => exact not_accepted_error _
    | succ f =>
      cases t with
      | int k =>
        cases k <;> (simp only [decode]; try (intro hacc; exact decodeElems_fails hx ih f (accepted_map _ _ hacc))) <;>
          exact not_accepted_error _
      | named n =>
        simp only [decode]
        have hw : (decide (Wire.json = Wire.yaml)) = false := by decide
        simp only [hw, Bool.false_and, Bool.false_eq_true, ↓reduceIte]
        split <;> (split <;> first
          | exact not_accepted_error _
          | (intro hacc; exact decodeElems_fails hx ih f (accepted_map _ _ hacc)))
      | _ => all_goals (simp only [decode]; intro hacc; exact decodeElems_fails hx ih f (accepted_map _ _ hacc))
  | @ptr t j hmiss ih =>
    intro fuel
    cases fuel with
    | zero => exact not_accepted_error _
    | succ f =>
      cases j with
      | null => exact absurd hmiss fails_not_null
      | _ => all_goals (simp only [decode]; intro hacc; exact ih f (accepted_map _ _ hacc))
  | @mapv t kvs k x hx hmiss ih =>
    intro fuel
    cases fuel with
    | zero => exact not_accepted_error _
    | succ f =>
      simp only [decode]
      intro hacc
      exact decodeMap_fails hx ih f (accepted_map _ _ hacc)

end GJS.Proofs

namespace GJS.Props.C04
open GJS


import GJS.Model.Run
import GJS.Proofs.Decode
/-
  Fuel monotonicity: a result `.ok v` obtained with some fuel is obtained with every larger fuel.
  (The model's functions are total by recursion on explicit fuel; this theorem says fuel is only ever
  "enough or not": an acceptance computed by the driver at `runFuel` is the acceptance at every larger fuel.)
-/
namespace GJS.Proofs
open GJS

theorem bind_ok {α β : Type} {x : R α} {g : α → R β} {b : β} (h : (x >>= g) = .ok b) :
    ∃ a, x = .ok a ∧ g a = .ok b := by
  cases x with
  | error e => simp [bind, Except.bind] at h
  | ok a => exact ⟨a, rfl, by simpa [bind, Except.bind] using h⟩

theorem map_ok {α β : Type} {x : R α} {g : α → β} {b : β} (h : x.map g = .ok b) :
    ∃ a, x = .ok a ∧ g a = b := by
  cases x with
  | error e => simp [Except.map] at h
  | ok a => exact ⟨a, rfl, by simpa [Except.map] using h⟩

structure LitMono (env : Env) (f : Nat) : Prop where
  lit : ∀ ty j v, literal env f ty j = .ok v → literal env (f + 1) ty j = .ok v
  elems : ∀ t xs vs, literalElems env f t xs = .ok vs → literalElems env (f + 1) t xs = .ok vs

theorem litMono_zero (env : Env) : LitMono env 0 := by
  constructor <;> intros <;> simp_all [literal, literalElems]

theorem litMono_step {env : Env} {f : Nat} (ih : LitMono env f) : LitMono env (f + 1) := by
  constructor
  · intro ty j v h
    unfold literal at h ⊢
    split at h
    all_goals first
      | exact h
      | (obtain ⟨a, ha, hg⟩ := map_ok h; rw [ih.elems _ _ _ ha]; simpa [Except.map] using hg)
      | skip
    -- a named type: resolve, then the body decides
    split at h
    · split at h
      · exact ih.lit _ _ _ h
      · split at h
        · exact h
        · exact ih.lit _ _ _ h
      · exact h
    · exact h
  · intro t xs vs h
    cases xs with
    | nil => exact h
    | cons x xs =>
      simp only [literalElems] at h ⊢
      obtain ⟨a, ha, hg⟩ := bind_ok h
      obtain ⟨b, hb, hg2⟩ := bind_ok hg
      rw [ih.lit _ _ _ ha, ih.elems _ _ _ hb]
      exact hg2


theorem litMono (env : Env) : ∀ f, LitMono env f := by
  intro f; induction f with
  | zero => exact litMono_zero env
  | succ f ih => exact litMono_step ih

structure OkMono (env : Env) (f : Nat) : Prop where
  dec : ∀ w ty j v, decode w env f ty j = .ok v → decode w env (f + 1) ty j = .ok v
  elems : ∀ w t xs vs, decodeElems w env f t xs = .ok vs → decodeElems w env (f + 1) t xs = .ok vs
  mapv : ∀ w t kvs vs, decodeMap w env f t kvs = .ok vs → decodeMap w env (f + 1) t kvs = .ok vs
  strct : ∀ w fs kvs acc r, decodeStruct w env f fs kvs acc = .ok r → decodeStruct w env (f + 1) fs kvs acc = .ok r
  meth : ∀ w d j v, runMethod w env f d j = .ok v → runMethod w env (f + 1) d j = .ok v
  before : ∀ w dn vs raw j, runBefore w env f dn vs raw j = .ok () → runBefore w env (f + 1) dn vs raw j = .ok ()
  anyB : ∀ w dn n i j, anyBranch w env f dn n i j = true → anyBranch w env (f + 1) dn n i j = true
  branch : ∀ w dn i j, branchAccepts w env f dn i j = true → branchAccepts w env (f + 1) dn i j = true
  after : ∀ w ty vs raw plain r, runAfter w env f ty vs raw plain = .ok r → runAfter w env (f + 1) ty vs raw plain = .ok r

theorem okMono_zero (env : Env) : OkMono env 0 := by
  constructor <;> intros <;>
    simp_all [decode, decodeElems, decodeMap, decodeStruct, runMethod, runBefore, anyBranch, branchAccepts, runAfter]

theorem step_elems' {env : Env} {f : Nat} (ih : OkMono env f) :
    ∀ w t xs vs, decodeElems w env (f + 1) t xs = .ok vs → decodeElems w env (f + 2) t xs = .ok vs := by
  intro w t xs vs h
  cases xs with
  | nil => exact h
  | cons x xs =>
    simp only [decodeElems] at h ⊢
    obtain ⟨a, ha, hg⟩ := bind_ok h
    obtain ⟨b, hb, hg2⟩ := bind_ok hg
    rw [ih.dec _ _ _ _ ha, ih.elems _ _ _ _ hb]
    exact hg2

theorem step_map' {env : Env} {f : Nat} (ih : OkMono env f) :
    ∀ w t kvs vs, decodeMap w env (f + 1) t kvs = .ok vs → decodeMap w env (f + 2) t kvs = .ok vs := by
  intro w t kvs vs h
  cases kvs with
  | nil => exact h
  | cons p rest =>
    obtain ⟨k, x⟩ := p
    simp only [decodeMap] at h ⊢
    obtain ⟨a, ha, hg⟩ := bind_ok h
    obtain ⟨b, hb, hg2⟩ := bind_ok hg
    rw [ih.dec _ _ _ _ ha, ih.mapv _ _ _ _ hb]
    exact hg2

theorem step_strct' {env : Env} {f : Nat} (ih : OkMono env f) :
    ∀ w fs kvs acc r, decodeStruct w env (f + 1) fs kvs acc = .ok r → decodeStruct w env (f + 2) fs kvs acc = .ok r := by
  intro w fs kvs acc r h
  cases kvs with
  | nil => exact h
  | cons p rest =>
    obtain ⟨k, x⟩ := p
    simp only [decodeStruct] at h ⊢
    split at h
    · exact ih.strct _ _ _ _ _ h
    · obtain ⟨a, ha, hg⟩ := bind_ok h
      rw [ih.dec _ _ _ _ ha]
      exact ih.strct _ _ _ _ _ hg


theorem step_before' {env : Env} {f : Nat} (ih : OkMono env f) :
    ∀ w dn vs raw j, runBefore w env (f + 1) dn vs raw j = .ok () → runBefore w env (f + 2) dn vs raw j = .ok () := by
  intro w dn vs raw j h
  cases vs with
  | nil => exact h
  | cons v rest =>
    unfold runBefore at h ⊢
    split at h
    · split at h
      · split at h
        · rename_i hc
          simp only [hc, ↓reduceIte]
          exact ih.before _ _ _ _ _ h
        · cases h
      · exact ih.before _ _ _ _ _ h
    · split at h
      · rename_i hb
        simp only [ih.anyB _ _ _ _ _ hb, ↓reduceIte]
        exact ih.before _ _ _ _ _ h
      · cases h
    · exact ih.before _ _ _ _ _ h

theorem step_anyB' {env : Env} {f : Nat} (ih : OkMono env f) :
    ∀ w dn n i j, anyBranch w env (f + 1) dn n i j = true → anyBranch w env (f + 2) dn n i j = true := by
  intro w dn n i j h
  cases n with
  | zero => simp [anyBranch] at h
  | succ n =>
    simp only [anyBranch, Bool.or_eq_true] at h ⊢
    rcases h with h | h
    · exact Or.inl (ih.branch _ _ _ _ h)
    · exact Or.inr (ih.anyB _ _ _ _ _ h)

theorem step_branch' {env : Env} {f : Nat} (ih : OkMono env f) :
    ∀ w dn i j, branchAccepts w env (f + 1) dn i j = true → branchAccepts w env (f + 2) dn i j = true := by
  intro w dn i j h
  unfold branchAccepts at h ⊢
  split at h
  · rename_i bd hres
    by_cases hm : bd.hasMethod = true
    · simp only [hm, ↓reduceIte] at h ⊢
      cases hr : runMethod w env f bd j with
      | error e => simp [hr] at h
      | ok v => rw [ih.meth _ _ _ _ hr]
    · simp [hm] at h
  · exact h


theorem step_after' {env : Env} {f : Nat} (ih : OkMono env f) :
    ∀ w ty vs raw plain r, runAfter w env (f + 1) ty vs raw plain = .ok r → runAfter w env (f + 2) ty vs raw plain = .ok r := by
  intro w ty vs raw plain r h
  cases vs with
  | nil => exact h
  | cons v rest =>
    unfold runAfter at h ⊢
    split at h
    · exact ih.after _ _ _ _ _ _ h
    · exact ih.after _ _ _ _ _ _ h
    · -- default
      split at h
      · rename_i habs
        simp only [habs, ↓reduceIte]
        simp only [] at h
        split at h
        · cases h
        · rename_i hlit
          simp only [hlit]
          split at h
          · rename_i x hx
            simp only [(litMono env f).lit _ _ _ hx]
            exact ih.after _ _ _ _ _ _ h
          · cases h
      · rename_i habs
        simp only [habs]
        exact ih.after _ _ _ _ _ _ h
    · split at h
      · rename_i hc; simp only [hc, ↓reduceIte]; exact ih.after _ _ _ _ _ _ h
      · cases h
    · split at h
      · rename_i hc; simp only [hc, ↓reduceIte]; exact ih.after _ _ _ _ _ _ h
      · cases h
    · split at h
      · rename_i hc; simp only [hc, ↓reduceIte]; exact ih.after _ _ _ _ _ _ h
      · cases h
    · split at h
      · cases h
      · rename_i hnd
        simp only [hnd]
        split at h
        · rename_i hc; simp only [hc, ↓reduceIte]; exact ih.after _ _ _ _ _ _ h
        · cases h


theorem step_meth' {env : Env} {f : Nat} (ih : OkMono env f) :
    ∀ w d j v, runMethod w env (f + 1) d j = .ok v → runMethod w env (f + 2) d j = .ok v := by
  intro w d j v h
  unfold runMethod at h ⊢
  split at h
  · exact h
  · -- enum
    simp only [] at h ⊢
    cases hd : decode w env f (enumCarrierOf d.ty) j with
    | error e => simp [hd] at h
    | ok x =>
      simp only [hd] at h
      simp only [ih.dec _ _ _ _ hd]
      exact h
  · -- plain: raw, before, decode, after, additional properties
    obtain ⟨raw, hraw, h⟩ := bind_ok h
    obtain ⟨u, hbef, h⟩ := bind_ok h
    obtain ⟨plain, hdec, h⟩ := bind_ok h
    obtain ⟨plain2, haft, h⟩ := bind_ok h
    cases u
    simp only [hraw, bind, Except.bind, ih.before _ _ _ _ _ hbef, ih.dec _ _ _ _ hdec, ih.after _ _ _ _ _ _ haft]
    simpa [bind, Except.bind] using h


theorem step_dec' {env : Env} {f : Nat} (ih : OkMono env f) :
    ∀ w ty j v, decode w env (f + 1) ty j = .ok v → decode w env (f + 2) ty j = .ok v := by
  intro w ty j v h
  unfold decode at h ⊢
  split at h
  all_goals first
    | exact h
    | (obtain ⟨a, ha, hg⟩ := map_ok h; first
        | (rw [ih.dec _ _ _ _ ha]; simpa [Except.map] using hg)
        | (rw [ih.elems _ _ _ _ ha]; simpa [Except.map] using hg)
        | (rw [ih.mapv _ _ _ _ ha]; simpa [Except.map] using hg)
        | (rw [ih.strct _ _ _ _ _ ha]; simpa [Except.map] using hg))
    | skip
  · -- a named type
    split at h
    · cases h
    · split at h
      · rename_i hm; simp only [hm, ↓reduceIte]; exact ih.meth _ _ _ _ h
      · rename_i hm
        split at h
        · cases h
        · rename_i hf; simp only [hm, hf, ↓reduceIte]; exact ih.dec _ _ _ _ h
  · -- a slice of a named type
    revert h
    split <;> split <;> intro h
    all_goals first
      | (simp at h; done)
      | (simp only [] at h ⊢
         obtain ⟨a, ha, hg⟩ := map_ok h
         rw [ih.elems _ _ _ _ ha]; simpa [Except.map] using hg)
  · -- any other slice
    simp only [] at h ⊢
    obtain ⟨a, ha, hg⟩ := map_ok h
    rw [ih.elems _ _ _ _ ha]; simpa [Except.map] using hg


theorem okMono (env : Env) : ∀ f, OkMono env f := by
  intro f
  induction f with
  | zero => exact okMono_zero env
  | succ f ih =>
    exact ⟨step_dec' ih, step_elems' ih, step_map' ih, step_strct' ih, step_meth' ih, step_before' ih,
      step_anyB' ih, step_branch' ih, step_after' ih⟩

/-- **fuel only ever is "enough or not"**: a decoded value obtained with some fuel is obtained with every
    larger fuel — for any program, type, document and wire -/
theorem decode_ok_mono (w : Wire) (env : Env) (ty : GoTy) (j : Json) (v : GoVal) (f g : Nat) (hfg : f ≤ g)
    (h : decode w env f ty j = .ok v) : decode w env g ty j = .ok v := by
  induction g with
  | zero => have : f = 0 := by omega
            subst this; exact h
  | succ g ih =>
    by_cases hc : f = g + 1
    · subst hc; exact h
    · exact (okMono env g).dec _ _ _ _ (ih (by omega))

/-- consequently an accepted document is accepted for every larger fuel, and a document that is rejected for
    every fuel (`Proofs.fails_not_accepted`) can never have been accepted for a small one -/
theorem accepted_mono (env : Env) (ty : GoTy) (j : Json) (f g : Nat) (hfg : f ≤ g)
    (h : Accepted (decode .json env f ty j)) : Accepted (decode .json env g ty j) := by
  obtain ⟨v, hv⟩ := h
  exact ⟨v, decode_ok_mono .json env ty j v f g hfg hv⟩

end GJS.Proofs

import GJS.Model.Gen
import GJS.Cert
/-
  The flat fragment as a decidable check.  `flatPlainB s = true` puts a schema inside the end-to-end theorem
  `GJS.Props.Flat.flat_end_to_end` (Props/FlatExact.lean): for such a schema the generator's output is known in closed
  form and accepts exactly the valid documents.  The driver evaluates the check for every generated program
  (CERT flat=).  (Definitions only; core Lean.)
-/
namespace GJS.Props.Flat
open GJS

/-- the Go field name of a property -/
def fname (name : String) : String := identifierizeStr [] name

/-- the schema of a property (the empty schema if there is none) -/
def propOf (t : Schema) (name : String) : Schema := (alookup name t.node.props).getD default

def flatPropB (p : Schema) : Bool :=
  (p.node.types == ["string"] || p.node.types == ["number"] || p.node.types == ["integer"] || p.node.types == ["boolean"]) &&
  p.node.ref == "" && p.node.enum.isNone && p.node.ext.isNone && p.node.anyOf.isEmpty && p.node.allOf.isEmpty &&
  p.node.format == "" && p.node.default.isNone && !p.node.subElem && p.node.multipleOf.isNone

def nameOKB (t : Schema) (name : String) : Bool :=
  (match alookup name t.node.props with | some prop => flatPropB prop | none => false) &&
  tagNameOK name && isAsciiStr name && fname name != "AdditionalProperties"

def flatPlainB (t : Schema) : Bool :=
  t.node.types == ["object"] && t.node.ref == "" && t.node.enum.isNone && t.node.ext.isNone && t.node.anyOf.isEmpty &&
  t.node.allOf.isEmpty && t.node.addl.isNone && t.node.anyOfCount == 0 && !t.node.subElem && !t.node.props.isEmpty &&
  (sortedKeys t.node.props).all (nameOKB t) && decide (((sortedKeys t.node.props).map fname).Nodup) &&
  !t.node.hasNot && t.node.multipleOf.isNone && t.node.format == "" && decide ((akeys t.node.props).Nodup) &&
  t.node.required.all (fun k => (akeys t.node.props).contains k) &&
  t.node.props.all (fun p => topFree p.2 && !p.2.node.hasNot) && decide (t.node.props.length ≤ 31) && topFree t

def stdCfgB (cfg : Config) : Bool :=
  cfg.tags == ["json", "yaml", "mapstructure"] && cfg.caps.isEmpty && !cfg.onlyModels && !cfg.minSizedInts &&
  cfg.rootType == "Root" && cfg.pkg != ""


/-- the keywords of a scalar member fit its type, and every stated numeric keyword is one a check is emitted for -/
def kwOKB (p : Schema) : Bool :=
  !p.node.hasNot &&
  (if p.node.types == ["string"] then !hasNumTop p && !hasArrTop p
   else if p.node.types == ["boolean"] then topFree p
   else !hasStrTop p && !hasArrTop p && decide (p.node.xmin ≠ .other) && decide (p.node.xmax ≠ .other) &&
        (!hasNumTop p || (normLo p.node.minimum p.node.xmin).1.isSome || (normHi p.node.maximum p.node.xmax).1.isSome))

/-- the flat fragment WITH value constraints on the members (`flat_end_to_end_full`) -/
def flatFullB (t : Schema) : Bool :=
  t.node.types == ["object"] && t.node.ref == "" && t.node.enum.isNone && t.node.ext.isNone && t.node.anyOf.isEmpty &&
  t.node.allOf.isEmpty && t.node.addl.isNone && t.node.anyOfCount == 0 && !t.node.subElem && !t.node.props.isEmpty &&
  (sortedKeys t.node.props).all (nameOKB t) && decide (((sortedKeys t.node.props).map fname).Nodup) &&
  !t.node.hasNot && t.node.multipleOf.isNone && t.node.format == "" && decide ((akeys t.node.props).Nodup) &&
  t.node.required.all (fun k => (akeys t.node.props).contains k) &&
  t.node.props.all (fun p => kwOKB p.2) && decide (t.node.props.length ≤ 31) && topFree t
end GJS.Props.Flat

namespace GJS.Props.Tree
open GJS GJS.Props.Flat

def isObj (p : Schema) : Bool := p.node.types == ["object"]

def isArr (p : Schema) : Bool := p.node.types == ["array"]

/-- the schema of an array member's items (the empty schema if there is none) -/
def itemsOf (p : Schema) : Schema := p.node.items.getD default

/-- an array of scalars that states only item counts (on the array) and nothing the generated code does not check -/
def arrMemberB (p : Schema) : Bool :=
  p.node.types == ["array"] && p.node.ref == "" && p.node.enum.isNone && p.node.ext.isNone && p.node.anyOf.isEmpty &&
  p.node.allOf.isEmpty && p.node.default.isNone && p.node.items.isSome && flatPropB (itemsOf p) &&
  !p.node.hasNot && p.node.multipleOf.isNone && p.node.format == "" && !hasNumTop p && !hasStrTop p &&
  decide (0 ≤ p.node.maxItems) && !(itemsOf p).node.hasNot && topFree (itemsOf p)

/-- the type names generated for a tree of objects (depth first, members before their parent) -/
def scopes : Nat → String → Schema → List String
  | 0, _, _ => []
  | d + 1, scope, t =>
    (sortedKeys t.node.props).flatMap (fun n =>
      if isObj (propOf t n) then scopes d (scope ++ fname n) (propOf t n) else []) ++ [scope]

def objShapeB (t : Schema) : Bool :=
  t.node.types == ["object"] && t.node.ref == "" && t.node.enum.isNone && t.node.ext.isNone && t.node.anyOf.isEmpty &&
  t.node.allOf.isEmpty && t.node.addl.isNone && t.node.anyOfCount == 0 && !t.node.subElem && !t.node.props.isEmpty &&
  t.node.default.isNone && decide (t.node.props.length ≤ 31) && decide (((sortedKeys t.node.props).map fname).Nodup)

def nodeFullB (t : Schema) : Bool :=
  !t.node.hasNot && t.node.multipleOf.isNone && t.node.format == "" && decide ((akeys t.node.props).Nodup) &&
  t.node.required.all (fun k => (akeys t.node.props).contains k) && topFree t &&
  t.node.props.all (fun p => isObj p.2 || isArr p.2 || kwOKB p.2)

def memberNameB (t : Schema) (n : String) : Bool :=
  (alookup n t.node.props).isSome && tagNameOK n && isAsciiStr n && fname n != "AdditionalProperties"

/-- trees of objects with scalar leaves, at most `d` levels: the fragment of `tree_end_to_end` -/
def treeFullB : Nat → Schema → Bool
  | 0, _ => false
  | d + 1, t => objShapeB t && nodeFullB t &&
      (sortedKeys t.node.props).all (fun n => memberNameB t n &&
        (flatPropB (propOf t n) || (isObj (propOf t n) && treeFullB d (propOf t n)) || arrMemberB (propOf t n)))

end GJS.Props.Tree


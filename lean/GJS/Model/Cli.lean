import GJS.Schema
/-
  Model of main.go: the order of the CLI's effects (regenerated fact `cliOrder`): flag maps are parsed, then
  every file is loaded and generated (DoFile), then Sources() is computed, and only then is anything written —
  each failing step ends the process through abort (exit status 1, one line on stderr).
-/
namespace GJS

/-- `stringSliceToStringMap` on one entry: split at the first `=` -/
def splitFlag (p : String) : Except String (String × String) :=
  let cs := p.toList
  match cs.idxOf? '=' with
  | none => .error s!"flag must be in the format URI=PACKAGE: {p}"
  | some i => .ok (String.ofList (cs.take i), String.ofList (cs.drop (i + 1)))

def parseFlagMap (ps : List String) : Except String (List (String × String)) := ps.mapM splitFlag

structure CliIn where
  args : List String                               -- schema files
  pkgGiven : Bool                                  -- -p or some --schema-package
  flagLists : List (List String)                   -- --schema-package / --schema-output / --schema-root-type
  doFile : String → Except String Unit             -- load + generate one file into the shared generator
  sources : List (String × String)                 -- Sources(): file name ↦ text ("-" = stdout)
  writeOK : String → Bool                          -- does creating / writing this file succeed

structure CliOut where
  exit : Nat
  stdout : String := ""
  writes : List (String × String) := []
  stderr : String := ""

def failed (msg : String) : CliOut := { exit := 1, stderr := "go-jsonschema: Failed: " ++ msg ++ "\n" }

def cliRun (i : CliIn) : CliOut :=
  if i.args.isEmpty then failed "No arguments specified. Run with --help for usage."
  else if !i.pkgGiven then failed "Package name not specified."
  else match i.flagLists.mapM parseFlagMap with
    | .error e => failed e
    | .ok _ =>
      match i.args.mapM i.doFile with
      | .error e => failed e
      | .ok _ =>
        -- a failing write aborts in the middle: files written before it stay (the property quantifies over
        -- inputs and flags, not over I/O faults; recorded as a limit in DESIGN.md)
        match i.sources.find? (fun s => s.1 ≠ "-" && !i.writeOK s.1) with
        | some bad => { failed ("cannot write " ++ bad.1) with
                        writes := (i.sources.takeWhile (fun s => s.1 = "-" || i.writeOK s.1)).filter (·.1 ≠ "-"),
                        stdout := String.join ((i.sources.takeWhile (fun s => s.1 = "-" || i.writeOK s.1)).filter (·.1 = "-") |>.map (·.2)) }
        | none => { exit := 0, stdout := String.join ((i.sources.filter (·.1 = "-")).map (·.2)),
                    writes := i.sources.filter (·.1 ≠ "-") }

end GJS

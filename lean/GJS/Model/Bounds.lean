/-
  Model of pkg/mathutils.NormalizeBounds (as the tree stands, i.e. with fix R1: `>=` / `<=`) and of
  the numeric validator's emitted test (pkg/generator/validator.go: numericValidator.generate,
  genBoundary, valueOf).  All arithmetic in `Rat` (convention F of DESIGN §1.3).
-/
namespace GJS

/-- `exclusiveMinimum` / `exclusiveMaximum` as decoded into `*any` -/
inductive XB where
  | absent | flag (b : Bool) | num (q : Rat) | other
deriving DecidableEq, Repr, Inhabited

/-- lower half of `NormalizeBounds`: (minBound, minExclusive) -/
def normLo (minimum : Option Rat) (x : XB) : Option Rat × Bool :=
  let r : Option Rat × Bool :=
    match x with
    | .absent => (minimum, false)
    | .flag b => (minimum, b)
    | .num v =>
      match minimum with
      | none => (some v, true)
      | some m => if v ≥ m then (some v, true) else (some m, false)
    | .other => (none, false)
  match minimum, r.1 with
  | some m, none => (some m, false)
  | _, _ => r

/-- upper half of `NormalizeBounds`: (maxBound, maxExclusive) -/
def normHi (maximum : Option Rat) (x : XB) : Option Rat × Bool :=
  let r : Option Rat × Bool :=
    match x with
    | .absent => (maximum, false)
    | .flag b => (maximum, b)
    | .num v =>
      match maximum with
      | none => (some v, true)
      | some m => if v ≤ m then (some v, true) else (some m, false)
    | .other => (none, false)
  match maximum, r.1 with
  | some m, none => (some m, false)
  | _, _ => r

/-- `int64(float64)`: truncation toward zero -/
def truncRat (q : Rat) : Int := Int.tdiv q.num q.den

/-- what a `numericValidator` was built from -/
structure NumCheck where
  mult : Option Rat := none
  lo : Option Rat := none
  hi : Option Rat := none
  xlo : XB := .absent
  xhi : XB := .absent
  roundToInt : Bool := false
deriving Repr, Inhabited

def NumCheck.valueOf (c : NumCheck) (b : Rat) : Rat :=
  if c.roundToInt then ((truncRat b : Int) : Rat) else b

/-- `math.Mod(x, m)`: remainder with the sign of `x` -/
def ratMod (x m : Rat) : Rat := x - m * ((truncRat (x / m) : Int) : Rat)

def ratAbs (x : Rat) : Rat := if x < 0 then -x else x

/-- emitted multipleOf test: `true` = passes -/
def NumCheck.multPasses (c : NumCheck) (x : Rat) : Bool :=
  match c.mult with
  | none => true
  | some m =>
    if c.roundToInt then
      let mi := truncRat m
      -- `x % 0` does not compile (constant division by zero): outside the domain, reported by `compiles`
      mi != 0 && Int.tmod x.num mi == 0
    else
      decide (ratAbs (ratMod x m) ≤ (1 : Rat) / 10000000000)

/-- `numericValidator.boundOf` (fix R11): the literal a bound is compared against. On an integer-typed field a
    fractional bound is moved to the integer that admits the same integers: up for an inclusive minimum and an
    exclusive maximum, down for an inclusive maximum and an exclusive minimum. -/
def NumCheck.boundOf (c : NumCheck) (b : Rat) (upper exclusive : Bool) : Rat :=
  if c.roundToInt then
    (if upper == exclusive then ((b.ceil : Int) : Rat) else ((b.floor : Int) : Rat))
  else b

/-- emitted upper test `if b <[=] v { return err }` -/
def NumCheck.hiPasses (c : NumCheck) (x : Rat) : Bool :=
  match normHi c.hi c.xhi with
  | (none, _) => true
  | (some b, true) => !decide (c.boundOf b true true ≤ x)
  | (some b, false) => !decide (c.boundOf b true false < x)

/-- emitted lower test `if b >[=] v { return err }` -/
def NumCheck.loPasses (c : NumCheck) (x : Rat) : Bool :=
  match normLo c.lo c.xlo with
  | (none, _) => true
  | (some b, true) => !decide (c.boundOf b false true ≥ x)
  | (some b, false) => !decide (c.boundOf b false false > x)

/-- the whole emitted numeric validator on a present, non-nil value -/
def NumCheck.passes (c : NumCheck) (x : Rat) : Bool :=
  c.multPasses x && c.hiPasses x && c.loPasses x

/-- with the nil guard: `none` = nil pointer (absent or null optional value) -/
def NumCheck.accepts (c : NumCheck) : Option Rat → Bool
  | none => true
  | some x => c.passes x

/-- does the validator emit any statement at all (fix R7: it is only registered if so) -/
def NumCheck.emitsSomething (c : NumCheck) : Bool :=
  c.mult.isSome || (normLo c.lo c.xlo).1.isSome || (normHi c.hi c.xhi).1.isSome

end GJS

/-
  Model of internal/x/text/cases.go (Identifierize, Capitalize, splitIdentifierByCaseAndSeparators,
  IdentifierFromFileName) over CLASSIFIED runes: the Unicode tables are parameters supplied per rune
  (by the Go harness from the `unicode` package, or by `asciiInfo` below for ASCII strings), so that what
  is modelled — and proved — is the state machine, not the tables.
-/
namespace GJS

/-- what Go's `unicode` package says about one code point -/
structure RInfo where
  cp : Nat
  lower : Bool      -- unicode.IsLower
  upper : Bool      -- unicode.IsUpper
  number : Bool     -- unicode.IsNumber (Nd, Nl, No)
  letter : Bool     -- unicode.IsLetter
  digit : Bool      -- unicode.IsDigit (Nd): the only numerals a Go identifier may contain
  fold : Nat        -- least code point of the SimpleFold orbit (strings.EqualFold compares orbits)
deriving DecidableEq, Repr, Inhabited

/-- a rune of the input together with its `unicode.ToUpper` image -/
structure Rune where
  self : RInfo
  up : RInfo
deriving DecidableEq, Repr, Inhabited

inductive Cls where
  | lower | upper | number | delim | nocase
deriving DecidableEq, Repr

/-- the `switch` of the splitter, in its order -/
def RInfo.cls (r : RInfo) : Cls :=
  if r.lower then .lower else if r.upper then .upper else if r.number then .number
  else if !r.letter then .delim else .nocase

def Rune.cls (r : Rune) : Cls := r.self.cls

structure SplitSt where
  cur : Option Cls := none           -- none = stateNothing
  part : List Rune := []             -- runes[j:i] accumulated so far (empty inside a delimiter run)
  done : List (List Rune) := []

def emitPart (a : List (List Rune)) (p : List Rune) : List (List Rune) := if p = [] then a else a ++ [p]

def splitStep (s : SplitSt) (r : Rune) : SplitSt :=
  let n := r.cls
  if s.cur = some n then
    if n = .delim then s else { s with part := s.part ++ [r] }
  else if s.cur = some .delim then { s with cur := some n, part := [r] }
  else if s.cur = some .upper ∧ n = .lower then { s with cur := some n, part := s.part ++ [r] }
  else { cur := some n, part := if n = .delim then [] else [r], done := emitPart s.done s.part }

/-- `splitIdentifierByCaseAndSeparators` -/
def splitIdent (rs : List Rune) : List (List Rune) :=
  let s := rs.foldl splitStep {}
  emitPart s.done s.part

/-- `strings.EqualFold` on rune lists -/
def equalFold (a : List RInfo) (b : List RInfo) : Bool :=
  a.length == b.length && (a.zip b).all (fun (x, y) => x.fold == y.fold)

/-- `Caser.Capitalize`; a capitalization is given as its own runes -/
def capitalize (caps : List (List RInfo)) (part : List Rune) : List RInfo :=
  match part with
  | [] => []
  | r :: rest =>
    match caps.find? (fun c => equalFold c (part.map (·.self))) with
    | some c => c
    | none => r.up :: rest.map (·.self)

def letterA : RInfo := { cp := 65, lower := false, upper := true, number := false, letter := true, digit := false, fold := 65 }

def mkAscii (s : String) : List RInfo :=
  s.toList.map fun c =>
    { cp := c.toNat, lower := c.isLower, upper := c.isUpper, number := c.isDigit, letter := c.isAlpha,
      digit := c.isDigit, fold := c.toUpper.toNat }

/-- `Caser.Identifierize` on a non-empty, non-"*" input (those two are handled on strings) -/
def identifierizeRunes (caps : List (List RInfo)) (rs : List Rune) : List RInfo :=
  let ident := (splitIdent rs).flatMap (capitalize caps)
  match ident with
  | [] => mkAscii "Undefined"
  | r0 :: _ => if !r0.letter || (!r0.upper && !r0.lower) then letterA :: ident else ident

/-- `Caser.Identifierize` -/
def identifierize (caps : List (List RInfo)) (rs : List Rune) : List RInfo :=
  if rs = [] then mkAscii "Blank"
  else if rs.map (·.self.cp) = [42] then mkAscii "Wildcard"
  else identifierizeRunes caps rs

/-- a valid exported Go identifier: an upper-case letter followed by letters, `_` and decimal digits -/
def validExported (rs : List RInfo) : Bool :=
  match rs with
  | [] => false
  | r0 :: rest => (r0.letter && r0.upper) && rest.all (fun r => r.letter || r.cp == 95 || r.digit)

/-! ### ASCII instantiation (what the generator model uses for names; DESIGN §1.2) -/

def asciiInfo (c : Char) : RInfo :=
  { cp := c.toNat, lower := c.isLower, upper := c.isUpper, number := c.isDigit, letter := c.isAlpha,
    digit := c.isDigit, fold := c.toUpper.toNat }

def asciiRune (c : Char) : Rune := { self := asciiInfo c, up := asciiInfo c.toUpper }

def isAsciiStr (s : String) : Bool := s.toList.all (fun c => c.toNat < 128)

def runesToString (rs : List RInfo) : String := String.ofList (rs.map (fun r => Char.ofNat r.cp))

/-- `Identifierize` on ASCII strings -/
def identifierizeStr (caps : List String) (s : String) : String :=
  runesToString (identifierize (caps.map (fun c => c.toList.map asciiInfo)) (s.toList.map asciiRune))

end GJS

import GJS.Model.Plan
import GJS.Model.Ident
/-
  Executable model of the generator for ONE schema document (pkg/generator/schema_generator.go,
  output.go, generate.go: getRootTypeName / makeEnumConstantName; pkg/codegen/utils.go;
  pkg/schemas/model.go: MergeTypes).  Function names follow the Go functions they mirror.  All recursion
  is on explicit fuel.  The model mirrors the code bug-for-bug on the domain D (DESIGN §1.2); constructs
  it does not cover answer `GenErr.unsupported`, which the driver reports and the harness never compares.
-/
namespace GJS

structure Config where
  tags : List String := ["json", "yaml", "mapstructure"]
  caps : List String := []
  onlyModels : Bool := false
  minSizedInts : Bool := false
  extraImports : Bool := false
  structNameFromTitle : Bool := false
  pkg : String := "x"
  outputName : String := "-"
  rootType : String := ""          -- SchemaMapping.RootType for this schema's id ("" = none)
  fileName : String := "schema.json"
  resolveExtensions : List String := []
deriving Repr, Inhabited

inductive GenErr where
  | noRoot | arrayItems | emptyEnum | enumNonPrimitive | unknownType (t : String) | unexpectedType (t : String)
  | defMissing (name : String) | badRef (ref : String) | emptyAnyOf | tooManyAddlTypes | mergeEmpty
  | expectedNamed | noPackage
  | unsupported (why : String)
  | fuel
deriving Repr, Inhabited, DecidableEq

/-- error class as the harness derives it from the real error message -/
def GenErr.kind : GenErr → String
  | .noRoot => "no-root" | .arrayItems => "array-items" | .emptyEnum => "empty-enum"
  | .enumNonPrimitive => "enum-non-primitive" | .unknownType _ => "unknown-type" | .unexpectedType _ => "unexpected-type"
  | .defMissing _ => "def-missing" | .badRef _ => "bad-ref" | .emptyAnyOf => "empty-anyof"
  | .tooManyAddlTypes => "addl-types" | .mergeEmpty => "merge-empty" | .expectedNamed => "expected-named"
  | .noPackage => "no-package"
  | .unsupported _ => "unsupported" | .fuel => "fuel"

/-- per-field facts `generateDeclaredType` needs in order to build validators (codegen.StructField) -/
structure FieldMeta where
  name : String
  jsonName : String
  sch : Schema              -- f.SchemaType (after any in-place bound clearing by min-sized-ints)
  dflt : Option Json        -- f.DefaultValue
  ty : GoTy
deriving Inhabited

structure StructMeta where
  required : List String := []      -- RequiredJSONFields
  fields : List FieldMeta := []
deriving Inhabited

/-- result of generateType / generateTypeInline -/
structure TyRes where
  ty : GoTy
  smeta : Option StructMeta := none         -- present iff `ty` is a struct built by generateStructType
  bounds : Option IntBounds := none        -- bounds left in the node by PrimitiveTypeFromJSONSchemaType
  nilResult : Bool := false                -- the `return nil, nil` of generateTypeInline
deriving Inhabited

structure GenSt where
  decls : List Decl := []                          -- Package.Decls restricted to types and aliases, AddDecl order
  inProgress : List (String × Schema) := []        -- declsByName entries whose Type is still nil
  byDef : List (String × String) := []             -- declsBySchema for definition nodes: def name ↦ decl name
  imports : List Import := []
  warnings : List String := []
  issues : List String := []                       -- constructs known not to compile (C01 classes)
  refCache : List (String × String) := []          -- schemaTypesByRef: $ref ↦ definition name
  derefDefs : List String := []                    -- definitions whose node has Dereferenced = true
  hidden : List String := []                       -- declared names that were deleted from declsByName again
  usedPkgs : List String := []                     -- packages the emitted type expressions mention
deriving Inhabited

abbrev GenM := StateT GenSt (Except GenErr)

def addImport (path : String) (alias : String := "") : GenM Unit :=
  modify fun st => if st.imports.any (·.path == path) then st else { st with imports := st.imports ++ [{ path, alias }] }

def warn (w : String) : GenM Unit := modify fun st => { st with warnings := st.warnings ++ [w] }
def issue (w : String) : GenM Unit := modify fun st => if st.issues.contains w then st else { st with issues := st.issues ++ [w] }

def declNames (st : GenSt) : List String :=
  st.decls.filterMap fun d => match d.body with | .alias _ => none | _ => some d.name

/-- names whose `declsByName` entry has its Type set -/
def visibleNames (st : GenSt) : List String := (declNames st).filter (fun n => !st.hidden.contains n)

/-- keys of `declsByName` -/
def byNameKeys (st : GenSt) : List String := visibleNames st ++ st.inProgress.map (·.1)

/-- `output.isUniqueTypeName` -/
def isUniqueTypeName (st : GenSt) (name : String) : Bool := !(visibleNames st).contains name

def probeName (keys : List String) (name : String) : Nat → Nat → String
  | 0, k => s!"{name}_{k}"
  | f + 1, k => let s := s!"{name}_{k}"; if keys.contains s then probeName keys name f (k + 1) else s

/-- `output.uniqueTypeName` -/
def uniqueTypeName (name : String) : GenM String := do
  let st ← get
  if isUniqueTypeName st name then return name
  let keys := byNameKeys st
  let s := probeName keys name (keys.length + 1) 1
  warn s!"Multiple types map to the name {name}; declaring duplicate as {s} instead"
  return s

def findDecl (st : GenSt) (n : String) : Option Decl := st.decls.find? (fun d => d.name == n && (match d.body with | .alias _ => false | _ => true))

/-- `Type.IsNillable` -/
def isNillable (st : GenSt) : GoTy → Bool
  | .ptr _ | .slice _ | .map _ | .iface | .nullTy => true
  | .custom _ n => n
  | .named n => match findDecl st n with
    | some d => (match d.ty with
        | .ptr _ | .slice _ | .map _ | .iface | .nullTy => true
        | .custom _ nl => nl
        | _ => false)      -- a named type whose underlying type is again named is never produced
    | none => false
  | _ => false

/-- `codegen.WrapTypeInPointer` -/
def wrapPtr (st : GenSt) (t : GoTy) : GoTy :=
  match t with
  | .ptr _ => t
  | .named n => (match findDecl st n with
      | some d => (match d.ty with | .ptr _ => t | _ => .ptr t)
      | none => .ptr t)
  | _ => .ptr t

def isNamedType : GoTy → Bool
  | .named _ | .qual _ _ | .ptr (.named _) | .ptr (.qual _ _) => true
  | _ => false

def identifierizeM (cfg : Config) (s : String) : GenM String :=
  if isAsciiStr s && cfg.caps.all isAsciiStr then pure (identifierizeStr cfg.caps s)
  else throw (.unsupported "non-ascii-name")

def isPrimitiveTypeName (t : String) : Bool :=
  t == "string" || t == "number" || t == "integer" || t == "boolean" || t == "null"

/-! ### structural equality of schema nodes, as `cmp.Equal` with `cmputil.Opts` sees it
    (ignores `Ref`, `AnyOf` and the unexported flags) -/

def xbEq : XB → XB → Bool
  | .absent, .absent => true | .flag a, .flag b => a == b | .num a, .num b => a == b | .other, .other => true
  | _, _ => false

def optJsonEq : Option Json → Option Json → Bool
  | none, none => true | some a, some b => a == b | _, _ => false

def optJsonListEq : Option (List Json) → Option (List Json) → Bool
  | none, none => true | some a, some b => Json.beqList a b | _, _ => false

mutual
  def Schema.eqv : Nat → Schema → Schema → Bool
    | 0, _, _ => false
    | f + 1, a, b =>
      let x := a.node; let y := b.node
      x.types == y.types && optJsonListEq x.enum y.enum && x.minimum == y.minimum && x.maximum == y.maximum &&
      x.multipleOf == y.multipleOf && xbEq x.xmin y.xmin && xbEq x.xmax y.xmax &&
      x.minLength == y.minLength && x.maxLength == y.maxLength && x.minItems == y.minItems && x.maxItems == y.maxItems &&
      x.pattern == y.pattern && x.format == y.format && x.title == y.title && x.description == y.description &&
      Schema.eqvOpt f x.items y.items && Schema.eqvOpt f x.addl y.addl && x.hasNot == y.hasNot &&
      x.required == y.required && Schema.eqvKvs f x.props y.props && Schema.eqvKvs f x.defs y.defs &&
      Schema.eqvList f x.allOf y.allOf && optJsonEq x.default y.default && x.ext == y.ext &&
      x.dereferenced == y.dereferenced && x.emptyKw == y.emptyKw && x.enumCoerced == y.enumCoerced
  def Schema.eqvOpt : Nat → Option Schema → Option Schema → Bool
    | _, none, none => true
    | 0, _, _ => false
    | f + 1, some a, some b => Schema.eqv f a b
    | _ + 1, _, _ => false
  def Schema.eqvList : Nat → List Schema → List Schema → Bool
    | _, [], [] => true
    | 0, _, _ => false
    | f + 1, a :: as, b :: bs => Schema.eqv f a b && Schema.eqvList f as bs
    | _ + 1, _, _ => false
  def Schema.eqvKvs : Nat → List (String × Schema) → List (String × Schema) → Bool
    | _, [], [] => true
    | 0, _, _ => false
    | f + 1, (k, a) :: as, (k', b) :: bs => k == k' && Schema.eqv f a b && Schema.eqvKvs f as bs
    | _ + 1, _, _ => false
end

def schemaEq (a b : Schema) : Bool := Schema.eqv 64 a b

/-! ### mergo, as used by schemas.MergeTypes -/

def firstStr (a b : String) : String := if a = "" then b else a
def firstInt (a b : Int) : Int := if a = 0 then b else a
/-- a `*float64`: nil → take src; non-nil but pointing at 0 → the pointee is overwritten by a non-zero src -/
def firstRat (a b : Option Rat) : Option Rat :=
  match a, b with
  | none, b => b
  | some x, some y => if x = 0 ∧ y ≠ 0 then some y else some x
  | some x, none => some x
def firstXB (a b : XB) : XB := match a with | .absent => b | _ => a

mutual
  /-- `mergo.Merge(dst, src, WithAppendSlice, typeListTransformer)` on two Type nodes -/
  def mergeNode : Nat → Schema → Schema → Schema
    | 0, d, _ => d
    | f + 1, d, s =>
      let x := d.node; let y := s.node
      .mk { x with
        ref := firstStr x.ref y.ref
        types := if x.types.isEmpty then y.types else x.types
        enum := (match x.enum, y.enum with
                 | none, e => e | some a, some b => some (a ++ b) | some a, none => some a)
        minimum := firstRat x.minimum y.minimum
        maximum := firstRat x.maximum y.maximum
        multipleOf := firstRat x.multipleOf y.multipleOf
        xmin := firstXB x.xmin y.xmin
        xmax := firstXB x.xmax y.xmax
        minLength := firstInt x.minLength y.minLength
        maxLength := firstInt x.maxLength y.maxLength
        minItems := firstInt x.minItems y.minItems
        maxItems := firstInt x.maxItems y.maxItems
        pattern := firstStr x.pattern y.pattern
        format := firstStr x.format y.format
        title := firstStr x.title y.title
        description := firstStr x.description y.description
        items := mergeOpt f x.items y.items
        addl := mergeOpt f x.addl y.addl
        hasNot := x.hasNot || y.hasNot
        required := x.required ++ y.required
        props := mergeKvs f x.props y.props
        defs := mergeKvs f x.defs y.defs
        allOf := x.allOf ++ y.allOf
        anyOf := x.anyOf ++ y.anyOf
        default := (match x.default with | none => y.default | some v => some v)
        ext := (match x.ext with | none => y.ext | some e => some e)
        dereferenced := x.dereferenced || y.dereferenced }
  def mergeOpt : Nat → Option Schema → Option Schema → Option Schema
    | _, none, b => b
    | _, some a, none => some a
    | 0, some a, some _ => some a
    | f + 1, some a, some b => some (mergeNode f a b)
  /-- map merge: keys of `src` not in `dst` are added; common keys are merged into dst's entry -/
  def mergeKvs : Nat → List (String × Schema) → List (String × Schema) → List (String × Schema)
    | _, d, [] => d
    | 0, d, _ => d
    | f + 1, d, (k, v) :: rest => mergeKvs f (mergeEntry f d k v) rest
  /-- one entry of `src` merged into the destination map -/
  def mergeEntry : Nat → List (String × Schema) → String → Schema → List (String × Schema)
    | 0, d, _, _ => d
    | f + 1, d, k, v =>
      match alookup k d with
      | none => d ++ [(k, v)]
      | some old => d.map (fun (p : String × Schema) => if p.1 = k then (k, mergeNode f old v) else p)
end

def ratZeroOverwrite (a b : Option Rat) : Bool :=
  match a, b with | some x, some y => x = 0 ∧ y ≠ 0 | _, _ => false

mutual
  /-- does merging `s` into `d` overwrite, in place, a `*float64` that points at 0?  (mergo treats the zero
      pointee as empty; the overwritten cell is shared with the branch it came from, whose validators are
      emitted later and then print the other branch's bound) -/
  def zeroOverwrite : Nat → Schema → Schema → Bool
    | 0, _, _ => false
    | f + 1, d, s =>
      let x := d.node; let y := s.node
      ratZeroOverwrite x.minimum y.minimum || ratZeroOverwrite x.maximum y.maximum ||
      ratZeroOverwrite x.multipleOf y.multipleOf ||
      (match x.items, y.items with | some a, some b => zeroOverwrite f a b | _, _ => false) ||
      (match x.addl, y.addl with | some a, some b => zeroOverwrite f a b | _, _ => false) ||
      zeroOverwriteKvs f x.props y.props
  def zeroOverwriteKvs : Nat → List (String × Schema) → List (String × Schema) → Bool
    | 0, _, _ => false
    | _ + 1, _, [] => false
    | f + 1, d, (k, v) :: rest =>
      (match alookup k d with | some old => zeroOverwrite f old v | none => false) || zeroOverwriteKvs f d rest
end

def isPrimitiveTypeList (bs : List Schema) : Bool :=
  bs.all fun b => b.node.types.all isPrimitiveTypeName

/-- `schemas.MergeTypes` (the flags are unexported and never merged) -/
def mergeTypes (bs : List Schema) : Except GenErr Schema :=
  if bs.isEmpty then .error .mergeEmpty
  else if isPrimitiveTypeList bs then .ok (.mk {})
  else
    let (r, ow) := bs.foldl (fun (acc : Schema × Bool) b => (mergeNode 64 acc.1 b, acc.2 || zeroOverwrite 64 acc.1 b)) (.mk {}, false)
    if ow then .error (.unsupported "mergo-overwrites-zero-bound")
    else .ok (.mk { r.node with subElem := false, anyOfCount := 0, isAllOf := false })

/-! ### small pure pieces -/

def sortedKeys {α : Type} (m : List (String × α)) : List String :=
  (m.map (·.1)).mergeSort (fun a b => decide (a ≤ b))

def lowerChars (cs : List Char) : List Char := cs.map Char.toLower

/-- `extractRefNames` on characters: (defName, fileName) -/
def extractRefNamesL (cs : List Char) : Except GenErr (List Char × List Char) :=
  match cs.idxOf? '#' with
  | none => .ok ([], cs)
  | some i =>
    let fileName := cs.take i
    let scope := cs.drop (i + 1)
    let lower := lowerChars scope
    if "/$defs/".toList.isPrefixOf lower then .ok (scope.drop 7, fileName)
    else if "/definitions/".toList.isPrefixOf lower then .ok (scope.drop 13, fileName)
    else .error (.badRef (String.ofList cs))

/-- `extractRefNames`: (defName, fileName) -/
def extractRefNames (ref : String) : Except GenErr (String × String) :=
  match extractRefNamesL ref.toList with
  | .ok (d, f) => .ok (String.ofList d, String.ofList f)
  | .error e => .error e

/-- `CachedLoader.cacheKey` (fix R4) on paths as lists of segments: a relative file reference is keyed by the
    referring file's directory joined with it; an absolute one, or one without referrer, by itself -/
def cacheKeySegs (isAbs : Bool) (parentDir : Option (List String)) (rel : List String) : List String :=
  match isAbs, parentDir with
  | true, _ => rel
  | false, none => rel
  | false, some d => d ++ rel

/-- `Caser.IdentifierFromFileName` on the base name -/
def baseName (path : String) : String := (path.splitOn "/").getLast!

def trimExt (s : String) (exts : List String) : String :=
  match exts.find? (fun e => e ≠ "" ∧ s.endsWith e) with
  | some e => (s.dropEnd e.length).toString
  | none => s

/-- `Generator.getRootTypeName` -/
def getRootTypeName (cfg : Config) (title : String) : GenM String :=
  if cfg.rootType ≠ "" then pure cfg.rootType
  else if cfg.structNameFromTitle ∧ title ≠ "" then identifierizeM cfg title
  else identifierizeM cfg (trimExt (baseName cfg.fileName) cfg.resolveExtensions)

/-- `makeEnumConstantName` -/
def makeEnumConstantName (cfg : Config) (typeName value : String) : GenM String := do
  let idv ← identifierizeM cfg value
  if typeName = "" then return "Enum" ++ idv
  match typeName.toList.getLast? with
  | some c => if c.isDigit then return typeName ++ "_" ++ idv else return typeName ++ idv
  | none => return "Enum" ++ idv

/-- string branch of `PrimitiveTypeFromJSONSchemaType` -/
def stringType (format : String) : GoTy × List String :=
  match format with
  | "ipv4" | "ipv6" => (.fmt .addr, ["net/netip"])
  | "date-time" => (.fmt .dateTime, ["time"])
  | "date" => (.fmt .date, ["github.com/atombender/go-jsonschema/pkg/types"])
  | "time" => (.fmt .time, ["github.com/atombender/go-jsonschema/pkg/types"])
  | _ => (.string, [])

def nodeBounds (n : NodeF Schema) : IntBounds := { lo := n.minimum, hi := n.maximum, xlo := n.xmin, xhi := n.xmax }

def withBounds (s : Schema) (b : IntBounds) : Schema :=
  .mk { s.node with minimum := b.lo, maximum := b.hi, xmin := b.xlo, xmax := b.xhi }

/-! ### `--min-sized-ints` rewrites the schema nodes it generates
    `PrimitiveTypeFromJSONSchemaType` receives pointers INTO the schema node and clears the bounds the chosen
    type implies; the node a finished declaration keeps for later `cmp.Equal` comparisons is therefore the
    rewritten one — also below its top level (properties, items, additionalProperties; not inside allOf /
    anyOf, whose branches are merged into a fresh node).  Listed finding K35: a later same-named node that
    equals the REWRITTEN node reuses the declaration. -/
def isIntegerNode (n : NodeF Schema) : Bool :=
  (n.types.filter (· ≠ "null")) == ["integer"] && n.types.length ≤ 2

mutual
  def msRewriteNode : Nat → Schema → Schema
    | 0, s => s
    | f + 1, s =>
      if isIntegerNode s.node then withBounds s (primitiveInt true (nodeBounds s.node)).2
      else msRewriteChildren f s
  def msRewriteChildren : Nat → Schema → Schema
    | 0, s => s
    | f + 1, s =>
      .mk { s.node with props := msRewriteKvs f s.node.props,
                        items := (match s.node.items with | some i => some (msRewriteNode f i) | none => none),
                        addl := (match s.node.addl with | some i => some (msRewriteNode f i) | none => none) }
  def msRewriteKvs : Nat → List (String × Schema) → List (String × Schema)
    | 0, kvs => kvs
    | _, [] => []
    | f + 1, (k, v) :: rest => (k, msRewriteNode f v) :: msRewriteKvs f rest
end

/-- `generateEnumType` rewrites the members of a `type: integer` enum from float64 to int IN the schema node -/
def isIntegerEnumNode (n : NodeF Schema) : Bool := n.types == ["integer"] && n.enum.isSome

def markCoerced (s : Schema) : Schema := .mk { s.node with enumCoerced := true }

mutual
  def ecRewriteNode : Nat → Schema → Schema
    | 0, s => s
    | f + 1, s =>
      if isIntegerEnumNode s.node then markCoerced s else ecRewriteChildren f s
  def ecRewriteChildren : Nat → Schema → Schema
    | 0, s => s
    | f + 1, s =>
      .mk { s.node with props := ecRewriteKvs f s.node.props,
                        items := (match s.node.items with | some i => some (ecRewriteNode f i) | none => none),
                        addl := (match s.node.addl with | some i => some (ecRewriteNode f i) | none => none) }
  def ecRewriteKvs : Nat → List (String × Schema) → List (String × Schema)
    | 0, kvs => kvs
    | _, [] => []
    | f + 1, (k, v) :: rest => (k, ecRewriteNode f v) :: ecRewriteKvs f rest
end

/-- the node a finished declaration is compared by -/
def keptSchema (cfg : Config) (tEff : Schema) : Schema :=
  ecRewriteChildren 32 (if cfg.minSizedInts then msRewriteChildren 32 tEff else tEff)

/-- `codegen.PrimitiveTypeFromJSONSchemaType` (+ the AddImport loop of its callers) -/
def primitiveType (cfg : Config) (jsType format : String) (pointer : Bool) (n : NodeF Schema) : GenM TyRes := do
  let st ← get
  let w (t : GoTy) : GoTy := if pointer then wrapPtr st t else t
  match jsType with
  | "string" =>
      let (t, imps) := stringType format
      -- the caller's `cg.(codegen.NamedType)` test fails once the type is wrapped in a pointer:
      -- the imports are only added for the non-pointer form
      if !pointer then (for p in imps do addImport p)
      modify fun st => { st with usedPkgs := st.usedPkgs ++ imps }
      pure { ty := w t }
  | "number" => pure { ty := w .float64 }
  | "integer" =>
      let (k, b) := primitiveInt cfg.minSizedInts (nodeBounds n)
      pure { ty := w (.int k), bounds := some b }
  | "boolean" => pure { ty := w .bool }
  | "null" => pure { ty := .nullTy }
  | "object" | "array" => throw (.unexpectedType jsType)
  | other => throw (.unknownType other)

/-- `determineTypeName` -/
def determineTypeName : Nat → Schema → GenM (String × Bool)
  | 0, _ => pure ("null", false)
  | f + 1, t => do
    let n := t.node
    match n.types with
    | [] =>
      if n.anyOf.isEmpty && n.allOf.isEmpty then return ("null", false)
      let pick (l : List Schema) : GenM (String × Bool) :=
        match l with
        | [] => pure ("null", false)
        | r :: rest =>
          -- TypeList.Equals: a nil receiver list is never equal (`t == nil` is about the pointer, which is
          -- never nil here), so only length and elements count
          if rest.all (fun v => r.node.types == v.node.types) then determineTypeName f r else pure ("null", false)
      if !n.anyOf.isEmpty then pick n.anyOf else pick n.allOf
    | [a] => return (a, false)
    | [a, b] =>
      -- the loop keeps the LAST non-null index; isPtr iff some entry is "null"
      let isPtr := a == "null" || b == "null"
      let idx := if b != "null" then 1 else if a != "null" then 0 else 0
      -- (fix R19) two types of which neither is "null" are a choice between types, like a longer list
      if !isPtr then
        warn "Property has multiple types; will be represented as interface{} with no validation"
        return ("null", false)
      return (if idx == 1 then b else a, isPtr)
    | _ =>
      warn "Property has multiple types; will be represented as interface{} with no validation"
      return ("null", false)

/-- do the bound literals printed for an integer-typed field lie in the field type's range? -/
def intLiteralsFit (k : IntKind) (c : NumCheck) : Bool :=
  let fits (b : Option Rat × Bool) (upper : Bool) : Bool :=
    match b with | (some q, e) => k.inRangeB (c.boundOf q upper e).num | (none, _) => true
  fits (normLo c.lo c.xlo) false && fits (normHi c.hi c.xhi) true

/-- `structFieldValidators` (with its AddImport side effects) -/
def structFieldValidators (field : String) (sch : NodeF Schema) : Nat → GoTy → Bool → GenM (List Validator)
  | 0, _, _ => pure []
  | f + 1, ty, nillable => do
    match ty with
    | .nullTy => pure [.nullType field 0]
    | .ptr t => structFieldValidators field sch f t true
    | .string =>
        let hasPattern := sch.pattern ≠ ""
        if hasPattern then addImport "regexp"
        -- the pattern is pasted between backticks
        if sch.minLength ≠ 0 ∨ sch.maxLength ≠ 0 ∨ hasPattern then
          pure [.string field sch.minLength sch.maxLength sch.pattern nillable]
        else pure []
    | .int _ | .float64 =>
        let isInt := match ty with | .int _ => true | _ => false
        let c : NumCheck := { mult := sch.multipleOf, lo := sch.minimum, hi := sch.maximum,
                              xlo := sch.xmin, xhi := sch.xmax, roundToInt := isInt }
        if sch.multipleOf.isSome && !isInt then addImport "math"
        -- an integer bound literal outside the field type's range does not compile (constant overflow)
        (match ty with
         | .int k => if !(intLiteralsFit k c) then issue "int-literal-overflow" else pure ()
         | _ => pure ())
        if c.emitsSomething then pure [.numeric field nillable c] else pure []
    | .slice _ => pure (arrayLoop ty 0 (f + 1))
    | _ => pure []
where
  arrayLoop (t : GoTy) (depth : Nat) : Nat → List Validator
    | 0 => []
    | g + 1 =>
      match t with
      | .slice elem =>
        match elem with
        | .nullTy => [.nullType field (depth + 1)]
        | _ =>
          (if sch.minItems ≠ 0 ∨ sch.maxItems ≠ 0 then [Validator.array field (depth + 1) sch.minItems sch.maxItems] else [])
            ++ arrayLoop elem (depth + 1) g
      | _ => []

/-- `generateUnmarshaler`: imports; the method itself is represented by `DeclBody.plain vs true` -/
def unmarshalerImports (cfg : Config) (vs : List Validator) : GenM Unit := do
  -- for _, v := range validators { if anyOf → errors; if hasError → fmt; break }
  let rec go : List Validator → GenM Unit
    | [] => pure ()
    | v :: rest => do
      (match v with | .anyOf _ => addImport "errors" | _ => pure ())
      if v.hasError then addImport "fmt" else go rest
  go vs
  addImport "encoding/json"
  if cfg.extraImports then addImport "gopkg.in/yaml.v3" "yaml"

def jsonKind : Json → String
  | .null => "interface{}" | .str _ => "string" | .num _ => "float64" | .bool _ => "bool" | _ => "?"

/-- `encoding/json.isValidTag` on ASCII names, plus the two special spellings -/
def tagNameOK (name : String) : Bool :=
  name ≠ "" && name ≠ "-" &&
  name.toList.all (fun c => c.isAlphanum || "!#$%&()*+-./:;<=>?@[]^_{|}~ ".toList.contains c)

/-- the `uniqueNames` bookkeeping of `addStructFields`: the first field with a base name keeps it, the k-th
    (k ≥ 2) gets `<base>_<k>` -/
def nextFieldName (unique : List (String × Nat)) (baseName : String) : String × List (String × Nat) :=
  match alookup baseName unique with
  | some c => (baseName ++ "_" ++ toString (c + 1), unique.map (fun (p : String × Nat) => if p.1 = baseName then (p.1, c + 1) else p))
  | none => (baseName, unique ++ [(baseName, 1)])

/-- the field names given to a sequence of base names -/
def assignFieldNames : List (String × Nat) → List String → List String
  | _, [] => []
  | u, b :: bs => (nextFieldName u b).1 :: assignFieldNames (nextFieldName u b).2 bs

def mkTags (cfg : Config) (name : String) (required : Bool) : String :=
  " ".intercalate (cfg.tags.map fun tg => if required then s!"{tg}:\"{name}\"" else s!"{tg}:\"{name},omitempty\"")

/-- additionalProperties field type by the schema's single type name -/
def addlFieldType : String → GoTy
  | "string" => .map .string | "array" => .map (.slice .iface) | "number" => .map .float64
  | "integer" => .map (.int .int) | "boolean" => .map .bool | _ => .map .iface

/-- the per-field loop of `generateDeclaredType` over a struct's fields: default-filling validator first, then the
    field's own validators; the flag says whether the struct has the `AdditionalProperties` field -/
def fieldValidatorsLoop : List FieldMeta → List Validator → Bool → GenM (List Validator × Bool)
  | [], vs, hasAddl => pure (vs, hasAddl)
  | fm :: rest, vs, hasAddl => do
    let hasAddl := hasAddl || fm.name == "AdditionalProperties"
    let vs ← (match fm.dflt with
      | some dv => do
        -- ill-typed default literals do not compile (K4)
        if !(literalOK (← get).decls 32 fm.ty dv) then issue "default-literal"
        pure (vs ++ [Validator.dflt fm.name fm.jsonName dv])
      | none => pure vs)
    let fvs ← structFieldValidators fm.name fm.sch.node 16 fm.ty false
    fieldValidatorsLoop rest (vs ++ fvs) hasAddl

/-- the end of `generateDeclaredType`: the finished declaration is added to the package under `name` -/
def finishDecl (cfg : Config) (name : String) (t tEff : Schema) (rty : GoTy) (body : DeclBody) : GenM GoTy := do
  let st ← get
  if (declNames st).contains name then
    -- the name was deleted from declsByName while its declaration stayed in the package (K21):
    -- AddDecl drops the deeply-equal TypeDecl, but the methods are closures and are added again
    let same := st.decls.any fun d => d.name == name && d.ty.render == rty.render
    if same then
      set ({ st with inProgress := st.inProgress.filter (·.1 ≠ name), hidden := st.hidden.filter (· ≠ name) } : GenSt)
      if (match body with | .plain _ m => m | _ => false) then issue "duplicate-method"
    else
      -- a DIFFERENT type under the deleted name (e.g. the root type named like such a definition):
      -- both declarations are emitted and the package does not compile
      set ({ st with inProgress := st.inProgress.filter (·.1 ≠ name), hidden := st.hidden.filter (· ≠ name),
                     decls := st.decls ++ [{ name, ty := rty, comment := t.node.description, body, schema := keptSchema cfg tEff }] } : GenSt)
      issue "redeclared-type"
  else
    set ({ st with inProgress := st.inProgress.filter (·.1 ≠ name),
                   decls := st.decls ++ [{ name, ty := rty, comment := t.node.description, body, schema := keptSchema cfg tEff }] } : GenSt)
  pure (.named name)

mutual
  /-- `generateDeclaredType`; `defKey` = the definition this node is (the model's stand-in for pointer identity) -/
  def generateDeclaredType (cfg : Config) (doc : SchemaDoc) : Nat → Schema → String → Option String → GenM GoTy
    | 0, _, _, _ => throw .fuel
    | f + 1, t, scope, defKey => do
      let st ← get
      -- declsBySchema hit
      if let some dk := defKey then
        if let some dn := alookup dk st.byDef then
          if st.derefDefs.contains dk && dn ≠ scope && isUniqueTypeName st scope then
            let al : Decl := { name := scope, ty := .named dn, body := .alias dn }
            if !(st.decls.any fun d => d.name == scope && (match d.body with | .alias t => t == dn | _ => false)) then
              set { st with decls := st.decls ++ [al] }
          return .named dn
      if !(isUniqueTypeName st scope) then
        if let some od := findDecl st scope then
          if schemaEq od.schema t then return .named od.name
        -- getDeclByEqualSchema: probe scope_1, scope_2, … through declsByName (including unfinished entries)
        let rec probe (fuel k : Nat) : Option String :=
          match fuel with
          | 0 => none
          | g + 1 =>
            let s := s!"{scope}_{k}"
            match findDecl st s with
            | some d => if schemaEq d.schema t then some s else probe g (k + 1)
            | none => match alookup s st.inProgress with
              | some sch => if schemaEq sch t then some s else probe g (k + 1)
              | none => none
        if let some s := probe ((byNameKeys st).length + 1) 1 then return .named s
      if t.node.enum.isSome then
        let r ← generateEnumType cfg f t scope defKey
        return r
      let name ← uniqueTypeName scope
      modify fun st => { st with inProgress := (name, t) :: st.inProgress,
                                 byDef := (match defKey with | some dk => (dk, name) :: st.byDef | none => st.byDef) }
      let r ← generateType cfg doc f t scope
      if isNamedType r.ty then
        -- `delete(declsByName, decl.Name)` also removes a finished declaration of the same name
        modify fun st => { st with inProgress := st.inProgress.filter (·.1 ≠ name),
                                   hidden := if (declNames st).contains name then name :: st.hidden else st.hidden,
                                   byDef := (match defKey with | some dk => st.byDef.filter (·.1 ≠ dk) | none => st.byDef) }
        return r.ty
      let tEff : Schema := match r.bounds with | some b => withBounds t b | none => t
      let finish (body : DeclBody) : GenM GoTy := finishDecl cfg name t tEff r.ty body
      if cfg.onlyModels then return ← finish (.plain [] false)
      match r.ty, r.smeta with
      | .strct _, some m =>
        if t.node.anyOfCount > 0 then
          let vs := [Validator.anyOf t.node.anyOfCount]
          unmarshalerImports cfg vs
          return ← finish (.plain vs true)
        let reqVs := m.required.map Validator.required
        let (vs, hasAddl) ← fieldValidatorsLoop m.fields reqVs false
        if t.node.subElem || !vs.isEmpty then
          if hasAddl then
            addImport "reflect"; addImport "strings"; addImport "github.com/go-viper/mapstructure/v2"
            -- the collecting block reads `raw`, which only exists when some validator needs it
            if !(vs.any fun v => v.before || v.requiresRawAfter) then issue "addl-raw-undeclared"
          unmarshalerImports cfg vs
          return ← finish (.plain vs true)
        return ← finish (.plain vs false)
      | .int _, _ | .float64, _ | .string, _ | .bool, _ =>
        let vs ← structFieldValidators "" tEff.node 16 r.ty false
        -- `math.Mod(plain, m)` with `plain` of the named shadow type does not type-check (K19)
        if (match r.ty with | .float64 => true | _ => false) && tEff.node.multipleOf.isSome then issue "mod-named-type"
        if t.node.subElem || !vs.isEmpty then
          unmarshalerImports cfg vs
          return ← finish (.plain vs true)
        return ← finish (.plain vs false)
      | .map _, _ =>
        if t.node.subElem then
          unmarshalerImports cfg []
          return ← finish (.plain [] true)
        return ← finish (.plain [] false)
      | _, _ => return ← finish (.plain [] false)

  /-- `generateType` -/
  def generateType (cfg : Config) (doc : SchemaDoc) : Nat → Schema → String → GenM TyRes
    | 0, _, _ => throw .fuel
    | f + 1, t, scope => do
      let n := t.node
      if let some ext := n.ext then
        (for p in ext.imports do addImport p)
        if let some ty := ext.type then return { ty := .custom ty ext.nillable }
      if n.enum.isSome then
        let g ← generateEnumType cfg f t scope none
        return { ty := g }
      if n.ref ≠ "" then
        let g ← generateReferencedType cfg doc f n.ref
        return { ty := g }
      let (typeName, typePtr) ← determineTypeName 16 t
      match typeName with
      | "array" =>
        match n.items with
        | none => throw .arrayItems
        | some it =>
          let e ← generateType cfg doc f it (scope ++ "Elem")
          return { ty := .slice e.ty }
      | "object" => generateStructType cfg doc f t scope
      | "null" => return { ty := .iface }
      | other => primitiveType cfg other n.format typePtr n

  /-- `generateStructType` -/
  def generateStructType (cfg : Config) (doc : SchemaDoc) : Nat → Schema → String → GenM TyRes
    | 0, _, _ => throw .fuel
    | f + 1, t, scope => do
      let n := t.node
      if n.props.isEmpty && n.allOf.isEmpty && n.anyOf.isEmpty then
        if !n.required.isEmpty then
          warn "Object type with no properties has required fields; skipping validation code for them since we don't know their types"
        match n.addl with
        | none => return { ty := .map .iface }
        | some a =>
          let v ← generateType cfg doc f a (scope ++ "Value")
          return { ty := .map v.ty }
      -- fields, in sorted key order
      let (fields, metas, req) ← addStructFields cfg doc f t scope (sortedKeys n.props) [] [] [] []
      if !n.anyOf.isEmpty then
        let g ← generateAnyOfType cfg doc f n.anyOf scope
        return { ty := g }
      if !n.allOf.isEmpty then
        let g ← generateAllOfType cfg doc f n.allOf scope
        return { ty := g }
      match n.addl with
      | some a =>
        if !a.node.hasNot then
          if a.node.types.length > 1 then throw .tooManyAddlTypes
          let (fty, dv) : GoTy × Option Json := match a.node.types with
            | [tn] => (addlFieldType tn, some (Json.obj []))
            | _ => (.iface, none)
          let fld : Field := { name := "AdditionalProperties", jsonName := "", ty := fty, tags := "mapstructure:\",remain\"",
                               jsonKey := "AdditionalProperties", yamlKey := "additionalproperties", omitEmpty := false }
          let fm : FieldMeta := { name := "AdditionalProperties", jsonName := "", sch := .mk {}, dflt := dv, ty := fty }
          return { ty := .strct (fields ++ [fld]), smeta := some { required := req, fields := metas ++ [fm] } }
        else return { ty := .strct fields, smeta := some { required := req, fields := metas } }
      | none => return { ty := .strct fields, smeta := some { required := req, fields := metas } }

  /-- the `for _, name := range sortedKeys(t.Properties) { addStructField }` loop -/
  def addStructFields (cfg : Config) (doc : SchemaDoc) : Nat → Schema → String → List String →
      List (String × Nat) → List Field → List FieldMeta → List String → GenM (List Field × List FieldMeta × List String)
    | 0, _, _, _, _, _, _, _ => throw .fuel
    | _ + 1, _, _, [], _, fs, ms, req => pure (fs, ms, req)
    | f + 1, t, scope, name :: rest, unique, fs, ms, req => do
      let n := t.node
      match alookup name n.props with
      | none => addStructFields cfg doc f t scope rest unique fs ms req
      | some prop =>
        -- encoding/json ignores a tag name that is empty, "-" or contains characters outside its tag alphabet
        -- (then the Go field name is the key, or the field is skipped): outside the modelled domain
        if !(tagNameOK name) then throw (.unsupported "property-name-not-a-valid-json-tag-name")
        let isRequired := n.required.contains name
        let baseName ← identifierizeM cfg name
        if let some ext := prop.node.ext then
          (for p in ext.imports do addImport p)
        let baseName : String := match prop.node.ext with
          | some ext => (match ext.identifier with | some idn => idn | none => baseName)
          | none => baseName
        let (fieldName, unique) := nextFieldName unique baseName
        let tags := mkTags cfg name isRequired
        let r ← generateTypeInline cfg doc f prop (scope ++ fieldName) none
        let propEff : Schema := match r.bounds with | some b => withBounds prop b | none => prop
        let st ← get
        let dflt : Option Json := match prop.node.default with
          | none => none
          | some dv =>
            -- defaultPropertyValue
            match prop.node.addl with
            | some a => (match a.node.types with
                | [tn] => if tn == "string" || tn == "array" || tn == "number" || tn == "integer" || tn == "boolean"
                          then some (Json.obj []) else some dv
                | _ => some dv)
            | none => some dv
        let (fty, req') : GoTy × List String :=
          if prop.node.default.isSome then (r.ty, req)
          else if isRequired then (r.ty, req ++ [name])
          else if !(isNillable st r.ty) then (wrapPtr st r.ty, req)
          else (r.ty, req)
        let jsonKey := if cfg.tags.contains "json" then name else fieldName
        let yamlKey := if cfg.tags.contains "yaml" then name else fieldName.toLower
        let comment := if prop.node.description = "" then s!"{fieldName} corresponds to the JSON schema field \"{name}\"." else prop.node.description
        let fld : Field := { name := fieldName, jsonName := name, ty := fty, tags, jsonKey, yamlKey, omitEmpty := !isRequired && cfg.tags.contains "json", comment }
        let fm : FieldMeta := { name := fieldName, jsonName := name, sch := propEff, dflt, ty := fty }
        addStructFields cfg doc f t scope rest unique (fs ++ [fld]) (ms ++ [fm]) req'

  /-- `generateTypeInline`; `defKey` is set when the node is a definition reached through resolveRef -/
  def generateTypeInline (cfg : Config) (doc : SchemaDoc) : Nat → Schema → String → Option String → GenM TyRes
    | 0, _, _, _ => throw .fuel
    | f + 1, t, scope, defKey => do
      let n := t.node
      if n.enum.isNone && n.ref = "" then
        if let some ext := n.ext then
          (for p in ext.imports do addImport p)
          if let some ty := ext.type then return { ty := .custom ty ext.nillable }
        if !n.anyOf.isEmpty then
          let g ← generateAnyOfType cfg doc f n.anyOf scope
          return { ty := g }
        if !n.allOf.isEmpty then
          let g ← generateAllOfType cfg doc f n.allOf scope
          return { ty := g }
        let (typeIndex, ptr) : Nat × Bool := match n.types with
          | [a, b] => (if b != "null" then 1 else 0, a == "null" || b == "null")
          | _ => (0, false)
        if n.types.length > 1 && !ptr then
          warn s!"Property {scope} has multiple types; will be represented as interface\{} with no validation"
          return { ty := .iface }
        match n.types[typeIndex]? with
        | none => return { ty := .iface }
        | some tn =>
          if isPrimitiveTypeName tn then
            if n.subElem then return { ty := .iface, nilResult := true }
            return ← primitiveType cfg tn n.format ptr n
          if tn == "array" then
            match n.items with
            | none => return { ty := .slice .iface }
            | some it =>
              let e ← generateTypeInline cfg doc f it (scope ++ "Elem") none
              return { ty := .slice e.ty }
      let g ← generateDeclaredType cfg doc f t scope defKey
      return { ty := g }

  /-- `generateReferencedType`, single-document part -/
  def generateReferencedType (cfg : Config) (doc : SchemaDoc) : Nat → String → GenM GoTy
    | 0, _ => throw .fuel
    | f + 1, ref => do
      if ref = "#" then return .iface
      let (defName, fileName) ← (match extractRefNames ref with | .ok r => pure r | .error e => throw e)
      if fileName ≠ "" then throw (.unsupported "file-ref")
      if defName = "" then throw (.unsupported "root-ref")
      match alookup defName doc.defs with
      | none => throw (.defMissing defName)
      | some d =>
        if d.node.types.isEmpty && d.node.props.isEmpty then return .iface
        let scope ← identifierizeM cfg defName
        let st ← get
        let d' : Schema := if st.derefDefs.contains defName then .mk { d.node with dereferenced := true } else d
        let dt ← generateDeclaredType cfg doc f d' scope (some defName)
        match dt with
        | .named _ => return dt
        | _ => throw .expectedNamed

  /-- `resolveRefs` (fix R3: an error is returned) -/
  def resolveRefs (cfg : Config) (doc : SchemaDoc) : Nat → List Schema → GenM (List (Schema × Option String))
    | 0, _ => throw .fuel
    | _ + 1, [] => pure []
    | f + 1, t :: rest => do
      let r ← (if t.node.ref = "" then pure (t, none) else do
        let st ← get
        match alookup t.node.ref st.refCache with
        | some dk =>
          match alookup dk doc.defs with
          | some d =>
            -- the declaration's node, as --min-sized-ints left it (K36)
            let d := if cfg.minSizedInts then msRewriteNode 32 d else d
            pure (Schema.mk { d.node with dereferenced := true }, some dk)
          | none => throw (.defMissing dk)
        | none =>
          let g ← generateReferencedType cfg doc f t.node.ref
          match g with
          | .named _ =>
            let (defName, _) ← (match extractRefNames t.node.ref with | .ok r => pure r | .error e => throw e)
            match alookup defName doc.defs with
            | some d =>
              modify fun st => { st with refCache := (t.node.ref, defName) :: st.refCache, derefDefs := defName :: st.derefDefs }
              let d := if cfg.minSizedInts then msRewriteNode 32 d else d
              pure (Schema.mk { d.node with dereferenced := true }, some defName)
            | none => throw (.defMissing defName)
          | _ => throw .expectedNamed)
      let rs ← resolveRefs cfg doc f rest
      pure (r :: rs)

  /-- `generateAnyOfType` -/
  def generateAnyOfType (cfg : Config) (doc : SchemaDoc) : Nat → List Schema → String → GenM GoTy
    | 0, _, _ => throw .fuel
    | f + 1, anyOf, scope => do
      if anyOf.isEmpty then throw .emptyAnyOf
      -- with --min-sized-ints the branch types are generated first and clear bounds in nodes the merged
      -- type shares by pointer; the model has no node identity for that
      if cfg.minSizedInts then throw (.unsupported "min-sized-ints-with-anyOf")
      let rs ← resolveRefs cfg doc f anyOf
      anyOfBranches cfg doc f rs scope 0
      let merged ← (match mergeTypes (rs.map (·.1)) with | .ok m => pure m | .error e => throw e)
      let merged : Schema := .mk { merged.node with anyOfCount := rs.length }
      let r ← generateTypeInline cfg doc f merged scope none
      return r.ty

  def anyOfBranches (cfg : Config) (doc : SchemaDoc) : Nat → List (Schema × Option String) → String → Nat → GenM Unit
    | 0, _, _, _ => throw .fuel
    | _ + 1, [], _, _ => pure ()
    | f + 1, (typ, dk) :: rest, scope, i => do
      let typ' : Schema := .mk { typ.node with subElem := true }
      let _ ← generateTypeInline cfg doc f typ' s!"{scope}_{i}" dk
      anyOfBranches cfg doc f rest scope (i + 1)

  /-- `generateAllOfType` -/
  def generateAllOfType (cfg : Config) (doc : SchemaDoc) : Nat → List Schema → String → GenM GoTy
    | 0, _, _ => throw .fuel
    | f + 1, allOf, scope => do
      let rs ← resolveRefs cfg doc f allOf
      let merged ← (match mergeTypes (rs.map (·.1)) with | .ok m => pure m | .error e => throw e)
      let merged : Schema := .mk { merged.node with isAllOf := true }
      let r ← generateTypeInline cfg doc f merged scope none
      return r.ty

  /-- `generateEnumType` -/
  def generateEnumType (cfg : Config) : Nat → Schema → String → Option String → GenM GoTy
    | 0, _, _, _ => throw .fuel
    | _ + 1, t, scope, defKey => do
      let n := t.node
      let vals := n.enum.getD []
      if vals.isEmpty then throw .emptyEnum
      let (carrier, wrap, intCoerce, vals) ← (match n.types with
        | [a] => do
          let r ← primitiveType cfg a n.format false n
          let vals ← (if a == "integer" then
              vals.mapM (fun v => match v with
                | .num q => pure (Json.num ((truncRat q : Int) : Rat))
                | _ => throw GenErr.enumNonPrimitive)
            else pure vals)
          pure (r.ty, a == "null", a == "integer", vals)
        | tl => do
          if tl.length > 1 then warn "Enum defined with multiple types; ignoring it and using enum values instead"
          -- first kind; at the first differing kind the type becomes interface{} and the loop stops
          let rec scan : List Json → String → Except GenErr String
            | [], p => .ok p
            | v :: rest, p =>
              let k := jsonKind v
              if k == "?" then .error .enumNonPrimitive
              else if p == "" then scan rest k
              else if p != k then .ok "interface{}"
              else scan rest p
          let p ← (match scan vals "" with | .ok p => pure p | .error e => throw e)
          let c : GoTy := match p with
            | "string" => .string | "float64" => .float64 | "bool" => .bool | _ => .iface
          pure (c, p == "interface{}", false, vals))
      if wrap then warn "Enum field wrapped in struct in order to store values of multiple types"
      let carrier : GoTy := match carrier with | .nullTy => .iface | c => c
      let ty : GoTy := if wrap then
          .strct [{ name := "Value", jsonName := "", ty := carrier, tags := "", jsonKey := "Value", yamlKey := "value", omitEmpty := false }]
        else carrier
      let name ← uniqueTypeName scope
      let consts ← (match ty with
        | .string => vals.filterMapM (fun v => match v with
            | .str s => do let c ← makeEnumConstantName cfg name s; pure (some (c, s))
            | _ => pure none)
        | _ => pure [])
      if !cfg.onlyModels then
        addImport "fmt"; addImport "reflect"
        addImport "encoding/json"
        if cfg.extraImports then addImport "gopkg.in/yaml.v3" "yaml"
      -- `Package.AddDecl` drops a declaration that is DeepEqual to an earlier one (a repeated enum member)
      let consts := consts.eraseDups
      -- duplicate constant names do not compile
      if (consts.map (·.1)).eraseDups.length ≠ consts.length then issue "duplicate-enum-constant"
      modify fun st => { st with
        decls := st.decls ++ [{ name, ty, body := .enum vals wrap intCoerce consts (!cfg.onlyModels),
                                schema := if intCoerce then markCoerced t else t }],
        byDef := (match defKey with | some dk => (dk, name) :: st.byDef | none => st.byDef) }
      return .named name
end

/-- `generateRootType` for one document -/
def generateRootType (cfg : Config) (doc : SchemaDoc) : GenM Unit := do
  if !doc.hasRoot then throw .noRoot
  if cfg.pkg = "" then throw .noPackage
  let fuel := 200
  for name in sortedKeys doc.defs do
    match alookup name doc.defs with
    | none => pure ()
    | some d =>
      let scope ← identifierizeM cfg name
      let _ ← generateDeclaredType cfg doc fuel d scope (some name)
  if doc.root.node.types.isEmpty then return
  let rootName ← getRootTypeName cfg doc.root.node.title
  let st ← get
  if (byNameKeys st).contains rootName then return
  let _ ← generateDeclaredType cfg doc fuel doc.root rootName none

def Gen.run (cfg : Config) (doc : SchemaDoc) : Except GenErr Output :=
  match (generateRootType cfg doc).run {} with
  | .error e => .error e
  | .ok (_, st) =>
    let missing := st.usedPkgs.filter (fun p => !st.imports.any (·.path == p))
    -- the anyOf validator calls `x_i.Unmarshal<W>(value)` on a variable of every branch type `<Name>_<i>`:
    -- a branch that is an alias of a type generated without a method does not compile
    let noMethod := st.decls.any fun d => match d.body with
      | .plain vs true => vs.any fun v => match v with
          | .anyOf n => (List.range n).any fun i => match Env.resolve st.decls 8 s!"{d.name}_{i}" with
              | some bd => !bd.hasMethod
              | none => true
          | _ => false
      | _ => false
    -- two fields of one struct with the same Go name (only possible through a user-supplied
    -- `goJSONSchema.identifier` containing an underscore, Props.C14.field_names_distinct) do not compile
    let dupField := st.decls.any fun d => match d.ty with
      | .strct fs => (fs.map (·.name)).eraseDups.length ≠ fs.length
      | _ => false
    let issues := st.issues ++ (if missing.isEmpty then [] else ["missing-import"]) ++
      (if noMethod then ["anyof-branch-without-method"] else []) ++
      (if dupField then ["duplicate-field-name"] else [])
    .ok { fileName := cfg.outputName, pkg := cfg.pkg, imports := st.imports, decls := st.decls,
          warnings := st.warnings ++ issues.map (fun i => "ISSUE " ++ i) }

end GJS

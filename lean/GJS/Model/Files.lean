/-
  Model of generate.go: findOutputFileForSchemaID / beginOutput — which output (file, package) a schema's
  declarations go to — and of the cross-package qualification of generateReferencedType.
-/
namespace GJS

def lookupS (k : String) : List (String × String) → Option String
  | [] => none
  | (k', v) :: rest => if k = k' then some v else lookupS k rest

structure SchemaMapping where
  schemaID : String
  packageName : String
  rootType : String := ""
  outputName : String := ""
deriving Repr, DecidableEq

structure OutRef where
  fileName : String
  pkg : String
deriving Repr, DecidableEq

/-- where a schema id is routed: its mapping if one exists, else the defaults -/
def route (ms : List SchemaMapping) (defOut defPkg : String) (id : String) : OutRef :=
  match ms.find? (fun m => m.schemaID = id) with
  | some m => { fileName := m.outputName, pkg := m.packageName }
  | none => { fileName := defOut, pkg := defPkg }

/-- `Generator.getRootTypeName`: the root-type override of the first mapping with this id that has one -/
def rootOverride (ms : List SchemaMapping) (id : String) : Option String :=
  (ms.find? (fun m => m.schemaID = id ∧ m.rootType ≠ "")).map (·.rootType)

/-- main.go: the mapping assembled for an id named by any of the per-schema flags (`pkgs`, `outs`, `roots` are
    the parsed --schema-package / --schema-output / --schema-root-type maps).  Since fix R12 an id with neither a
    package nor an output goes to the default output; a package without an output keeps the empty output name
    ("these types live elsewhere, emit nothing"). -/
def assembleMapping (pkgs outs roots : List (String × String)) (defPkg defOut : String) (id : String) : SchemaMapping :=
  { schemaID := id
    packageName := (lookupS id pkgs).getD defPkg
    outputName := (match lookupS id outs with
      | some o => o
      | none => if (lookupS id pkgs).isSome then "" else defOut)
    rootType := (lookupS id roots).getD "" }

/-- the mappings main.go assembles: one per id named by any flag -/
def assembleAll (pkgs outs roots : List (String × String)) (defPkg defOut : String) (ids : List String) : List SchemaMapping :=
  ids.map (assembleMapping pkgs outs roots defPkg defOut)


inductive RouteErr where
  | noPackage (id : String)
  | conflictSameFile (file pkg1 pkg2 : String)
deriving Repr, DecidableEq

/-- `beginOutput`: the existing outputs are (id ↦ OutRef); a new id either shares an existing output with the
    same file and package, conflicts with one that has the same (non-empty: fix R15) file and another package, or opens a new one -/
def beginOutput (outs : List (String × OutRef)) (id : String) (o : OutRef) : Except RouteErr (List (String × OutRef)) :=
  if o.pkg = "" then .error (.noPackage id)
  else match outs.find? (fun p => o.fileName ≠ "" ∧ p.2.fileName = o.fileName ∧ p.2.pkg ≠ o.pkg) with
    | some p => .error (.conflictSameFile o.fileName p.2.pkg o.pkg)
    | none => .ok (outs ++ [(id, o)])

/-- how a reference from package `from` to a type of package `to` is written -/
def qualify (fromPkg toPkg : String) (name : String) : String × Option String :=
  if toPkg = fromPkg then (name, none)
  else
    let short := (toPkg.splitOn "/").getLast!
    (short ++ "." ++ name, some toPkg)

end GJS

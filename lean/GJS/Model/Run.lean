import GJS.Model.Plan
import GJS.Spec
/-
  Executable model of what the EMITTED code does at run time: encoding/json (rules G1–G12 of DESIGN §2.3),
  yaml.v3 (Y1–Y9), the statement sequence of the emitted Unmarshal methods
  (json_formatter.go / yaml_formatter.go: generate, enumUnmarshal), each validator's emitted test
  (validator.go), and json.Marshal of the decoded value.  Total: all recursion on explicit fuel.
-/
namespace GJS

inductive GoVal where
  | int (i : Int) | float (q : Rat) | str (s : String) | bool (b : Bool)
  | nil
  | iface (j : Json)                         -- a non-nil interface{} holding the generic decoding of `j`
  | ptrTo (v : GoVal)
  | slice (vs : List GoVal)
  | map (kvs : List (String × GoVal))
  | strct (fs : List (String × GoVal))       -- Go field name ↦ value, declaration order
  | opaque (text : String)                   -- a format-typed value, by its canonical text ("" = zero value)
deriving Inhabited

inductive DecErr where
  | type          -- UnmarshalTypeError (G1, G2) / yaml "cannot unmarshal"
  | range         -- number out of range for the integer kind
  | required (k : String)
  | anyOf | enum | null | length | string | bound | format
  | addl          -- mapstructure.Decode failed
  | noDecl (n : String) | uncompilable (why : String)
  | unmodelled (why : String)     -- behaviour the model deliberately does not predict (outside D)
  | panic (why : String)
  | fuel
deriving Repr, Inhabited, DecidableEq

def DecErr.kind : DecErr → String
  | .type => "type" | .range => "range" | .required _ => "required" | .anyOf => "anyOf" | .enum => "enum"
  | .null => "null" | .length => "length" | .string => "string" | .bound => "bound" | .format => "format"
  | .addl => "addl" | .noDecl _ => "nodecl" | .uncompilable _ => "uncompilable" | .unmodelled _ => "unmodelled" | .panic _ => "panic" | .fuel => "fuel"

abbrev R := Except DecErr

def GoTy.isFmt : GoTy → Bool | .fmt _ => true | _ => false

/-- which decoder: the emitted `UnmarshalJSON` or `UnmarshalYAML` -/
inductive Wire where | json | yaml
deriving DecidableEq, Repr

/-- zero value of a Go type -/
def zeroOf (env : Env) : Nat → GoTy → GoVal
  | 0, _ => .nil
  | f + 1, ty =>
    match ty with
    | .int _ => .int 0 | .float64 => .float 0 | .string => .str "" | .bool => .bool false
    | .iface | .nullTy | .ptr _ | .slice _ | .map _ => .nil
    | .named n => (match env.find n with | some d => zeroOf env f d.ty | none => .nil)
    | .qual _ _ | .custom _ _ => .nil
    | .strct fs => .strct (zeroFields env f fs)
    | .fmt _ => .opaque ""
where
  zeroFields (env : Env) : Nat → List Field → List (String × GoVal)
    | _, [] => []
    | 0, _ => []
    | f + 1, fld :: rest => (fld.name, zeroOf env f fld.ty) :: zeroFields env f rest

/-- bytes of a string as Go's `len` sees them -/
def utf8Len (s : String) : Nat := (s.toList.map Char.utf8Size).sum

/-- field of the decoded shadow value: `plain.F`, or `plain` itself for a named primitive -/
def fieldOf (plain : GoVal) (field : String) : GoVal :=
  if field = "" then plain else
  match plain with
  | .strct fs => (alookup field fs).getD .nil
  | _ => .nil

/-- the Go type of field `field` of a struct type (what a default literal is typed against) -/
def fieldTyOf (ty : GoTy) (field : String) : GoTy :=
  match ty with
  | .strct tfs => (match tfs.find? (fun fl => fl.name = field) with | some fl => fl.ty | none => .iface)
  | _ => .iface

def setField (plain : GoVal) (field : String) (v : GoVal) : GoVal :=
  match plain with
  | .strct fs => .strct (fs.map fun (p : String × GoVal) => if p.1 = field then (p.1, v) else p)
  | _ => plain

def numOf : GoVal → Option Rat
  | .int i => some (i : Rat) | .float q => some q | _ => none

/-- target of a possibly-nillable check: `none` = nil pointer (the emitted `!= nil &&` guard) -/
def derefIf (nillable : Bool) (v : GoVal) : Option GoVal :=
  if nillable then (match v with | .ptrTo x => some x | _ => none) else some v

def isPow2 : Nat → Nat → Bool
  | 0, _ => false
  | f + 1, n => n == 1 || (n % 2 == 0 && isPow2 f (n / 2))

/-- k·2^-j -/
def isDyadic (q : Rat) : Bool := isPow2 64 q.den

/-- a float `multipleOf` outside the dyadic rationals: float64 `math.Mod` is not mirrored there (convention F) -/
def nonDyadicFloat (c : NumCheck) : Bool :=
  !c.roundToInt && (match c.mult with | some m => !isDyadic m | none => false)

/-- numericValidator -/
def checkNumeric (v : GoVal) (nillable : Bool) (c : NumCheck) : Bool :=
  c.accepts ((derefIf nillable v).bind numOf)

/-- stringValidator: byte lengths, pattern through the closed family -/
def stringPasses (minLen maxLen : Int) (pattern : String) (s : String) : Bool :=
  (pattern = "" || Spec.patternOK pattern s) &&
  (minLen == 0 || !decide ((utf8Len s : Int) < minLen)) &&
  (maxLen == 0 || !decide ((utf8Len s : Int) > maxLen))

def checkString (v : GoVal) (minLen maxLen : Int) (pattern : String) (nillable : Bool) : Bool :=
  match derefIf nillable v with
  | some (.str s) => stringPasses minLen maxLen pattern s
  | _ => true

def lenPasses (minItems maxItems : Int) (isNil : Bool) (n : Nat) : Bool :=
  (minItems == 0 || isNil || !decide ((n : Int) < minItems)) && (maxItems == 0 || !decide ((n : Int) > maxItems))

/-- arrayValidator: `depth-1` nested range loops, then the two length tests on what is found there -/
def checkArray : Nat → GoVal → Int → Int → Bool
  | 0, _, _, _ => true
  | 1, v, mn, mx => (match v with
      | .slice xs => lenPasses mn mx false xs.length
      | _ => lenPasses mn mx true 0)
  | d + 2, v, mn, mx => (match v with
      | .slice xs => xs.all (fun x => checkArray (d + 1) x mn mx)
      | _ => true)

/-- nullTypeValidator: `depth` nested range loops, then `!= nil` -/
def checkNull : Nat → GoVal → Bool
  | 0, v => (match v with | .nil => true | _ => false)
  | d + 1, v => (match v with | .slice xs => xs.all (fun x => checkNull d x) | _ => true)

/-- the text of a canonically printed number (yaml.v3 hands the scalar's text to a `string` target) -/
def ratLexeme (q : Rat) : Option String :=
  if q.den = 1 then some (toString q.num) else
  -- terminating decimals with at most 12 places
  let rec go (fuel : Nat) (scale : Nat) (places : Nat) : Option String :=
    match fuel with
    | 0 => none
    | f + 1 =>
      let x := q * (scale : Rat)
      if x.den = 1 then
        let n := x.num.natAbs
        let ip := n / scale
        let fp := n % scale
        let fs := toString fp
        let pad := String.ofList (List.replicate (places - fs.length) '0')
        some ((if q < 0 then "-" else "") ++ toString ip ++ "." ++ pad ++ fs)
      else go f (scale * 10) (places + 1)
  go 12 10 1

/-- the carrier of an enum declaration: the `Value` field's type of a struct-wrapped enum, else the type itself -/
def enumCarrierOf (ty : GoTy) : GoTy := match ty with | .strct [fl] => fl.ty | c => c

/-- the guard of an emitted default assignment: the key is absent from the raw map or null (or there is no raw
    map at all: the document was `null`) -/
def dfltAbsent (raw : Option (List (String × Json))) (k : String) : Bool :=
  match raw with
  | some kvs => (match alookup k kvs with | none => true | some .null => true | _ => false)
  | none => true

def jsonToIface (j : Json) : GoVal := match j with | .null => .nil | _ => .iface j

/-- ASCII case folding as encoding/json's field matching does it -/
def foldKey (s : String) : String := s.toLower

/-- G7: the field a document key binds to: exact tag match, else case-insensitive -/
def bindKey (fs : List Field) (k : String) : Option Field :=
  match fs.find? (fun f => f.jsonKey = k) with
  | some f => some f
  | none => fs.find? (fun f => foldKey f.jsonKey = foldKey k)

def intInRange (k : IntKind) (i : Int) : Bool := k.inRangeB i

/-- format-typed values: the parse/print oracles are parameters with `print ∘ parse = id` on the canonical
    texts of the domain; here: accept exactly the shapes `Spec.formatOK` describes -/
def fmtName : FmtKind → List String
  | .dateTime => ["date-time"] | .date => ["date"] | .time => ["time"] | .addr => ["ipv4", "ipv6"]

def fmtParses (k : FmtKind) (s : String) : Bool := (fmtName k).any (fun f => Spec.formatOK f s)

def fmtZeroText : FmtKind → String
  | .dateTime => "0001-01-01T00:00:00Z" | .date => "0001-01-01" | .time => "00:00:00" | .addr => ""

/-- mapstructure.Decode of one generic value into an additional-properties element type (G12) -/
def mapstructureElem (ty : GoTy) (j : Json) (yamlInts : Bool) : R GoVal :=
  match ty, j with
  | _, .null => .ok (match ty with
      | .string => .str "" | .float64 => .float 0 | .int _ => .int 0 | .bool => .bool false | _ => .nil)
  | .string, .str s => .ok (.str s)
  | .float64, .num q => .ok (.float q)
  | .int _, .num q => .ok (.int (truncRat q))
  | .bool, .bool b => .ok (.bool b)
  | .slice .iface, .arr xs => .ok (.slice (xs.map jsonToIface))
  | .iface, j => .ok (.iface j)
  | _, _ => let _ := yamlInts; .error .addl

mutual
  /-- `json.Unmarshal` / `yaml.Node.Decode` of `j` into a fresh value of type `ty` -/
  def decode (w : Wire) (env : Env) : Nat → GoTy → Json → R GoVal
    | 0, _, _ => .error .fuel
    | f + 1, ty, j =>
      match w, ty, j with
      -- yaml.v3: a null node never reaches UnmarshalYAML and leaves the zero value (Y4)
      | .yaml, _, .null => .ok (zeroOf env 32 ty)
      | _, .named n, _ =>
          match env.resolve 8 n with
          | none => .error (.noDecl n)
          | some d =>
            if d.hasMethod then runMethod w env f d j                                            -- G6 / G3
            -- `type T time.Time` &c.: a defined type does not inherit the methods of its base type
            else if d.ty.isFmt then .error (.unmodelled "named-format-type")
            else decode w env f d.ty j
      | .json, .ptr _, .null => .ok .nil                                                        -- G3
      | _, .ptr t, _ => (decode w env f t j).map .ptrTo                                         -- G4
      | _, .iface, _ | _, .nullTy, _ => .ok (jsonToIface j)                                     -- G5
      | .json, .fmt k, .null => .ok (.opaque "")                                                -- method called with null: no-op
      -- yaml.v3: SerializableDate / SerializableTime have no UnmarshalYAML; the promoted time.Time text
      -- unmarshaler wants RFC 3339 (K9)
      | .yaml, .fmt .date, .str s | .yaml, .fmt .time, .str s =>
          if Spec.formatOK "date-time" s then .error (.unmodelled "yaml-date-rfc3339") else .error .format
      -- netip.Addr.UnmarshalText accepts the empty string as the zero address
      | _, .fmt .addr, .str s => if s = "" then .ok (.opaque "") else if fmtParses .addr s then .ok (.opaque s) else .error .format
      | _, .fmt k, .str s => if fmtParses k s then .ok (.opaque s) else .error .format
      | .yaml, .fmt _, .obj _ => .error (.unmodelled "yaml-mapping-into-format-type")
      | _, .fmt _, _ => .error .type
      | .json, _, .null => .ok (zeroOf env 32 ty)                                               -- G3: no-op
      | _, .string, .str s => .ok (.str s)
      | .yaml, .string, .num q => (match ratLexeme q with                                       -- Y2
          | some s => .ok (.str s) | none => .error (.unmodelled "yaml-number-lexeme"))
      | .yaml, .string, .bool b => .ok (.str (if b then "true" else "false"))                   -- Y2
      | _, .bool, .bool b => .ok (.bool b)
      | _, .float64, .num q => .ok (.float q)
      | .json, .int k, .num q =>
          if q.den ≠ 1 then .error .type                                                        -- G2
          else if intInRange k q.num then .ok (.int q.num) else .error .range
      | .yaml, .int k, .num q =>
          let i := truncRat q                                                                   -- Y3
          if intInRange k i then .ok (.int i) else .error .range
      -- []uint8 is []byte: base64 text on the wire
      | _, .slice (.int .u8), _ => .error (.unmodelled "byte-slice")
      | _, .slice (.named n), .arr xs =>
          if (match env.resolve 8 n with | some d => (match d.ty with | .int .u8 => true | _ => false) | none => false) then
            .error (.unmodelled "byte-slice")
          else
            let t := GoTy.named n
            let xs' := if w = .yaml && !(kindKeepsNull env 8 t) then xs.filter (fun x => !x.isNull) else xs
            (decodeElems w env f t xs').map .slice
      | _, .slice t, .arr xs =>
          -- Y5: yaml drops null elements unless the element kind is interface, pointer, map or slice
          let xs' := if w = .yaml && !(kindKeepsNull env 8 t) then xs.filter (fun x => !x.isNull) else xs
          (decodeElems w env f t xs').map .slice
      | .json, .map t, .obj kvs => (decodeMap w env f t kvs).map .map
      | .yaml, .map t, .obj kvs => (decodeMap w env f t kvs).map .map
      | _, .strct fs, .obj kvs => (decodeStruct w env f fs kvs (zeroOf.zeroFields env 32 fs)).map .strct
      | _, .custom _ _, _ => .error (.uncompilable "custom-type")
      | _, .qual _ _, _ => .error (.uncompilable "qualified-type")
      | _, _, _ => .error .type                                                                 -- G1

  def decodeElems (w : Wire) (env : Env) : Nat → GoTy → List Json → R (List GoVal)
    | 0, _, _ => .error .fuel
    | _ + 1, _, [] => .ok []
    | f + 1, t, x :: xs => do
        let v ← decode w env f t x
        let vs ← decodeElems w env f t xs
        pure (v :: vs)

  def decodeMap (w : Wire) (env : Env) : Nat → GoTy → List (String × Json) → R (List (String × GoVal))
    | 0, _, _ => .error .fuel
    | _ + 1, _, [] => .ok []
    | f + 1, t, (k, x) :: rest => do
        let v ← decode w env f t x
        let vs ← decodeMap w env f t rest
        pure ((k, v) :: vs)

  /-- document entries in order; each binds to at most one field (G7 / Y6); later entries overwrite -/
  def decodeStruct (w : Wire) (env : Env) : Nat → List Field → List (String × Json) → List (String × GoVal) →
      R (List (String × GoVal))
    | 0, _, _, _ => .error .fuel
    | _ + 1, _, [], acc => .ok acc
    | f + 1, fs, (k, x) :: rest, acc =>
        let fld? : Option Field := match w with
          | .json => bindKey fs k
          | .yaml => fs.find? (fun fl => fl.yamlKey = k)
        match fld? with
        | none => decodeStruct w env f fs rest acc
        | some fld => do
            let v ← decode w env f fld.ty x
            decodeStruct w env f fs rest (acc.map fun (p : String × GoVal) => if p.1 = fld.name then (p.1, v) else p)

  /-- the emitted `Unmarshal<W>` of declaration `d` applied to the bytes of `j` -/
  def runMethod (w : Wire) (env : Env) : Nat → Decl → Json → R GoVal
    | 0, _, _ => .error .fuel
    | f + 1, d, j =>
      match d.body with
      | .alias _ => .error (.noDecl d.name)
      | .enum vals wrapped intCoerce _ _ =>
          let carrier : GoTy := enumCarrierOf d.ty
          match decode w env f carrier j with
          | .error e => .error e
          | .ok v =>
            if vals.any (enumEq w intCoerce carrier v) then .ok (if wrapped then .strct [("Value", v)] else v)
            else .error .enum
      | .plain vs _ => do
          let needRaw := vs.any (fun v => v.before || v.requiresRawAfter)
          let raw : Option (List (String × Json)) ← (if needRaw then
              (match j with
               | .obj kvs => .ok (some kvs)
               | .null => .ok none
               | _ => .error .type) else .ok none)
          runBefore w env f d.name vs raw j
          let plain ← decode w env f d.ty j
          let plain ← runAfter w env f d.ty vs raw plain
          let plain ← (match d.ty with
            | .strct fs =>
              match fs.find? (fun fl => fl.name = "AdditionalProperties") with
              | none => .ok plain
              | some afl =>
                if !needRaw then .error (.uncompilable "addl-raw-undeclared") else
                match raw with
                | none => (match afl.ty with
                    | .map _ => .error (.panic "mapstructure-nil-map")      -- K13
                    | _ => .ok plain)
                | some kvs =>
                  let declared : List String := fs.flatMap (fun fl => [fl.name, if fl.name = "AdditionalProperties" then "" else
                                                                        (if fl.jsonKey = fl.name then "" else fl.jsonKey)])
                  -- `strings.Split(tag.Get("json"), ",")[0]`: the json tag name, "" when there is no json tag
                  let rest := kvs.filter (fun (p : String × Json) => !declared.contains p.1)
                  (match afl.ty with
                   | .map et => do
                       let m ← rest.mapM (fun (p : String × Json) => do let v ← mapstructureElem et p.2 (w = .yaml); pure (p.1, v))
                       pure (setField plain "AdditionalProperties" (.map m))
                   | _ => pure (setField plain "AdditionalProperties" (.iface (.obj rest))))
            | _ => .ok plain)
          pure plain

  /-- validators emitted before the shadow decode, in order -/
  def runBefore (w : Wire) (env : Env) : Nat → String → List Validator → Option (List (String × Json)) → Json → R Unit
    | 0, _, _, _, _ => .error .fuel
    | _ + 1, _, [], _, _ => .ok ()
    | f + 1, dn, v :: rest, raw, j =>
      match v with
      | .required k =>
          (match raw with
           | some kvs => if ahas k kvs then runBefore w env f dn rest raw j else .error (.required k)
           | none => runBefore w env f dn rest raw j)
      | .anyOf n =>
          if anyBranch w env f dn n 0 j then runBefore w env f dn rest raw j else .error .anyOf
      | _ => runBefore w env f dn rest raw j

  /-- `errs` has fewer than `n` entries, i.e. some branch type's method accepts the same bytes -/
  def anyBranch (w : Wire) (env : Env) : Nat → String → Nat → Nat → Json → Bool
    | 0, _, _, _, _ => false
    | _ + 1, _, 0, _, _ => false
    | f + 1, dn, n + 1, i, j => branchAccepts w env f dn i j || anyBranch w env f dn n (i + 1) j

  /-- `var x T_i; x.Unmarshal<W>(value)` returns nil -/
  def branchAccepts (w : Wire) (env : Env) : Nat → String → Nat → Json → Bool
    | 0, _, _, _ => false
    | f + 1, dn, i, j =>
      match env.resolve 8 s!"{dn}_{i}" with
      | some bd => (match (if bd.hasMethod then runMethod w env f bd j else .error (.uncompilable "branch-without-method")) with
                    | .ok _ => true | .error _ => false)
      | none => false

  /-- validators emitted after the shadow decode, in order -/
  def runAfter (w : Wire) (env : Env) : Nat → GoTy → List Validator → Option (List (String × Json)) → GoVal → R GoVal
    | 0, _, _, _, _ => .error .fuel
    | _ + 1, _, [], _, plain => .ok plain
    | f + 1, ty, v :: rest, raw, plain =>
      match v with
      | .required _ | .anyOf _ => runAfter w env f ty rest raw plain
      | .dflt field k dv =>
          if dfltAbsent raw k then
            let fty : GoTy := fieldTyOf ty field
            if !literalOK env 32 fty dv then .error (.uncompilable "default-literal") else
            match literal env f fty dv with
            | .ok x => runAfter w env f ty rest raw (setField plain field x)
            | .error _ => .error (.uncompilable "default-literal")
          else runAfter w env f ty rest raw plain
      | .nullType field depth =>
          if checkNull depth (fieldOf plain field) then runAfter w env f ty rest raw plain else .error .null
      | .array field depth mn mx =>
          if checkArray depth (fieldOf plain field) mn mx then runAfter w env f ty rest raw plain else .error .length
      | .string field mn mx p nl =>
          if checkString (fieldOf plain field) mn mx p nl then runAfter w env f ty rest raw plain else .error .string
      | .numeric field nl c =>
          -- convention F: float64 `math.Mod` is mirrored only for dyadic multipleOf (k·2^-j)
          if nonDyadicFloat c then
            .error (.unmodelled "float-multipleOf-non-dyadic")
          else if checkNumeric (fieldOf plain field) nl c then runAfter w env f ty rest raw plain else .error .bound

  /-- the value of the default LITERAL the generator prints for a field of type `ty` (no methods run) -/
  def literal (env : Env) : Nat → GoTy → Json → R GoVal
    | 0, _, _ => .error .fuel
    | f + 1, ty, j =>
      match ty, j with
      | .string, .str s => .ok (.str s)
      | .bool, .bool b => .ok (.bool b)
      | .float64, .num q => .ok (.float q)
      | .int k, .num q => if q.den = 1 ∧ intInRange k q.num then .ok (.int q.num) else .error .type
      | .iface, j => .ok (jsonToIface j)
      | .map _, .obj [] => .ok (.map [])
      | .slice t, .arr xs => (literalElems env f t xs).map .slice
      | .named n, j =>
          (match env.resolve 8 n with
           | some d => (match d.body, j with
               | .enum _ false _ _ _, _ => literal env f d.ty j
               | .plain _ _, _ => (match d.ty with
                   | .strct _ => .error .type        -- keyed literal: outside the modelled fragment
                   | t => literal env f t j)
               | _, _ => .error .type)
           | none => .error .type)
      | _, _ => .error .type
  def literalElems (env : Env) : Nat → GoTy → List Json → R (List GoVal)
    | 0, _, _ => .error .fuel
    | _ + 1, _, [] => .ok []
    | f + 1, t, x :: xs => do
        let v ← literal env f t x
        let vs ← literalElems env f t xs
        pure (v :: vs)

  /-- `reflect.DeepEqual(v, expected)` against one entry of the emitted value table (G11 / Y8) -/
  def enumEq (w : Wire) (intCoerce : Bool) (carrier : GoTy) (v : GoVal) (e : Json) : Bool :=
    match v, e with
    | .str a, .str b => a == b
    | .float a, .num b => !intCoerce && a == b
    -- the table holds `int` after coercion; only a carrier of type `int` can be DeepEqual to it
    | .int a, .num b => intCoerce && (match carrier with | .int .int => true | _ => false) && a == truncRat b
    | .bool a, .bool b => a == b
    | .nil, .null => true
    | .iface (.str a), .str b => a == b
    | .iface (.num a), .num b => (w = .json || a.den ≠ 1) && a == b       -- Y8: yaml decodes integers as `int`
    | .iface (.bool a), .bool b => a == b
    | _, _ => false

  /-- Y5 -/
  def kindKeepsNull (env : Env) : Nat → GoTy → Bool
    | 0, _ => false
    | f + 1, ty =>
      match ty with
      | .iface | .nullTy | .ptr _ | .slice _ | .map _ => true
      | .named n => (match env.resolve 8 n with | some d => kindKeepsNull env f d.ty | none => false)
      | _ => false
end

/-! ### json.Marshal of a decoded value (G10) -/

def isEmptyVal : GoVal → Bool
  | .int i => i == 0 | .float q => q == 0 | .str s => s == "" | .bool b => !b | .nil => true
  | .slice xs => xs.isEmpty | .map kvs => kvs.isEmpty | _ => false

mutual
  /-- `json.Marshal`.  `addr`: is the value addressable?  (`json.Marshal(&root)`: yes; through a pointer: yes;
      slice elements: yes; struct fields: as the struct; MAP VALUES: no.)  The emitted `MarshalJSON` of a
      struct-wrapped enum has a pointer receiver, which encoding/json can only call on addressable values:
      below a map value the wrapper is marshalled as the plain struct `{"Value": …}` (known finding K29). -/
  def marshal (env : Env) : Nat → Bool → GoTy → GoVal → Json
    | 0, _, _, _ => .null
    | f + 1, addr, ty, v =>
      match ty, v with
      | .named n, _ =>
          (match env.resolve 8 n with
           | some d => (match d.body, v with
               | .enum _ true _ _ _, .strct [(_, x)] =>
                   if addr then marshal env f true .iface x                               -- MarshalJSON of the wrapper
                   else .obj [("Value", marshal env f false .iface x)]
               | _, _ => marshal env f addr d.ty v)
           | none => .null)
      | .fmt k, .opaque s => .str (if s = "" then fmtZeroText k else s)
      | _, .nil => .null
      | .ptr t, .ptrTo x => marshal env f true t x
      | _, .int i => .num (i : Rat)
      | _, .float q => .num q
      | _, .str s => .str s
      | _, .bool b => .bool b
      | _, .iface j => j
      | .slice t, .slice xs => .arr (marshalElems env f t xs)
      | .map t, .map kvs => .obj (marshalMap env f t kvs)
      | .strct tfs, .strct fs => .obj (marshalFields env f addr tfs fs)
      | _, _ => .null
  def marshalElems (env : Env) : Nat → GoTy → List GoVal → List Json
    | 0, _, _ => []
    | _ + 1, _, [] => []
    | f + 1, t, x :: xs => marshal env f true t x :: marshalElems env f t xs
  def marshalMap (env : Env) : Nat → GoTy → List (String × GoVal) → List (String × Json)
    | 0, _, _ => []
    | _ + 1, _, [] => []
    | f + 1, t, (k, x) :: rest => (k, marshal env f false t x) :: marshalMap env f t rest
  def marshalFields (env : Env) : Nat → Bool → List Field → List (String × GoVal) → List (String × Json)
    | 0, _, _, _ => []
    | _ + 1, _, [], _ => []
    | f + 1, addr, fl :: rest, fs =>
      let x := (alookup fl.name fs).getD .nil
      let isPtrNonNil := match x with | .ptrTo _ => true | _ => false
      if fl.omitEmpty && !isPtrNonNil && isEmptyVal x then marshalFields env f addr rest fs
      else (fl.jsonKey, marshal env f addr fl.ty x) :: marshalFields env f addr rest fs
end

/-- fuel sufficient for every function above on a document of this depth -/
def runFuel (j : Json) : Nat := 4 * Json.size j + 64

/-- `json.Unmarshal(bytes, &root)` / `yaml.Unmarshal` into a fresh value of the root type -/
def unmarshal (w : Wire) (env : Env) (root : String) (j : Json) : R GoVal :=
  -- `type T time.Time` &c. (a named definition of a format-typed string) inherits the promoted methods of the
  -- embedded time.Time only; its wire behaviour is outside the modelled domain
  if env.any (fun d => match d.body, d.ty with | .plain _ _, .fmt _ => true | _, _ => false) then
    .error (.unmodelled "named-format-type")
  else decode w env (runFuel j) (.named root) j

def marshalRoot (env : Env) (root : String) (v : GoVal) : Json := marshal env 1000 true (.named root) v

end GJS

import GJS.Schema
import GJS.Model.MinInt
/-
  The structured output of the generator model: Go types, validators, declarations (pkg/codegen/model.go
  and the validator structs of pkg/generator/validator.go), i.e. what the emitted text *means*.
-/
namespace GJS

inductive FmtKind where
  | dateTime | date | time | addr
deriving DecidableEq, Repr, Inhabited

structure FieldF (σ : Type) where
  name : String            -- Go field name
  jsonName : String        -- property name ("" for AdditionalProperties)
  ty : σ
  tags : String            -- the tag text, as emitted
  jsonKey : String         -- key encoding/json binds (G7/G8)
  yamlKey : String         -- key yaml.v3 binds (Y6)
  omitEmpty : Bool
  comment : String := ""
deriving Repr, Inhabited

inductive GoTy where
  | int (k : IntKind) | float64 | string | bool
  | iface                              -- EmptyInterfaceType
  | nullTy                             -- NullType (also rendered interface{})
  | ptr (t : GoTy) | slice (t : GoTy) | map (v : GoTy)
  | named (n : String)                 -- a type declared in this package
  | qual (pkg n : String)              -- a type of another generated package
  | strct (fs : List (FieldF GoTy))
  | custom (name : String) (nillable : Bool)   -- goJSONSchema.type
  | fmt (k : FmtKind)
deriving Repr, Inhabited

abbrev Field := FieldF GoTy

def FmtKind.render : FmtKind → String
  | .dateTime => "time.Time" | .date => "types.SerializableDate" | .time => "types.SerializableTime" | .addr => "netip.Addr"

mutual
  def GoTy.render : GoTy → String
    | .int k => k.name | .float64 => "float64" | .string => "string" | .bool => "bool"
    | .iface => "interface{}" | .nullTy => "interface{}"
    | .ptr t => "*" ++ t.render | .slice t => "[]" ++ t.render | .map v => "map[string]" ++ v.render
    | .named n => n | .qual p n => p ++ "." ++ n
    | .strct fs => "struct{" ++ GoTy.renderFields fs ++ "}"
    | .custom n _ => n
    | .fmt k => k.render
  def GoTy.renderFields : List (FieldF GoTy) → String
    | [] => ""
    | f :: rest => f.name ++ " " ++ f.ty.render ++ " `" ++ f.tags ++ "`;" ++ GoTy.renderFields rest
end

inductive Validator where
  | required (json : String)
  | nullType (field : String) (depth : Nat)
  | dflt (field json : String) (v : Json)
  | array (field : String) (depth : Nat) (minItems maxItems : Int)
  | string (field : String) (minLen maxLen : Int) (pattern : String) (nillable : Bool)
  | numeric (field : String) (nillable : Bool) (c : NumCheck)
  | anyOf (n : Nat)
deriving Inhabited

/-- `validatorDesc` -/
def Validator.hasError : Validator → Bool | .dflt .. => false | _ => true
def Validator.before : Validator → Bool | .required _ | .anyOf _ => true | _ => false
def Validator.requiresRawAfter : Validator → Bool | .nullType .. | .dflt .. => true | _ => false

inductive DeclBody where
  /-- an ordinary type; `method = true` iff an unmarshaler was generated for it -/
  | plain (validators : List Validator) (method : Bool)
  /-- an enum type with its value table -/
  | enum (vals : List Json) (wrapped : Bool) (intCoerce : Bool) (consts : List (String × String)) (methods : Bool)
  /-- `type Alias = Name` -/
  | alias (target : String)
deriving Inhabited

structure Decl where
  name : String
  ty : GoTy
  comment : String := ""
  body : DeclBody := .plain [] false
  schema : Schema := default       -- TypeDecl.SchemaType (for the structural-equality reuse)
  done : Bool := true              -- `Type != nil`
deriving Inhabited

def Decl.hasMethod (d : Decl) : Bool :=
  match d.body with | .plain _ m => m | .enum _ _ _ _ m => m | .alias _ => false

def Decl.validators (d : Decl) : List Validator :=
  match d.body with | .plain vs _ => vs | _ => []

abbrev Env := List Decl

def Env.find (env : Env) (n : String) : Option Decl :=
  match env with
  | [] => none
  | d :: rest => if d.name = n then some d else Env.find rest n

/-- resolve `type A = B` chains and find the declaration a name denotes -/
def Env.resolve (env : Env) : Nat → String → Option Decl
  | 0, _ => none
  | f + 1, n =>
    match env.find n with
    | some d => (match d.body with | .alias t => Env.resolve env f t | _ => some d)
    | none => none

mutual
  /-- does the default LITERAL the generator prints for a field of type `ty` type-check?
      (the fragment of `dumpDefaultValue` the model covers; everything else: no) -/
  def literalOK (env : Env) : Nat → GoTy → Json → Bool
    | 0, _, _ => false
    | f + 1, ty, j =>
      match ty, j with
      | .string, .str _ => true
      | .bool, .bool _ => true
      | .float64, .num _ => true
      | .int k, .num q => q.den = 1 && k.inRangeB q.num
      | .iface, _ => true
      | .map _, .obj [] => true
      | .slice t, .arr xs =>
          -- elements are printed with %#v of the decoded JSON value: an element that is itself an array is
          -- printed as `[]interface{}{…}`, which is not a value of a typed inner slice
          (match t with
           | .slice _ => xs.isEmpty
           | _ => literalOKAll env f t xs)
      | .named n, j =>
          (match env.resolve 8 n with
           | some d => (match d.body with
               | .enum _ false _ _ _ => literalOK env f d.ty j
               | .plain _ _ => (match d.ty with
                   | .strct _ => false
                   | t => literalOK env f t j)
               | _ => false)
           | none => false)
      | _, _ => false
  def literalOKAll (env : Env) : Nat → GoTy → List Json → Bool
    | 0, _, _ => false
    | _ + 1, _, [] => true
    | f + 1, t, x :: xs => literalOK env f t x && literalOKAll env f t xs
end

structure Import where
  path : String
  alias : String := ""
deriving Repr, DecidableEq, Inhabited

/-- one emitted file -/
structure Output where
  fileName : String := "-"
  pkg : String := ""
  imports : List Import := []
  decls : List Decl := []
  warnings : List String := []
deriving Inhabited

end GJS

import GJS.Model.Bounds
/-
  Model of pkg/codegen/utils.go: getMinIntType, adjustForSignedBounds, adjustForUnsignedBounds and the
  integer branch of PrimitiveTypeFromJSONSchemaType (as the tree stands, i.e. with fixes R2 and R17).
-/
namespace GJS

inductive IntKind where
  | i8 | i16 | i32 | i64 | u8 | u16 | u32 | u64 | int
deriving DecidableEq, Repr, Inhabited

def IntKind.name : IntKind → String
  | .i8 => "int8" | .i16 => "int16" | .i32 => "int32" | .i64 => "int64"
  | .u8 => "uint8" | .u16 => "uint16" | .u32 => "uint32" | .u64 => "uint64" | .int => "int"

def IntKind.lo : IntKind → Int
  | .i8 => -128 | .i16 => -32768 | .i32 => -2147483648 | .i64 => -9223372036854775808
  | .int => -9223372036854775808
  | _ => 0
def IntKind.hi : IntKind → Int
  | .i8 => 127 | .i16 => 32767 | .i32 => 2147483647 | .i64 => 9223372036854775807
  | .int => 9223372036854775807
  | .u8 => 255 | .u16 => 65535 | .u32 => 4294967295 | .u64 => 18446744073709551615

/-- what the code compares the rounded maximum with: `float64(math.MaxInt64)` is 2^63 and
    `float64(math.MaxUint64)` is 2^64 -/
def IntKind.hiCmp : IntKind → Int
  | .i64 => 9223372036854775808 | .int => 9223372036854775808 | .u64 => 18446744073709551616 | k => k.hi

def IntKind.inRangeB (k : IntKind) (v : Int) : Bool := decide (k.lo ≤ v) && decide (v ≤ k.hi)
def IntKind.inRange (k : IntKind) (v : Int) : Prop := k.lo ≤ v ∧ v ≤ k.hi

/-- `math.Round`: nearest integer, halves away from zero -/
def roundRat (q : Rat) : Int :=
  if q ≥ 0 then Rat.floor (q + 1/2) else - Rat.floor (-q + 1/2)

structure MinIntChoice where
  kind : IntKind
  rmLo : Bool
  rmHi : Bool
deriving DecidableEq, Repr, Inhabited

/-- the four-way `switch` of `adjustForSignedBounds` once both bounds are present, on the rounded values -/
def signedChoice (minR maxR : Int) : MinIntChoice :=
  if minR < IntKind.i32.lo ∨ maxR > IntKind.i32.hi then ⟨.i64, minR == IntKind.i64.lo, maxR == IntKind.i64.hiCmp⟩
  else if minR < IntKind.i16.lo ∨ maxR > IntKind.i16.hi then ⟨.i32, minR == IntKind.i32.lo, maxR == IntKind.i32.hi⟩
  else if minR < IntKind.i8.lo ∨ maxR > IntKind.i8.hi then ⟨.i16, minR == IntKind.i16.lo, maxR == IntKind.i16.hi⟩
  else ⟨.i8, minR == IntKind.i8.lo, maxR == IntKind.i8.hi⟩

/-- `adjustForSignedBounds` -/
def adjustSigned (nMin nMax : Option Rat) : MinIntChoice :=
  match nMin, nMax with
  | none, none => ⟨.i64, false, false⟩
  | none, some mx => ⟨.i64, false, roundRat mx == IntKind.i64.hiCmp⟩
  | some mn, none => ⟨.i64, roundRat mn == IntKind.i64.lo, false⟩
  | some mn, some mx => signedChoice (roundRat mn) (roundRat mx)

/-- the `switch` of `adjustForUnsignedBounds` with a maximum present, on the rounded value -/
def unsignedChoice (removeMin : Bool) (maxR : Int) : MinIntChoice :=
  if maxR > IntKind.u32.hi then ⟨.u64, removeMin, maxR == IntKind.u64.hiCmp⟩
  else if maxR > IntKind.u16.hi then ⟨.u32, removeMin, maxR == IntKind.u32.hi⟩
  else if maxR > IntKind.u8.hi then ⟨.u16, removeMin, maxR == IntKind.u16.hi⟩
  else ⟨.u8, removeMin, maxR == IntKind.u8.hi⟩

/-- `adjustForUnsignedBounds` (only called with `nMin ≥ 0`) -/
def adjustUnsigned (nMin nMax : Option Rat) : MinIntChoice :=
  let removeMin : Bool := match nMin with | some m => m == 0 | none => false
  match nMax with
  | none => ⟨.u64, removeMin, false⟩
  | some m => unsignedChoice removeMin (roundRat m)

/-- `getMinIntType` -/
def getMinIntType (lo hi : Option Rat) (xlo xhi : XB) : MinIntChoice :=
  let (nMin, exMin) := normLo lo xlo
  let (nMax, exMax) := normHi hi xhi
  -- R17: the least and the greatest integer the bounds admit (math.Ceil / math.Floor, one further when exclusive)
  let nMin : Option Rat := nMin.map (fun m => if exMin then ((Rat.floor m : Int) : Rat) + 1 else ((Rat.ceil m : Int) : Rat))
  let nMax : Option Rat := nMax.map (fun m => if exMax then ((Rat.ceil m : Int) : Rat) - 1 else ((Rat.floor m : Int) : Rat))
  match nMin with
  | some m => if m ≥ 0 then adjustUnsigned nMin nMax else adjustSigned nMin nMax
  | none => adjustSigned nMin nMax

/-- integer bounds of a schema node as the generator sees them -/
structure IntBounds where
  lo : Option Rat := none
  hi : Option Rat := none
  xlo : XB := .absent
  xhi : XB := .absent
deriving Repr, Inhabited

/-- integer branch of `PrimitiveTypeFromJSONSchemaType`: chosen kind and the bounds left in the
    schema node (which is what the numeric validator is later built from) -/
def primitiveInt (minSized : Bool) (b : IntBounds) : IntKind × IntBounds :=
  if !minSized then (.int, b) else
  let c := getMinIntType b.lo b.hi b.xlo b.xhi
  let b1 : IntBounds := if c.rmLo then { b with lo := none, xlo := .absent } else b
  let b2 : IntBounds := if c.rmHi then { b1 with hi := none, xhi := .absent } else b1
  (c.kind, b2)

def IntBounds.check (b : IntBounds) (mult : Option Rat := none) : NumCheck :=
  { mult := mult, lo := b.lo, hi := b.hi, xlo := b.xlo, xhi := b.xhi, roundToInt := true }

/-- what the emitted code does with an integer document value `v` at a required, non-nullable
    position generated with / without `--min-sized-ints` (G2 then the numeric validator) -/
def intAccepts (minSized : Bool) (b : IntBounds) (v : Int) : Bool :=
  let (k, b') := primitiveInt minSized b
  k.inRangeB v && (b'.check).passes (v : Rat)

end GJS

import GJS.Schema
/-
  Reference semantics of the supported JSON-Schema keywords: what "valid under the schema" means in
  properties.jsonl.  Written from the JSON-Schema specification and the property statements, NOT from the
  generator.  This file is the oracle every violation is judged against; it is meant to be read in one
  sitting.

  Conventions (DESIGN §1.3): numbers are exact rationals; `integer` is decided by VALUE; a limit of 0 for
  maxLength/maxItems cannot be told from "absent" after parsing (Go `int`), and is treated as absent;
  `$ref` siblings are ignored (draft ≤ 7 reading, which is also the tool's); `format` is an assertion for
  the five formats the tool maps to Go types, through `formatOK`.
-/
namespace GJS
namespace Spec

/-- JSON-Schema `type` keyword for one type name -/
def hasType (tn : String) (j : Json) : Bool :=
  match tn, j with
  | "null", .null => true
  | "boolean", .bool _ => true
  | "string", .str _ => true
  | "array", .arr _ => true
  | "object", .obj _ => true
  | "number", .num _ => true
  | "integer", .num q => q.den = 1
  | _, _ => false

/-- every stated numeric bound holds (C05): minimum/maximum inclusive unless the boolean exclusive flag of
    draft 4 is set; numeric exclusiveMinimum/exclusiveMaximum of draft 6+ are strict bounds of their own -/
def boundsOK (minimum maximum : Option Rat) (xmin xmax : XB) (v : Rat) : Bool :=
  (match minimum with
   | none => true
   | some m => (match xmin with | .flag true => decide (m < v) | _ => decide (m ≤ v))) &&
  (match xmin with | .num q => decide (q < v) | _ => true) &&
  (match maximum with
   | none => true
   | some m => (match xmax with | .flag true => decide (v < m) | _ => decide (v ≤ m))) &&
  (match xmax with | .num q => decide (v < q) | _ => true)

/-- `v` is an integer multiple of `m` -/
def multipleOK (multipleOf : Option Rat) (v : Rat) : Bool :=
  match multipleOf with
  | none => true
  | some m => m != 0 && (v / m).den = 1

/-- string length in characters (Unicode scalar values) -/
def lengthOK (minLength maxLength : Int) (s : String) : Bool :=
  decide (minLength ≤ (s.length : Int)) && (maxLength == 0 || decide ((s.length : Int) ≤ maxLength))

def itemsCountOK (minItems maxItems : Int) (n : Nat) : Bool :=
  decide (minItems ≤ (n : Int)) && (maxItems == 0 || decide ((n : Int) ≤ maxItems))

def isInfix (lit : List Char) : List Char → Bool
  | [] => lit.isEmpty
  | c :: cs => lit.isPrefixOf (c :: cs) || isInfix lit cs

/-- the closed pattern family of DESIGN §1.2 (RE2 semantics: unanchored search unless `^`/`$`) -/
def patternOK (p s : String) : Bool :=
  if p = "" then true
  else if p = "^[a-z]*$" then s.toList.all (fun c => 'a' ≤ c && c ≤ 'z')
  else if p = "^[0-9]+$" then !s.isEmpty && s.toList.all (fun c => '0' ≤ c && c ≤ '9')
  else
    let pl := p.toList
    let anchoredL := pl.head? == some '^'
    let anchoredR := pl.getLast? == some '$'
    let lit := (if anchoredL then pl.drop 1 else pl)
    let lit := (if anchoredR then lit.dropLast else lit)
    let sl := s.toList
    if anchoredL && anchoredR then sl == lit
    else if anchoredL then lit.isPrefixOf sl
    else if anchoredR then lit.isSuffixOf sl
    else isInfix lit sl

def isDigitC (c : Char) : Bool := '0' ≤ c && c ≤ '9'

/-- shapes of the canonical format texts of the domain (DESIGN §1.2); anything else at a format position is
    outside the domain, see `Domain.lean` -/
def formatOK (fmt s : String) : Bool :=
  let cs := s.toList
  let shape (pat : List Char) : Bool := cs.length == pat.length && (cs.zip pat).all (fun (c, p) => if p = 'd' then isDigitC c else c == p)
  match fmt with
  | "date" => shape "dddd-dd-dd".toList
  | "time" => shape "dd:dd:dd".toList
  | "date-time" => shape "dddd-dd-ddTdd:dd:ddZ".toList
  | "ipv4" =>
      let parts := s.splitOn "."
      parts.length == 4 && parts.all (fun p =>
        let pc := p.toList
        !pc.isEmpty && pc.length ≤ 3 && pc.all isDigitC && (pc.length == 1 || pc.head? != some '0') && p.toNat! ≤ 255)
  | "ipv6" =>
      let groups := s.splitOn ":"
      let hex (c : Char) : Bool := isDigitC c || ('a' ≤ c && c ≤ 'f')
      let compressed := (s.splitOn "::").length == 2
      (s.splitOn "::").length ≤ 2 && groups.all (fun g => g.length ≤ 4 && g.toList.all hex) &&
      (if compressed then groups.length ≤ 8 && groups.length ≥ 3 else groups.length == 8 && groups.all (· ≠ ""))
  | _ => true

abbrev Defs := List (String × Schema)

/-- `#/$defs/X` or `#/definitions/X` (the prefix is matched case-insensitively by the tool; the
    specification only knows the exact spellings, which is what the domain contains) -/
def refName (ref : String) : Option String :=
  if ref.startsWith "#/$defs/" then some (ref.drop 8).toString
  else if ref.startsWith "#/definitions/" then some (ref.drop 14).toString
  else none

mutual
  /-- `valid fuel defs s d`: `d` is valid under `s`.  `fuel` bounds the total number of unfoldings and must
      be at least `schemaSize + docSize`-ish; `validD` supplies a sufficient amount. -/
  def valid : Nat → Defs → Schema → Json → Bool
    | 0, _, _, _ => false
    | f + 1, defs, s, d =>
      let n := s.node
      if n.ref ≠ "" then
        match refName n.ref with
        | some name => (match alookup name defs with | some t => valid f defs t d | none => false)
        | none => false
      else
        !n.hasNot &&
        (n.types.isEmpty || n.types.any (fun tn => hasType tn d)) &&
        (match n.enum with | none => true | some vs => vs.any (fun v => v == d)) &&
        validAll f defs n.allOf d &&
        (n.anyOf.isEmpty || validAny f defs n.anyOf d) &&
        (match d with
         | .num v => boundsOK n.minimum n.maximum n.xmin n.xmax v && multipleOK n.multipleOf v
         | .str str => lengthOK n.minLength n.maxLength str && patternOK n.pattern str &&
                       formatOK n.format str
         | .arr xs => itemsCountOK n.minItems n.maxItems xs.length &&
                      (match n.items with | none => true | some it => validElems f defs it xs)
         | .obj kvs => n.required.all (fun k => ahas k kvs) &&
                       validProps f defs n.props n.addl kvs kvs
         | _ => true)
  def validAll : Nat → Defs → List Schema → Json → Bool
    | 0, _, _, _ => false
    | _ + 1, _, [], _ => true
    | f + 1, defs, s :: rest, d => valid f defs s d && validAll f defs rest d
  def validAny : Nat → Defs → List Schema → Json → Bool
    | 0, _, _, _ => false
    | _ + 1, _, [], _ => false
    | f + 1, defs, s :: rest, d => valid f defs s d || validAny f defs rest d
  def validElems : Nat → Defs → Schema → List Json → Bool
    | 0, _, _, _ => false
    | _ + 1, _, _, [] => true
    | f + 1, defs, s, x :: xs => valid f defs s x && validElems f defs s xs
  /-- each entry of the object: a declared key by its property schema, any other by additionalProperties -/
  def validProps : Nat → Defs → List (String × Schema) → Option Schema → List (String × Json) →
      List (String × Json) → Bool
    | 0, _, _, _, _, _ => false
    | _ + 1, _, _, _, _, [] => true
    | f + 1, defs, props, addl, all, (k, v) :: rest =>
        (match alookup k props with
         | some ps => valid f defs ps v
         | none => (match addl with | none => true | some a => valid f defs a v)) &&
        validProps f defs props addl all rest
end

end Spec
end GJS

import Lean.Data.Json
import GJS
/-
  Line-protocol driver: one JSON request per input line, one or more tab-separated answer lines.
  Imports the model and the reference semantics only (core Lean + Lean.Data.Json), so it links as a
  native executable.  It evaluates exactly the definitions the theorems are about.
-/
open GJS

namespace Drv

def ratOfJsonNumber (n : Lean.JsonNumber) : Rat := (n.mantissa : Rat) / ((10 : Rat) ^ n.exponent)

partial def ofLean : Lean.Json → Json
  | .null => .null
  | .bool b => .bool b
  | .num n => .num (ratOfJsonNumber n)
  | .str s => .str s
  | .arr xs => .arr (xs.toList.map ofLean)
  | .obj kvs => .obj (kvs.toArray.toList.map fun (k, v) => (k, ofLean v))

def hexDigit (n : Nat) : Char := if n < 10 then Char.ofNat (48 + n) else Char.ofNat (87 + n)

def escapeStr (s : String) : String :=
  s.foldl (fun acc c =>
    if c = '"' then acc ++ "\\\"" else if c = '\\' then acc ++ "\\\\"
    else if c.toNat < 32 then acc ++ "\\u00" ++ String.singleton (hexDigit (c.toNat / 16)) ++ String.singleton (hexDigit (c.toNat % 16))
    else acc.push c) ""

def ratStr (q : Rat) : String := if q.den = 1 then toString q.num else s!"{q.num}/{q.den}"

partial def canon : Json → String
  | .null => "null"
  | .bool b => if b then "true" else "false"
  | .num q => ratStr q
  | .str s => "\"" ++ escapeStr s ++ "\""
  | .arr xs => "[" ++ ",".intercalate (xs.map canon) ++ "]"
  | .obj kvs =>
      let sorted := kvs.toArray.qsort (fun a b => a.1 < b.1) |>.toList
      "{" ++ ",".intercalate (sorted.map fun (k, v) => "\"" ++ escapeStr k ++ "\":" ++ canon v) ++ "}"

def getStr (j : Lean.Json) (k : String) (d : String := "") : String := (j.getObjValAs? String k).toOption.getD d
def getBool (j : Lean.Json) (k : String) : Bool := (j.getObjValAs? Bool k).toOption.getD false
def getStrs (j : Lean.Json) (k : String) (d : List String := []) : List String :=
  match j.getObjVal? k with
  | .ok (.arr xs) => xs.toList.filterMap (fun x => x.getStr?.toOption)
  | _ => d

def parseCfg (j : Lean.Json) : Config :=
  { tags := getStrs j "tags" ["json", "yaml", "mapstructure"]
    caps := getStrs j "caps"
    onlyModels := getBool j "onlyModels"
    minSizedInts := getBool j "minSizedInts"
    extraImports := getBool j "extraImports"
    structNameFromTitle := getBool j "structNameFromTitle"
    pkg := getStr j "pkg" "x"
    outputName := getStr j "outputName" "-"
    rootType := getStr j "rootType"
    fileName := getStr j "fileName" "schema.json"
    resolveExtensions := getStrs j "resolveExtensions" }

/-- canonical structural summary of an output, to be diffed with the go/ast summary of the real file -/
def summary (o : Output) (cfg : Config) : String :=
  let lines := o.decls.flatMap fun d =>
    match d.body with
    | .alias t => [s!"alias {d.name} = {t}"]
    | .plain _ m =>
        [s!"type {d.name} {d.ty.render}"] ++
        (if m then [s!"method {d.name}.UnmarshalJSON"] ++ (if cfg.extraImports then [s!"method {d.name}.UnmarshalYAML"] else []) else [])
    | .enum vals wrapped _ consts m =>
        [s!"type {d.name} {d.ty.render}"] ++
        (if m then
          [s!"var enumValues_{d.name} = {canon (.arr vals)}", s!"method {d.name}.UnmarshalJSON"] ++
          (if cfg.extraImports then [s!"method {d.name}.UnmarshalYAML"] else []) ++
          (if wrapped then [s!"method {d.name}.MarshalJSON"] ++ (if cfg.extraImports then [s!"method {d.name}.MarshalYAML"] else []) else [])
         else []) ++
        consts.map (fun (c, v) => s!"const {c} {d.name} = {canon (.str v)}")
  " | ".intercalate (lines.toArray.qsort (· < ·)).toList

def importsLine (o : Output) : String :=
  let ls := o.imports.map fun i => if i.alias = "" then i.path else s!"{i.alias}={i.path}"
  " ".intercalate (ls.toArray.qsort (· < ·)).toList

def runResult (r : R GoVal) (env : Env) (root : String) : String :=
  match r with
  | .ok v => "ok " ++ canon (marshalRoot env root v)
  | .error e => (match e with
      | .uncompilable w => "uncompilable " ++ w
      | .unmodelled w => "unmodelled " ++ w
      | .panic w => "panic " ++ w
      | .fuel => "fuel"
      | .noDecl n => "nodecl " ++ n
      | e => "reject " ++ e.kind)

/-- the declared name of the root type: the last declaration generateRootType adds, found by name -/
def rootNameOf (cfg : Config) (doc : SchemaDoc) : String :=
  match (getRootTypeName cfg doc.root.node.title).run {} with
  | .ok (n, _) => n
  | .error _ => ""

def specFuel (s : Lean.Json) (d : Json) : Nat := 8 * (Json.size (ofLean s) + Json.size d) + 64

def handleGen (req : Lean.Json) (id : String) : IO Unit := do
  let cfg := parseCfg ((req.getObjVal? "cfg").toOption.getD (Lean.Json.mkObj []))
  let schemaL := (req.getObjVal? "schema").toOption.getD .null
  let docs : List Lean.Json := match req.getObjVal? "docs" with | .ok (.arr a) => a.toList | _ => []
  let target := getStr req "type"          -- type to decode into ("" = root)
  match parseSchema (ofLean schemaL) with
  | .error e =>
      IO.println s!"{id}\tGEN\tparse-error {repr e}"
  | .ok doc =>
    match Gen.run cfg doc with
    | .error e => IO.println s!"{id}\tGEN\terror {e.kind}"
    | .ok out =>
      let issues := out.warnings.filter (·.startsWith "ISSUE ")
      IO.println s!"{id}\tGEN\tok {" ".intercalate issues}"
      IO.println s!"{id}\tSUMMARY\t{summary out cfg}"
      IO.println s!"{id}\tIMPORTS\t{importsLine out}"
      let rootN := if target = "" then rootNameOf cfg doc else target
      -- C17: how many of the documents are wire-compatible with the root type (theorem certified_yaml_json_agree)
      let wcN := (docs.filter fun dl => wcB out.decls 400 (.named rootN) (ofLean dl)).length
      IO.println s!"{id}\tCERT\treq={certReq out.decls doc.defs 400 (.named rootN) doc.root} type={certType out.decls doc.defs 400 (.named rootN) doc.root} shape={certShape out.decls doc.defs 400 (.named rootN) doc.root} full={certFull out.decls doc.defs 400 (.named rootN) doc.root} all={certAll out.decls doc.defs 400 (.named rootN) doc.root} exact={certAll out.decls doc.defs 400 (.named rootN) doc.root && certCov out.decls doc.defs 400 (.named rootN) doc.root && topFree doc.root && doc.root.node.ref == ""} wc={wcN} flat={Props.Flat.stdCfgB cfg && Props.Flat.flatPlainB doc.root && doc.defs.isEmpty && decide (rootN = "Root")} flatc={Props.Flat.stdCfgB cfg && Props.Flat.flatFullB doc.root && doc.defs.isEmpty && decide (rootN = "Root")} tree={Props.Flat.stdCfgB cfg && Props.Tree.treeFullB 5 doc.root && decide ((Props.Tree.scopes 5 "Root" doc.root).Nodup) && doc.defs.isEmpty && decide (rootN = "Root")} docs={docs.length}"
      let root := if target = "" then rootNameOf cfg doc else target
      let mut i := 0
      for dl in docs do
        let d := ofLean dl
        let jr := runResult (unmarshal .json out.decls root d) out.decls root
        let yr := if cfg.extraImports then runResult (unmarshal .yaml out.decls root d) out.decls root else "-"
        let sv := if target = "" then
            (if Spec.valid (specFuel schemaL d) doc.defs doc.root d then "valid" else "invalid")
          else "-"
        IO.println s!"{id}\tRUN\t{i}\t{jr}\t{yr}\t{sv}"
        i := i + 1

def optRat (j : Lean.Json) (k : String) : Option Rat :=
  match j.getObjVal? k with | .ok (.num n) => some (ratOfJsonNumber n) | _ => none
def xbOf (j : Lean.Json) (k : String) : XB :=
  match j.getObjVal? k with
  | .ok (.bool b) => .flag b | .ok (.num n) => .num (ratOfJsonNumber n) | .ok .null => .absent
  | .ok _ => .other | _ => .absent

def optRatStr : Option Rat → String | none => "nil" | some q => ratStr q

def handleNormalize (req : Lean.Json) (id : String) : IO Unit := do
  let lo := normLo (optRat req "min") (xbOf req "xmin")
  let hi := normHi (optRat req "max") (xbOf req "xmax")
  IO.println s!"{id}\tNB\t{optRatStr lo.1} {optRatStr hi.1} {lo.2} {hi.2}"

def handleMinInt (req : Lean.Json) (id : String) : IO Unit := do
  let b : IntBounds := { lo := optRat req "min", hi := optRat req "max", xlo := xbOf req "xmin", xhi := xbOf req "xmax" }
  let (k, b') := primitiveInt true b
  let xs (x : XB) : String := match x with | .absent => "nil" | .flag b => toString b | .num q => ratStr q | .other => "other"
  IO.println s!"{id}\tMININT\t{k.name} {optRatStr b'.lo} {optRatStr b'.hi} {xs b'.xlo} {xs b'.xhi}"

def rinfoOf (j : Lean.Json) : RInfo :=
  let n (k : String) : Nat := (j.getObjValAs? Nat k).toOption.getD 0
  let b (k : String) : Bool := (j.getObjValAs? Bool k).toOption.getD false
  { cp := n "cp", lower := b "lo", upper := b "up", number := b "nu", letter := b "le", digit := b "di", fold := n "fo" }

def runeOf (j : Lean.Json) : Rune :=
  { self := rinfoOf j, up := rinfoOf ((j.getObjVal? "U").toOption.getD .null) }

def handleIdent (req : Lean.Json) (id : String) : IO Unit := do
  let rs : List Rune := match req.getObjVal? "runes" with | .ok (.arr a) => a.toList.map runeOf | _ => []
  let caps : List (List RInfo) := match req.getObjVal? "caps" with
    | .ok (.arr a) => a.toList.map (fun c => match c with | .arr cs => cs.toList.map rinfoOf | _ => [])
    | _ => []
  let out := identifierize caps rs
  IO.println s!"{id}\tIDENT\t{" ".intercalate (out.map (fun r => toString r.cp))}\t{validExported out}"

def handleRef (req : Lean.Json) (id : String) : IO Unit := do
  match extractRefNames (getStr req "ref") with
  | .ok (d, f) => IO.println s!"{id}\tREF\tok\t{canon (.str d)}\t{canon (.str f)}"
  | .error _ => IO.println s!"{id}\tREF\terror"

def handleSpec (req : Lean.Json) (id : String) : IO Unit := do
  let schemaL := (req.getObjVal? "schema").toOption.getD .null
  let docs : List Lean.Json := match req.getObjVal? "docs" with | .ok (.arr a) => a.toList | _ => []
  match parseSchema (ofLean schemaL) with
  | .error _ => IO.println s!"{id}\tSPEC\tparse-error"
  | .ok doc =>
    let vs := docs.map fun dl => let d := ofLean dl; if Spec.valid (specFuel schemaL d) doc.defs doc.root d then "1" else "0"
    IO.println s!"{id}\tSPEC\t{"".intercalate vs}"

def handleRoute (req : Lean.Json) (id : String) : IO Unit := do
  let ms : List SchemaMapping := match req.getObjVal? "mappings" with
    | .ok (.arr a) => a.toList.map fun m =>
        { schemaID := getStr m "id", packageName := getStr m "pkg", rootType := getStr m "root", outputName := getStr m "out" }
    | _ => []
  let sid := getStr req "schemaID"
  let r := route ms (getStr req "defOut") (getStr req "defPkg") sid
  IO.println s!"{id}\tROUTE\t{canon (.str r.fileName)}\t{canon (.str r.pkg)}\t{canon (.str ((rootOverride ms sid).getD ""))}"

/-- `cliroute`: the three flag maps as main.go parses them → the mapping main.go assembles for every mentioned id →
    where the schema `schemaID` goes -/
def handleCliRoute (req : Lean.Json) (id : String) : IO Unit := do
  let pairs (k : String) : List (String × String) := match req.getObjVal? k with
    | .ok (.arr a) => a.toList.filterMap fun p => match p with
        | .arr #[.str x, .str y] => some (x, y)
        | _ => none
    | _ => []
  let pkgs := pairs "pkgs"; let outs := pairs "outs"; let roots := pairs "roots"
  let defPkg := getStr req "defPkg"; let defOut := getStr req "defOut"
  let ids := ((pkgs ++ outs ++ roots).map (·.1)).eraseDups
  let ms := assembleAll pkgs outs roots defPkg defOut ids
  let sid := getStr req "schemaID"
  let r := route ms defOut defPkg sid
  IO.println s!"{id}\tROUTE\t{canon (.str r.fileName)}\t{canon (.str r.pkg)}\t{canon (.str ((rootOverride ms sid).getD ""))}"

def handle (line : String) : IO Unit := do
  match Lean.Json.parse line with
  | .error e => IO.println s!"?\tERR\t{e}"
  | .ok req =>
    let id := match req.getObjVal? "id" with | .ok (.num n) => toString n.mantissa | .ok (.str s) => s | _ => "?"
    match getStr req "op" with
    | "gen" => handleGen req id
    | "normalize" => handleNormalize req id
    | "minint" => handleMinInt req id
    | "ident" => handleIdent req id
    | "ref" => handleRef req id
    | "spec" => handleSpec req id
    | "route" => handleRoute req id
    | "cliroute" => handleCliRoute req id
    | other => IO.println s!"{id}\tERR\tunknown op {other}"
    IO.println s!"{id}\tEND"

partial def loop (h : IO.FS.Stream) (out : IO.FS.Stream) : IO Unit := do
  let line ← h.getLine
  if line.isEmpty then return ()
  handle line
  out.flush
  loop h out

end Drv

def main : IO Unit := do Drv.loop (← IO.getStdin) (← IO.getStdout)

#!/usr/bin/env python3
"""Cross-check of the Lean reference semantics (GJS.Spec.valid) against the independent Python `jsonschema`
package.  Input: one JSON object per line {"id":…, "schema":…, "docs":[…]}; output: one line per input
{"id":…, "verdicts":"1010…"} ('1' valid, '0' invalid, '?' the validator raised, 'm' the schema mixes the draft-4 boolean and the draft-6 numeric form of exclusive bounds).
Draft 4 is used when the schema uses the boolean form of exclusiveMinimum/Maximum, draft 7 otherwise.
Formats are not asserted by jsonschema by default; the caller does not send schemas with `format`."""
import json, sys, warnings
warnings.filterwarnings("ignore")
import jsonschema

def has_num_exclusive(s):
    if isinstance(s, dict):
        for k, v in s.items():
            if k in ("exclusiveMinimum", "exclusiveMaximum") and isinstance(v, (int, float)) and not isinstance(v, bool):
                return True
            if has_num_exclusive(v):
                return True
    elif isinstance(s, list):
        return any(has_num_exclusive(x) for x in s)
    return False

def has_bool_exclusive(s):
    if isinstance(s, dict):
        for k, v in s.items():
            if k in ("exclusiveMinimum", "exclusiveMaximum") and isinstance(v, bool):
                return True
            if has_bool_exclusive(v):
                return True
    elif isinstance(s, list):
        return any(has_bool_exclusive(x) for x in s)
    return False

for line in sys.stdin:
    line = line.strip()
    if not line:
        continue
    req = json.loads(line)
    schema = req["schema"]
    if has_bool_exclusive(schema) and has_num_exclusive(schema):
        # both drafts' spellings in one schema: no single jsonschema dialect expresses it ('m' = not compared)
        print(json.dumps({"id": req["id"], "verdicts": "m" * len(req["docs"])}), flush=True)
        continue
    cls = jsonschema.Draft4Validator if has_bool_exclusive(schema) else jsonschema.Draft7Validator
    out = []
    try:
        v = cls(schema)
        for d in req["docs"]:
            try:
                out.append("1" if v.is_valid(d) else "0")
            except Exception:
                out.append("?")
    except Exception:
        out = ["?"] * len(req["docs"])
    print(json.dumps({"id": req["id"], "verdicts": "".join(out)}), flush=True)

// Package engine is the shared machinery of all property checks: evidence, violations with replay
// files, known findings, the Lean build / axiom audit, the regenerated facts.
package engine

import (
	"crypto/sha1"
	"encoding/json"
	"fmt"
	"os"
	"os/exec"
	"path/filepath"
	"regexp"
	"sort"
	"strings"
	"time"

	"verifharness/internal/core"
)

var VerifDir = func() string {
	if d := os.Getenv("VERIF_DIR"); d != "" {
		return d
	}
	return "/verif"
}()

type Violation struct {
	Property string `json:"property"`
	Kind     string `json:"kind"` // oracle | correspondence | proof | facts | panic
	What     string `json:"what"`
	Replay   any    `json:"replay"`
	NoInput  bool   `json:"no_failing_input_found"`
}

type Ctx struct {
	ID    string
	Tier  string
	Seed  int64
	R     *core.Rng
	Start time.Time

	Evaluations int
	Programs    int
	distinct    map[string]bool
	Samples     []any
	Hist        map[string]map[string]int
	Streams     map[string]int
	Exhaustive  []string
	Rule        string
	Notes       []string
	Assumptions []string

	Obligations []string // theorem names
	Discharged  []string
	CheckerCmd  string
	Axioms      map[string][]string

	Violations  []Violation
	Known       []string // KNOWN-FINDING lines printed
	kf          []KnownFinding
	budget      int
	brokenFacts []brokenFact
}

func NewCtx(id, tier string, seed int64) *Ctx {
	return &Ctx{ID: id, Tier: tier, Seed: seed, R: core.NewRng(seed*7919 + int64(len(id))), Start: time.Now(),
		distinct: map[string]bool{}, Hist: map[string]map[string]int{}, Streams: map[string]int{}, Axioms: map[string][]string{}}
}

func (c *Ctx) Distinct() int { return len(c.distinct) }

func (c *Ctx) Thorough() bool { return c.Tier == "thorough" }

// N picks a stream size by tier.
func (c *Ctx) N(quick, thorough int) int {
	if c.Thorough() {
		return thorough
	}
	return quick
}

// Eval counts one evaluated case; nontrivialKey != "" marks it as a distinct non-trivial case.
func (c *Ctx) Eval(nontrivialKey string) {
	c.Evaluations++
	if nontrivialKey != "" {
		c.distinct[nontrivialKey] = true
	}
}

func (c *Ctx) Count(hist, key string) {
	m := c.Hist[hist]
	if m == nil {
		m = map[string]int{}
		c.Hist[hist] = m
	}
	m[key]++
}

func (c *Ctx) Sample(v any) {
	if len(c.Samples) < 12 {
		c.Samples = append(c.Samples, v)
	}
}

func (c *Ctx) Note(format string, a ...any) { c.Notes = append(c.Notes, fmt.Sprintf(format, a...)) }

// Fail records a violation and writes its replay file. At most 8 are written per run.
func (c *Ctx) Fail(kind, what string, replay any, noInput bool) {
	v := Violation{Property: c.ID, Kind: kind, What: what, Replay: replay, NoInput: noInput}
	c.Violations = append(c.Violations, v)
	if len(c.Violations) > 8 {
		return
	}
	b, _ := json.MarshalIndent(v, "", " ")
	h := sha1.Sum(b)
	dir := filepath.Join(VerifDir, "replays")
	_ = os.MkdirAll(dir, 0o755)
	path := filepath.Join(dir, fmt.Sprintf("%s-%x.json", c.ID, h[:6]))
	_ = os.WriteFile(path, b, 0o644)
	rel, _ := filepath.Rel(VerifDir, path)
	line := fmt.Sprintf("VIOLATION property=%s replay=%s", c.ID, rel)
	if noInput {
		line += " no-failing-input-found"
	}
	fmt.Println(line)
	fmt.Printf("  (%s) %s\n", kind, what)
}

// ---------- known findings ----------

type KnownFinding struct {
	ID       string          `json:"id"`
	Property string          `json:"property"`
	Status   string          `json:"status"` // open | fixed
	Class    string          `json:"class"`
	What     string          `json:"what"`
	Commit   string          `json:"commit,omitempty"`
	Kind     string          `json:"kind"` // program-doc | generator | function | cli | relational
	Witness  json.RawMessage `json:"witness"`
	Observed string          `json:"observed"` // what the real code does on the witness while the finding is open
	Expected string          `json:"expected"` // what the property demands
	Site     string          `json:"site,omitempty"`
}

func LoadKnownFindings() ([]KnownFinding, error) {
	b, err := os.ReadFile(filepath.Join(VerifDir, "known_findings.json"))
	if err != nil {
		return nil, err
	}
	var f struct {
		Findings []KnownFinding `json:"findings"`
	}
	if err := json.Unmarshal(b, &f); err != nil {
		return nil, err
	}
	return f.Findings, nil
}

func (c *Ctx) KnownFor() []KnownFinding {
	if c.kf == nil {
		all, err := LoadKnownFindings()
		if err != nil {
			c.Note("known_findings.json: %v", err)
			return nil
		}
		c.kf = all
	}
	var out []KnownFinding
	for _, k := range c.kf {
		if k.Property == c.ID {
			out = append(out, k)
		}
	}
	return out
}

// ReportKnown prints the KNOWN-FINDING line for an open finding that still reproduces.
func (c *Ctx) ReportKnown(k KnownFinding) {
	line := fmt.Sprintf("KNOWN-FINDING: property=%s %s: %s", c.ID, k.ID, k.What)
	c.Known = append(c.Known, line)
	fmt.Println(line)
}

// ---------- Lean ----------

var allowedAxioms = map[string]bool{"propext": true, "Classical.choice": true, "Quot.sound": true}

func leanDir() string { return filepath.Join(VerifDir, "lean") }

func runIn(dir string, timeout time.Duration, name string, args ...string) (string, error) {
	cmd := exec.Command(name, args...)
	cmd.Dir = dir
	done := make(chan struct{})
	var out []byte
	var err error
	go func() { out, err = cmd.CombinedOutput(); close(done) }()
	select {
	case <-done:
	case <-time.After(timeout):
		_ = cmd.Process.Kill()
		<-done
		return string(out), fmt.Errorf("timeout after %v", timeout)
	}
	return string(out), err
}

var axiomsRe = regexp.MustCompile(`(?s)'([^']+)' depends on axioms: \[([^\]]*)\]`)
var noAxiomsRe = regexp.MustCompile(`'([^']+)' does not depend on any axioms`)

// Proofs builds the given Lean modules, audits the axioms of the listed theorems, scans the
// sources for forbidden constructs; in the thorough tier re-checks the modules with leanchecker.
// A failure is a violation of kind "proof".
func (c *Ctx) Proofs(modules []string, theorems []string) {
	c.Obligations = append(c.Obligations, theorems...)
	args := append([]string{"build"}, modules...)
	c.CheckerCmd = "cd lean && lake " + strings.Join(args, " ") + " && lake env lean <audit> (#print axioms)"
	out, err := runIn(leanDir(), 40*time.Minute, "lake", args...)
	if err != nil {
		c.Fail("proof", "lake build failed for "+strings.Join(modules, " ")+": "+tail(out, 1500),
			map[string]any{"broken": modules, "output": tail(out, 4000)}, true)
		return
	}
	// forbidden constructs
	for _, m := range modules {
		path := filepath.Join(leanDir(), strings.ReplaceAll(m, ".", "/")+".lean")
		src, err := os.ReadFile(path)
		if err != nil {
			continue
		}
		if bad := forbidden(string(src)); bad != "" {
			c.Fail("proof", "forbidden construct in "+m+": "+bad, map[string]any{"broken": m, "construct": bad}, true)
			return
		}
	}
	// axioms
	var sb strings.Builder
	for _, m := range modules {
		fmt.Fprintf(&sb, "import %s\n", m)
	}
	for _, t := range theorems {
		fmt.Fprintf(&sb, "#print axioms %s\n", t)
	}
	tmp, _ := os.CreateTemp("", "audit*.lean")
	_, _ = tmp.WriteString(sb.String())
	tmp.Close()
	defer os.Remove(tmp.Name())
	out, err = runIn(leanDir(), 20*time.Minute, "lake", "env", "lean", tmp.Name())
	if err != nil {
		c.Fail("proof", "axiom audit failed: "+tail(out, 1500), map[string]any{"broken": theorems, "output": tail(out, 4000)}, true)
		return
	}
	seen := map[string]bool{}
	for _, m := range axiomsRe.FindAllStringSubmatch(out, -1) {
		name := m[1]
		var axs []string
		for _, a := range strings.Split(m[2], ",") {
			a = strings.TrimSpace(a)
			if a != "" {
				axs = append(axs, a)
			}
		}
		c.Axioms[name] = axs
		seen[name] = true
		ok := true
		for _, a := range axs {
			if !allowedAxioms[a] {
				ok = false
				c.Fail("proof", "theorem "+name+" depends on inadmissible axiom "+a, map[string]any{"broken": name, "axiom": a}, true)
			}
		}
		if ok {
			c.Discharged = append(c.Discharged, name)
		}
	}
	for _, m := range noAxiomsRe.FindAllStringSubmatch(out, -1) {
		c.Axioms[m[1]] = []string{}
		seen[m[1]] = true
		c.Discharged = append(c.Discharged, m[1])
	}
	for _, t := range theorems {
		if !seen[t] {
			c.Fail("proof", "theorem "+t+" not found by the axiom audit", map[string]any{"broken": t, "output": tail(out, 2000)}, true)
		}
	}
	if c.Thorough() {
		for _, m := range modules {
			out, err := runIn(leanDir(), 30*time.Minute, "lake", "env", "leanchecker", m)
			if err != nil {
				c.Fail("proof", "leanchecker rejected "+m+": "+tail(out, 1500), map[string]any{"broken": m}, true)
			}
		}
		c.CheckerCmd += " && lake env leanchecker <module>"
	}
}

var forbiddenRe = regexp.MustCompile(`\bsorry\b|\badmit\b|^\s*axiom\s|native_decide|bv_decide|implemented_by|\bunsafe\s|maxHeartbeats\s+0`)

func forbidden(src string) string {
	// strip comments (block and line)
	src = regexp.MustCompile(`(?s)/-.*?-/`).ReplaceAllString(src, "")
	for _, line := range strings.Split(src, "\n") {
		if i := strings.Index(line, "--"); i >= 0 {
			line = line[:i]
		}
		if m := forbiddenRe.FindString(line); m != "" {
			return strings.TrimSpace(m)
		}
	}
	return ""
}

func tail(s string, n int) string {
	if len(s) > n {
		return "…" + s[len(s)-n:]
	}
	return s
}

// ---------- evidence ----------

func (c *Ctx) WriteEvidence() error {
	wall := time.Since(c.Start).Seconds()
	cov := map[string]any{
		"obligations":         len(c.Obligations),
		"discharged":          len(c.Discharged),
		"checker_cmd":         c.CheckerCmd,
		"trusted_base":        TrustedBase,
		"evaluations":         c.Evaluations,
		"distinct_nontrivial": len(c.distinct),
		"rule":                c.Rule,
		"samples":             c.Samples,
		"programs":            c.Programs,
		"streams":             c.Streams,
		"histograms":          c.Hist,
		"theorems":            c.Obligations,
		"axioms":              c.Axioms,
		"notes":               c.Notes,
		"known_findings":      c.Known,
	}
	if len(c.Exhaustive) > 0 {
		cov["exhaustive"] = true
		cov["exhaustive_spaces"] = c.Exhaustive
	}
	if len(c.Samples) == 0 {
		cov["samples"] = []any{"(none)"}
	}
	ev := map[string]any{
		"property_id": c.ID,
		"tier":        c.Tier,
		"seed":        c.Seed,
		"level":       "proof",
		"coverage":    cov,
		"assumptions": append([]string{}, c.Assumptions...),
		"wall_s":      wall,
		"violations":  len(c.Violations),
	}
	b, err := json.MarshalIndent(ev, "", " ")
	if err != nil {
		return err
	}
	dir := filepath.Join(VerifDir, "evidence")
	_ = os.MkdirAll(dir, 0o755)
	return os.WriteFile(filepath.Join(dir, c.ID+".json"), b, 0o644)
}

var TrustedBase = []string{
	"Lean 4.33.0 kernel (leanchecker re-check in the thorough tier); axioms admitted: propext, Classical.choice, Quot.sound; no sorry/admit/native_decide/bv_decide/implemented_by/unsafe/user axioms",
	"Lean compiler: the compiled driver evaluates the same definitions the theorems are about",
	"the correspondence harness (Go): generators, go/ast summary, canonicalisation, batch runner; it samples, except on the finite skeletons marked exhaustive",
	"GJS/Spec.lean as the reading of JSON Schema the properties are judged against",
	"modelled, not verified: encoding/json, yaml.v3, reflect.DeepEqual, mapstructure (rules G/Y of DESIGN §2.3); float64 (convention F); regexp on the closed pattern family; time/netip parsers; Go unicode tables; mergo; litter; go/format, go/types and the Go compiler",
	"the fact extractor (go/ast) and the hand-written expectations in GJS/FactsExpected.lean",
}

func SortedKeys[V any](m map[string]V) []string {
	ks := make([]string, 0, len(m))
	for k := range m {
		ks = append(ks, k)
	}
	sort.Strings(ks)
	return ks
}

// ---------- regenerated facts ----------

var leanStrRe = regexp.MustCompile(`^\s*"((?:[^"\\]|\\.)*)",?\s*$`)

func parseLeanFacts(path string) map[string][]string {
	out := map[string][]string{}
	b, err := os.ReadFile(path)
	if err != nil {
		return out
	}
	cur := ""
	for _, line := range strings.Split(string(b), "\n") {
		if strings.HasPrefix(line, "def ") {
			cur = strings.Fields(line)[1]
			out[cur] = []string{}
			continue
		}
		if m := leanStrRe.FindStringSubmatch(line); m != nil && cur != "" {
			out[cur] = append(out[cur], m[1])
		}
	}
	return out
}

// Facts regenerates lean/GJS/Facts.lean from /repo (rewritten only when it changed) and builds the
// `rfl` tie of each listed group. A broken tie is recorded and reported by FactsVerdict after the
// property's streams have run (so that the search for a failing input has happened first).
func (c *Ctx) Facts(extract func() (string, error), groups ...string) {
	src, err := extract()
	if err != nil {
		c.Fail("facts", "fact extraction failed: "+err.Error(), map[string]any{"broken": "fact extractor"}, true)
		return
	}
	path := filepath.Join(leanDir(), "GJS", "Facts.lean")
	old, _ := os.ReadFile(path)
	if string(old) != src {
		if err := os.WriteFile(path, []byte(src), 0o644); err != nil {
			c.Fail("facts", "cannot write Facts.lean: "+err.Error(), nil, true)
			return
		}
	}
	actual := parseLeanFacts(path)
	expected := parseLeanFacts(filepath.Join(leanDir(), "GJS", "FactsExpected.lean"))
	for _, g := range groups {
		name := "GJS.FactsTie." + g
		mod := "GJS.FactsTie." + strings.ToUpper(g[:1]) + g[1:]
		c.Obligations = append(c.Obligations, name)
		out, err := runIn(leanDir(), 20*time.Minute, "lake", "build", mod)
		if err == nil {
			c.Discharged = append(c.Discharged, name)
			c.Axioms[name] = []string{}
			continue
		}
		// describe the difference
		var added, removed []string
		exp := map[string]int{}
		for _, s := range expected[g] {
			exp[s]++
		}
		for _, s := range actual[g] {
			if exp[s] > 0 {
				exp[s]--
			} else {
				added = append(added, s)
			}
		}
		for s, n := range exp {
			for i := 0; i < n; i++ {
				removed = append(removed, s)
			}
		}
		sort.Strings(removed)
		c.brokenFacts = append(c.brokenFacts, brokenFact{Group: g, Theorem: name, Added: added, Removed: removed, Output: tail(out, 1500)})
	}
}

type brokenFact struct {
	Group   string   `json:"group"`
	Theorem string   `json:"theorem"`
	Added   []string `json:"now_in_source"`
	Removed []string `json:"no_longer_in_source"`
	Output  string   `json:"lake_output"`
}

// FactsVerdict reports broken fact ties. haveInput: a concrete failing input was already reported in this run.
func (c *Ctx) FactsVerdict(haveInput bool) {
	for _, b := range c.brokenFacts {
		c.Fail("facts", fmt.Sprintf("the source no longer matches the facts the model relies on (%s): now %v, no longer %v", b.Group, b.Added, b.Removed),
			map[string]any{"broken": b.Theorem, "fact_group": b.Group, "now_in_source": b.Added, "no_longer_in_source": b.Removed}, !haveInput)
	}
}

func (c *Ctx) FactsBroken() bool { return len(c.brokenFacts) > 0 }

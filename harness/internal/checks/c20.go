package checks

import (
	"fmt"
	"os"
	"os/exec"
	"path/filepath"
	"regexp"
	"sort"
	"strings"

	"verifharness/internal/core"
	"verifharness/internal/engine"
)

type c20File struct {
	path   string // relative path of the schema file
	id     string
	root   string // expected root type name (via --schema-root-type)
	pkg    string // mapped package (import path)
	out    string // mapped output file
	schema M
}

func permutations(n int) [][]int {
	var out [][]int
	var rec func(cur []int, used []bool)
	rec = func(cur []int, used []bool) {
		if len(cur) == n {
			out = append(out, append([]int(nil), cur...))
			return
		}
		for i := 0; i < n; i++ {
			if !used[i] {
				used[i] = true
				rec(append(cur, i), used)
				used[i] = false
			}
		}
	}
	rec(nil, make([]bool, n))
	return out
}

var pkgClauseRe = regexp.MustCompile(`(?m)^package (\w+)`)

func init() {
	register("C20", func(c *engine.Ctx) {
		c.Rule = "sets of 1..4 schema files in up to three directories (some sets: the same stem with different extensions in one directory, thing.json / thing.yaml / thing.yml, with the matching --resolve-extension flags), each with its own $id, distinct type names, acyclic cross-file references (to a file root or to a file's definition), and a package + output file mapped per id (some sharing a package, some sharing a file); the CLI binary is run in a sandbox for every argument order (all permutations up to 3 files, 8 sampled for 4) and once more with an unrelated schema added. Judged: exit 0; every output file byte-identical across argument orders; each schema's root type and each of its definitions is declared exactly once, in the file mapped to its id, under the mapped package clause (sets in which an earlier file's definition is named like a later file's root type are judged on the definitions only: K15); a cross-package reference is written pkg.Name with a matching import; all emitted packages build together (go build ./...); adding the unrelated file changes no other output. Plus partial mappings: a.json referring to b.json, each id with none / only a package (the default one or another) / only an output / only a root type / package and output (7 x 7 flag sets x 3 argument lists): every root type and definition is declared in exactly the file, under the package clause, that the model's assembleMapping + route give for its id, and nowhere when the id has a package without an output. Distinct = distinct (file count, sharing pattern, reference pattern)."
		c.Proofs([]string{"GJS.Props.C20"}, []string{
			"GJS.Props.C20.route_by_mapping", "GJS.Props.C20.route_default", "GJS.Props.C20.route_independent_of_other_mappings",
			"GJS.Props.C20.begin_same_file_same_pkg_shares", "GJS.Props.C20.begin_same_file_other_pkg_conflicts", "GJS.Props.C20.begin_conflict_symmetric", "GJS.Props.C20.begin_external_never_conflicts",
			"GJS.Props.C20.cliroute_file", "GJS.Props.C20.cliroute_pkg", "GJS.Props.C20.cliroute_order_free",
			"GJS.Props.C20.qualified_iff_other_package",
		})
		factsOf(c, "mapRanges", "cliOrder")
		bin := buildCLI(c)
		if bin == "" {
			return
		}
		tmp, _ := os.MkdirTemp("", "gjsc20")
		defer os.RemoveAll(tmp)
		fails := 0
		nSets := c.N(24, 200)
		for si := 0; si < nSets; si++ {
			n := c.R.Range(1, 4)
			dirs := []string{"schemas", "schemas/sub", "other"}
			onePkg := c.R.P(0.3)
			var files []c20File
			// same stem, different extension, same directory (thing.json / thing.yaml / thing.yml), with the matching
			// --resolve-extension flags: each file is its own schema
			sameStem := n >= 2 && n <= 3 && c.R.P(0.35)
			stemDir := core.Pick(c.R, dirs)
			for i := 0; i < n; i++ {
				name := fmt.Sprintf("file%c", 'a'+i)
				f := c20File{path: core.Pick(c.R, dirs) + "/" + name + ".json", id: "urn:" + name, root: "Root" + strings.ToUpper(name[4:])}
				// the identifier as the schema spells it — current or legacy keyword, with or without an (empty) fragment or a
				// trailing slash — is what the mapping flags name, verbatim
				idKw := "$id"
				switch (si + i) % 6 {
				case 1:
					idKw = "id"
				case 2:
					f.id = "https://example.com/schemas/" + name + "#"
				case 3:
					f.id, idKw = "https://example.com/schemas/"+name+"#", "id"
				case 4:
					f.id = "https://example.com/schemas/" + name + "/"
				case 5:
					f.id, idKw = "https://example.com/"+name+".json", "id"
				}
				if sameStem {
					f.path = stemDir + "/thing" + []string{".json", ".yaml", ".yml"}[i]
				}
				if onePkg {
					f.pkg = "example.com/m/out/all"
					if c.R.P(0.5) {
						f.out = "out/all/all.go" // several schemas concatenated into one file
					} else {
						f.out = "out/all/" + name + ".go"
					}
				} else {
					f.pkg = "example.com/m/out/p" + name[4:]
					f.out = "out/p" + name[4:] + "/" + name + ".go"
					switch si % 4 {
					case 1:
						// packages that differ only in a trailing major-version element
						f.pkg = fmt.Sprintf("example.com/m/out/api/v%d", i+2)
						f.out = fmt.Sprintf("out/api/v%d/%s.go", i+2, name)
					case 2:
						// … or that end in an element other packages have in the middle
						f.pkg = "example.com/m/out" + strings.Repeat("/gen", i+1) + "/p" + name[4:]
						f.out = "out" + strings.Repeat("/gen", i+1) + "/p" + name[4:] + "/" + name + ".go"
					}
				}
				props := M{"own" + name[4:]: M{"type": "string", "minLength": 1}, "num": M{"type": "integer", "minimum": i}}
				f.schema = M{idKw: f.id, "type": "object", "properties": props, "required": []any{"own" + name[4:]},
					"$defs": M{"Def" + strings.ToUpper(name[4:]): M{"type": "object", "properties": M{"d" + name[4:]: M{"type": "boolean"}}},
						// … and an enum definition (declared through another path of the generator than structs)
						"Kind" + strings.ToUpper(name[4:]): M{"type": "string", "enum": []any{"k" + name[4:] + "1", "k" + name[4:] + "2"}}}}
				files = append(files, f)
			}
			// one output file for all schemas, each with an IDENTICAL definition under one name (a string enum and an object):
			// equal same-named definitions are one declaration
			sharedDefs := onePkg && n >= 2 && !sameStem && c.R.P(0.5)
			if sharedDefs {
				for i := range files {
					files[i].out = "out/all/all.go"
					defs := files[i].schema["$defs"].(M)
					defs["SharedKind"] = M{"type": "string", "enum": []any{"s1", "s2", "s3"}}
					defs["SharedBox"] = M{"type": "object", "properties": M{"w": M{"type": "integer"}}}
					props := files[i].schema["properties"].(M)
					props["sharedKind"] = M{"$ref": "#/$defs/SharedKind"}
					props["sharedBox"] = M{"$ref": "#/$defs/SharedBox"}
				}
			}
			// name coincidence: a definition of an earlier file is named like a later file's root type and both go to
			// the same output.  Which of the two keeps the bare name is the listed finding K15; what is judged here
			// is that every DEFINITION of every file is still emitted exactly once, in every argument order.
			coincide := onePkg && n >= 2 && c.R.P(0.4)
			if coincide {
				for i := range files {
					files[i].out = "out/all/all.go"
				}
				i := c.R.Intn(n - 1)
				j := c.R.Range(i+1, n-1)
				files[i].schema["$defs"].(M)[files[j].root] = M{"type": "object", "properties": M{"co": M{"type": "string"}}}
			}
			// acyclic references: file i may refer to file j > i
			refPattern := ""
			for i := 0; i < n; i++ {
				for j := i + 1; j < n; j++ {
					if c.R.P(0.5) {
						rel, _ := filepath.Rel(filepath.Dir(files[i].path), files[j].path)
						props := files[i].schema["properties"].(M)
						if c.R.P(0.3) {
							props[fmt.Sprintf("to%cKind", 'A'+j)] = M{"$ref": rel + "#/$defs/Kind" + string(rune('A'+j))}
							refPattern += fmt.Sprintf("%d>%d#k ", i, j)
						}
						if c.R.P(0.5) {
							props[fmt.Sprintf("to%c", 'A'+j)] = M{"$ref": rel}
							refPattern += fmt.Sprintf("%d>%d ", i, j)
						} else {
							props[fmt.Sprintf("to%cDef", 'A'+j)] = M{"$ref": rel + "#/$defs/Def" + string(rune('A'+j))}
							refPattern += fmt.Sprintf("%d>%d# ", i, j)
						}
					}
				}
			}
			unrelated := c20File{path: "schemas/unrelated.json", id: "urn:unrelated", root: "Unrelated", pkg: "example.com/m/out/unrel", out: "out/unrel/unrelated.go",
				schema: M{"$id": "urn:unrelated", "type": "object", "properties": M{"z": M{"type": "number"}}}}
			flagsFor := func(fs []c20File) []string {
				var a []string
				if sameStem {
					a = append(a, "--resolve-extension", ".json", "--resolve-extension", ".yaml", "--resolve-extension", ".yml")
				}
				for _, f := range fs {
					a = append(a, "--schema-package", f.id+"="+f.pkg, "--schema-output", f.id+"="+f.out, "--schema-root-type", f.id+"="+f.root)
				}
				return a
			}
			spell := func(wd, p string) string { return p }
			run := func(name string, fs []c20File, order []int) (cliResult, string) {
				wd := filepath.Join(tmp, fmt.Sprintf("s%d-%s", si, name))
				_ = os.MkdirAll(wd, 0o755)
				for _, f := range fs {
					fn := filepath.Join(wd, f.path)
					_ = os.MkdirAll(filepath.Dir(fn), 0o755)
					_ = os.WriteFile(fn, core.MustJSON(f.schema), 0o644)
				}
				args := flagsFor(fs)
				for _, i := range order {
					args = append(args, spell(wd, fs[i].path))
				}
				return runCLI(bin, wd, "", args...), wd
			}
			perms := permutations(n)
			if len(perms) > 8 {
				core.Shuffle(c.R, perms)
				perms = perms[:8]
			}
			var ref map[string]string
			var refWD string
			shape := fmt.Sprintf("n=%d onePkg=%v coincide=%v sameStem=%v shared=%v refs=%s", n, onePkg, coincide, sameStem, sharedDefs, refPattern)
			replayBase := M{"kind": "cli-multi", "files": func() map[string]string {
				m := map[string]string{}
				for _, f := range files {
					m[f.path] = string(core.MustJSON(f.schema))
				}
				return m
			}(), "flags": flagsFor(files)}
			for pi, perm := range perms {
				res, wd := run(fmt.Sprintf("perm%d", pi), files, perm)
				c.Eval(fmt.Sprintf("%s|perm%d", shape, pi))
				outs := map[string]string{}
				for name, data := range res.Files {
					if strings.HasPrefix(name, "out/") {
						outs[name] = data
					}
				}
				if res.Exit != 0 {
					fails++
					if fails <= 3 {
						replayBase["order"] = perm
						replayBase["stderr"] = clip(res.Stderr, 500)
						c.Fail("oracle", "a valid multi-file invocation fails: "+clip(res.Stderr, 200), replayBase, false)
					}
					continue
				}
				// every definition Def<X> of every file is declared exactly once, in the file mapped to its schema
				for fi2 := 0; fi2 < 2*len(files); fi2++ {
					f := files[fi2/2]
					dn := []string{"Def", "Kind"}[fi2%2] + strings.TrimPrefix(f.root, "Root")
					declared, where := 0, ""
					for name, data := range outs {
						k := len(regexp.MustCompile(`(?m)^type `+dn+` `).FindAllString(data, -1))
						declared += k
						if k > 0 {
							where = name
						}
					}
					if declared != 1 || where != f.out {
						fails++
						if fails <= 3 {
							replayBase["order"] = perm
							c.Fail("oracle", fmt.Sprintf("definition %s of %s is declared %d time(s), in %q; expected once in %q (argument order %v)", dn, f.id, declared, where, f.out, perm), replayBase, false)
						}
					}
				}
				if sharedDefs {
					for _, dn := range []string{"SharedKind", "SharedBox"} {
						k := len(regexp.MustCompile(`(?m)^type `+dn+`(_\d+)? `).FindAllString(outs["out/all/all.go"], -1))
						if k != 1 {
							fails++
							if fails <= 3 {
								replayBase["order"] = perm
								c.Fail("oracle", fmt.Sprintf("the definition %s, identical in all %d files of one output, is declared %d times (argument order %v)", dn, n, k, perm), replayBase, false)
							}
						}
					}
				}
				if coincide {
					c.Count("c20", "name-coincidence set (root-type and byte-equality oracles not applied: K15)")
					continue
				}
				if ref == nil {
					ref, refWD = outs, wd
					// structure of the reference run
					for _, f := range files {
						declared := 0
						where := ""
						for name, data := range outs {
							if regexp.MustCompile(`(?m)^type ` + f.root + ` `).MatchString(data) {
								declared++
								where = name
							}
						}
						if declared != 1 || where != f.out {
							fails++
							if fails <= 3 {
								c.Fail("oracle", fmt.Sprintf("root type %s of %s is declared %d time(s), in %q; expected once in %q", f.root, f.id, declared, where, f.out), replayBase, false)
							}
						}
						if data, ok := outs[f.out]; ok {
							want := f.pkg[strings.LastIndex(f.pkg, "/")+1:]
							if m := pkgClauseRe.FindStringSubmatch(data); m == nil || m[1] != want {
								fails++
								if fails <= 3 {
									c.Fail("oracle", fmt.Sprintf("%s: package clause %v, expected %s", f.out, m, want), replayBase, false)
								}
							}
						}
					}
					// cross-package references are qualified and imported
					for i, f := range files {
						for j := i + 1; j < len(files); j++ {
							g := files[j]
							if _, refers := f.schema["properties"].(M)[fmt.Sprintf("to%c", 'A'+j)]; refers && f.pkg != g.pkg {
								data := outs[f.out]
								short := g.pkg[strings.LastIndex(g.pkg, "/")+1:]
								if !strings.Contains(data, short+"."+g.root) || !strings.Contains(data, `"`+g.pkg+`"`) {
									fails++
									if fails <= 3 {
										c.Fail("oracle", fmt.Sprintf("%s refers to %s across packages but the output lacks %s.%s or the import of %s", f.id, g.id, short, g.root, g.pkg), replayBase, false)
									}
								}
							}
						}
					}
					// the emitted packages build together
					_ = os.WriteFile(filepath.Join(wd, "go.mod"), []byte("module example.com/m\n\ngo 1.23.0\n"), 0o644)
					cmd := exec.Command("go", "build", "./out/...")
					cmd.Dir = wd
					cmd.Env = core.GoEnv()
					if out, err := cmd.CombinedOutput(); err != nil {
						fails++
						if fails <= 3 {
							replayBase["build_output"] = clip(string(out), 800)
							c.Fail("oracle", "the emitted packages do not build together: "+clip(string(out), 300), replayBase, false)
						}
					}
					c.Count("c20", "built-together")
				} else {
					if !sameFiles(ref, outs) {
						fails++
						if fails <= 3 {
							replayBase["order"] = perm
							replayBase["difference"] = diffFiles(ref, outs)
							c.Fail("oracle", "reordering the arguments changes the generated code: "+diffFiles(ref, outs), replayBase, false)
						}
					}
				}
			}
			// the same files named differently on the command line (./x, an absolute path, a detour through ..): how an
			// argument is spelled must not change what is generated, where it lands or how often it is declared
			if ref != nil && !coincide && !sameStem {
				for sn, sp := range map[string]func(wd, p string) string{
					"dot-slash": func(wd, p string) string { return "./" + p },
					"absolute":  func(wd, p string) string { return filepath.Join(wd, p) },
					"detour": func(wd, p string) string {
						return filepath.Dir(p) + "/../" + filepath.Base(filepath.Dir(p)) + "/" + filepath.Base(p)
					},
					// … and MIXED: a file named absolutely on the command line while the references to it are relative
					"mixed": func(wd, p string) string {
						if len(p)%2 == 0 {
							return filepath.Join(wd, p)
						}
						return "./" + p
					},
				} {
					if sn == "detour" && si%2 == 0 {
						continue
					}
					spell = sp
					res, _ := run("spell-"+sn, files, perms[len(perms)-1])
					spell = func(wd, p string) string { return p }
					c.Eval(shape + "|spelling=" + sn)
					outs := map[string]string{}
					for name, data := range res.Files {
						if strings.HasPrefix(name, "out/") {
							outs[name] = data
						}
					}
					if res.Exit != 0 || !sameFiles(ref, outs) {
						fails++
						if fails <= 3 {
							replayBase["spelling"] = sn
							replayBase["difference"] = diffFiles(ref, outs)
							replayBase["stderr"] = clip(res.Stderr, 400)
							c.Fail("oracle", "spelling the arguments differently ("+sn+") changes the generated code: "+clip(res.Stderr, 150)+diffFiles(ref, outs), replayBase, false)
						}
					}
				}
			}
			// adding an unrelated file
			if ref != nil {
				all := append(append([]c20File{}, files...), unrelated)
				order := make([]int, len(all))
				for i := range order {
					order[i] = i
				}
				core.Shuffle(c.R, order)
				res, _ := run("unrelated", all, order)
				c.Eval(shape + "|unrelated")
				outs := map[string]string{}
				for name, data := range res.Files {
					if strings.HasPrefix(name, "out/") && !strings.HasPrefix(name, "out/unrel/") {
						outs[name] = data
					}
				}
				if res.Exit != 0 || !sameFiles(ref, outs) {
					fails++
					if fails <= 3 {
						replayBase["difference"] = diffFiles(ref, outs)
						c.Fail("oracle", "adding an unrelated schema file changes the code generated for the others: "+diffFiles(ref, outs)+clip(res.Stderr, 200), replayBase, false)
					}
				}
			}
			// adding an unrelated file that lands in the SAME output file and package as the first schema and declares
			// types named like identifiers of the emitted method bodies (Plain, Raw): every declaration generated for the
			// other schemas must still be there, token for token
			if ref != nil {
				host := c20File{path: "schemas/unrelplain.json", id: "urn:unrelplain", root: "UnrelHost", pkg: files[0].pkg, out: files[0].out,
					schema: M{"$id": "urn:unrelplain", "type": "object", "properties": M{"p": M{"$ref": "#/$defs/plain"}, "r": M{"$ref": "#/$defs/raw"}},
						"$defs": M{"plain": M{"type": "object", "properties": M{"text": M{"type": "string"}}, "required": []any{"text"}}, "raw": M{"type": "string", "enum": []any{"x", "y"}}}}}
				all := append(append([]c20File{}, files...), host)
				order := make([]int, len(all))
				for i := range order {
					order[i] = i
				}
				core.Shuffle(c.R, order)
				res, _ := run("unrelated-same-output", all, order)
				c.Eval(shape + "|unrelated-same-output")
				missing := ""
				for name, before := range ref {
					after := res.Files[name]
					have := map[string]bool{}
					for _, d := range strings.Split(declSet(after, nil, false), "\n\n") {
						have[d] = true
					}
					for _, d := range strings.Split(declSet(before, nil, false), "\n\n") {
						if !strings.HasPrefix(d, "import") && !have[d] && missing == "" {
							missing = name + ": " + clip(d, 300)
						}
					}
				}
				if res.Exit != 0 || missing != "" {
					fails++
					if fails <= 3 {
						replayBase["difference"] = missing
						replayBase["added_file"] = string(core.MustJSON(host.schema))
						c.Fail("oracle", "adding an unrelated schema file to the same output file changes a declaration generated for another schema: "+missing+clip(res.Stderr, 200), replayBase, false)
					}
				}
			}
			_ = refWD
			if len(c.Samples) < 5 {
				c.Sample(M{"files": len(files), "one_package": onePkg, "references": refPattern, "orders": len(perms)})
			}
		}
		c.Programs += nSets
		partialMappings(c, bin, &fails)
		externalPackages(c, bin, tmp, &fails)
		sameNamedAcrossFiles(c, bin, tmp, &fails)
		c.FactsVerdict(fails > 0)
		knownMultiFileFindings(c)
	})
}

func sameFiles(a, b map[string]string) bool {
	if len(a) != len(b) {
		return false
	}
	for k, v := range a {
		if b[k] != v {
			return false
		}
	}
	return true
}

func diffFiles(a, b map[string]string) string {
	var d []string
	for k, v := range a {
		if w, ok := b[k]; !ok {
			d = append(d, k+" missing")
		} else if w != v {
			d = append(d, k+" differs")
		}
	}
	for k := range b {
		if _, ok := a[k]; !ok {
			d = append(d, k+" extra")
		}
	}
	sort.Strings(d)
	return strings.Join(d, ", ")
}

// externalPackages: schemas whose types live in HAND-WRITTEN packages (mapped with --schema-package and no
// --schema-output), several of them, with import paths that share their last element (core/v1, apps/v1), differ only in
// the middle, or are nested in each other.  Every generated file that refers to such a type imports exactly the package
// its schema is mapped to, and the generated package builds against stubs of the hand-written ones.
var k39Reported = map[string]bool{}

func externalPackages(c *engine.Ctx, bin, tmp string, fails *int) {
	for li, paths := range [][]string{
		{"example.com/m/core/v1", "example.com/m/apps/v1"},
		{"example.com/m/apps/v1", "example.com/m/core/v1", "example.com/m/batch/v1"},
		{"example.com/m/a/model", "example.com/m/b/model"},
		{"example.com/m/ext", "example.com/m/ext/ext"},
		{"example.com/m/x/api", "example.com/m/y/api", "example.com/m/api"},
	} {
		for _, sameOut := range []bool{false, true} {
			wd := filepath.Join(tmp, fmt.Sprintf("ext%d-%v", li, sameOut))
			args := []string{"-p", "example.com/m/gen", "-o", "gen/main.go", "--tags", "json"}
			var inputs []string
			files := map[string]string{}
			for i, pth := range paths {
				ext := fmt.Sprintf("ext%d", i)
				extID, useID := "urn:"+ext, fmt.Sprintf("urn:use%d", i)
				files["schemas/"+ext+".json"] = string(core.MustJSON(M{"$id": extID, "title": "Thing", "type": "object", "properties": M{"name": M{"type": "string"}}}))
				files[fmt.Sprintf("schemas/use%d.json", i)] = string(core.MustJSON(M{"$id": useID, "type": "object", "properties": M{"thing": M{"$ref": ext + ".json"}}}))
				out := fmt.Sprintf("gen/use%d.go", i)
				if sameOut {
					out = "gen/main.go"
				}
				args = append(args, "--schema-package", extID+"="+pth, "--schema-root-type", extID+"=Thing"+fmt.Sprint(i),
					"--schema-package", useID+"=example.com/m/gen", "--schema-output", useID+"="+out, "--schema-root-type", useID+"=Use"+fmt.Sprint(i))
				inputs = append(inputs, fmt.Sprintf("schemas/use%d.json", i))
				// the hand-written package
				dir := strings.TrimPrefix(pth, "example.com/m/")
				files[dir+"/stub.go"] = files[dir+"/stub.go"] + ""
			}
			for i, pth := range paths {
				dir := strings.TrimPrefix(pth, "example.com/m/")
				if files[dir+"/stub.go"] == "" {
					files[dir+"/stub.go"] = "package " + pth[strings.LastIndex(pth, "/")+1:] + "\n"
				}
				files[dir+"/stub.go"] += fmt.Sprintf("\ntype Thing%d struct{ Name *string }\n", i)
			}
			files["go.mod"] = "module example.com/m\n\ngo 1.23.0\n"
			for name, data := range files {
				fn := filepath.Join(wd, name)
				_ = os.MkdirAll(filepath.Dir(fn), 0o755)
				_ = os.WriteFile(fn, []byte(data), 0o644)
			}
			res := runCLI(bin, wd, "", append(args, inputs...)...)
			c.Eval(fmt.Sprintf("external-packages|%d|sameOut=%v|exit=%d", li, sameOut, res.Exit))
			c.Programs++
			replay := M{"kind": "cli-multi", "files": files, "flags": args, "inputs": inputs, "stderr": clip(res.Stderr, 400)}
			if res.Exit != 0 {
				*fails++
				if *fails <= 3 {
					c.Fail("oracle", "schemas mapped to hand-written packages: the invocation fails: "+clip(res.Stderr, 200), replay, false)
				}
				continue
			}
			// listed finding K39: ONE generated file that refers to types of two packages with the same name (last path
			// element) imports both under that name; it cannot compile.  Tolerated only as exactly that failure.
			names := map[string]int{}
			for _, pth := range paths {
				names[pth[strings.LastIndex(pth, "/")+1:]]++
			}
			collide := false
			for _, k := range names {
				collide = collide || (sameOut && k > 1)
			}
			bad := ""
			for i, pth := range paths {
				out := fmt.Sprintf("gen/use%d.go", i)
				if sameOut {
					out = "gen/main.go"
				}
				if !strings.Contains(res.Files[out], `"`+pth+`"`) {
					bad = fmt.Sprintf("%s refers to a type of %s but does not import it", out, pth)
				}
			}
			if bad == "" {
				cmd := exec.Command("go", "build", "./gen/...")
				cmd.Dir = wd
				cmd.Env = core.GoEnv()
				out, err := cmd.CombinedOutput()
				switch {
				case collide && err != nil && strings.Contains(string(out), "redeclared in this block") && !strings.Contains(string(out), "Thing0 redeclared") && !strings.Contains(string(out), "Use0 redeclared"):
					c.Count("c20", "external packages: K39 region (one file, two packages of one name)")
					for _, k := range c.KnownFor() {
						if strings.HasPrefix(k.ID, "K39") && !k39Reported[c.ID] {
							k39Reported[c.ID] = true
							c.ReportKnown(k)
						}
					}
				case collide && err == nil:
					c.Note("known finding K39 no longer reproduces: one file importing two packages of one name builds")
				case err != nil:
					bad = "the generated package does not build against the hand-written ones: " + clip(string(out), 300)
				}
			}
			if bad != "" {
				*fails++
				if *fails <= 3 {
					replay["outputs"] = res.Files
					c.Fail("oracle", bad, replay, false)
				}
			}
		}
	}
}

// sameNamedAcrossFiles: three (or four) files that each define $defs/Item with DIFFERENT content, all written to one
// output; one file's Item refers to another file's Item (so that the third Item is reached while the second is still
// being generated).  Every file's Item is declared exactly once under a name of its own, and the package builds.
// (Argument orders in which the referring file comes first are the listed finding K30.)
func sameNamedAcrossFiles(c *engine.Ctx, bin, tmp string, fails *int) {
	itemRe := regexp.MustCompile(`(?m)^type (Item(_\d+)?) struct`)
	for vi, variant := range []struct {
		refFrom, refTo string
		orders         [][]string
	}{
		{"b", "c", [][]string{{"a", "b"}, {"a", "b", "c"}, {"a", "c", "b"}, {"c", "a", "b"}}},
		{"c", "a", [][]string{{"a", "b", "c"}, {"b", "a", "c"}, {"a", "c"}}},
		{"b", "d", [][]string{{"a", "b"}, {"a", "c", "b"}, {"a", "c", "b", "d"}}},
	} {
		for oi, order := range variant.orders {
			wd := filepath.Join(tmp, fmt.Sprintf("samename%d-%d", vi, oi))
			files := map[string]string{"go.mod": "module example.com/m\n\ngo 1.23.0\n"}
			for _, f := range []string{"a", "b", "c", "d"} {
				item := M{"type": "object", "properties": M{f: M{"type": "integer"}}}
				if f == variant.refFrom {
					item["properties"].(M)["next"] = M{"$ref": variant.refTo + ".json#/$defs/Item"}
				}
				files[f+".json"] = string(core.MustJSON(M{"$id": "urn:" + f, "type": "object", "properties": M{"item": M{"$ref": "#/$defs/Item"}}, "$defs": M{"Item": item}}))
			}
			for name, data := range files {
				fn := filepath.Join(wd, name)
				_ = os.MkdirAll(filepath.Dir(fn), 0o755)
				_ = os.WriteFile(fn, []byte(data), 0o644)
			}
			args := []string{"-p", "example.com/m/model", "-o", "model/model.go", "--tags", "json"}
			reached := map[string]bool{}
			for _, f := range order {
				args = append(args, f+".json")
				reached[f] = true
				if f == variant.refFrom {
					reached[variant.refTo] = true
				}
			}
			res := runCLI(bin, wd, "", args...)
			c.Programs++
			names := map[string]int{}
			for _, m := range itemRe.FindAllStringSubmatch(res.Files["model/model.go"], -1) {
				names[m[1]]++
			}
			bad := ""
			if res.Exit != 0 {
				bad = "the invocation fails: " + clip(res.Stderr, 200)
			} else {
				for n, k := range names {
					if k != 1 {
						bad = fmt.Sprintf("type %s is declared %d times", n, k)
					}
				}
				if bad == "" && len(names) != len(reached) {
					bad = fmt.Sprintf("%d files with an Item of their own are reached, %d Item types are declared (%v)", len(reached), len(names), names)
				}
				if bad == "" {
					cmd := exec.Command("go", "build", "./model/...")
					cmd.Dir = wd
					cmd.Env = core.GoEnv()
					if out, err := cmd.CombinedOutput(); err != nil {
						bad = "the generated package does not build: " + clip(string(out), 300)
					}
				}
			}
			c.Eval(fmt.Sprintf("same-named-across-files|%d|%v|ok=%v", vi, order, bad == ""))
			if bad != "" {
				*fails++
				if *fails <= 3 {
					c.Fail("oracle", fmt.Sprintf("files that each define $defs/Item (%s.json's refers to %s.json's), arguments %v: %s", variant.refFrom, variant.refTo, order, bad),
						M{"kind": "cli-multi", "files": files, "flags": args, "output": clip(res.Files["model/model.go"], 3000)}, false)
				}
			}
		}
	}
}

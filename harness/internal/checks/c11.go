package checks

import (
	"fmt"
	"strings"

	"verifharness/internal/core"
	"verifharness/internal/engine"
	"verifharness/internal/sgen"
)

type branchSpec struct {
	props    M
	required []string
	good     M // values satisfying the branch
	bad      M // same keys, one bound violated (no type error)
	// complementary overlap: every branch declares the string property "shared" with a DIFFERENT constraint
	// keyword; sharedBad violates this branch's constraint only ("abc" satisfies all of them)
	sharedBad any
}

func mkBranches(r *core.Rng, n int, overlap string) []branchSpec {
	overlapIdentical := overlap == "identical"
	var out []branchSpec
	for i := 0; i < n; i++ {
		a, b := fmt.Sprintf("a%d", i), fmt.Sprintf("b%d", i)
		lo := r.Range(1, 3)
		hi := lo + r.Range(2, 4)
		bs := branchSpec{
			props: M{
				a: M{"type": "integer", "minimum": lo, "maximum": hi},
				b: M{"type": "string", "minLength": 2},
			},
			good: M{a: lo + 1, b: "xyz"},
			bad:  M{a: hi + 1, b: "xyz"},
		}
		if r.P(0.7) {
			bs.required = append(bs.required, a)
		}
		if r.P(0.3) {
			bs.required = append(bs.required, b)
		}
		if overlapIdentical {
			// one property declared identically by every branch
			bs.props["shared"] = M{"type": "boolean"}
			bs.good["shared"] = true
			bs.bad["shared"] = true
		}
		if overlap == "complementary" {
			sh := M{"type": "string"}
			switch i {
			case 0:
				sh["minLength"] = 2
				bs.sharedBad = "a"
			case 1:
				sh["maxLength"] = 5
				bs.sharedBad = "abcdefgh"
			case 2:
				sh["pattern"] = "^a"
				bs.sharedBad = "bcd"
			}
			bs.props["shared"] = sh
			bs.good["shared"] = "abc"
			bs.bad["shared"] = "abc"
		}
		out = append(out, bs)
	}
	return out
}

func (b branchSpec) schema() M {
	s := M{"type": "object", "properties": b.props}
	if len(b.required) > 0 {
		s["required"] = toAnyS(b.required)
	}
	return s
}

func init() {
	register("C11", func(c *engine.Ctx) {
		c.Rule = "allOf / anyOf of 1..4 object branches, inline or given by $ref to object definitions, with disjoint property sets, one identically declared shared property, or one shared string property on which every branch puts a DIFFERENT constraint keyword (minLength / maxLength / pattern: the conjunction must hold), each branch with its own required list and bounds; for every subset S of the branches a document that satisfies exactly the branches in S (the others fail by one exceeded bound or one missing required key, never by a type error). Plus definitions shared by several compositions (3-4 definitions over a pool of identically declared keys with overlapping required lists in random order, used by $ref in 2-3 allOf compositions at property / array-item positions; every single deletion of a required key at every composed position). Verdict must equal the reference; the generated outer type must expose the union of the branches' properties. Distinct = distinct (kind, branch count, subset, verdicts)."
		c.Proofs([]string{"GJS.Props.C11"}, []string{
			"GJS.Props.C11.anyBranch_iff", "GJS.Props.C11.anyOf_validator_rejects_iff", "GJS.Props.C11.merge_required",
			"GJS.Props.C11.mergeEntry_keys", "GJS.Props.C11.mergeKvs_keys", "GJS.Props.C11.mergeKvs_disjoint_lookup",
			"GJS.Props.C11.KF_allOf_overlap_first_wins",
			"GJS.Props.C11.mergeKvs_disjoint", "GJS.Props.C11.validProps_append", "GJS.Props.C11.merge_plainObj", "GJS.Props.C11.merge_valid_conj",
			"GJS.Props.C11.fold_valid_conj", "GJS.Props.C11.allOf_is_conjunction",
			"GJS.Props.C11.mergeKvs_compat", "GJS.Props.C11.validProps_compat", "GJS.Props.C11.merge_valid_conj_compat", "GJS.Props.C11.fold_valid_conj_compat", "GJS.Props.C11.allOf_is_conjunction_overlap", "GJS.Props.C11.leaf_idem",
		})
		var pcs []*core.PCase
		type meta struct {
			kind   string
			n      int
			fields []string
		}
		var metas []meta
		reps := c.N(3, 25)
		for _, kind := range []string{"allOf", "anyOf"} {
			for n := 1; n <= 4; n++ {
				for _, viaRef := range []bool{false, true} {
					for _, shared := range []string{"none", "identical", "complementary"} {
						if shared == "complementary" && n < 2 {
							continue
						}
						for rep := 0; rep < reps; rep++ {
							bs := mkBranches(c.R, n, shared)
							var branches []any
							defs := M{}
							for i, b := range bs {
								if viaRef && (i%2 == 0 || n == 1) {
									dn := fmt.Sprintf("B%d", i)
									defs[dn] = b.schema()
									branches = append(branches, M{"$ref": "#/$defs/" + dn})
								} else {
									branches = append(branches, b.schema())
								}
							}
							comp := M{kind: branches}
							if rep%2 == 0 {
								comp["type"] = "object"
							}
							schema := M{"type": "object", "properties": M{"v": comp}, "required": []any{"v"}}
							if len(defs) > 0 {
								schema["$defs"] = defs
							}
							var docs []any
							for mask := 0; mask < 1<<n; mask++ {
								d := M{}
								for i, b := range bs {
									src := b.good
									if mask&(1<<i) == 0 {
										src = b.bad
										if len(b.required) > 0 && c.R.P(0.5) {
											// fail by a missing required key instead
											src = M{}
											for k, v := range b.good {
												if k != b.required[0] {
													src[k] = v
												}
											}
										}
									}
									for k, v := range src {
										d[k] = v
									}
								}
								if shared == "complementary" {
									// a failing branch may fail through the shared property instead: the value violates that
									// branch's keyword only
									for i, b := range bs {
										if mask&(1<<i) == 0 && b.sharedBad != nil && c.R.P(0.6) {
											d["shared"] = b.sharedBad
											for k, v := range b.good {
												if k != "shared" {
													d[k] = v
												}
											}
											break
										}
									}
								}
								docs = append(docs, M{"v": d})
							}
							var fields []string
							for _, b := range bs {
								fields = append(fields, core.SortedKeys(b.props)...)
							}
							pcs = append(pcs, baseCase("c11-"+kind, schema, docs, kind, fmt.Sprintf("n=%d", n), fmt.Sprintf("ref=%v", viaRef), "shared="+shared))
							metas = append(metas, meta{kind, n, fields})
						}
					}
				}
			}
		}
		// definitions shared by several compositions: 3-4 object definitions over a common pool of identically declared
		// keys, each with its own required list (overlapping with the others'), used by $ref in 2-3 allOf compositions
		// at different positions (property, array items); a full document and every single deletion of a required key
		// at every composed position.  A merge must not disturb the definitions it reads.
		nShared := len(pcs)
		pcs = append(pcs, sharedDefinitionCases(c, "c11-shared-definitions")...)
		// branches whose required members have names with characters that mean something to a format string or a tag
		pcs = append(pcs, requiredPunctuatedNames("c11-punctuated-names", true)...)
		// two nodes under one Go type name that differ only inside an allOf below them: each keeps its own conjunction
		for _, pc := range nearDupCases(c, "c11-near-duplicates") {
			if strings.Contains(pc.Labels[0], "allOf") {
				pcs = append(pcs, pc)
			}
		}
		res := runCases(c, pcs)
		fails := verdictOracle(c, res, "allOf/anyOf", nil)
		// the outer type exposes the union of the branches' properties
		for i, r := range res {
			if i >= nShared {
				break
			}
			if r.Real.Src == nil || r.CompileErr != "" {
				if r.Real.ErrKind != "" || r.CompileErr != "" {
					fails++
					if fails <= 3 {
						c.Fail("oracle", "a composition of object branches does not generate/compile: "+r.Real.ErrMsg+r.CompileErr, replayOf(r, -1, nil), false)
					}
				}
				continue
			}
			line := ""
			for _, l := range strings.Split(r.Real.Summary, " | ") {
				if strings.HasPrefix(l, "type RootV struct{") {
					line = l
				}
			}
			for _, f := range metas[i].fields {
				c.Eval("field|" + metas[i].kind + "|" + f)
				if !strings.Contains(line, `json:"`+f+`"`) && !strings.Contains(line, `json:"`+f+`,omitempty"`) {
					fails++
					if fails <= 3 {
						c.Fail("oracle", fmt.Sprintf("the generated type for %s lacks the branch property %q: %s", metas[i].kind, f, clip(line, 300)), replayOf(r, -1, nil), false)
					}
				}
			}
			if len(c.Samples) < 6 && len(r.DocJSON) > 1 {
				c.Sample(M{"schema": clip(string(r.SchemaJSON), 400), "doc": r.DocJSON[1]})
			}
		}
		breaks(c, res, nil, fails > 0)
		knownProgramFindings(c)
	})
}

// sharedDefinitionCases: definitions shared by several allOf compositions (see the rule text of C11).
func sharedDefinitionCases(c *engine.Ctx, stream string) []*core.PCase {
	var pcs []*core.PCase
	keyPool := []string{"id", "name", "tag", "size", "kind"}
	keySchema := M{"id": M{"type": "string"}, "name": M{"type": "string", "minLength": 1}, "tag": M{"type": "string"}, "size": M{"type": "integer", "minimum": 0}, "kind": M{"type": "boolean"}}
	keyVal := M{"id": "a1", "name": "Ann", "tag": "red", "size": 3, "kind": true}
	for rep := 0; rep < c.N(30, 300); rep++ {
		nd := c.R.Range(3, 4)
		defs := M{}
		var dnames []string
		reqOf := map[string][]string{}
		propsOf := map[string][]string{}
		for d := 0; d < nd; d++ {
			dn := fmt.Sprintf("D%d", d)
			ks := core.Sample(c.R, keyPool, c.R.Range(2, 3))
			props := M{}
			for _, k := range ks {
				props[k] = sgen.DeepCopy(keySchema[k])
			}
			req := core.Sample(c.R, ks, c.R.Range(1, len(ks)))
			core.Shuffle(c.R, req) // the order inside `required` matters to in-place list edits
			defs[dn] = M{"type": "object", "properties": props, "required": toAnyS(req)}
			dnames = append(dnames, dn)
			reqOf[dn], propsOf[dn] = req, ks
		}
		props := M{}
		type use struct {
			key   string
			items bool
			ds    []string
		}
		var uses []use
		for u := 0; u < c.R.Range(2, 3); u++ {
			ds := core.Sample(c.R, dnames, 2)
			core.Shuffle(c.R, ds)
			comp := M{"allOf": []any{M{"$ref": "#/$defs/" + ds[0]}, M{"$ref": "#/$defs/" + ds[1]}}}
			key := fmt.Sprintf("u%d", u)
			items := c.R.P(0.4)
			if items {
				props[key] = M{"type": "array", "items": comp}
			} else {
				props[key] = comp
			}
			uses = append(uses, use{key, items, ds})
		}
		schema := M{"type": "object", "properties": props, "$defs": defs}
		valOf := func(u use, drop string) any {
			o := M{}
			for _, d := range u.ds {
				for _, k := range propsOf[d] {
					if k != drop {
						o[k] = keyVal[k]
					}
				}
			}
			if u.items {
				return []any{o}
			}
			return o
		}
		full := M{}
		for _, u := range uses {
			full[u.key] = valOf(u, "")
		}
		docs := []any{full}
		for _, u := range uses {
			seen := map[string]bool{}
			for _, d := range u.ds {
				for _, k := range reqOf[d] {
					if seen[k] {
						continue
					}
					seen[k] = true
					dd := sgen.DeepCopy(full).(M)
					dd[u.key] = valOf(u, k)
					docs = append(docs, dd)
				}
			}
		}
		pcs = append(pcs, baseCase(stream, schema, docs, "allOf", fmt.Sprintf("defs=%d", nd), fmt.Sprintf("uses=%d", len(uses)), "shared=definitions"))
	}
	return pcs
}

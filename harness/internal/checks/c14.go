package checks

import (
	"encoding/json"
	"fmt"
	"go/token"
	"strings"
	"unicode"

	"github.com/atombender/go-jsonschema/pkg/generator"

	"verifharness/internal/core"
	"verifharness/internal/engine"
	"verifharness/internal/sgen"
)

func foldRep(r rune) rune {
	m := r
	for f := unicode.SimpleFold(r); f != r; f = unicode.SimpleFold(f) {
		if f < m {
			m = f
		}
	}
	return m
}

func rinfo(r rune) M {
	return M{"cp": int(r), "lo": unicode.IsLower(r), "up": unicode.IsUpper(r), "nu": unicode.IsNumber(r), "le": unicode.IsLetter(r), "di": unicode.IsDigit(r), "fo": int(foldRep(r))}
}

func runeJSON(r rune) M {
	m := rinfo(r)
	m["U"] = rinfo(unicode.ToUpper(r))
	return m
}

func identReq(id int, s string, caps []string) []byte {
	var runes []any
	for _, r := range s {
		runes = append(runes, runeJSON(r))
	}
	var cj []any
	for _, c := range caps {
		var cr []any
		for _, r := range c {
			cr = append(cr, rinfo(r))
		}
		cj = append(cj, cr)
	}
	return core.MustJSON(M{"op": "ident", "id": id, "runes": runes, "caps": cj})
}

// class representatives: lower with upper image, lower without, upper, caseless letter, decimal digit,
// other numeral, delimiters
var classReps = map[string][]rune{
	"lowerU":   {'a', 'z', 'é', 'я', 'ω'},
	"lowerNoU": {'ß', 'ŉ', 'ĸ'},
	"upper":    {'B', 'Z', 'É', 'Я', 'Ω'},
	"caseless": {'日', 'א', 'ª', 'ǅ'},
	"digit":    {'7', '0', '٣'},
	"numeral":  {'²', 'Ⅷ', '½'},
	"delim":    {'-', '_', ' ', '.', '$', '*', '/'},
}
var classOrder = []string{"lowerU", "lowerNoU", "upper", "caseless", "digit", "numeral", "delim"}

func validExportedGo(s string) bool {
	if !token.IsIdentifier(s) {
		return false
	}
	for _, r := range s {
		return unicode.IsUpper(r)
	}
	return false
}

func init() {
	register("C14", func(c *engine.Ctx) {
		c.Rule = "function level: Identifierize (real, through the verif export shim) vs the model on every sequence of rune classes {lower with upper image, lower without, upper, caseless letter, decimal digit, other numeral, delimiter} up to length 5 (6 in thorough) realised with representative runes, with and without capitalizations chosen to equal a part, plus random Unicode strings; judged: inside the hypotheses of the theorem ident_valid (every rune satisfies TableOK: cased ⇒ letter, numeral ⇒ decimal digit, the upper image of a letter/digit is a letter/digit and not lower-case-only) the result is a valid exported Go identifier. TableOK is evaluated for all 1,114,112 code points (exceptions counted) and for every admitted code point the real function is run on three names containing it. Program level: sibling names that collide after normalisation (2..6 per set) and type-name collisions (up to 4 flat; three colliding definitions where one is first reached through a $ref inside another that is still being generated, all ordered pairs and chains) must give distinct field / type names, tags with the exact names, and a decode that binds every key to its own field; key fidelity: every punctuation character encoding/json admits in a tag name (28) inside / before / after letters, and names that look like format verbs, template actions or escapes (%s, 100%, %%, {{.}}, $1), required and optional, must round-trip. Distinct = distinct (class sequence, capitalization kind) / collision sets."
		c.Proofs([]string{"GJS.Props.C14"}, []string{
			"GJS.Props.C14.splitIdent_spec", "GJS.Props.C14.ident_valid", "GJS.Props.C14.ident_valid_caps", "GJS.Props.C14.field_names_distinct", "GJS.Props.C14.sfx_inj", "GJS.Props.C14.KF_user_identifier_collides", "GJS.Props.C14.never_empty", "GJS.Props.C14.leading_repair", "GJS.Props.C14.leading_kept",
			"GJS.Props.C14.capitalize_plain", "GJS.Props.C14.tag_is_raw_name", "GJS.Props.C14.probeName_fresh", "GJS.Props.C14.KF_no_upper_image",
		})
		fails := 0
		// ---- table hypotheses over all code points ----
		noUpper, otherNum, lowerNotLetter, upNotLetter := 0, 0, 0, 0
		for r := rune(0); r <= unicode.MaxRune; r++ {
			if unicode.IsLower(r) && !unicode.IsUpper(unicode.ToUpper(r)) {
				noUpper++
			}
			if unicode.IsNumber(r) && !unicode.IsDigit(r) {
				otherNum++
			}
			if (unicode.IsLower(r) || unicode.IsUpper(r)) && !unicode.IsLetter(r) {
				lowerNotLetter++
			}
			if unicode.IsLetter(r) && !unicode.IsLetter(unicode.ToUpper(r)) {
				upNotLetter++
			}
		}
		// the theorem's per-rune hypothesis over ALL code points: how many runes it excludes, and — for every rune it
		// admits — the real Identifierize on the one-rune name and on the rune after a letter and after a separator
		excluded, admitted := 0, 0
		for r := rune(0); r <= unicode.MaxRune; r++ {
			if r >= 0xD800 && r <= 0xDFFF {
				continue // surrogates are not encodable in a Go string
			}
			if !tableOK(r) {
				excluded++
				continue
			}
			admitted++
			for _, name := range []string{string(r), "x" + string(r), "_" + string(r) + "y"} {
				if name == "*" {
					continue
				}
				if got := generator.VerifIdentifierize(nil, nil, name); !validExportedGo(got) {
					fails++
					if fails <= 3 {
						c.Fail("oracle", fmt.Sprintf("Identifierize(%q) = %q is not a valid exported Go identifier although U+%04X satisfies the table hypotheses of ident_valid", name, got, r),
							M{"kind": "function", "function": "Identifierize", "input": name, "real": got}, false)
					}
				}
			}
		}
		c.Count("unicode-tables", fmt.Sprintf("runes-admitted-by-TableOK=%d", admitted))
		c.Count("unicode-tables", fmt.Sprintf("runes-excluded-by-TableOK=%d", excluded))
		c.Evaluations += 3 * admitted
		c.Exhaustive = append(c.Exhaustive, "Unicode table hypotheses over all 1114112 code points", "real Identifierize on 3 names per code point admitted by TableOK (all code points)")
		c.Count("unicode-tables", fmt.Sprintf("lower-without-upper-image=%d", noUpper))
		c.Count("unicode-tables", fmt.Sprintf("numerals-not-decimal-digits=%d", otherNum))
		if lowerNotLetter != 0 || upNotLetter != 0 {
			c.Fail("oracle", fmt.Sprintf("Unicode table hypothesis broken: cased-but-not-letter=%d, letter-whose-upper-image-is-not-a-letter=%d", lowerNotLetter, upNotLetter), M{"kind": "tables"}, false)
		}
		// ---- Identifierize on class sequences ----
		type icase struct {
			s    string
			caps []string
			key  string
		}
		var cases []icase
		maxLen := c.N(5, 6)
		var build func(prefix []string)
		build = func(prefix []string) {
			if len(prefix) > 0 {
				var b strings.Builder
				for i, cl := range prefix {
					reps := classReps[cl]
					b.WriteRune(reps[(i+len(prefix))%len(reps)])
				}
				s := b.String()
				key := strings.Join(prefix, ",")
				cases = append(cases, icase{s, nil, key})
				if len(prefix) <= 4 {
					// a capitalization equal (up to case) to the whole string and to its first two runes
					rs := []rune(s)
					cases = append(cases, icase{s, []string{strings.ToUpper(s)}, key + "|cap-whole"})
					if len(rs) >= 2 {
						cases = append(cases, icase{s, []string{strings.ToUpper(string(rs[:2])), "ID"}, key + "|cap-part"})
					}
				}
			}
			if len(prefix) == maxLen {
				return
			}
			for _, cl := range classOrder {
				build(append(append([]string(nil), prefix...), cl))
			}
		}
		build(nil)
		// specials and random strings
		for _, s := range []string{"", "*", "**", "_", "a", "A", "id", "ID", "userId", "user_id", "HTTPServer", "x1Id", "x1id", "fooBar", "foo-bar baz", "ßeta", "a²", "日本", "9lives", "$ref", "@type", "a.b.c", "ǅ", "ﬁn"} {
			cases = append(cases, icase{s, nil, "special:" + s}, icase{s, []string{"ID", "HTTP", "Url"}, "special-caps:" + s})
		}
		pool := []rune{}
		for _, cl := range classOrder {
			pool = append(pool, classReps[cl]...)
		}
		for i := 0; i < c.N(3000, 60000); i++ {
			n := c.R.Range(1, 10)
			var b strings.Builder
			for k := 0; k < n; k++ {
				if c.R.P(0.2) {
					b.WriteRune(rune(c.R.Intn(0x3000)))
				} else {
					b.WriteRune(core.Pick(c.R, pool))
				}
			}
			s := b.String()
			if !strings.ContainsRune(s, unicode.ReplacementChar) && strings.ToValidUTF8(s, "") == s {
				cases = append(cases, icase{s, nil, ""})
			}
		}
		var reqs [][]byte
		var ids []string
		for i, ic := range cases {
			reqs = append(reqs, identReq(i, ic.s, ic.caps))
			ids = append(ids, fmt.Sprint(i))
		}
		ans, err := core.RunLean(reqs, ids)
		if err != nil {
			c.Fail("correspondence", "lean driver failed: "+err.Error(), M{"broken": "driver"}, true)
			return
		}
		dis := 0
		for i, ic := range cases {
			real := generator.VerifIdentifierize(ic.caps, nil, ic.s)
			var cps []string
			for _, r := range real {
				cps = append(cps, fmt.Sprint(int(r)))
			}
			realStr := strings.Join(cps, " ")
			model, modelValid := "", ""
			if l := ans[fmt.Sprint(i)].First("IDENT"); l != nil && len(l) > 2 {
				model, modelValid = l[1], l[2]
			}
			c.Eval("ident|" + ic.key)
			if ic.key != "" {
				c.Count("ident-streams", strings.SplitN(ic.key, ":", 2)[0][:min(7, len(strings.SplitN(ic.key, ":", 2)[0]))])
			}
			if realStr != model {
				dis++
				if dis <= 3 {
					c.Fail("correspondence", fmt.Sprintf("Identifierize(%q, caps=%v): real=%q model code points=%s", ic.s, ic.caps, real, model),
						M{"kind": "function", "function": "Identifierize", "input": ic.s, "caps": ic.caps, "real": real, "broken": "function-level correspondence Identifierize"}, fails == 0)
				}
				continue
			}
			goValid := validExportedGo(real)
			if fmt.Sprint(goValid) != modelValid && len(ic.caps) == 0 {
				dis++
				if dis <= 3 {
					c.Fail("correspondence", fmt.Sprintf("validity of %q: go/token says %v, model says %s", real, goValid, modelValid), M{"kind": "function", "input": ic.s, "broken": "validExported"}, true)
				}
			}
			// the property, inside its hypotheses
			if len(ic.caps) == 0 && inIdentHypotheses(ic.s) && !goValid {
				fails++
				if fails <= 3 {
					c.Fail("oracle", fmt.Sprintf("Identifierize(%q) = %q is not a valid exported Go identifier", ic.s, real), M{"kind": "function", "function": "Identifierize", "input": ic.s, "real": real}, false)
				}
			}
		}
		c.Exhaustive = append(c.Exhaustive, fmt.Sprintf("rune-class sequences up to length %d (7 classes)", maxLen))
		c.Sample(M{"function": "Identifierize", "input": "x1Id", "caps": []string{"ID"}})
		// file names
		for _, fn := range []string{"foo.json", "dir/sub/my-schema.schema.json", "a.b.yaml", "noext", ".hidden.json", "dir.d/x.json", "UPPER.JSON", "weird name.json"} {
			for _, exts := range [][]string{nil, {".json"}, {".yaml", ".json"}, {"json"}, {".schema.json", ".json"}} {
				real := generator.VerifIdentifierFromFileName(nil, exts, fn)
				base := fn[strings.LastIndex(fn, "/")+1:]
				for _, e := range exts {
					if t := strings.TrimSuffix(base, e); t != base {
						base = t
						break
					}
				}
				want := generator.VerifIdentifierize(nil, nil, base)
				c.Eval("filename|" + fn + fmt.Sprint(exts))
				if real != want {
					fails++
					c.Fail("oracle", fmt.Sprintf("IdentifierFromFileName(%q, %v) = %q, expected %q", fn, exts, real, want), M{"kind": "function", "input": fn, "exts": exts}, false)
				}
			}
		}
		// ---- program level: colliding siblings, binding ----
		collisionSets := [][]string{
			{"foo_bar", "fooBar"}, {"foo_bar", "fooBar", "foo-bar"}, {"foo_bar", "fooBar", "foo-bar", "FooBar", "foo bar", "foo.bar"},
			{"a", "A"}, {"id", "Id", "ID", "iD"}, {"x1", "x_1", "X1"}, {"*", "wildcard"}, {"_", "$", "undefined"}, {"blank", "Blank", "BLANK"},
			{"1a", "a1a", "A1a"}, {"日本", "a日本"},
		}
		var pcs []*core.PCase
		for _, set := range collisionSets {
			for _, caps := range [][]string{nil, {"ID"}} {
				props := M{}
				doc := M{}
				for i, name := range set {
					props[name] = M{"type": "integer"}
					doc[name] = 100 + i
				}
				schema := M{"type": "object", "properties": props, "required": toAnyS(set)}
				pc := baseCase("c14-collisions", schema, []any{doc}, fmt.Sprintf("n=%d", len(set)))
				pc.Cfg.Caps = caps
				pcs = append(pcs, pc)
			}
		}
		// type-name collisions: nested objects whose scope names coincide
		for n := 2; n <= 4; n++ {
			props := M{}
			doc := M{}
			names := []string{"aB", "a_b", "AB", "a b"}[:n]
			for i, nm := range names {
				props[nm] = M{"type": "object", "properties": M{fmt.Sprintf("k%d", i): M{"type": "integer"}}, "required": []any{fmt.Sprintf("k%d", i)}}
				doc[nm] = M{fmt.Sprintf("k%d", i): i + 1}
			}
			pcs = append(pcs, baseCase("c14-type-collisions", M{"type": "object", "properties": props}, []any{doc}, fmt.Sprintf("n=%d", n)))
		}
		// a field name given by the schema extension (goJSONSchema.identifier) that equals the DERIVED name of a sibling,
		// the sibling sorting before or after it, one or two such members: the struct's field names stay distinct and
		// every key stays bound to its own field
		for ui, us := range []struct{ plain, ext []string }{
			{[]string{"alpha", "beta"}, []string{"zeta=Alpha"}}, {[]string{"zeta", "beta"}, []string{"alpha=Zeta"}},
			{[]string{"alpha"}, []string{"mid=Alpha", "zeta=Alpha"}}, {[]string{"a-b", "a_b"}, []string{"zz=AB"}}, {[]string{"name"}, []string{"other=Name", "aaa=Name"}},
		} {
			props, doc := M{}, M{}
			for i, nm := range us.plain {
				props[nm] = M{"type": "integer"}
				doc[nm] = i + 1
			}
			for i, e := range us.ext {
				kv := strings.SplitN(e, "=", 2)
				props[kv[0]] = M{"type": "integer", "goJSONSchema": M{"identifier": kv[1]}}
				doc[kv[0]] = 10 + i
			}
			pcs = append(pcs, baseCase("c14-type-collisions", M{"type": "object", "properties": props}, []any{doc}, fmt.Sprintf("user-identifier-equals-derived #%d", ui)))
		}
		// TITLES on nested object members that normalise to the name of an enclosing type (root, parent, grandparent), with
		// and without --struct-name-from-title: every object keeps a type of its own
		for ti, titles := range [][]string{{"root", "Root org", "root_org_unit"}, {"Root", "root", "ROOT"}, {"root org", "root", "Root"}, {"org", "unit", "leaf"}} {
			for _, fromTitle := range []bool{true, false} {
				leaf := M{"type": "object", "title": titles[2], "properties": M{"k": M{"type": "integer"}}, "required": []any{"k"}}
				unit := M{"type": "object", "title": titles[1], "properties": M{"unit": leaf, "n": M{"type": "string"}}}
				schema := M{"type": "object", "title": "Root", "properties": M{"org": unit, "spouse": M{"type": "object", "title": titles[0], "properties": M{"since": M{"type": "string"}}}}}
				doc := M{"org": M{"unit": M{"k": 7}, "n": "x"}, "spouse": M{"since": "y"}}
				pc := baseCase("c14-type-collisions", schema, []any{doc}, fmt.Sprintf("nested-titles #%d from-title=%v", ti, fromTitle))
				pc.Cfg.StructNameFromTitle = fromTitle
				if ti%2 == 1 {
					pc.Cfg.RootType = "" // the root is then named from its own title
				}
				pcs = append(pcs, pc)
			}
		}
		// three definitions whose names collide after normalisation, one of them reached FIRST through a $ref inside
		// another that is still being generated (every ordered pair i -> j), plus a chain i -> j -> k
		pcs = append(pcs, collisionThroughRefsCases("c14-type-collisions-through-refs")...)
		// key fidelity: every character encoding/json admits in a tag name, inside / before / after letters, and
		// names that look like format verbs, template actions or escapes: the tag must carry the exact key
		const tagPunct = "!#$%&()*+-./:;<=>?@[]^_{|}~ "
		var fidelity [][]string
		for _, ch := range tagPunct {
			fidelity = append(fidelity, []string{"a" + string(ch) + "b", string(ch) + "x", "y" + string(ch)})
		}
		fidelity = append(fidelity, []string{"%s", "%d", "100%", "a%sb"}, []string{"%%", "%v%v", "%!", "%[1]s"}, []string{"{{.}}", "$1", "${x}", "#{y}"},
			[]string{"rate%", "discount%", "amount"}, []string{"a%", "a%%", "a%%%"})
		for _, set := range fidelity {
			props := M{}
			doc := M{}
			for i, name := range set {
				props[name] = M{"type": "integer"}
				doc[name] = 200 + i
			}
			for _, req := range []bool{true, false} {
				schema := M{"type": "object", "properties": props}
				if req {
					schema["required"] = toAnyS(set)
				}
				pcs = append(pcs, baseCase("c14-key-fidelity", schema, []any{doc}, strings.Join(set, " "), fmt.Sprint(req)))
			}
		}
		// a declared type whose name is one the emitted method bodies use (Plain, the shadow type; also Raw, Value, Err)
		// next to an object that has declared properties AND collects additional ones: the undeclared keys — among them
		// keys named like the OTHER type's fields — must land in the map, the declared ones in their fields
		for _, tn := range []string{"plain", "Plain", "raw", "value", "err", "plain_0"} {
			for _, addl := range []any{M{"type": "string"}, true} {
				for _, other := range []string{"struct", "enum"} {
					od := M{"type": "object", "properties": M{"text": M{"type": "string"}, "name": M{"type": "string"}}}
					bodyDoc := any(M{"text": "hello"})
					if other == "enum" {
						od = M{"type": "string", "enum": []any{"a", "b"}}
						bodyDoc = "a"
					}
					schema := M{"type": "object",
						"properties": M{"body": M{"$ref": "#/$defs/" + tn}, "labels": M{"$ref": "#/$defs/labels"}},
						"$defs":      M{tn: od, "labels": M{"type": "object", "properties": M{"name": M{"type": "string"}, "owner": M{"type": "string"}}, "required": []any{"name"}, "additionalProperties": addl}}}
					docs := []any{
						M{"body": bodyDoc, "labels": M{"name": "N", "owner": "O", "team": "T", "text": "X"}},
						M{"labels": M{"name": "N", "text": "X"}},
						M{"labels": M{"name": "N"}},
					}
					pcs = append(pcs, baseCase("c14-template-names", schema, docs, tn, other, fmt.Sprint(addl)))
				}
			}
		}
		res := runCases(c, pcs)
		for _, r := range res {
			if r.Case.Stream == "c14-template-names" {
				// judged through the correspondence below (the model collects exactly the undeclared keys); must compile
				if r.RunsJ == nil && !r.Unsupported && len(r.ModelIssues) == 0 {
					fails++
					if fails <= 3 {
						c.Fail("oracle", "a type named like a template identifier: the program does not generate/compile: "+r.Real.ErrMsg+r.CompileErr+r.Real.ParseErr, replayOf(r, -1, nil), false)
					}
				}
				c.Eval("template-names|" + strings.Join(r.Case.Labels, ","))
				if r.RunsJ != nil && strings.HasPrefix(r.Case.Labels[2], "map[") {
					// typed additionalProperties: exactly the undeclared keys of `labels` are collected
					for d, want := range [][]string{{"team", "text"}, {"text"}, {}} {
						if d >= len(r.RunsJ) || r.RunsJ[d].Kind != "ok" {
							continue
						}
						var got struct {
							Labels struct {
								AdditionalProperties map[string]any
							} `json:"labels"`
						}
						_ = json.Unmarshal([]byte(r.RunsJ[d].Canon), &got)
						keys := core.SortedKeys(got.Labels.AdditionalProperties)
						if strings.Join(keys, ",") != strings.Join(want, ",") {
							fails++
							if fails <= 3 {
								c.Fail("oracle", fmt.Sprintf("next to a type named %q the additional-properties map of another object holds the keys %v, not the undeclared keys %v", r.Case.Labels[0], keys, want), replayOf(r, d, nil), false)
							}
						}
					}
				}
				continue
			}
			if r.Unsupported {
				c.Count("c14", "outside-model-scope (unsupported property name)")
				continue
			}
			if r.RunsJ == nil && r.CompileErr != "" && containsStr(r.ModelIssues, "redeclared-type") && knownListed(c, "K30-in-progress-name-reused") {
				// the model predicts the redeclaration (a definition in progress reaches a colliding one): listed finding K30
				c.Count("c14", "K30 region (model predicts the redeclaration)")
				continue
			}
			if r.RunsJ == nil {
				fails++
				if fails <= 3 {
					c.Fail("oracle", "colliding names: the program does not generate/compile: "+r.Real.ErrMsg+r.CompileErr+r.Real.ParseErr, replayOf(r, -1, nil), false)
				}
				continue
			}
			c.Eval("collision|" + r.Case.Stream + "|" + strings.Join(r.Case.Labels, ","))
			// every key bound to its own field: decode + marshal reproduces the document
			doc := core.CanonValue(r.Case.Docs[0])
			if r.RunsJ[0].Kind != "ok" || core.Canon(doc) != r.RunsJ[0].Canon {
				fails++
				if fails <= 3 {
					c.Fail("oracle", "a document with a distinct value per colliding key does not round-trip: "+r.RunsJ[0].Kind+" "+clip(r.RunsJ[0].Canon+r.RunsJ[0].Msg, 200), replayOf(r, 0, nil), false)
				}
			}
			if len(c.Samples) < 5 {
				c.Sample(M{"schema": clip(string(r.SchemaJSON), 300), "doc": r.DocJSON[0]})
			}
		}
		breaks(c, res, nil, fails > 0)
		knownProgramFindings(c)
	})
}

// tableOK mirrors the Lean structure GJS.Props.C14.TableOK (the hypotheses of ident_valid / ident_valid_caps)
// on Go's unicode tables.
func tableOK(r rune) bool {
	u := unicode.ToUpper(r)
	if (unicode.IsLower(r) || unicode.IsUpper(r)) && !unicode.IsLetter(r) {
		return false // cased_letter
	}
	if unicode.IsNumber(r) && !unicode.IsDigit(r) {
		return false // number_digit
	}
	delim := !unicode.IsLower(r) && !unicode.IsUpper(r) && !unicode.IsNumber(r) && !unicode.IsLetter(r)
	if !delim && !(unicode.IsLetter(u) || unicode.IsDigit(u)) {
		return false // up_ident
	}
	if unicode.IsLower(u) && !unicode.IsUpper(u) {
		return false // up_not_lower_only
	}
	return true
}

// inIdentHypotheses: every rune of the name satisfies the table hypotheses of the theorem.
func inIdentHypotheses(s string) bool {
	for _, r := range s {
		if !tableOK(r) {
			return false
		}
	}
	return true
}

func containsStr(xs []string, x string) bool {
	for _, y := range xs {
		if y == x {
			return true
		}
	}
	return false
}

func knownListed(c *engine.Ctx, id string) bool {
	for _, k := range c.KnownFor() {
		if k.ID == id {
			return true
		}
	}
	return false
}

// collisionThroughRefsCases: three definitions whose names collide after normalisation, one of them reached first
// through a $ref inside another that is still being generated (every ordered pair, and chains).
func collisionThroughRefsCases(stream string) []*core.PCase {
	var pcs []*core.PCase
	collNames := []string{"ShippingAddress", "shippingAddress", "shipping_address"}
	type edge struct{ from, to int }
	var edgeSets [][]edge
	for i := 0; i < 3; i++ {
		for j := 0; j < 3; j++ {
			if i != j {
				edgeSets = append(edgeSets, []edge{{i, j}})
			}
		}
	}
	edgeSets = append(edgeSets, []edge{{0, 1}, {1, 2}}, []edge{{1, 2}, {2, 0}}, []edge{{0, 2}, {0, 1}}, []edge{{1, 0}, {1, 2}})
	for _, es := range edgeSets {
		defs := M{}
		for i, nm := range collNames {
			defs[nm] = M{"type": "object", "properties": M{fmt.Sprintf("own%d", i): M{"type": "integer"}}, "required": []any{fmt.Sprintf("own%d", i)}}
		}
		val := func(i int) M { return M{fmt.Sprintf("own%d", i): 10 + i} }
		vals := []M{val(0), val(1), val(2)}
		// innermost first, so that a referrer embeds the final value of its target
		for k := len(es) - 1; k >= 0; k-- {
			e := es[k]
			key := fmt.Sprintf("r%d", e.to)
			defs[collNames[e.from]].(M)["properties"].(M)[key] = M{"$ref": "#/$defs/" + collNames[e.to]}
			vals[e.from][key] = sgen.DeepCopy(vals[e.to])
		}
		schema := M{"type": "object", "properties": M{"p0": M{"$ref": "#/$defs/" + collNames[0]}, "p1": M{"$ref": "#/$defs/" + collNames[1]}, "p2": M{"$ref": "#/$defs/" + collNames[2]}}, "$defs": defs}
		doc := M{"p0": vals[0], "p1": vals[1], "p2": vals[2]}
		pcs = append(pcs, baseCase(stream, schema, []any{doc}, fmt.Sprint(es)))
	}
	// three names that normalise to one identifier where one of the definitions is ONLY a $ref to another (it is not
	// declared under a name of its own: its provisional reservation is given back), in every generation order
	for _, names := range [][]string{{"Thing", "_thing", "thing"}, {"Thing", "thing", "_thing"}, {"_thing", "Thing", "thing"}, {"thing", "Thing_", "_Thing"}, {"a-b", "a_b", "a b"}, {"a b", "a-b", "a_b"}} {
		for refOnly := 0; refOnly < 3; refOnly++ {
			for target := 0; target < 3; target++ {
				if target == refOnly {
					continue
				}
				defs := M{}
				props, doc := M{}, M{}
				for i, nm := range names {
					if i == refOnly {
						defs[nm] = M{"$ref": "#/$defs/" + names[target]}
						continue
					}
					own := fmt.Sprintf("own%d", i)
					defs[nm] = M{"type": "object", "properties": M{own: M{"type": "integer"}}, "required": []any{own}}
					props[fmt.Sprintf("p%d", i)] = M{"$ref": "#/$defs/" + nm}
					doc[fmt.Sprintf("p%d", i)] = M{own: 10 + i}
				}
				schema := M{"type": "object", "properties": props, "$defs": defs}
				pcs = append(pcs, baseCase(stream, schema, []any{doc}, "ref-only", strings.Join(names, " "), fmt.Sprintf("%d->%d", refOnly, target)))
			}
		}
	}
	// the colliding definitions used as allOf / anyOf branches (whatever is kept per reference must be kept per
	// DEFINITION, not per normalised name), every subset of two or three of them, in both orders of use
	for _, kw := range []string{"allOf", "anyOf"} {
		for _, use := range [][]int{{0, 1}, {1, 0}, {0, 2}, {2, 0}, {1, 2}, {2, 1}, {0, 1, 2}, {2, 1, 0}} {
			defs := M{}
			for i, nm := range collNames {
				defs[nm] = M{"type": "object", "properties": M{fmt.Sprintf("own%d", i): M{"type": "integer"}}, "required": []any{fmt.Sprintf("own%d", i)}}
			}
			props, doc := M{}, M{}
			for k, i := range use {
				// property names in the order of use (properties are visited in sorted order)
				name := fmt.Sprintf("u%d", k)
				extra := fmt.Sprintf("extra%d", k)
				props[name] = M{kw: []any{M{"$ref": "#/$defs/" + collNames[i]}, M{"type": "object", "properties": M{extra: M{"type": "boolean"}}, "required": []any{extra}}}}
				doc[name] = M{fmt.Sprintf("own%d", i): 10 + i, extra: true}
			}
			schema := M{"type": "object", "properties": props, "$defs": defs}
			pcs = append(pcs, baseCase(stream, schema, []any{doc}, kw, fmt.Sprint(use)))
		}
	}
	return pcs
}
